import RisorModel.C15.Lemmas
import RisorModel.C15.LemmasW
set_option linter.unusedSimpArgs false
set_option linter.unnecessarySimpa false
/-! Lemmas for C15 about containers with a HISTORY (`setStep`/`setRun`, `mapStep`/`mapRun`):
the orders of `Set.SortedItems` (`hkLess`) and of `Map.SortedKeys` (`keyLt`) are strict total
orders, so that inserting into / deleting from a canonical (strictly sorted) list keeps it
canonical — every set and map reachable by any history is well-formed (`wf`), and membership
after a history is decided by the last operation that mentions the key. -/
namespace Risor.C15

/-! ### strict total orders and lexicographic products -/

structure StrictTotal {κ : Type} (r : κ → κ → Prop) : Prop where
  irrefl : ∀ a, ¬ r a a
  trans : ∀ a b c, r a b → r b c → r a c
  tri : ∀ a b, r a b ∨ a = b ∨ r b a

def Lex {α β : Type} (r : α → α → Prop) (s : β → β → Prop) (p q : α × β) : Prop :=
  r p.1 q.1 ∨ (p.1 = q.1 ∧ s p.2 q.2)

theorem Lex.strictTotal {α β : Type} {r : α → α → Prop} {s : β → β → Prop}
    (hr : StrictTotal r) (hs : StrictTotal s) : StrictTotal (Lex r s) where
  irrefl := by
    rintro ⟨a, b⟩ (h | ⟨_, h⟩)
    · exact hr.irrefl a h
    · exact hs.irrefl b h
  trans := by
    rintro ⟨a1, b1⟩ ⟨a2, b2⟩ ⟨a3, b3⟩ h1 h2
    simp only [Lex] at *
    rcases h1 with h1 | ⟨e1, h1⟩ <;> rcases h2 with h2 | ⟨e2, h2⟩
    · exact Or.inl (hr.trans _ _ _ h1 h2)
    · subst e2; exact Or.inl h1
    · subst e1; exact Or.inl h2
    · subst e1; subst e2; exact Or.inr ⟨rfl, hs.trans _ _ _ h1 h2⟩
  tri := by
    rintro ⟨a1, b1⟩ ⟨a2, b2⟩
    simp only [Lex]
    rcases hr.tri a1 a2 with h | h | h
    · exact Or.inl (Or.inl h)
    · subst h
      rcases hs.tri b1 b2 with g | g | g
      · exact Or.inl (Or.inr ⟨rfl, g⟩)
      · subst g; exact Or.inr (Or.inl rfl)
      · exact Or.inr (Or.inr (Or.inr ⟨rfl, g⟩))
    · exact Or.inr (Or.inr (Or.inl h))

/-- a strict total order pulled back along an injective map -/
theorem StrictTotal.pullback {κ τ : Type} {r : τ → τ → Prop} (hr : StrictTotal r) (f : κ → τ)
    (hf : ∀ a b, f a = f b → a = b) : StrictTotal (fun a b => r (f a) (f b)) where
  irrefl := fun a => hr.irrefl (f a)
  trans := fun a b c => hr.trans (f a) (f b) (f c)
  tri := fun a b => by
    rcases hr.tri (f a) (f b) with h | h | h
    · exact Or.inl h
    · exact Or.inr (Or.inl (hf a b h))
    · exact Or.inr (Or.inr h)

theorem natLt_strictTotal : StrictTotal (fun a b : Nat => a < b) where
  irrefl := fun a => Nat.lt_irrefl a
  trans := fun _ _ _ => Nat.lt_trans
  tri := fun a b => by omega

theorem intLt_strictTotal : StrictTotal (fun a b : Int => a < b) where
  irrefl := fun a => Int.lt_irrefl a
  trans := fun _ _ _ => Int.lt_trans
  tri := fun a b => by omega

theorem bytesLt_strictTotal : StrictTotal (fun a b : List Nat => cmpBytes a b = -1) where
  irrefl := fun a h => by rw [cmpBytes_self] at h; omega
  trans := fun _ _ _ => cmpBytes_lt_trans
  tri := fun a b => by
    rcases cmpBytes_range a b with h | h | h
    · exact Or.inl h
    · exact Or.inr (Or.inl (cmpBytes_eq_zero.1 h))
    · refine Or.inr (Or.inr ?_)
      rw [cmpBytes_antisymm a b, h]

theorem fLt_strictTotal : StrictTotal (fun a b : F => cmpF a b = -1) where
  irrefl := fun a h => by rw [cmpF_self] at h; omega
  trans := fun _ _ _ => cmpF_lt_trans
  tri := fun a b => by
    rcases cmpF_range a b with h | h | h
    · exact Or.inl h
    · exact Or.inr (Or.inl (cmpF_eq_zero.1 h))
    · refine Or.inr (Or.inr ?_)
      rw [cmpF_antisymm a b, h]

/-! ### `hkLess` (order of `Set.SortedItems`) and `keyLt` (order of `Map.SortedKeys`) -/

def hkTuple (k : HashKey) : Nat × Int × List Nat × F := (tyRank k.ty, k.int, k.str, k.flt)

theorem tyRank_inj (a b : Ty) (h : tyRank a = tyRank b) : a = b := by
  cases a <;> cases b <;> simp [tyRank] at h <;> rfl

theorem hkTuple_inj (a b : HashKey) (h : hkTuple a = hkTuple b) : a = b := by
  cases a; cases b
  simp only [hkTuple, Prod.mk.injEq] at h
  obtain ⟨h1, h2, h3, h4⟩ := h
  simp only [HashKey.mk.injEq]
  exact ⟨tyRank_inj _ _ h1, h4, h2, h3⟩

theorem hkLess_iff (a b : HashKey) : hkLess a b = true ↔
    Lex (fun x y : Nat => x < y) (Lex (fun x y : Int => x < y)
      (Lex (fun x y : List Nat => cmpBytes x y = -1) (fun x y : F => cmpF x y = -1)))
      (hkTuple a) (hkTuple b) := by
  unfold hkLess Lex hkTuple
  simp only
  by_cases h1 : a.ty = b.ty
  · by_cases h2 : a.int = b.int
    · by_cases h3 : a.str = b.str
      · by_cases h4 : a.flt = b.flt
        · simp [h1, h2, h3, h4, cmpBytes_self, cmpF_self]
        · simp [h1, h2, h3, h4, cmpBytes_self]
      · have : cmpBytes a.str b.str ≠ 0 := fun e => h3 (cmpBytes_eq_zero.1 e)
        simp [h1, h2, h3]
    · simp [h1, h2]
  · have : tyRank a.ty ≠ tyRank b.ty := fun e => h1 (tyRank_inj _ _ e)
    simp [h1, this]

theorem hkLess_strictTotal : StrictTotal (fun a b : HashKey => hkLess a b = true) := by
  have h := (Lex.strictTotal natLt_strictTotal (Lex.strictTotal intLt_strictTotal
    (Lex.strictTotal bytesLt_strictTotal fLt_strictTotal))).pullback hkTuple hkTuple_inj
  refine ⟨?_, ?_, ?_⟩
  · intro a ha; exact h.irrefl a ((hkLess_iff a a).1 ha)
  · intro a b c h1 h2
    exact (hkLess_iff a c).2 (h.trans a b c ((hkLess_iff a b).1 h1) ((hkLess_iff b c).1 h2))
  · intro a b
    rcases h.tri a b with g | g | g
    · exact Or.inl ((hkLess_iff a b).2 g)
    · exact Or.inr (Or.inl g)
    · exact Or.inr (Or.inr ((hkLess_iff b a).2 g))

theorem keyLt_strictTotal : StrictTotal (fun a b : List Nat => keyLt a b = true) := by
  have h := bytesLt_strictTotal
  have e : ∀ a b, keyLt a b = true ↔ cmpBytes a b = -1 := fun a b => by simp [keyLt]
  refine ⟨?_, ?_, ?_⟩
  · intro a ha; exact h.irrefl a ((e a a).1 ha)
  · intro a b c h1 h2; exact (e a c).2 (h.trans a b c ((e a b).1 h1) ((e b c).1 h2))
  · intro a b
    rcases h.tri a b with g | g | g
    · exact Or.inl ((e a b).2 g)
    · exact Or.inr (Or.inl g)
    · exact Or.inr (Or.inr ((e b a).2 g))

/-! ### inserting into and deleting from a strictly sorted list -/

section SetH
variable {α : Type} (key : α → HashKey)

theorem insertByKey_mem {x w : α} {l : List α} (h : w ∈ insertByKey key x l) : w = x ∨ w ∈ l := by
  have := (insertByKey_perm key x l).mem_iff.1 h
  simpa using this

/-- a new key placed by `insertByKey` keeps the list strictly sorted -/
theorem insertByKey_sorted (x : α) : ∀ (l : List α),
    (l.map key).Pairwise (fun a b => hkLess a b = true) → key x ∉ l.map key →
    ((insertByKey key x l).map key).Pairwise (fun a b => hkLess a b = true)
  | [], _, _ => by simp [insertByKey]
  | y :: rest, hs, hn => by
    simp only [List.map_cons, List.pairwise_cons, List.mem_cons, not_or] at hs hn
    unfold insertByKey
    split
    · rename_i hlt
      simp only [List.map_cons, List.pairwise_cons, List.mem_cons]
      refine ⟨?_, hs.1, hs.2⟩
      rintro k (rfl | hk)
      · exact hlt
      · exact hkLess_strictTotal.trans _ _ _ hlt (hs.1 k hk)
    · rename_i hlt
      have hyx : hkLess (key y) (key x) = true := by
        rcases hkLess_strictTotal.tri (key x) (key y) with g | g | g
        · exact (hlt g).elim
        · exact (hn.1 g).elim
        · exact g
      simp only [List.map_cons, List.pairwise_cons]
      refine ⟨?_, insertByKey_sorted x rest hs.2 hn.2⟩
      intro k hk
      obtain ⟨w, hw, rfl⟩ := List.mem_map.1 hk
      rcases insertByKey_mem key hw with rfl | hw'
      · exact hyx
      · exact hs.1 _ (List.mem_map.2 ⟨w, hw', rfl⟩)

theorem setInsert_sorted (x : α) (l : List α)
    (hs : (l.map key).Pairwise (fun a b => hkLess a b = true)) :
    ((setInsert key x l).map key).Pairwise (fun a b => hkLess a b = true) := by
  unfold setInsert
  split
  · rw [replaceKey_keys]; exact hs
  · rename_i hn
    refine insertByKey_sorted key x l hs ?_
    intro hk
    apply hn
    obtain ⟨y, hy, hyk⟩ := List.mem_map.1 hk
    simp only [List.any_eq_true, decide_eq_true_eq]
    exact ⟨y, hy, hyk⟩

theorem filter_keys_sorted (p : α → Bool) (l : List α)
    (hs : (l.map key).Pairwise (fun a b => hkLess a b = true)) :
    ((l.filter p).map key).Pairwise (fun a b => hkLess a b = true) :=
  hs.sublist ((List.filter_sublist (p := p) (l := l)).map key)

variable (hashable : α → Bool)

/-- every operation keeps the canonical item list strictly sorted by hash key -/
theorem setStep_sorted (s : List α) (o : SetOp α)
    (hs : (s.map key).Pairwise (fun a b => hkLess a b = true)) :
    (((setStep hashable key s o).1).map key).Pairwise (fun a b => hkLess a b = true) := by
  cases o with
  | add x =>
    simp only [setStep]; split
    · exact setInsert_sorted key x s hs
    · exact hs
  | remove x =>
    simp only [setStep]; split
    · exact filter_keys_sorted key _ s hs
    · exact hs
  | del x =>
    simp only [setStep]; split
    · exact filter_keys_sorted key _ s hs
    · exact hs
  | clear => simp [setStep]
  | observe => exact hs

/-- every operation keeps a property that holds of all items and of every hashable argument -/
theorem setStep_all (P : α → Prop) (hP : ∀ x, hashable x = true → P x) (s : List α) (o : SetOp α)
    (hs : ∀ y ∈ s, P y) : ∀ y ∈ (setStep hashable key s o).1, P y := by
  cases o with
  | add x =>
    simp only [setStep]; split
    · rename_i hx
      intro y hy
      rcases setInsert_mem key hy with rfl | hy'
      · exact hP _ hx
      · exact hs y hy'
    · exact hs
  | remove x =>
    simp only [setStep]; split
    · intro y hy; exact hs y (List.mem_filter.1 hy).1
    · exact hs
  | del x =>
    simp only [setStep]; split
    · intro y hy; exact hs y (List.mem_filter.1 hy).1
    · exact hs
  | clear => intro y hy; simp [setStep] at hy
  | observe => exact hs

theorem setRun_sorted : ∀ (ops : List (SetOp α)) (s : List α),
    (s.map key).Pairwise (fun a b => hkLess a b = true) →
    ((setRun hashable key s ops).map key).Pairwise (fun a b => hkLess a b = true)
  | [], _, hs => hs
  | o :: ops, s, hs => by
    simp only [setRun, List.foldl_cons]
    exact setRun_sorted ops _ (setStep_sorted key hashable s o hs)

theorem setRun_all (P : α → Prop) (hP : ∀ x, hashable x = true → P x) :
    ∀ (ops : List (SetOp α)) (s : List α), (∀ y ∈ s, P y) → ∀ y ∈ setRun hashable key s ops, P y
  | [], _, hs => hs
  | o :: ops, s, hs => by
    simp only [setRun, List.foldl_cons]
    exact setRun_all P hP ops _ (setStep_all key hashable P hP s o hs)

/-- is the key present (`_, ok := s.items[k]`) -/
def memB (s : List α) (k : HashKey) : Bool := s.any (fun y => decide (key y = k))

theorem memB_iff (s : List α) (k : HashKey) : memB key s k = true ↔ k ∈ s.map key := by
  simp only [memB, List.any_eq_true, decide_eq_true_eq, List.mem_map]

theorem memB_setInsert (x : α) (s : List α) (k : HashKey) :
    memB key (setInsert key x s) k = (decide (key x = k) || memB key s k) := by
  rw [Bool.eq_iff_iff]
  simp only [Bool.or_eq_true, decide_eq_true_eq, memB_iff, setInsert_mem_keys]
  constructor
  · rintro (e | e)
    · exact Or.inl e.symm
    · exact Or.inr e
  · rintro (e | e)
    · exact Or.inl e.symm
    · exact Or.inr e

theorem memB_filter_ne (x : α) (s : List α) (k : HashKey) :
    memB key (s.filter (fun y => decide (key y ≠ key x))) k = (memB key s k && decide (key x ≠ k)) := by
  rw [Bool.eq_iff_iff]
  simp only [memB, List.any_eq_true, List.mem_filter, decide_eq_true_eq, Bool.and_eq_true, ne_eq]
  constructor
  · rintro ⟨y, ⟨hy, hne⟩, e⟩
    exact ⟨⟨y, hy, e⟩, fun h => hne (e.trans h.symm)⟩
  · rintro ⟨⟨y, hy, e⟩, hne⟩
    exact ⟨y, ⟨hy, fun h => hne (h.symm.trans e)⟩, e⟩

end SetH

/-! ### sets of values -/

theorem wf_of_hashable {v : Val} (h : isHashable v = true) : wf v = true := by
  cases v <;> simp_all [isHashable, hashKey, wf]

theorem allHashable_iff : ∀ xs : List Val, allHashable xs = true ↔ ∀ x ∈ xs, isHashable x = true
  | [] => by simp [allHashable]
  | x :: xs => by simp [allHashable, allHashable_iff xs, isHashable]

theorem hashKey_of_hashable {v : Val} (h : isHashable v = true) : hashKey v = some (keyOf v) := by
  unfold keyOf
  cases hk : hashKey v with
  | none => simp [isHashable, hk] at h
  | some k => rfl

/-- a set value is well-formed exactly when its items are hashable and strictly sorted by key -/
theorem wf_set_iff (xs : List Val) : wf (.set xs) = true ↔
    (∀ x ∈ xs, isHashable x = true) ∧ (xs.map keyOf).Pairwise (fun a b => hkLess a b = true) := by
  simp only [wf, Bool.and_eq_true, allHashable_iff, sortedBy_iff, hashKeys_eq_map, wfL_iff, List.pairwise_map]
  constructor
  · rintro ⟨⟨h1, h2⟩, _⟩
    refine ⟨h1, List.Pairwise.imp_of_mem ?_ h2⟩
    intro a b ha hb h
    rw [hashKey_of_hashable (h1 a ha), hashKey_of_hashable (h1 b hb)] at h
    exact h
  · rintro ⟨h1, h2⟩
    refine ⟨⟨h1, List.Pairwise.imp_of_mem ?_ h2⟩, fun x hx => wf_of_hashable (h1 x hx)⟩
    intro a b ha hb h
    rw [hashKey_of_hashable (h1 a ha), hashKey_of_hashable (h1 b hb)]
    exact h

theorem setHist_wf (s : List Val) (ops : List (SetOp Val)) (h : wf (.set s) = true) :
    wf (.set (setHist s ops)) = true := by
  rw [wf_set_iff] at h ⊢
  exact ⟨setRun_all keyOf isHashable (fun v => isHashable v = true) (fun _ hx => hx) ops s h.1,
    setRun_sorted keyOf isHashable ops s h.2⟩

/-- membership (`x in s`, by hash key) for a hashable probe is presence of its key -/
theorem contains_set_memB (xs : List Val) (hx : ∀ y ∈ xs, isHashable y = true) (x : Val) (k : HashKey)
    (hk : hashKey x = some k) : contains (.set xs) x = some (memB keyOf xs k) := by
  simp only [contains, hk, Option.some.injEq, memB]
  rw [Bool.eq_iff_iff]
  simp only [List.any_eq_true, beq_iff_eq, decide_eq_true_eq]
  constructor
  · rintro ⟨y, hy, e⟩
    rw [hashKey_of_hashable (hx y hy)] at e
    exact ⟨y, hy, Option.some.inj e⟩
  · rintro ⟨y, hy, e⟩
    exact ⟨y, hy, by rw [hashKey_of_hashable (hx y hy), e]⟩

/-- the fold of `specMember`, from any starting answer -/
def specFold (k : HashKey) (m : Bool) (ops : List (SetOp Val)) : Bool :=
  ops.foldl (fun m o =>
    match o with
    | .add x => if hashKey x = some k then true else m
    | .remove x => if hashKey x = some k then false else m
    | .del x => if hashKey x = some k then false else m
    | .clear => false
    | .observe => m) m

theorem specMember_eq (init : List Val) (ops : List (SetOp Val)) (k : HashKey) :
    specMember init ops k = specFold k (memB keyOf init k) ops := rfl

theorem memB_setStep (s : List Val) (o : SetOp Val) (k : HashKey) :
    memB keyOf (setStep isHashable keyOf s o).1 k = specFold k (memB keyOf s k) [o] := by
  cases o with
  | add x =>
    simp only [setStep, specFold, List.foldl_cons, List.foldl_nil]
    by_cases hx : isHashable x = true
    · simp only [hx, if_true, memB_setInsert, hashKey_of_hashable hx, Option.some.injEq]
      by_cases e : keyOf x = k <;> simp [e]
    · have : hashKey x = none := by
        cases hk : hashKey x with
        | none => rfl
        | some _ => simp [isHashable, hk] at hx
      simp [hx, this]
  | remove x =>
    simp only [setStep, specFold, List.foldl_cons, List.foldl_nil]
    by_cases hx : isHashable x = true
    · simp only [hx, if_true, memB_filter_ne, hashKey_of_hashable hx, Option.some.injEq]
      by_cases e : keyOf x = k <;> simp [e]
    · have : hashKey x = none := by
        cases hk : hashKey x with
        | none => rfl
        | some _ => simp [isHashable, hk] at hx
      simp [hx, this]
  | del x =>
    simp only [setStep, specFold, List.foldl_cons, List.foldl_nil]
    by_cases hx : isHashable x = true
    · simp only [hx, if_true, memB_filter_ne, hashKey_of_hashable hx, Option.some.injEq]
      by_cases e : keyOf x = k <;> simp [e]
    · have : hashKey x = none := by
        cases hk : hashKey x with
        | none => rfl
        | some _ => simp [isHashable, hk] at hx
      simp [hx, this]
  | clear => simp [setStep, specFold, memB]
  | observe => simp [setStep, specFold]

theorem memB_setHist (k : HashKey) : ∀ (ops : List (SetOp Val)) (s : List Val),
    memB keyOf (setHist s ops) k = specFold k (memB keyOf s k) ops
  | [], _ => rfl
  | o :: ops, s => by
    have ih := memB_setHist k ops (setStep isHashable keyOf s o).1
    have h1 := memB_setStep s o k
    simp only [setHist, setRun, List.foldl_cons] at ih ⊢
    rw [ih, h1]
    simp [specFold]

def SetOp.isObserve {α : Type} : SetOp α → Bool
  | .observe => true
  | _ => false

theorem setRun_drop_observe {α : Type} (hashable : α → Bool) (key : α → HashKey) :
    ∀ (ops : List (SetOp α)) (s : List α),
    setRun hashable key s (ops.filter (fun o => !o.isObserve)) = setRun hashable key s ops
  | [], _ => rfl
  | o :: ops, s => by
    cases o <;>
      simp only [List.filter_cons, SetOp.isObserve, Bool.not_true, Bool.not_false, if_true, if_false,
        Bool.false_eq_true, setRun, List.foldl_cons] <;>
      first
        | exact setRun_drop_observe hashable key ops _
        | (simp only [setStep]; exact setRun_drop_observe hashable key ops s)

/-! ### maps -/

section MapH
variable {α : Type}

theorem mapPut_keys_mem (k : List Nat) (v : α) : ∀ (es : List (List Nat × α)) (k' : List Nat),
    k' ∈ (mapPut k v es).map (·.1) ↔ k' = k ∨ k' ∈ es.map (·.1)
  | [], k' => by simp [mapPut]
  | e :: rest, k' => by
    unfold mapPut
    split
    · rename_i h
      simp only [List.map_cons, List.mem_cons, ← h]
      constructor
      · rintro (g | g)
        · exact Or.inl g
        · exact Or.inr (Or.inr g)
      · rintro (g | g | g)
        · exact Or.inl g
        · exact Or.inl g
        · exact Or.inr g
    · split
      · simp
      · simp only [List.map_cons, List.mem_cons, mapPut_keys_mem k v rest k']
        constructor
        · rintro (g | g | g)
          · exact Or.inr (Or.inl g)
          · exact Or.inl g
          · exact Or.inr (Or.inr g)
        · rintro (g | g | g)
          · exact Or.inr (Or.inl g)
          · exact Or.inl g
          · exact Or.inr (Or.inr g)

theorem mapPut_sorted (k : List Nat) (v : α) : ∀ (es : List (List Nat × α)),
    (es.map (·.1)).Pairwise (fun a b => keyLt a b = true) →
    ((mapPut k v es).map (·.1)).Pairwise (fun a b => keyLt a b = true)
  | [], _ => by simp [mapPut]
  | e :: rest, hs => by
    simp only [List.map_cons, List.pairwise_cons] at hs
    unfold mapPut
    split
    · rename_i h
      simp only [List.map_cons, List.pairwise_cons]
      rw [h]; exact hs
    · rename_i hne
      split
      · rename_i hlt
        simp only [List.map_cons, List.pairwise_cons, List.mem_cons]
        refine ⟨?_, hs.1, hs.2⟩
        rintro k' (rfl | hk)
        · exact hlt
        · exact keyLt_strictTotal.trans _ _ _ hlt (hs.1 k' hk)
      · rename_i hlt
        have hek : keyLt e.1 k = true := by
          rcases keyLt_strictTotal.tri k e.1 with g | g | g
          · exact (hlt g).elim
          · exact (hne g).elim
          · exact g
        simp only [List.map_cons, List.pairwise_cons]
        refine ⟨?_, mapPut_sorted k v rest hs.2⟩
        intro k' hk'
        rcases (mapPut_keys_mem k v rest k').1 hk' with rfl | g
        · exact hek
        · exact hs.1 k' g

theorem mapPut_mem {k : List Nat} {v : α} {w : List Nat × α} : ∀ {es : List (List Nat × α)},
    w ∈ mapPut k v es → w = (k, v) ∨ w ∈ es
  | [], h => by simp [mapPut] at h; exact Or.inl h
  | e :: rest, h => by
    unfold mapPut at h
    split at h
    · rcases List.mem_cons.1 h with g | g
      · exact Or.inl g
      · exact Or.inr (List.mem_cons_of_mem _ g)
    · split at h
      · rcases List.mem_cons.1 h with g | g
        · exact Or.inl g
        · exact Or.inr g
      · rcases List.mem_cons.1 h with g | g
        · exact Or.inr (by simp [g])
        · rcases mapPut_mem g with g' | g'
          · exact Or.inl g'
          · exact Or.inr (List.mem_cons_of_mem _ g')

theorem mapStep_sorted (es : List (List Nat × α)) (o : MapOp α)
    (hs : (es.map (·.1)).Pairwise (fun a b => keyLt a b = true)) :
    (((mapStep es o).1).map (·.1)).Pairwise (fun a b => keyLt a b = true) := by
  cases o with
  | set k v => exact mapPut_sorted k v es hs
  | del k => exact hs.sublist ((List.filter_sublist (l := es)).map _)
  | pop k => exact hs.sublist ((List.filter_sublist (l := es)).map _)
  | setdefault k v =>
    simp only [mapStep]; split
    · exact hs
    · exact mapPut_sorted k v es hs
  | badkey => exact hs
  | clear => simp [mapStep]
  | observe => exact hs

/-- the value an operation stores, if any -/
def MapOp.stored : MapOp α → Option α
  | .set _ v => some v
  | .setdefault _ v => some v
  | _ => none

theorem mapStep_all (P : α → Prop) (es : List (List Nat × α)) (o : MapOp α)
    (ho : ∀ v, o.stored = some v → P v) (hs : ∀ e ∈ es, P e.2) : ∀ e ∈ (mapStep es o).1, P e.2 := by
  cases o with
  | set k v =>
    intro e he
    rcases mapPut_mem he with rfl | g
    · exact ho v rfl
    · exact hs e g
  | del k => intro e he; exact hs e (List.mem_filter.1 he).1
  | pop k => intro e he; exact hs e (List.mem_filter.1 he).1
  | setdefault k v =>
    simp only [mapStep]; split
    · exact hs
    · intro e he
      rcases mapPut_mem he with rfl | g
      · exact ho v rfl
      · exact hs e g
  | badkey => exact hs
  | clear => intro e he; simp [mapStep] at he
  | observe => exact hs

theorem mapRun_sorted : ∀ (ops : List (MapOp α)) (es : List (List Nat × α)),
    (es.map (·.1)).Pairwise (fun a b => keyLt a b = true) →
    ((mapRun es ops).map (·.1)).Pairwise (fun a b => keyLt a b = true)
  | [], _, hs => hs
  | o :: ops, es, hs => by
    simp only [mapRun, List.foldl_cons]
    exact mapRun_sorted ops _ (mapStep_sorted es o hs)

theorem mapRun_all (P : α → Prop) : ∀ (ops : List (MapOp α)) (es : List (List Nat × α)),
    (∀ o ∈ ops, ∀ v, o.stored = some v → P v) → (∀ e ∈ es, P e.2) → ∀ e ∈ mapRun es ops, P e.2
  | [], _, _, hs => hs
  | o :: ops, es, ho, hs => by
    simp only [mapRun, List.foldl_cons]
    exact mapRun_all P ops _ (fun o' h' => ho o' (List.mem_cons_of_mem _ h'))
      (mapStep_all P es o (ho o (List.mem_cons_self)) hs)

def hasKeyB (es : List (List Nat × α)) (k : List Nat) : Bool := es.any (fun e => decide (e.1 = k))

theorem hasKeyB_iff (es : List (List Nat × α)) (k : List Nat) : hasKeyB es k = true ↔ k ∈ es.map (·.1) := by
  simp only [hasKeyB, List.any_eq_true, decide_eq_true_eq, List.mem_map]

theorem hasKeyB_mapPut (k' : List Nat) (v : α) (es : List (List Nat × α)) (k : List Nat) :
    hasKeyB (mapPut k' v es) k = (decide (k' = k) || hasKeyB es k) := by
  rw [Bool.eq_iff_iff]
  simp only [Bool.or_eq_true, decide_eq_true_eq, hasKeyB_iff, mapPut_keys_mem]
  constructor
  · rintro (e | e)
    · exact Or.inl e.symm
    · exact Or.inr e
  · rintro (e | e)
    · exact Or.inl e.symm
    · exact Or.inr e

theorem hasKeyB_filter_ne (k' : List Nat) (es : List (List Nat × α)) (k : List Nat) :
    hasKeyB (es.filter (fun e => decide (e.1 ≠ k'))) k = (hasKeyB es k && decide (k' ≠ k)) := by
  rw [Bool.eq_iff_iff]
  simp only [hasKeyB, List.any_eq_true, List.mem_filter, decide_eq_true_eq, Bool.and_eq_true, ne_eq]
  constructor
  · rintro ⟨y, ⟨hy, hne⟩, e⟩
    exact ⟨⟨y, hy, e⟩, fun h => hne (e.trans h.symm)⟩
  · rintro ⟨⟨y, hy, e⟩, hne⟩
    exact ⟨y, ⟨hy, fun h => hne (h.symm.trans e)⟩, e⟩

end MapH

theorem wf_map_iff (es : List (List Nat × Val)) : wf (mapVal es) = true ↔
    (es.map (·.1)).Pairwise (fun a b => keyLt a b = true) ∧ ∀ e ∈ es, wf e.2 = true := by
  simp only [mapVal, wf, Bool.and_eq_true, List.length_map, beq_self_eq_true, true_and, sortedBy_iff,
    wfL_iff, List.mem_map]
  constructor
  · rintro ⟨h1, h2⟩; exact ⟨h1, fun e he => h2 e.2 ⟨e, he, rfl⟩⟩
  · rintro ⟨h1, h2⟩; exact ⟨h1, fun x ⟨e, he, hx⟩ => hx ▸ h2 e he⟩

def specFoldM (k : List Nat) (m : Bool) (ops : List (MapOp Val)) : Bool :=
  ops.foldl (fun m o =>
    match o with
    | .set k' _ => if k' = k then true else m
    | .del k' => if k' = k then false else m
    | .pop k' => if k' = k then false else m
    | .setdefault k' _ => if k' = k then true else m
    | .badkey => m
    | .clear => false
    | .observe => m) m

theorem specHasKey_eq (init : List (List Nat × Val)) (ops : List (MapOp Val)) (k : List Nat) :
    specHasKey init ops k = specFoldM k (hasKeyB init k) ops := rfl

theorem hasKeyB_mapStep (es : List (List Nat × Val)) (o : MapOp Val) (k : List Nat) :
    hasKeyB (mapStep es o).1 k = specFoldM k (hasKeyB es k) [o] := by
  cases o with
  | set k' v =>
    simp only [mapStep, specFoldM, List.foldl_cons, List.foldl_nil, hasKeyB_mapPut]
    by_cases e : k' = k <;> simp [e]
  | del k' =>
    simp only [mapStep, specFoldM, List.foldl_cons, List.foldl_nil, hasKeyB_filter_ne]
    by_cases e : k' = k <;> simp [e]
  | pop k' =>
    simp only [mapStep, specFoldM, List.foldl_cons, List.foldl_nil, hasKeyB_filter_ne]
    by_cases e : k' = k <;> simp [e]
  | setdefault k' v =>
    simp only [mapStep, specFoldM, List.foldl_cons, List.foldl_nil]
    split
    · rename_i h
      by_cases e : k' = k
      · subst e; simp; exact h
      · simp [e]
    · simp only [hasKeyB_mapPut]
      by_cases e : k' = k <;> simp [e]
  | badkey => simp [mapStep, specFoldM]
  | clear => simp [mapStep, specFoldM, hasKeyB]
  | observe => simp [mapStep, specFoldM]

theorem hasKeyB_mapRun (k : List Nat) : ∀ (ops : List (MapOp Val)) (es : List (List Nat × Val)),
    hasKeyB (mapRun es ops) k = specFoldM k (hasKeyB es k) ops
  | [], _ => rfl
  | o :: ops, es => by
    have ih := hasKeyB_mapRun k ops (mapStep es o).1
    have h1 := hasKeyB_mapStep es o k
    simp only [mapRun, List.foldl_cons] at ih ⊢
    rw [ih, h1]
    simp [specFoldM]

def MapOp.isObserve {α : Type} : MapOp α → Bool
  | .observe => true
  | _ => false

theorem mapRun_drop_observe {α : Type} : ∀ (ops : List (MapOp α)) (es : List (List Nat × α)),
    mapRun es (ops.filter (fun o => !o.isObserve)) = mapRun es ops
  | [], _ => rfl
  | o :: ops, es => by
    cases o <;>
      simp only [List.filter_cons, MapOp.isObserve, Bool.not_true, Bool.not_false, if_true, if_false,
        Bool.false_eq_true, mapRun, List.foldl_cons] <;>
      first
        | exact mapRun_drop_observe ops _
        | (simp only [mapStep]; exact mapRun_drop_observe ops es)

end Risor.C15
