import RisorModel.C15.Lemmas
import RisorModel.C15.Dispatch
import RisorModel.Generated.C15
/-!
C15 ties: what the extractor (`extract/c15.go`, go/ast + go/types) regenerates from object/*.go on
this run equals what the model and the theorems of `PropsD.lean` are stated over:

* the DISPATCH tables — for every object type the model covers (nil, bool, int, float, byte,
  string, error, list, map, set, byte_slice, time) the operand types its `Compare` / `Equals`
  method accepts, in source order, are `xComparableWith` / `xEqualsWith`; every other operand
  gets an error / False; the interfaces implemented (Comparable, Hashable) are the non-empty
  rows; no type outside the model accepts a model type except the listed ones;
* the `HashKey` field each hashable type fills (with the expression stored);
* the ARMS of the numeric and bool `Compare` / `Equals` methods, translated statement by
  statement to Lean definitions, equal `scalarCompare` / `scalarEquals` on that pair of types for
  EVERY conversion and every pair of values (so the side on which `float64()` is applied, the
  order of the tests and the returned constants are those of the model);
* the remaining arms (string, error, nil, list, map, set, byte_slice, time) as normalised text.
-/
namespace Risor.C15
open Risor.Generated.C15

/-! ### dispatch tables -/

/-- the row of a type in a table in model types (`[]` when the type declares no such method) -/
def rowOf (tbl : List (XTy × List (Option XTy) × String)) (t : XTy) : List (Option XTy) :=
  match tbl.find? (fun r => r.1 == t) with
  | some (_, arms, _) => arms
  | none => []

/-- `Compare` of every covered type accepts exactly the operand types of `xComparableWith`, in that order -/
theorem compare_dispatch_tie :
    allXTy.all (fun t => rowOf (modelRows compareDispatch) t == (xComparableWith t).map some) = true := by decide

/-- `Equals` of every covered type can return True exactly on the operand types of `xEqualsWith` -/
theorem equals_dispatch_tie :
    allXTy.all (fun t => rowOf (modelRows equalsDispatch) t == (xEqualsWith t).map some) = true := by decide

/-- any other operand: `Compare` returns an error, `Equals` returns False -/
theorem dispatch_default_tie :
    (modelRows compareDispatch).all (fun r => r.2.2 == "error") = true ∧
    (modelRows equalsDispatch).all (fun r => r.2.2 == "False") = true := by decide

/-- the only types outside the model whose `Compare` / `Equals` accepts a type of the model:
    `Buffer.Compare` (string, byte_slice) and `FileMode` (int) -/
theorem foreign_rows_tie :
    foreignRows compareDispatch = [("Buffer", ["String", "ByteSlice"]), ("FileMode", ["Int"])] ∧
    foreignRows equalsDispatch = [("FileMode", ["Int"])] := by decide

/-- ALL pairs (A, B) of the real tables where A accepts B but B does not accept A.  For `Equals`
    these are the pairs on which `==` can be asymmetric (finding `C15-eq-asymmetric-cross-type`):
    a new one-sided arm anywhere in package object changes this list. -/
theorem asymmetric_pairs_tie :
    asymmetricPairs compareDispatch =
      [("Buffer", "String"), ("Buffer", "ByteSlice"), ("ByteSlice", "String"), ("FileMode", "Int")] ∧
    asymmetricPairs equalsDispatch = [("ByteSlice", "String"), ("FileMode", "Int")] := by decide

/-- the covered types that implement `Comparable` / `Hashable` are those with a non-empty
    `xComparableWith` row / a `xHashField` -/
theorem interfaces_tie :
    (objectTypes.filterMap fun (n, c, h, e) => (goTy n).map fun t => (t, c, h, e)).all
      (fun (t, c, h, e) => c == !(xComparableWith t).isEmpty && h == (xHashField t).isSome && e) = true ∧
    allXTy.all (fun t => objectTypes.any fun (n, _) => goTy n == some t) = true := by decide

/-- every `HashKey` method of package object: the one field it fills and the value stored -/
theorem hash_fields_tie : hashFields =
    [("Bool", [("IntValue", "var value int64 ; if x { value = 1 } else { value = 0 } ; value")]),
     ("Byte", [("IntValue", "int64(x)")]),
     ("ByteSlice", [("StrValue", "string(x)")]),
     ("Float", [("FltValue", "x")]),
     ("Int", [("IntValue", "x")]),
     ("NilType", []),
     ("String", [("StrValue", "x")])] := by decide

def fieldName : HField → List String
  | .none => []
  | .int => ["IntValue"]
  | .flt => ["FltValue"]
  | .str => ["StrValue"]

/-- the field named by `xHashField` is the field the code fills, for every hashable covered type -/
theorem hash_field_table_tie :
    hashFields.all (fun (n, fs) =>
      match goTy n with
      | some t => (xHashField t).map fieldName == some (fs.map (·.1))
      | none => false) = true := by decide

/-! ### translated arms -/

theorem F.gt_iff (a b : F) : (a > b) ↔ cmpF b a = -1 := Iff.rfl

theorem cmp3Int (a b : Int) :
    (if (a == b) = true then some (0:Int) else if decide (a > b) = true then some 1 else some (-1)) = some (cmpInt a b) := by
  unfold cmpInt
  by_cases h : a = b
  · simp [h]
  · simp [h]; split <;> rfl

theorem cmp3Nat (a b : Nat) :
    (if (a == b) = true then some (0:Int) else if decide (a > b) = true then some 1 else some (-1))
      = some (cmpInt (Int.ofNat a) (Int.ofNat b)) := by
  rw [← cmp3Int (Int.ofNat a) (Int.ofNat b)]
  have e1 : (a == b) = (Int.ofNat a == Int.ofNat b) := by
    by_cases h : a = b
    · subst h; simp
    · have h' : ¬ Int.ofNat a = Int.ofNat b := fun e => h (Int.ofNat.inj e)
      have l : (a == b) = false := by simpa using h
      have r : (Int.ofNat a == Int.ofNat b) = false := beq_false_of_ne h'
      rw [l, r]
  have e2 : decide (a > b) = decide (Int.ofNat a > Int.ofNat b) := by
    by_cases h : a > b
    · have h' : Int.ofNat a > Int.ofNat b := Int.ofNat_lt.mpr h
      rw [decide_eq_true h, decide_eq_true h']
    · have h' : ¬ Int.ofNat a > Int.ofNat b := fun e => h (Int.ofNat_lt.mp e)
      rw [decide_eq_false h, decide_eq_false h']
  rw [e1, e2]

theorem cmp3F (a b : F) :
    (if (a == b) = true then some (0:Int) else if decide (a > b) = true then some 1 else some (-1)) = some (cmpF a b) := by
  by_cases h : a = b
  · subst h; cases a <;> simp [cmpF, cmpInt]
  · have hb : (a == b) = false := by simpa using h
    rw [hb]
    simp only [F.gt_iff]
    cases a <;> cases b <;> simp_all [cmpF, cmpInt, F.rank, F.mag]
    rename_i n m
    by_cases h1 : m < n
    · have : ¬ n < m := by omega
      have h2 : ¬ m = n := by omega
      simp [h1, this, h2]
    · have : n < m := by omega
      have h2 : ¬ m = n := by omega
      simp [h1, this, h2]

theorem beqF (a b : F) : (a == b) = (cmpF a b == 0) := by
  by_cases h : a = b
  · subst h; simp [cmpF_self]
  · have h' : ¬ cmpF a b = 0 := fun e => h (cmpF_eq_zero.mp e)
    have l : (a == b) = false := by simpa using h
    have r : (cmpF a b == 0) = false := beq_false_of_ne h'
    rw [l, r]

/-- the ten translated `Compare` arms of Int, Float, Byte and Bool ARE `scalarCompare` on those
    types: for every int→float conversion and all operand values -/
theorem compare_arms_tie (conv : Int → F) :
    (∀ x y, Int_Compare_Int conv x y = scalarCompare conv (.int x) (.int y)) ∧
    (∀ x y, Int_Compare_Float conv x y = scalarCompare conv (.int x) (.float y)) ∧
    (∀ x y, Int_Compare_Byte conv x y = scalarCompare conv (.int x) (.byte y)) ∧
    (∀ x y, Float_Compare_Float conv x y = scalarCompare conv (.float x) (.float y)) ∧
    (∀ x y, Float_Compare_Int conv x y = scalarCompare conv (.float x) (.int y)) ∧
    (∀ x y, Float_Compare_Byte conv x y = scalarCompare conv (.float x) (.byte y)) ∧
    (∀ x y, Byte_Compare_Byte conv x y = scalarCompare conv (.byte x) (.byte y)) ∧
    (∀ x y, Byte_Compare_Int conv x y = scalarCompare conv (.byte x) (.int y)) ∧
    (∀ x y, Byte_Compare_Float conv x y = scalarCompare conv (.byte x) (.float y)) ∧
    (∀ x y, Bool_Compare_Bool conv x y = scalarCompare conv (.bool x) (.bool y)) := by
  refine ⟨fun x y => cmp3Int x y, fun x y => cmp3F (conv x) y, fun x y => cmp3Int x (Int.ofNat y),
    fun x y => cmp3F x y, fun x y => cmp3F x (conv y), fun x y => cmp3F x (conv (Int.ofNat y)),
    fun x y => cmp3Nat x y, fun x y => cmp3Int (Int.ofNat x) y, fun x y => cmp3F (conv (Int.ofNat x)) y, ?_⟩
  intro x y; cases x <;> cases y <;> rfl

/-- the ten translated `Equals` conditions ARE `scalarEquals` on those types -/
theorem equals_arms_tie (conv : Int → F) :
    (∀ x y, Int_Equals_Int conv x y = scalarEquals conv (.int x) (.int y)) ∧
    (∀ x y, Int_Equals_Float conv x y = scalarEquals conv (.int x) (.float y)) ∧
    (∀ x y, Int_Equals_Byte conv x y = scalarEquals conv (.int x) (.byte y)) ∧
    (∀ x y, Float_Equals_Float conv x y = scalarEquals conv (.float x) (.float y)) ∧
    (∀ x y, Float_Equals_Int conv x y = scalarEquals conv (.float x) (.int y)) ∧
    (∀ x y, Float_Equals_Byte conv x y = scalarEquals conv (.float x) (.byte y)) ∧
    (∀ x y, Byte_Equals_Byte conv x y = scalarEquals conv (.byte x) (.byte y)) ∧
    (∀ x y, Byte_Equals_Int conv x y = scalarEquals conv (.byte x) (.int y)) ∧
    (∀ x y, Byte_Equals_Float conv x y = scalarEquals conv (.byte x) (.float y)) ∧
    (∀ x y, Bool_Equals_Bool conv x y = scalarEquals conv (.bool x) (.bool y)) :=
  ⟨fun _ _ => rfl, fun x y => beqF (conv x) y, fun _ _ => rfl, fun x y => beqF x y,
   fun x y => beqF x (conv y), fun x y => beqF x (conv (Int.ofNat y)), fun _ _ => rfl, fun _ _ => rfl,
   fun x y => beqF (conv (Int.ofNat x)) y, fun _ _ => rfl⟩

/-! ### the arms that are not translated, as normalised text -/

def textReceivers : List String := ["String", "Error", "NilType", "List", "Map", "Set", "ByteSlice", "Time"]

set_option maxRecDepth 100000 in
/-- the `Compare` arms of string, error, nil, list, byte_slice and time as they are in the source on
    this run: the reviewed text that `cmpBytes`, `errCmp`, `compareG`/`compareLG`, `timeCmp` model -/
theorem compare_shapes_tie : compareShapes.filter (fun r => textReceivers.contains r.1) = [
  ("ByteSlice", "ByteSlice", "return bytes.Compare(x, y), nil"),
  ("ByteSlice", "String", "return bytes.Compare(x, []byte(y)), nil"),
  ("Error", "Error", "thisMsg := X.Message().Value() ; otherMsg := Y.Message().Value() ; if thisMsg == otherMsg && X.raised == Y.raised { return 0, nil } ; if thisMsg > otherMsg { return 1, nil } ; if thisMsg < otherMsg { return -1, nil } ; if X.raised && !Y.raised { return 1, nil } ; if !X.raised && Y.raised { return -1, nil } ; return 0, nil"),
  ("List", "List", "if len(X.items) > len(Y.items) { return 1, nil } else if len(ls.items) < len(otherList.items) { return -1, nil } ; for i := 0; i < len(ls.items); i++ { comparable, ok := ls.items[i].(Comparable) if !ok { return 0, errz.TypeErrorf(\"type error: %s object is not comparable\", ls.items[i].Type()) } comp, err := comparable.Compare(otherList.items[i]) if err != nil { return 0, err } if comp != 0 { return comp, nil } } ; return 0, nil"),
  ("NilType", "NilType", "return 0, nil"),
  ("String", "String", "if x == y { return 0, nil } ; if x > y { return 1, nil } ; return -1, nil"),
  ("Time", "Time", "if x == y { return 0, nil } ; if x.After(y) { return 1, nil } ; return -1, nil")] := by decide

set_option maxRecDepth 100000 in
/-- the `Equals` arms of string, error, nil, list, map, set, byte_slice and time (the loops of
    List/Map/Set.Equals are what `equalsWG/L/M/S` follow) -/
theorem equals_shapes_tie : equalsShapes.filter (fun r => textReceivers.contains r.1) = [
  ("ByteSlice", "ByteSlice", "cmp := bytes.Compare(x, y) ; if cmp == 0 { return True } ; return False ; return False"),
  ("ByteSlice", "String", "cmp := bytes.Compare(x, []byte(y)) ; if cmp == 0 { return True } ; return False ; return False"),
  ("Error", "Error", "if X.Message().Value() == Y.Message().Value() && X.raised == Y.raised { return True } ; return False"),
  ("List", "List", "otherList := Y.(*List) ; if len(X.items) != len(otherList.items) { return False } ; for i, v := range ls.items { otherV := otherList.items[i] if !Equals(v, otherV) { return False } } ; return True"),
  ("Map", "Map", "otherMap := Y.(*Map) ; if len(X.items) != len(otherMap.items) { return False } ; for k, v := range m.items { otherValue, found := otherMap.items[k] if !found { return False } if !v.Equals(otherValue).(*Bool).value { return False } } ; return True"),
  ("NilType", "NilType", "if Y.Type() == NIL { return True } ; return False"),
  ("Set", "Set", "otherSet := Y.(*Set) ; if len(X.items) != len(otherSet.items) { return False } ; for k, v := range s.items { if otherV, ok := otherSet.items[k]; !ok || !v.Equals(otherV).(*Bool).value { return False } } ; return True"),
  ("String", "String", "if Y.Type() == STRING && x == y { return True } ; return False"),
  ("Time", "Time", "if Y.Type() == TIME && x == y { return True } ; return False")] := by decide


end Risor.C15
