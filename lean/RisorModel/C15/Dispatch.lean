import RisorModel.C15.Model
/-!
C15 — the DISPATCH of comparison, equality and hashing as explicit tables, and the comparable
scalar types that `Model.lean` does not carry: `byte_slice` (object/byte_slice.go) and `time`
(object/time.go).

`comparableWith` / `equalsWith` / `hashField` say, per model type, which operand types the
`Compare` / `Equals` method of that type accepts and which field of `HashKey` carries the value.
They are what the pattern matches of `scalarCompare`, `scalarEquals`, `compareG`, `equalsG`,
`hashKey` implement (`compare_defined_iff_table`, `equals_true_only_in_table`,
`hash_field_carries_value`, PropsD.lean) and what the extractor regenerates from object/*.go on
every run (`Generated/C15.lean`, tied in `Ties.lean`).  Core Lean only.
-/
namespace Risor.C15

/-- `float64(b)` for a byte -/
def convB (conv : Int → F) (n : Nat) : F := conv (Int.ofNat n)

/-- Go's `<` on float64 without NaN (`a > b` in translated code is `b < a`) -/
instance : LT F := ⟨fun a b => cmpF a b = -1⟩
instance (a b : F) : Decidable (a < b) := inferInstanceAs (Decidable (cmpF a b = -1))

/-! ## tables over the types of `Model.lean` -/

/-- operand types accepted by the `Compare` method of each type, in source order; `[]` = the type
    does not implement `Comparable` -/
def comparableWith : Ty → List Ty
  | .nil => [.nil]
  | .bool => [.bool]
  | .int => [.float, .int, .byte]
  | .float => [.float, .int, .byte]
  | .byte => [.float, .int, .byte]
  | .str => [.str]
  | .err => [.err]
  | .list => [.list]
  | .map => []
  | .set => []

/-- operand types on which the `Equals` method of each type can return True, in source order -/
def equalsWith : Ty → List Ty
  | .nil => [.nil]
  | .bool => [.bool]
  | .int => [.int, .float, .byte]
  | .float => [.int, .float, .byte]
  | .byte => [.byte, .int, .float]
  | .str => [.str]
  | .err => [.err]
  | .list => [.list]
  | .map => [.map]
  | .set => [.set]

/-- the fields of `object.HashKey` besides `Type` -/
inductive HField where
  | none | int | flt | str
  deriving DecidableEq, Repr

/-- which field of `HashKey{Type: …}` the `HashKey` method of each type fills (`HField.none`:
    only `Type`); `Option.none` = the type does not implement `Hashable` -/
def hashField : Ty → Option HField
  | .nil => some .none
  | .bool => some .int
  | .int => some .int
  | .float => some .flt
  | .byte => some .int
  | .str => some .str
  | _ => Option.none

/-- a hash key reduced to ONE of its value fields (the others zeroed) -/
def HashKey.proj (f : HField) (k : HashKey) : F × Int × List Nat :=
  match f with
  | .none => (.fin 0, 0, [])
  | .int => (.fin 0, k.int, [])
  | .flt => (k.flt, 0, [])
  | .str => (.fin 0, 0, k.str)

/-! ## the object types of package object that the model covers, by their Go names -/

/-- model types plus the two comparable scalar types added here -/
inductive XTy where
  | base (t : Ty)
  | bslice
  | time
  deriving DecidableEq, Repr

def goTy : String → Option XTy
  | "NilType" => some (.base .nil)
  | "Bool" => some (.base .bool)
  | "Int" => some (.base .int)
  | "Float" => some (.base .float)
  | "Byte" => some (.base .byte)
  | "String" => some (.base .str)
  | "Error" => some (.base .err)
  | "List" => some (.base .list)
  | "Map" => some (.base .map)
  | "Set" => some (.base .set)
  | "ByteSlice" => some .bslice
  | "Time" => some .time
  | _ => none

/-- `Compare` dispatch including byte_slice and time: `ByteSlice.Compare` accepts `*ByteSlice`
    and `*String`, `String.Compare` only `*String` -/
def xComparableWith : XTy → List XTy
  | .base t => (comparableWith t).map .base
  | .bslice => [.bslice, .base .str]
  | .time => [.time]

/-- `Equals` dispatch including byte_slice and time -/
def xEqualsWith : XTy → List XTy
  | .base t => (equalsWith t).map .base
  | .bslice => [.bslice, .base .str]
  | .time => [.time]

/-- `HashKey` field including byte_slice (`StrValue: string(b.value)`); time is not hashable -/
def xHashField : XTy → Option HField
  | .base t => hashField t
  | .bslice => some .str
  | .time => Option.none

/-- rows of a regenerated dispatch table whose receiver the model covers, in model types
    (an accepted operand type outside the model becomes `none` and fails the tie) -/
def modelRows (tbl : List (String × List String × String)) : List (XTy × List (Option XTy) × String) :=
  tbl.filterMap fun (r, arms, d) =>
    match goTy r with
    | some t => some (t, arms.map goTy, d)
    | Option.none => Option.none

/-- rows whose receiver is OUTSIDE the model but which accept an operand type of the model
    (such a row would make `x == modelValue` true for an unmodelled `x`) -/
def foreignRows (tbl : List (String × List String × String)) : List (String × List String) :=
  tbl.filterMap fun (r, arms, _) =>
    match goTy r with
    | some _ => Option.none
    | Option.none =>
      let hit := arms.filter fun a => (goTy a).isSome
      if hit.isEmpty then Option.none else some (r, hit)

/-- the ordered pairs (A, B) of a dispatch table with B accepted by A but A not accepted by B -/
def asymmetricPairs (tbl : List (String × List String × String)) : List (String × String) :=
  tbl.flatMap fun (r, arms, _) =>
    (arms.filter fun a =>
      match tbl.find? (fun row => row.1 == a) with
      | some (_, arms', _) => !(arms'.contains r)
      | Option.none => true).map fun a => (r, a)

def allXTy : List XTy :=
  [.base .nil, .base .bool, .base .int, .base .float, .base .byte, .base .str, .base .err,
   .base .list, .base .map, .base .set, .bslice, .time]

/-! ## byte_slice and time values -/

/-- what `==` and `After` can see of a Go `time.Time`: seconds and nanoseconds of the wall clock,
    the monotonic reading if the value carries one (`time.Now()` and what is derived from it by
    `Add`), and the identity of the `*Location` (UTC = 0).  Go's struct `==` on `time.Time`
    compares `wall`, `ext`, `loc`, i.e. all four components. -/
structure GoTime where
  sec : Int
  nsec : Nat
  mono : Option Int
  loc : Nat
  deriving DecidableEq, Repr

/-- `t.After(u)`: by the monotonic readings when both have one, else by the wall clock -/
def timeAfter (s t : GoTime) : Bool :=
  match s.mono, t.mono with
  | some a, some b => decide (a > b)
  | _, _ => decide (s.sec > t.sec) || (decide (s.sec = t.sec) && decide (s.nsec > t.nsec))

/-- `Time.Compare`: `t.value == other.value` → 0, `After` → 1, else -1 -/
def timeCmp (s t : GoTime) : Int := if s = t then 0 else if timeAfter s t then 1 else -1

/-- the scalar values of the model plus byte_slice and time -/
inductive XVal where
  | base (v : Val)
  | bslice (bs : List Nat)
  | time (t : GoTime)
  deriving Repr

def xty : XVal → XTy
  | .base v => .base (ty v)
  | .bslice _ => .bslice
  | .time _ => .time

/-- `a.Compare(b)` (Impl) -/
def vcompare : XVal → XVal → Option Int
  | .base a, .base b => compare a b
  | .bslice a, .bslice b => some (cmpBytes a b)
  | .bslice a, .base (.str b) => some (cmpBytes a b)
  | .time s, .time t => some (timeCmp s t)
  | _, _ => none

/-- `a.Equals(b)` (Impl) -/
def vequals : XVal → XVal → Bool
  | .base a, .base b => equals a b
  | .bslice a, .bslice b => cmpBytes a b == 0
  | .bslice a, .base (.str b) => cmpBytes a b == 0
  | .time s, .time t => decide (s = t)
  | _, _ => false

/-- hash keys with the extended type tag -/
structure XHashKey where
  ty : XTy
  flt : F
  int : Int
  str : List Nat
  deriving DecidableEq, Repr

def vhashKey : XVal → Option XHashKey
  | .base v => (hashKey v).map fun k => ⟨.base k.ty, k.flt, k.int, k.str⟩
  | .bslice bs => some ⟨.bslice, .fin 0, 0, bs⟩
  | .time _ => none

/-- guard of the finding `C15-eq-asymmetric-cross-type`: a byte_slice on the left meets a
    string on the right, or the other way round -/
def crossBytes : XVal → XVal → Bool
  | .bslice _, .base (.str _) => true
  | .base (.str _), .bslice _ => true
  | _, _ => false

/-- two times that are the same instant for `After` in both directions but different values for
    `==` (another location pointer, or a monotonic reading on one side only) -/
def timeTwins (s t : GoTime) : Bool :=
  decide (s ≠ t) && !timeAfter s t && !timeAfter t s

end Risor.C15
