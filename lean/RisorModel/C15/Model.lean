/-
C15 — executable model of risor's value equality, ordering, hashing, truthiness,
membership, `sorted()` and set construction (object/{int,float,byte,string,bool,nil,list,
map,set,error,operations,sort}.go, builtins.Sorted/Bool), as the code IS.

Floats: Lean's `Float` is never used.  Every finite float64 is an integer multiple of
2^-1074, so a finite float is the `Int` number of such units (`F.fin`); `+0` and `-0` are the
same model value (Go's `==` and Go map keys identify them); `±Inf` are separate
constructors; NaN is excluded by the property and has no model value.

Go's `float64(int64)` conversion (round to nearest, ties to even, 53 significant bits) is
`toF`; the exact embedding of an integer is `exactF`.  All model functions that convert an
int to a float take the conversion as a parameter `conv`:

  Impl  = the function at `conv := toF`     (what the code computes)
  Spec  = the function at `conv := exactF`  (comparison of the exact numeric values).

Maps are modelled in canonical form (keys strictly sorted, parallel value list) and sets in
canonical form (items in the order of `Set.SortedItems`).  `equalsG` compares these canonical
forms pointwise; `equalsWG` follows the Go loops
`for k, v := range m.items { otherValue, found := other.items[k] … }` (size test, then every
left entry looked up on the right) on the same values read as association lists.  That the
two agree on all well-formed values (`wf`) is proved (`equalsWG_eq_equalsG`, LemmasW.lean);
the oracle answers both and the harness compares each with the real `Equals`.
Core Lean only.
-/
namespace Risor.C15

/-! ## numbers -/

/-- a float64 other than NaN, in units of 2^-1074 -/
inductive F where
  | ninf
  | fin (n : Int)
  | pinf
  deriving DecidableEq, Repr

def F.rank : F → Int
  | .ninf => -1
  | .fin _ => 0
  | .pinf => 1

def F.mag : F → Int
  | .fin n => n
  | _ => 0

/-- the three-way comparison coded in every `Compare` method: `==` → 0, `>` → 1, else -1 -/
def cmpInt (a b : Int) : Int := if a = b then 0 else if a > b then 1 else -1

/-- float64 `==` / `>` without NaN -/
def cmpF (a b : F) : Int :=
  if a.rank = b.rank then cmpInt a.mag b.mag else if a.rank > b.rank then 1 else -1

/-- 2^1074: the number of model units in 1.0 -/
@[irreducible] def scale : Int := 2 ^ 1074

/-- the exact value of an integer, in model units -/
def exactF (i : Int) : F := .fin (i * scale)

/-- round `q` to a multiple of `2^k`, to nearest, ties to the even multiple -/
def roundTo (q k : Nat) : Nat :=
  if 2 * (q % 2 ^ k) > 2 ^ k ∨ (2 * (q % 2 ^ k) = 2 ^ k ∧ (q / 2 ^ k) % 2 = 1)
  then (q / 2 ^ k + 1) * 2 ^ k else (q / 2 ^ k) * 2 ^ k

/-- how many low bits do not fit into 53 significant bits -/
def shiftOf (q : Nat) : Nat := q.log2 - 52

/-- a natural number rounded to 53 significant bits (round-half-even) -/
def roundNat (q : Nat) : Nat := roundTo q (shiftOf q)

/-- the integer nearest-even-rounded to 53 significant bits (sign-symmetric) -/
def roundInt (i : Int) : Int :=
  if i < 0 then -(Int.ofNat (roundNat i.natAbs)) else Int.ofNat (roundNat i.natAbs)

/-- Go's `float64(i)` for an int64 `i` -/
def toF (i : Int) : F := .fin (roundInt i * scale)

/-- the integer survives `float64(i)` unchanged -/
def exactInt (i : Int) : Bool := roundInt i == i

/-- Go string comparison: bytewise lexicographic -/
def cmpBytes : List Nat → List Nat → Int
  | [], [] => 0
  | [], _ :: _ => -1
  | _ :: _, [] => 1
  | a :: as, b :: bs => if a = b then cmpBytes as bs else if a > b then 1 else -1

/-! ## values -/

inductive Ty where
  | nil | bool | int | float | byte | str | err | list | map | set
  deriving DecidableEq, Repr

/-- script values in scope.  `byte n` has `n < 256`; `str`/`err` carry bytes; `map ks vs` has
    strictly sorted keys `ks` and `vs.length = ks.length`; `set xs` holds hashable scalars
    with distinct hash keys in `SortedItems` order. -/
inductive Val where
  | nil
  | bool (b : Bool)
  | int (i : Int)
  | float (f : F)
  | byte (n : Nat)
  | str (s : List Nat)
  | err (msg : List Nat) (raised : Bool)
  | list (xs : List Val)
  | map (ks : List (List Nat)) (vs : List Val)
  | set (xs : List Val)
  deriving Repr

def ty : Val → Ty
  | .nil => .nil
  | .bool _ => .bool
  | .int _ => .int
  | .float _ => .float
  | .byte _ => .byte
  | .str _ => .str
  | .err _ _ => .err
  | .list _ => .list
  | .map _ _ => .map
  | .set _ => .set

/-- `Bool.Compare`: false < true -/
def boolCmp (x y : Bool) : Int := if x = y then 0 else if x then 1 else -1

/-- `Error.Compare`: by message, then not-raised < raised -/
def errCmp (m : List Nat) (r : Bool) (m' : List Nat) (r' : Bool) : Int :=
  if m = m' ∧ r = r' then 0
  else if cmpBytes m m' = 1 then 1
  else if cmpBytes m m' = -1 then -1
  else if r ∧ ¬ r' then 1
  else if ¬ r ∧ r' then -1
  else 0

/-- the per-type `Compare` methods on non-container values; `none` = type error -/
def scalarCompare (conv : Int → F) : Val → Val → Option Int
  | .nil, .nil => some 0
  | .bool x, .bool y => some (boolCmp x y)
  | .int a, .int b => some (cmpInt a b)
  | .int a, .float f => some (cmpF (conv a) f)
  | .int a, .byte b => some (cmpInt a (Int.ofNat b))
  | .float f, .float g => some (cmpF f g)
  | .float f, .int b => some (cmpF f (conv b))
  | .float f, .byte b => some (cmpF f (conv (Int.ofNat b)))
  | .byte a, .byte b => some (cmpInt (Int.ofNat a) (Int.ofNat b))
  | .byte a, .int b => some (cmpInt (Int.ofNat a) b)
  | .byte a, .float f => some (cmpF (conv (Int.ofNat a)) f)
  | .str a, .str b => some (cmpBytes a b)
  | .err m r, .err m' r' => some (errCmp m r m' r')
  | _, _ => none

/-- the per-type `Equals` methods on non-container values -/
def scalarEquals (conv : Int → F) : Val → Val → Bool
  | .nil, .nil => true
  | .bool x, .bool y => x == y
  | .int a, .int b => a == b
  | .int a, .float f => cmpF (conv a) f == 0
  | .int a, .byte b => a == Int.ofNat b
  | .float f, .float g => cmpF f g == 0
  | .float f, .int b => cmpF f (conv b) == 0
  | .float f, .byte b => cmpF f (conv (Int.ofNat b)) == 0
  | .byte a, .byte b => a == b
  | .byte a, .int b => Int.ofNat a == b
  | .byte a, .float f => cmpF (conv (Int.ofNat a)) f == 0
  | .str a, .str b => a == b
  | .err m r, .err m' r' => m == m' && r == r'
  | _, _ => false

/-! ### hash keys -/

/-- `object.HashKey{Type, FltValue, IntValue, StrValue}` -/
structure HashKey where
  ty : Ty
  flt : F
  int : Int
  str : List Nat
  deriving DecidableEq, Repr

def hashKey : Val → Option HashKey
  | .nil => some ⟨.nil, .fin 0, 0, []⟩
  | .bool b => some ⟨.bool, .fin 0, if b then 1 else 0, []⟩
  | .int i => some ⟨.int, .fin 0, i, []⟩
  | .float f => some ⟨.float, f, 0, []⟩
  | .byte n => some ⟨.byte, .fin 0, Int.ofNat n, []⟩
  | .str s => some ⟨.str, .fin 0, 0, s⟩
  | _ => none

def hashKeys : List Val → List (Option HashKey)
  | [] => []
  | x :: xs => hashKey x :: hashKeys xs

/-! ### Equals, Compare (parametrised by the int→float conversion) -/

mutual
/-- `a.Equals(b)` -/
def equalsG (conv : Int → F) : Val → Val → Bool
  | .list xs, b =>
    (match b with
     | .list ys => xs.length == ys.length && equalsLG conv xs ys
     | _ => false)
  | .map ks vs, b =>
    (match b with
     | .map ks' vs' => decide (ks = ks') && equalsLG conv vs vs'
     | _ => false)
  | .set xs, b =>
    (match b with
     | .set ys => decide (hashKeys xs = hashKeys ys) && equalsLG conv xs ys
     | _ => false)
  | .nil, b => scalarEquals conv .nil b
  | .bool x, b => scalarEquals conv (.bool x) b
  | .int x, b => scalarEquals conv (.int x) b
  | .float x, b => scalarEquals conv (.float x) b
  | .byte x, b => scalarEquals conv (.byte x) b
  | .str x, b => scalarEquals conv (.str x) b
  | .err m r, b => scalarEquals conv (.err m r) b
/-- pointwise `Equals` of two item slices (false when the lengths differ) -/
def equalsLG (conv : Int → F) : List Val → List Val → Bool
  | [], [] => true
  | x :: xs, y :: ys => equalsG conv x y && equalsLG conv xs ys
  | _, _ => false
end

mutual
/-- `a.Compare(b)`; `none` = type error (also: `a` does not implement Comparable) -/
def compareG (conv : Int → F) : Val → Val → Option Int
  | .list xs, b =>
    (match b with
     | .list ys =>
       if xs.length > ys.length then some 1
       else if xs.length < ys.length then some (-1)
       else compareLG conv xs ys
     | _ => none)
  | .map _ _, _ => none
  | .set _, _ => none
  | .nil, b => scalarCompare conv .nil b
  | .bool x, b => scalarCompare conv (.bool x) b
  | .int x, b => scalarCompare conv (.int x) b
  | .float x, b => scalarCompare conv (.float x) b
  | .byte x, b => scalarCompare conv (.byte x) b
  | .str x, b => scalarCompare conv (.str x) b
  | .err m r, b => scalarCompare conv (.err m r) b
/-- the element loop of `List.Compare` (lengths already equal) -/
def compareLG (conv : Int → F) : List Val → List Val → Option Int
  | x :: xs, y :: ys =>
    (match compareG conv x y with
     | none => none
     | some c => if c = 0 then compareLG conv xs ys else some c)
  | _, _ => some 0
end

/-- Impl: the code as it is -/
def equals : Val → Val → Bool := equalsG toF
def compare : Val → Val → Option Int := compareG toF
/-- Spec: numbers compared by their exact values -/
def xequals : Val → Val → Bool := equalsG exactF
def xcompare : Val → Val → Option Int := compareG exactF

/-! ### `Equals` as it is written: `Map.Equals` / `Set.Equals` range over the LEFT items and
look each key up in the RIGHT items (`other.items[k]`; absent → not equal)

`equalsG` above compares the canonical forms pointwise.  `equalsW` below follows the Go
loops: `len(m.items) != len(other.items) → false`, then for every entry `(k, v)` of the left
map the value `other.items[k]` must exist and `v.Equals(otherValue)` must hold (sets: the
same with hash keys).  A map is an association list (parallel key/value lists, distinct
keys), a set an association list from hash keys to items.  `equalsW_eq_equalsG` (Lemmas)
PROVES that the two definitions agree on all well-formed values (`wf`), so every law proved
for `equals` is a law of the loops; `map_eq_iff_entries` (Props) characterises the loop's
result entry by entry. -/

/-- `items[k]` with its `found` flag, on parallel key/value lists -/
def lookupKV {κ : Type} [DecidableEq κ] (k : κ) : List κ → List Val → Option Val
  | k' :: ks, v :: vs => if k = k' then some v else lookupKV k ks vs
  | _, _ => none

/-- the body of the `for k, v := range left { … right[k] … }` loops for an arbitrary value
    equality `eq` (used by the lemmas; `equalsWM`/`equalsWS` are this loop at `equalsW`) -/
def loopAll {κ : Type} [DecidableEq κ] (eq : Val → Val → Bool) :
    List κ → List Val → List κ → List Val → Bool
  | k :: ks, v :: vs, ks', vs' =>
    (match lookupKV k ks' vs' with
     | none => false
     | some v' => eq v v') && loopAll eq ks vs ks' vs'
  | _, _, _, _ => true

mutual
/-- `a.Equals(b)`, following the code of `List.Equals`, `Map.Equals`, `Set.Equals` -/
def equalsWG (conv : Int → F) : Val → Val → Bool
  | .list xs, b =>
    (match b with
     | .list ys => xs.length == ys.length && equalsWL conv xs ys
     | _ => false)
  | .map ks vs, b =>
    (match b with
     | .map ks' vs' => ks.length == ks'.length && equalsWM conv ks vs ks' vs'
     | _ => false)
  | .set xs, b =>
    (match b with
     | .set ys => xs.length == ys.length && equalsWS conv xs ys
     | _ => false)
  | .nil, b => scalarEquals conv .nil b
  | .bool x, b => scalarEquals conv (.bool x) b
  | .int x, b => scalarEquals conv (.int x) b
  | .float x, b => scalarEquals conv (.float x) b
  | .byte x, b => scalarEquals conv (.byte x) b
  | .str x, b => scalarEquals conv (.str x) b
  | .err m r, b => scalarEquals conv (.err m r) b
/-- `for i, v := range ls.items { Equals(v, other.items[i]) }` -/
def equalsWL (conv : Int → F) : List Val → List Val → Bool
  | [], [] => true
  | x :: xs, y :: ys => equalsWG conv x y && equalsWL conv xs ys
  | _, _ => false
/-- `for k, v := range m.items { otherValue, found := other.items[k]; … v.Equals(otherValue) }` -/
def equalsWM (conv : Int → F) : List (List Nat) → List Val → List (List Nat) → List Val → Bool
  | k :: ks, v :: vs, ks', vs' =>
    (match lookupKV k ks' vs' with
     | none => false
     | some v' => equalsWG conv v v') && equalsWM conv ks vs ks' vs'
  | _, _, _, _ => true
/-- `for k, v := range s.items { otherV, ok := other.items[k]; … v.Equals(otherV) }`, `k` the hash key -/
def equalsWS (conv : Int → F) : List Val → List Val → Bool
  | x :: xs, ys =>
    (match lookupKV (hashKey x) (hashKeys ys) ys with
     | none => false
     | some y => equalsWG conv x y) && equalsWS conv xs ys
  | [], _ => true
end

/-- Impl, as written -/
def equalsW : Val → Val → Bool := equalsWG toF
/-- Spec, as written: the same loops over exact-value equality -/
def xequalsW : Val → Val → Bool := equalsWG exactF

/-! #### well-formed values: what the representation of a real `*object.Map` / `*object.Set` satisfies -/

/-- strict order of map keys in the canonical form (Go string `<`) -/
def keyLt (a b : List Nat) : Bool := cmpBytes a b == -1

/-- `lt a b` for every later `b`: strictly sorted (hence distinct) -/
def sortedBy {α : Type} (lt : α → α → Bool) : List α → Bool
  | [] => true
  | a :: rest => rest.all (fun b => lt a b) && sortedBy lt rest

/-- `object.Compare(op.NotEqual, a, b)` = `Not(a.Equals(b))` -/
def notEquals (a b : Val) : Bool := !(equals a b)

/-- `object.Compare(op.LessThan | LessThanOrEqual | GreaterThan | GreaterThanOrEqual, a, b)` -/
def opLt (a b : Val) : Option Bool := (compare a b).map (fun c => decide (c < 0))
def opLe (a b : Val) : Option Bool := (compare a b).map (fun c => decide (c ≤ 0))
def opGt (a b : Val) : Option Bool := (compare a b).map (fun c => decide (c > 0))
def opGe (a b : Val) : Option Bool := (compare a b).map (fun c => decide (c ≥ 0))

/-! ### truthiness, length, membership -/

def truthy : Val → Bool
  | .nil => false
  | .bool b => b
  | .int i => i != 0
  | .float f => f != .fin 0
  | .byte n => n > 0
  | .str s => s != []
  | .err _ _ => true
  | .list xs => xs.length > 0
  | .map ks _ => ks.length > 0
  | .set xs => xs.length > 0

/-- `len(c)` of a container -/
def len : Val → Option Nat
  | .str s => some s.length      -- bytes here; `len` of a string counts runes, zero iff empty
  | .list xs => some xs.length
  | .map ks _ => some ks.length
  | .set xs => some xs.length
  | _ => none

/-- is `pat` a contiguous sub-list of `s` (Go `strings.Contains`) -/
def isPrefix : List Nat → List Nat → Bool
  | [], _ => true
  | _ :: _, [] => false
  | a :: as, b :: bs => a == b && isPrefix as bs

def isInfix (pat : List Nat) : List Nat → Bool
  | [] => pat.isEmpty
  | c :: cs => isPrefix pat (c :: cs) || isInfix pat cs

/-- `container.Contains(x)` (the `in` operator); `none` = not a container -/
def contains : Val → Val → Option Bool
  | .list xs, x => some (xs.any fun v => equals v x)
  | .map ks _, x =>
    (match x with
     | .str s => some (ks.any fun k => k == s)
     | _ => some false)
  | .set xs, x =>
    (match hashKey x with
     | none => some false
     | some k => some (xs.any fun v => hashKey v == some k))
  | .str s, x =>
    (match x with
     | .str p => some (isInfix p s)
     | _ => some false)
  | _, _ => none

/-! ### sorting: `object.Sort` = `sort.SliceStable` with `less(a,b) = (a.Compare(b) == -1)`

For up to 20 items Go's stable sort is one insertion-sort pass
(`for i: for j := i; j > 0 && less(j, j-1); j-- { swap }`); the model is exactly that, on
the *reversed* sorted prefix.  For a `less` that is a strict weak order every stable sorting
algorithm returns the same list, so the model also predicts longer inputs (theorem
`sort_stable`/`sort_sorted`/`sort_perm` characterise that list). -/

/-- insert `x` (the next input item) into the reversed sorted prefix: it moves left past
    every item `y` with `lt x y`, and stops at the first one without -/
def insR {α : Type} (lt : α → α → Bool) (x : α) : List α → List α
  | [] => [x]
  | y :: rest => if lt x y then y :: insR lt x rest else x :: y :: rest

def sortRev {α : Type} (lt : α → α → Bool) (xs : List α) : List α :=
  xs.foldl (fun acc x => insR lt x acc) []

def sortBy {α : Type} (lt : α → α → Bool) (xs : List α) : List α := (sortRev lt xs).reverse

/-- the same pass with a comparison that can fail: the first failing comparison aborts
    (Go records the error, finishes the sort and then discards the result) -/
def insRM {α : Type} (cmp : α → α → Option Bool) (x : α) : List α → Option (List α)
  | [] => some [x]
  | y :: rest =>
    match cmp x y with
    | none => none
    | some true => (insRM cmp x rest).map (y :: ·)
    | some false => some (x :: y :: rest)

def sortRevM {α : Type} (cmp : α → α → Option Bool) : List α → List α → Option (List α)
  | acc, [] => some acc
  | acc, x :: xs =>
    match insRM cmp x acc with
    | none => none
    | some acc' => sortRevM cmp acc' xs

def sortM {α : Type} (cmp : α → α → Option Bool) (xs : List α) : Option (List α) :=
  (sortRevM cmp [] xs).map List.reverse

/-- `less` of `object.Sort` -/
def less (a b : Val) : Bool := compare a b == some (-1)

/-- `less` with the error made visible -/
def lessM (a b : Val) : Option Bool := (compare a b).map (fun c => c == -1)

/-- `builtins.Sorted` on a list (one argument): `none` = error -/
def sorted (xs : List Val) : Option (List Val) := sortM lessM xs

/-! ### set construction: `object.NewSet(items)` / set literals / `set(list)` -/

/-- order of `Set.SortedItems`: by type name, then IntValue, StrValue, FltValue -/
def tyRank : Ty → Nat
  | .bool => 0
  | .byte => 1
  | .err => 2
  | .float => 3
  | .int => 4
  | .list => 5
  | .map => 6
  | .nil => 7
  | .set => 8
  | .str => 9

def hkLess (a b : HashKey) : Bool :=
  if a.ty ≠ b.ty then tyRank a.ty < tyRank b.ty
  else if a.int ≠ b.int then a.int < b.int
  else if a.str ≠ b.str then cmpBytes a.str b.str == -1
  else if a.flt ≠ b.flt then cmpF a.flt b.flt == -1
  else false

/-- replace the item that has the key of `x` by `x` (`s.items[key] = item`, key present) -/
def replaceKey {α : Type} (key : α → HashKey) (x : α) : List α → List α
  | [] => []
  | y :: rest => if key y = key x then x :: rest else y :: replaceKey key x rest

/-- place a new item into the canonical (`SortedItems`) order (key absent) -/
def insertByKey {α : Type} (key : α → HashKey) (x : α) : List α → List α
  | [] => [x]
  | y :: rest => if hkLess (key x) (key y) then x :: y :: rest else y :: insertByKey key x rest

/-- `s.items[key] = item` on the canonical item list -/
def setInsert {α : Type} (key : α → HashKey) (x : α) (l : List α) : List α :=
  if l.any (fun y => key y = key x) then replaceKey key x l else insertByKey key x l

/-- `NewSet(items)` for hashable items -/
def buildSet {α : Type} (key : α → HashKey) (xs : List α) : List α :=
  xs.foldl (fun acc x => setInsert key x acc) []

def allHashable : List Val → Bool
  | [] => true
  | x :: xs => (hashKey x).isSome && allHashable xs

def keyOf (v : Val) : HashKey :=
  match hashKey v with
  | some k => k
  | none => ⟨.nil, .fin 0, 0, []⟩

/-- `NewSet(items)`: `none` = "unhashable" type error -/
def mkSet (xs : List Val) : Option (List Val) :=
  if allHashable xs then some (buildSet keyOf xs) else none

/-- the `SortedItems` order on the hash keys of set items (an unhashable item has no place) -/
def okLt : Option HashKey → Option HashKey → Bool
  | some a, some b => hkLess a b
  | _, _ => false

mutual
/-- well-formed: every map has as many values as keys and strictly sorted (so distinct) keys,
    every set holds hashable items in strict `SortedItems` order (so with distinct hash
    keys) — at every nesting level.  This is what `c15Enc` produces from a real object. -/
def wf : Val → Bool
  | .list xs => wfL xs
  | .map ks vs => ks.length == vs.length && sortedBy keyLt ks && wfL vs
  | .set xs => allHashable xs && sortedBy okLt (hashKeys xs) && wfL xs
  | _ => true
def wfL : List Val → Bool
  | [] => true
  | x :: xs => wf x && wfL xs
end

/-! ## Spec side -/

mutual
/-- guard of the known finding `C15-int-float-lossy-compare`: somewhere in the (pointwise)
    comparison of `a` and `b` an integer that `float64()` does not represent exactly meets a
    float -/
def lossy : Val → Val → Bool
  | .int a, b => (match b with | .float _ => !exactInt a | _ => false)
  | .byte a, b => (match b with | .float _ => !exactInt (Int.ofNat a) | _ => false)
  | .float _, b =>
    (match b with
     | .int a => !exactInt a
     | .byte a => !exactInt (Int.ofNat a)
     | _ => false)
  | .list xs, b => (match b with | .list ys => lossyL xs ys | _ => false)
  | .map _ vs, b => (match b with | .map _ vs' => lossyL vs vs' | _ => false)
  | .set xs, b =>
    (match b with
     | .set ys => decide (hashKeys xs = hashKeys ys) && lossyL xs ys   -- never true for real sets
     | _ => false)
  | _, _ => false
def lossyL : List Val → List Val → Bool
  | x :: xs, y :: ys => lossy x y || lossyL xs ys
  | _, _ => false
end

/-- some two items of the list are in the guard -/
def lossyAny (xs : List Val) : Bool := xs.any fun a => xs.any fun b => lossy a b


/-! ### vocabulary of the property statements -/

/-- non-container values -/
def isScalar : Val → Bool
  | .list _ => false
  | .map _ _ => false
  | .set _ => false
  | _ => true

/-- exact numeric value of a number -/
def nkey : Val → Option F
  | .int i => some (exactF i)
  | .byte n => some (exactF (Int.ofNat n))
  | .float f => some f
  | _ => none

/-- The ordered scalar types. -/
def orderedScalar : Ty → Bool
  | .int | .float | .byte | .str | .bool => true
  | _ => false

/-- mutually comparable: no comparison among the items fails -/
def Comparable (xs : List Val) : Prop := ∀ a ∈ xs, ∀ b ∈ xs, compare a b ≠ none

/-- mutually comparable and outside the guard -/
def Sortable (xs : List Val) : Prop :=
  ∀ a ∈ xs, ∀ b ∈ xs, compare a b ≠ none ∧ lossy a b = false

/-- decidable form of "ordered" -/
def orderedB : List Val → Bool
  | [] => true
  | a :: rest => rest.all (fun b => !less b a) && orderedB rest

/-! ## error objects: what Go can see of the wrapped `error` (`object/error.go`)

An `*object.Error` holds a Go `error` and a raised flag.  Beyond its message a Go error has an
identity (what `==` on the interface value compares: the pointer of an `errors.New` /
`fmt.Errorf` / `errors.Join` / `errz.*Error` value), a Go type, and the errors it wraps
(`Unwrap`), which is what `errors.Is` / `errors.As` and the script functions `errors.is` /
`errors.as` consult.  `Error.Equals` and `Error.Compare` consult none of that: they read
`Message()` and `raised` only.  The model keeps the provenance so that this is a statement. -/

/-- a Go `error` value: identity, Go type (0 `errors.New`, 1 `fmt.Errorf` with `%w`, 2 `errors.Join`,
    3/4/5 `errz.EvalError/ArgsError/TypeError`), message bytes, and the identities of all errors
    reachable from it through `Unwrap` -/
structure GoErr where
  id : Nat
  cls : Nat
  msg : List Nat
  wraps : List Nat
  deriving DecidableEq, Repr

/-- an `*object.Error` -/
structure ErrObj where
  go : GoErr
  raised : Bool
  deriving DecidableEq, Repr

/-- `errors.Is(a, b)` for errors without an `Is` method: `b` is `a` or one of the errors `a` wraps.
    Directional: a wrapper matches what it wraps, never the other way round. -/
def goIs (a b : GoErr) : Bool := a.id == b.id || a.wraps.contains b.id

/-- the script value an error object presents: `Message()` and `IsRaised()` -/
def ErrObj.val (e : ErrObj) : Val := .err e.go.msg e.raised

/-- `Error.Equals` as the code is: equal message and equal raised flag -/
def errObjEquals (a b : ErrObj) : Bool := a.go.msg == b.go.msg && a.raised == b.raised

/-- `Error.Compare` as the code is -/
def errObjCompare (a b : ErrObj) : Int := errCmp a.go.msg a.raised b.go.msg b.raised

/-- an `==` on errors that ALSO accepts `errors.Is(a, b)` (not what the code does: kept to state
    why the provenance must not enter `==`, see `eq_consulting_is_not_symmetric`) -/
def errObjEqualsIs (a b : ErrObj) : Bool :=
  a.raised == b.raised && (a.go.msg == b.go.msg || goIs a.go b.go)

/-! ## containers with a history (`object/set.go`, `object/map.go`)

A set or map OBJECT is reached through a sequence of mutations — `s.add(x)` (`Set.Add`),
`s.remove(x)` (`Set.Remove`), `delete(s, x)` (`Set.DelItem`), `s.clear()`; `m[k] = v`
(`Map.SetItem`/`Set`), `delete(m, k)` (`Map.DelItem`/`Delete`), `m.pop(k)`, `m.setdefault(k, v)`,
`m.clear()` — interleaved with observations (printing, iterating, `list()`, `sorted()`, `keys()`,
JSON, `==`, `in`, `len`).  The code keeps ONE piece of state per object, the Go map `items`; the
order-based view (`SortedItems`/`SortedKeys`: iteration, `list`, `sorted`, printing) is recomputed
from it on every call and the hash-based view (`in`, `len`, truthiness) reads it directly.  The
model state is the canonical item list; an observation leaves it unchanged. -/

inductive SetOp (α : Type) where
  | add (x : α)
  | remove (x : α)
  | del (x : α)
  | clear
  | observe
  deriving Repr

/-- one operation on a set: the new canonical item list and whether the call succeeded
    (`false` = "unhashable" type error, set unchanged) -/
def setStep {α : Type} (hashable : α → Bool) (key : α → HashKey) (s : List α) : SetOp α → List α × Bool
  | .add x => if hashable x then (setInsert key x s, true) else (s, false)
  | .remove x => if hashable x then (s.filter (fun y => decide (key y ≠ key x)), true) else (s, false)
  | .del x => if hashable x then (s.filter (fun y => decide (key y ≠ key x)), true) else (s, false)
  | .clear => ([], true)
  | .observe => (s, true)

/-- the set after a history -/
def setRun {α : Type} (hashable : α → Bool) (key : α → HashKey) (s : List α) (ops : List (SetOp α)) : List α :=
  ops.foldl (fun s o => (setStep hashable key s o).1) s

/-- the state and the success flag after every operation of a history -/
def setTrace {α : Type} (hashable : α → Bool) (key : α → HashKey) : List α → List (SetOp α) → List (List α × Bool)
  | _, [] => []
  | s, o :: ops => setStep hashable key s o :: setTrace hashable key (setStep hashable key s o).1 ops

def isHashable (v : Val) : Bool := (hashKey v).isSome

/-- Impl: a history on a set of values -/
def setHist (s : List Val) (ops : List (SetOp Val)) : List Val := setRun isHashable keyOf s ops

/-- Spec of membership after a history: the last operation that mentions the key decides
    (`add` → present, `remove`/`delete` → absent, `clear` → absent for every key); operations
    with an unhashable argument and observations decide nothing -/
def specMember (init : List Val) (ops : List (SetOp Val)) (k : HashKey) : Bool :=
  ops.foldl (fun m o =>
    match o with
    | .add x => if hashKey x = some k then true else m
    | .remove x => if hashKey x = some k then false else m
    | .del x => if hashKey x = some k then false else m
    | .clear => false
    | .observe => m) (init.any (fun y => decide (keyOf y = k)))

inductive MapOp (α : Type) where
  | set (k : List Nat) (v : α)
  | del (k : List Nat)
  | pop (k : List Nat)
  | setdefault (k : List Nat) (v : α)
  | badkey
  | clear
  | observe
  deriving Repr

/-- `m.items[k] = v` on the canonical entry list (sorted by key) -/
def mapPut {α : Type} (k : List Nat) (v : α) : List (List Nat × α) → List (List Nat × α)
  | [] => [(k, v)]
  | e :: rest =>
    if k = e.1 then (k, v) :: rest
    else if keyLt k e.1 then (k, v) :: e :: rest
    else e :: mapPut k v rest

/-- one operation on a map: the new canonical entry list and whether the call succeeded
    (`badkey`: `m[1] = v` / `delete(m, 1)` with a non-string key — type error, map unchanged) -/
def mapStep {α : Type} (es : List (List Nat × α)) : MapOp α → List (List Nat × α) × Bool
  | .set k v => (mapPut k v es, true)
  | .del k => (es.filter (fun e => decide (e.1 ≠ k)), true)
  | .pop k => (es.filter (fun e => decide (e.1 ≠ k)), true)
  | .setdefault k v => if es.any (fun e => decide (e.1 = k)) then (es, true) else (mapPut k v es, true)
  | .badkey => (es, false)
  | .clear => ([], true)
  | .observe => (es, true)

def mapRun {α : Type} (es : List (List Nat × α)) (ops : List (MapOp α)) : List (List Nat × α) :=
  ops.foldl (fun es o => (mapStep es o).1) es

def mapTrace {α : Type} : List (List Nat × α) → List (MapOp α) → List (List (List Nat × α) × Bool)
  | _, [] => []
  | es, o :: ops => mapStep es o :: mapTrace (mapStep es o).1 ops

/-- the map value of an entry list -/
def mapVal (es : List (List Nat × Val)) : Val := .map (es.map (·.1)) (es.map (·.2))

/-- Spec of key membership after a history: the last operation that mentions the key decides -/
def specHasKey (init : List (List Nat × Val)) (ops : List (MapOp Val)) (k : List Nat) : Bool :=
  ops.foldl (fun m o =>
    match o with
    | .set k' _ => if k' = k then true else m
    | .del k' => if k' = k then false else m
    | .pop k' => if k' = k then false else m
    | .setdefault k' _ => if k' = k then true else m
    | .badkey => m
    | .clear => false
    | .observe => m) (init.any (fun e => decide (e.1 = k)))

end Risor.C15
