import RisorModel.C15.Lemmas
import RisorModel.C15.LemmasW
import RisorModel.C15.LemmasH
set_option linter.unusedSimpArgs false
set_option linter.unnecessarySimpa false
/-!
C15 — equality, ordering and hashing of values obey their algebraic laws.

All theorems are about the Impl model of `RisorModel/C15/Model.lean` (`equals`, `compare`,
`hashKey`, `contains`, `sorted`, `mkSet`, `truthy` = the functions at the conversion
`toF`, Go's `float64(int64)`), for ALL model values: arbitrary nesting depth and length,
every int and every float64 other than NaN (NaN has no model value, as the property
excludes it).  Where the unchanged code violates the property's text the full statement is
kept as a `def … : Prop`, refuted by a concrete witness, and proved under the decidable
guard `lossy` (an integer that `float64()` does not represent exactly is compared with a
float somewhere in the pointwise comparison of the two values).
-/
namespace Risor.C15

/-! ## `==` -/

/-- `==` is reflexive: for every value `v` (NaN excluded by construction), `v == v`. -/
theorem eq_refl (v : Val) : equals v v = true := equalsG_refl toF v

/-- `==` is symmetric: for all values `a b` of any types, `a == b` and `b == a` agree. -/
theorem eq_symm (a b : Val) : equals a b = equals b a := equalsG_symm toF a b

/-- `!=` is the exact negation of `==`, for all values. -/
theorem ne_is_not_eq (a b : Val) : notEquals a b = !(equals a b) := rfl

/-- The full statement of "`==` is transitive within a type": for all values of one type. -/
def C15_full_eq_trans_same_type : Prop :=
  ∀ a b c : Val, ty a = ty b → ty b = ty c →
    equals a b = true → equals b c = true → equals a c = true

/-- The unchanged code violates it: the three lists `[2^53+1]`, `[2^53 as float]`, `[2^53]`. -/
theorem C15_counterexample_eq_trans : ¬ C15_full_eq_trans_same_type := by
  intro h
  have := h (.list [.int 9007199254740993]) (.list [.float (exactF 9007199254740992)])
    (.list [.int 9007199254740992]) rfl rfl (by decide +kernel) (by decide +kernel)
  revert this
  decide +kernel

/-- Outside the guard `==` is transitive — for values of ANY types, not only within one
    type: for all `a b c` such that no pair of them is in the guard. -/
theorem C15_partial_eq_trans (a b c : Val)
    (gab : lossy a b = false) (gbc : lossy b c = false) (gac : lossy a c = false)
    (hab : equals a b = true) (hbc : equals b c = true) : equals a c = true := by
  unfold equals at *
  rw [(agree_outside_guard a b gab).2] at hab
  rw [(agree_outside_guard b c gbc).2] at hbc
  rw [(agree_outside_guard a c gac).2, xequals_congr a b hab c]
  exact hbc

/-- Within every non-container type (int, float, byte, string, bool, nil, error) `==` is
    transitive without any guard. -/
theorem eq_trans_scalar_same_type (a b c : Val) (hs : isScalar a = true)
    (hab : ty a = ty b) (hbc : ty b = ty c)
    (h1 : equals a b = true) (h2 : equals b c = true) : equals a c = true := by
  have hsb : isScalar b = true := isScalar_of_ty hab hs
  exact C15_partial_eq_trans a b c (lossy_scalar_same_ty hs hab) (lossy_scalar_same_ty hsb hbc)
    (lossy_scalar_same_ty hs (hab.trans hbc)) h1 h2

/-! ## ordering -/

/-- `Compare` is antisymmetric for ALL pairs of values, of equal or different types:
    `b.Compare(a) = -a.Compare(b)`, and one fails (type error) exactly when the other does. -/
theorem compare_antisymm (a b : Val) : compare b a = (compare a b).map (fun c => -c) :=
  compareG_antisymm toF a b

/-- `Compare` only ever returns -1, 0 or 1. -/
theorem compare_range (a b : Val) (c : Int) (h : compare a b = some c) : c = -1 ∨ c = 0 ∨ c = 1 :=
  compareG_range toF a b c h

/-- Across numeric types (and in fact for all values) the code never reports both `a < b`
    and `b < a`. -/
theorem lt_asymm_mixed (a b : Val) : ¬ (opLt a b = some true ∧ opLt b a = some true) := by
  unfold opLt
  rw [compare_antisymm a b]
  cases compare a b with
  | none => simp
  | some c => simp; omega

/-- `>` and `>=` are `<` and `<=` with the operands exchanged, for all values. -/
theorem op_dual (a b : Val) : opGt a b = opLt b a ∧ opGe a b = opLe b a := by
  unfold opGt opLt opGe opLe
  rw [compare_antisymm a b]
  cases compare a b with
  | none => simp
  | some c => simp <;> constructor <;> (rw [Bool.eq_iff_iff]; simp; omega)

/-- The ordering agrees with `==` wherever it is defined (so in particular within each of
    int, float, byte, string, bool and list): `a.Compare(b) = 0` exactly when `a == b`. -/
theorem compare_agrees_eq (a b : Val) (c : Int) (h : compare a b = some c) :
    c = 0 ↔ equals a b = true := compareG_zero_iff_equals toF a b c h

/-- `<=` and `>=` together are `==`, and `<` is `<=` without `>=`, wherever defined. -/
theorem le_antisymm_iff_eq (a b : Val) (c : Int) (h : compare a b = some c) :
    ((opLe a b = some true ∧ opLe b a = some true) ↔ equals a b = true) ∧
    (opLt a b = some true ↔ (opLe a b = some true ∧ opLe b a = some false)) := by
  have hz := compare_agrees_eq a b c h
  have hr := compare_range a b c h
  unfold opLe opLt
  rw [compare_antisymm a b, h]
  simp
  constructor
  · rw [← hz]; omega
  · omega

/-- Totality within each ordered scalar type (and across int/float/byte): the comparison
    never fails, and one of `a <= b`, `b <= a` holds. -/
theorem compare_total_scalar (a b : Val) (h : ty a = ty b) (ho : orderedScalar (ty a) = true) :
    ∃ c, compare a b = some c ∧ (opLe a b = some true ∨ opLe b a = some true) := by
  have : ∃ c, compare a b = some c := by
    cases a <;> cases b <;> simp_all [ty, orderedScalar, compare, compareG, scalarCompare]
  obtain ⟨c, hc⟩ := this
  refine ⟨c, hc, ?_⟩
  unfold opLe
  rw [compare_antisymm a b, hc]
  simp; omega

/-- The three numeric types are mutually comparable. -/
theorem compare_total_numeric (a b : Val) (ha : (nkey a).isSome = true) (hb : (nkey b).isSome = true) :
    ∃ c, compare a b = some c := by
  cases a <;> cases b <;> simp_all [nkey, compare, compareG, scalarCompare]

/-- `<=` is reflexive wherever `Compare` is defined: `a.Compare(a) = 0`. -/
theorem compare_refl (a : Val) (c : Int) (h : compare a a = some c) : c = 0 :=
  (compare_agrees_eq a a c h).2 (eq_refl a)

/-- The full statement of "`<=` is transitive within a type" (wherever the comparisons
    involved are defined). -/
def C15_full_le_trans_same_type : Prop :=
  ∀ a b c : Val, ty a = ty b → ty b = ty c →
    opLe a b = some true → opLe b c = some true → opLe a c = some true

/-- The unchanged code violates it within the type list: `[2^53+1] <= [2^53.0] <= [2^53]`
    but not `[2^53+1] <= [2^53]`. -/
theorem C15_counterexample_le_trans : ¬ C15_full_le_trans_same_type := by
  intro h
  have := h (.list [.int 9007199254740993]) (.list [.float (exactF 9007199254740992)])
    (.list [.int 9007199254740992]) rfl rfl (by decide +kernel) (by decide +kernel)
  revert this
  decide +kernel

/-- Outside the guard `<=` is transitive, for values of any types (hence within int, float,
    byte, string, bool and list, and across the numeric types), and the comparison of the
    outer pair is defined whenever the two inner ones are. -/
theorem C15_partial_le_trans (a b c : Val)
    (gab : lossy a b = false) (gbc : lossy b c = false) (gac : lossy a c = false)
    (hab : opLe a b = some true) (hbc : opLe b c = some true) : opLe a c = some true := by
  unfold opLe compare at *
  rw [(agree_outside_guard a b gab).1] at hab
  rw [(agree_outside_guard b c gbc).1] at hbc
  rw [(agree_outside_guard a c gac).1]
  cases e1 : compareG exactF a b with
  | none => rw [e1] at hab; simp at hab
  | some d1 =>
  cases e2 : compareG exactF b c with
  | none => rw [e2] at hbc; simp at hbc
  | some d2 =>
  rw [e1] at hab; rw [e2] at hbc
  simp at hab hbc
  obtain ⟨d3, h3, l3, _⟩ := xcompare_le_trans e1 e2 hab hbc
  rw [h3]; simp; exact l3

/-- Within every non-container type `<=` is transitive without any guard. -/
theorem le_trans_scalar_same_type (a b c : Val) (hs : isScalar a = true)
    (hab : ty a = ty b) (hbc : ty b = ty c)
    (h1 : opLe a b = some true) (h2 : opLe b c = some true) : opLe a c = some true := by
  have hsb : isScalar b = true := isScalar_of_ty hab hs
  exact C15_partial_le_trans a b c (lossy_scalar_same_ty hs hab) (lossy_scalar_same_ty hsb hbc)
    (lossy_scalar_same_ty hs (hab.trans hbc)) h1 h2

/-! ## hashing, sets, membership -/

/-- Within a type, two hashable values are `==` exactly when their hash keys are equal
    (and values of different types never share a key). -/
theorem hash_eq_same_type (a b : Val) (ka kb : HashKey)
    (ha : hashKey a = some ka) (hb : hashKey b = some kb) :
    ka = kb ↔ (ty a = ty b ∧ equals a b = true) := hashKey_eq_iff toF ha hb

/-- Values of one type that are `==` occupy a single slot: in the set built from ANY list of
    items no two different slots hold values of one type that are `==`. -/
theorem set_single_slot (xs s : List Val) (h : mkSet xs = some s) :
    s.Pairwise (fun a b => ¬ (ty a = ty b ∧ equals a b = true)) := by
  unfold mkSet at h
  split at h
  · rename_i hh
    simp at h; subst h
    have hn := buildSet_nodup keyOf xs
    unfold List.Nodup at hn
    rw [List.pairwise_map] at hn
    refine List.Pairwise.imp_of_mem ?_ hn
    intro a b ha hb hne hc
    apply hne
    have ha' := allHashable_mem hh a (buildSet_mem keyOf xs ha)
    have hb' := allHashable_mem hh b (buildSet_mem keyOf xs hb)
    exact (hash_eq_same_type a b _ _ ha' hb').2 hc
  · contradiction

/-- Membership in a set agrees with iterating the items it was built from and comparing
    within the type of the probe: `v in set(xs)` iff some `x` in `xs` has `v`'s type and
    `x == v`.  For all item lists and all probes (unhashable probes are never members). -/
theorem set_in_iff_exists_eq_same_type (xs s : List Val) (v : Val) (h : mkSet xs = some s) :
    contains (.set s) v = some true ↔ ∃ x ∈ xs, ty x = ty v ∧ equals x v = true := by
  unfold mkSet at h
  split at h
  · rename_i hh
    simp at h; subst h
    cases hv : hashKey v with
    | none =>
      simp only [contains, hv, Option.some.injEq, Bool.false_eq_true, false_iff]
      rintro ⟨x, hx, ht, _⟩
      have := hashable_of_ty ht
      rw [allHashable_mem hh x hx, hv] at this
      simp at this
    | some k =>
      simp only [contains, hv, Option.some.injEq, List.any_eq_true, beq_iff_eq]
      constructor
      · rintro ⟨w, hw, hk⟩
        have hmem : k ∈ (buildSet keyOf xs).map keyOf := by
          refine List.mem_map.2 ⟨w, hw, ?_⟩
          have := allHashable_mem hh w (buildSet_mem keyOf xs hw)
          rw [this] at hk; exact Option.some.inj hk
        rw [buildSet_mem_keys] at hmem
        obtain ⟨x, hx, hxk⟩ := List.mem_map.1 hmem
        refine ⟨x, hx, ?_⟩
        have hx' := allHashable_mem hh x hx
        exact (hash_eq_same_type x v _ _ hx' hv).1 hxk
      · rintro ⟨x, hx, ht, he⟩
        have hx' := allHashable_mem hh x hx
        have hk : keyOf x = k := (hash_eq_same_type x v _ _ hx' hv).2 ⟨ht, he⟩
        have hmem : k ∈ (buildSet keyOf xs).map keyOf := by
          rw [buildSet_mem_keys]; exact List.mem_map.2 ⟨x, hx, hk⟩
        obtain ⟨w, hw, hwk⟩ := List.mem_map.1 hmem
        refine ⟨w, hw, ?_⟩
        rw [allHashable_mem hh w (buildSet_mem keyOf xs hw), hwk]
  · contradiction

/-- `v in list` agrees with iterating and comparing with `==` (any types). -/
theorem list_in_iff_exists_eq (xs : List Val) (v : Val) :
    contains (.list xs) v = some true ↔ ∃ x ∈ xs, equals x v = true := by
  simp [contains]

/-- `v in map` agrees with iterating the keys and comparing them with `v`. -/
theorem map_in_iff_exists_eq (ks : List (List Nat)) (vs : List Val) (v : Val) :
    contains (.map ks vs) v = some true ↔ ∃ k ∈ ks, equals (.str k) v = true := by
  cases v <;> simp [contains, equals, equalsG, scalarEquals]

/-- A container (string, list, map, set) is truthy exactly when its length is non-zero. -/
theorem truthy_iff_len_pos (v : Val) (n : Nat) (h : len v = some n) :
    truthy v = true ↔ n ≠ 0 := by
  cases v <;> simp [len] at h <;> subst h <;> simp [truthy, List.length_pos_iff]

/-! ## maps and sets: `==` as the code computes it

`equals` (used above) compares the canonical forms of maps and sets pointwise.  The code
does something else: `Map.Equals` and `Set.Equals` test the sizes and then range over the
LEFT operand's entries, looking each key up in the RIGHT operand (`equalsW`, Model.lean).
The theorems below are about that loop, for all well-formed values (`wf`: distinct, sorted
keys at every nesting level — what the harness's encoder produces from a real object). -/

/-- `Equals` as written (size test + range-and-lookup loops, at every nesting level) computes
    the same result as the pointwise comparison of canonical forms, for ALL well-formed
    values `a b` of any types — so every law of `equals` in this file is a law of the loops. -/
theorem equals_as_written (a b : Val) (ha : wf a = true) (hb : wf b = true) :
    equalsW a b = equals a b := equalsWG_eq_equalsG toF a ha b hb

/-- `==` as written is reflexive on every well-formed value (in particular every map and
    every set, nested containers included). -/
theorem eqW_refl (v : Val) (h : wf v = true) : equalsW v v = true := by
  rw [equals_as_written v v h h]; exact eq_refl v

/-- `==` as written is SYMMETRIC for all well-formed values of any types: the result of the
    loop over `a`'s entries with lookups in `b` equals the result of the loop over `b`'s
    entries with lookups in `a`. -/
theorem eqW_symm (a b : Val) (ha : wf a = true) (hb : wf b = true) :
    equalsW a b = equalsW b a := by
  rw [equals_as_written a b ha hb, equals_as_written b a hb ha]; exact eq_symm a b

/-- `Map.Equals` is reflexive: for every well-formed map (any keys, any nested values). -/
theorem map_eq_refl (ks : List (List Nat)) (vs : List Val) (h : wf (.map ks vs) = true) :
    equalsW (.map ks vs) (.map ks vs) = true := eqW_refl _ h

/-- `Map.Equals` is symmetric: for all pairs of well-formed maps — equal or different key
    sets, equal or different sizes, any values (nil included). -/
theorem map_eq_symm (ks ks' : List (List Nat)) (vs vs' : List Val)
    (h : wf (.map ks vs) = true) (h' : wf (.map ks' vs') = true) :
    equalsW (.map ks vs) (.map ks' vs') = equalsW (.map ks' vs') (.map ks vs) :=
  eqW_symm _ _ h h'

/-- `Map.Equals` agrees with the entry-by-entry comparison: two well-formed maps are `==`
    exactly when their key SETS are equal and the values under every key are `==`.  (A key
    bound to nil on one side never matches an absent key on the other.) -/
theorem map_eq_iff_entries (ks ks' : List (List Nat)) (vs vs' : List Val)
    (h : wf (.map ks vs) = true) (h' : wf (.map ks' vs') = true) :
    equalsW (.map ks vs) (.map ks' vs') = true ↔
      (∀ k, k ∈ ks ↔ k ∈ ks') ∧
      (∀ k v v', lookupKV k ks vs = some v → lookupKV k ks' vs' = some v' → equalsW v v' = true) :=
  equalsWG_map_iff_entries toF h h'

/-- The full statement "`==` on maps is transitive" … -/
def C15_full_map_eq_trans : Prop :=
  ∀ a b c : Val, ty a = .map → ty b = .map → ty c = .map → wf a = true → wf b = true → wf c = true →
    equalsW a b = true → equalsW b c = true → equalsW a c = true

/-- … is violated by the unchanged code through the known int/float defect:
    `{"k": 2^53+1} == {"k": 2^53.0} == {"k": 2^53}` but `{"k": 2^53+1} != {"k": 2^53}`. -/
theorem C15_counterexample_map_eq_trans : ¬ C15_full_map_eq_trans := by
  intro h
  have := h (.map [[107]] [.int 9007199254740993]) (.map [[107]] [.float (exactF 9007199254740992)])
    (.map [[107]] [.int 9007199254740992]) rfl rfl rfl (by decide +kernel) (by decide +kernel)
    (by decide +kernel) (by decide +kernel) (by decide +kernel)
  revert this
  decide +kernel

/-- Outside the guard `==` as written is transitive, for all well-formed values (maps, sets,
    lists of them, …). -/
theorem eqW_trans (a b c : Val) (ha : wf a = true) (hb : wf b = true) (hc : wf c = true)
    (gab : lossy a b = false) (gbc : lossy b c = false) (gac : lossy a c = false)
    (hab : equalsW a b = true) (hbc : equalsW b c = true) : equalsW a c = true := by
  rw [equals_as_written _ _ ha hb] at hab
  rw [equals_as_written _ _ hb hc] at hbc
  rw [equals_as_written _ _ ha hc]
  exact C15_partial_eq_trans a b c gab gbc gac hab hbc

/-- `Map.Equals` is transitive outside the guard: for all well-formed maps. -/
theorem map_eq_trans (ks ks' ks'' : List (List Nat)) (vs vs' vs'' : List Val)
    (h : wf (.map ks vs) = true) (h' : wf (.map ks' vs') = true) (h'' : wf (.map ks'' vs'') = true)
    (g1 : lossy (.map ks vs) (.map ks' vs') = false) (g2 : lossy (.map ks' vs') (.map ks'' vs'') = false)
    (g3 : lossy (.map ks vs) (.map ks'' vs'') = false)
    (e1 : equalsW (.map ks vs) (.map ks' vs') = true) (e2 : equalsW (.map ks' vs') (.map ks'' vs'') = true) :
    equalsW (.map ks vs) (.map ks'' vs'') = true := eqW_trans _ _ _ h h' h'' g1 g2 g3 e1 e2

/-- The Spec as written (the same loops over exact-value equality) is transitive without any
    guard, for all well-formed values. -/
theorem spec_eqW_trans (a b c : Val) (ha : wf a = true) (hb : wf b = true) (hc : wf c = true)
    (hab : xequalsW a b = true) (hbc : xequalsW b c = true) : xequalsW a c = true := by
  unfold xequalsW at *
  rw [equalsWG_eq_equalsG exactF a ha b hb] at hab
  rw [equalsWG_eq_equalsG exactF b hb c hc] at hbc
  rw [equalsWG_eq_equalsG exactF a ha c hc]
  rw [xequals_congr a b hab c]; exact hbc

/-- `Set.Equals` is reflexive and symmetric: for all well-formed sets. -/
theorem set_eq_refl (xs : List Val) (h : wf (.set xs) = true) : equalsW (.set xs) (.set xs) = true :=
  eqW_refl _ h

theorem set_eq_symm (xs ys : List Val) (h : wf (.set xs) = true) (h' : wf (.set ys) = true) :
    equalsW (.set xs) (.set ys) = equalsW (.set ys) (.set xs) := eqW_symm _ _ h h'

/-- `Set.Equals` is transitive without any guard (set items are scalars of distinct hash keys;
    an int never meets a float under one hash key): for all well-formed sets. -/
theorem set_eq_trans (xs ys zs : List Val) (h : wf (.set xs) = true) (h' : wf (.set ys) = true)
    (h'' : wf (.set zs) = true) (e1 : equalsW (.set xs) (.set ys) = true)
    (e2 : equalsW (.set ys) (.set zs) = true) : equalsW (.set xs) (.set zs) = true := by
  unfold equalsW at *
  rw [equalsWG_set_iff_keys toF h h'] at e1
  rw [equalsWG_set_iff_keys toF h' h''] at e2
  rw [equalsWG_set_iff_keys toF h h'']
  exact fun k => (e1 k).trans (e2 k)

/-- `Set.Equals` agrees with item-by-item comparison: two well-formed sets are `==` exactly
    when every item of each is `in` the other. -/
theorem set_eq_iff_members (xs ys : List Val) (h : wf (.set xs) = true) (h' : wf (.set ys) = true) :
    equalsW (.set xs) (.set ys) = true ↔
      (∀ x ∈ xs, contains (.set ys) x = some true) ∧ (∀ y ∈ ys, contains (.set xs) y = some true) := by
  unfold equalsW
  rw [equalsWG_set_iff_keys toF h h']
  simp only [wf, Bool.and_eq_true] at h h'
  have hx : ∀ x ∈ xs, (hashKey x).isSome = true := fun x m => by rw [allHashable_mem h.1.1 x m]; rfl
  have hy : ∀ y ∈ ys, (hashKey y).isSome = true := fun y m => by rw [allHashable_mem h'.1.1 y m]; rfl
  constructor
  · intro hk
    constructor
    · intro x m
      rw [contains_set_iff (hx x m), ← hk, hashKeys_eq_map]
      exact List.mem_map.2 ⟨x, m, rfl⟩
    · intro y m
      rw [contains_set_iff (hy y m), hk, hashKeys_eq_map]
      exact List.mem_map.2 ⟨y, m, rfl⟩
  · rintro ⟨h1, h2⟩ k
    rw [hashKeys_eq_map, hashKeys_eq_map]
    constructor
    · intro m
      obtain ⟨x, mx, rfl⟩ := List.mem_map.1 m
      rw [← hashKeys_eq_map, ← contains_set_iff (hx x mx)]
      exact h1 x mx
    · intro m
      obtain ⟨y, my, rfl⟩ := List.mem_map.1 m
      rw [← hashKeys_eq_map, ← contains_set_iff (hy y my)]
      exact h2 y my

/-! ## sorted() -/

/-- Whenever `sorted()` returns (no comparison failed), the result is a permutation of the
    input — for every input list, comparable or not, inside or outside the guard. -/
theorem sorted_perm (xs ys : List Val) (h : sorted xs = some ys) : ys.Perm xs := sortM_perm h

/-- `sorted()` succeeds on mutually comparable input (inside or outside the guard), and
    returns what the stable insertion pass by `less` returns. -/
theorem sorted_succeeds (xs : List Val) (h : Comparable xs) : sorted xs = some (sortBy less xs) :=
  sortM_eq xs (lessM_eq h)

/-- The full statement "the output of sorted() on mutually comparable input is ordered". -/
def C15_full_sorted_ordered : Prop :=
  ∀ xs ys : List Val, (∀ a ∈ xs, ∀ b ∈ xs, compare a b ≠ none) → sorted xs = some ys →
    ys.Pairwise (fun a b => less b a = false)

/-- The unchanged code violates it: `sorted([2^53+1, 2^53.0, 2^53])` returns its input,
    whose last item is `<` its first. -/
theorem C15_counterexample_sorted : ¬ C15_full_sorted_ordered := by
  intro h
  have hc : Comparable [.int 9007199254740993, .float (exactF 9007199254740992), .int 9007199254740992] := by
    intro a ha b hb
    simp only [List.mem_cons, List.mem_nil_iff, or_false] at ha hb
    rcases ha with rfl | rfl | rfl <;> rcases hb with rfl | rfl | rfl <;> decide +kernel
  have := (orderedB_iff _).2 (h _ _ hc (sorted_succeeds _ hc))
  revert this
  decide +kernel

/-- Outside the guard the output is ordered: no later item is `<` an earlier one. For all
    mutually comparable lists of any length. -/
theorem C15_partial_sorted_ordered (xs ys : List Val) (h : Sortable xs) (hs : sorted xs = some ys) :
    ys.Pairwise (fun a b => less b a = false) := by
  rw [sorted_succeeds xs h.comparable] at hs
  simp at hs; subst hs
  exact sortBy_sorted (less_swo h) xs (fun y hy => hy)

/-- … and stable: for every item `e` of the input, the items that compare equal to `e`
    appear in the output in their input order. -/
theorem C15_partial_sorted_stable (xs ys : List Val) (h : Sortable xs) (hs : sorted xs = some ys)
    (e : Val) (he : e ∈ xs) :
    ys.filter (fun w => !less e w && !less w e) = xs.filter (fun w => !less e w && !less w e) := by
  rw [sorted_succeeds xs h.comparable] at hs
  simp at hs; subst hs
  refine sortBy_stable (S := fun v => v ∈ xs) _ ?_ xs (fun y hy => hy)
  intro x y hx hy hpx hxy
  simp only [Bool.and_eq_true, Bool.not_eq_true'] at hpx
  have hnt := (less_swo h).negtrans x e y hx he hy hpx.2
  cases hey : less e y with
  | true => simp
  | false => rw [hnt hey] at hxy; contradiction

/-- … and idempotent: sorting the output again returns it unchanged. -/
theorem C15_partial_sorted_idempotent (xs ys : List Val) (h : Sortable xs) (hs : sorted xs = some ys) :
    sorted ys = some ys := by
  have hp := sorted_perm xs ys hs
  have h' : Sortable ys := fun a ha b hb => h a (hp.mem_iff.1 ha) b (hp.mem_iff.1 hb)
  rw [sorted_succeeds ys h'.comparable, sortBy_of_sorted ys (C15_partial_sorted_ordered xs ys h hs)]

/-- Lists of one non-container ordered type are always sortable (no guard needed). -/
theorem sortable_same_scalar_type (xs : List Val) (t : Ty) (ho : orderedScalar t = true)
    (h : ∀ a ∈ xs, ty a = t) : Sortable xs := by
  intro a ha b hb
  have hta := h a ha
  have htb := h b hb
  have hs : isScalar a = true := isScalar_of_ordered (by rw [hta]; exact ho)
  refine ⟨?_, lossy_scalar_same_ty hs (hta.trans htb.symm)⟩
  obtain ⟨c, hc, _⟩ := compare_total_scalar a b (hta.trans htb.symm) (by rw [hta]; exact ho)
  rw [hc]; simp

/-! ## the int → float conversion -/

/-- Go's `float64(int64)` (round to nearest, ties to even, 53 significant bits) is monotone:
    for ALL integers `i ≤ j`, `float64(i) ≤ float64(j)`. -/
theorem toFloat_monotone (i j : Int) (h : i ≤ j) : cmpF (toF i) (toF j) ≤ 0 := toF_mono h

/-- Hence comparisons between ints and floats never invert the order of the integers: if a
    float is `<` an int it is `<` every larger int, and if an int is `<` a float so is every
    smaller int.  For all floats and all integers. -/
theorem mixed_order_consistent (f : F) (i j : Int) (h : i ≤ j) :
    (compare (.float f) (.int i) = some (-1) → compare (.float f) (.int j) = some (-1)) ∧
    (compare (.int j) (.float f) = some (-1) → compare (.int i) (.float f) = some (-1)) := by
  have hm := toF_mono h
  simp only [compare, compareG, scalarCompare, Option.some.injEq]
  constructor
  · intro h1; exact cmpF_lt_of_lt_of_le h1 hm
  · intro h1
    rcases cmpF_range (toF i) (toF j) with e | e | e
    · exact cmpF_lt_trans e h1
    · have := cmpF_eq_zero.1 e; rw [this]; exact h1
    · omega

/-- Integers of magnitude up to 2^53 are converted exactly, so the guard `lossy` can only
    fire for |i| > 2^53. -/
theorem guard_only_beyond_2_53 (i : Int) (f : F) (h : i.natAbs ≤ 2 ^ 53) :
    lossy (.int i) (.float f) = false ∧ lossy (.float f) (.int i) = false := by
  simp [lossy, exactInt_of_abs_le h]

/-! ## Impl against Spec -/

/-- Refinement: outside the guard the code (Impl) computes exactly the comparison and the
    equality of the exact numeric values (Spec), for all values of any nesting. -/
theorem impl_eq_spec_outside_guard (a b : Val) (h : lossy a b = false) :
    compare a b = xcompare a b ∧ equals a b = xequals a b := agree_outside_guard a b h

/-- The Spec satisfies the property without any guard: exact-value `==` is transitive for
    all values of all types … -/
theorem spec_eq_trans (a b c : Val) (h1 : xequals a b = true) (h2 : xequals b c = true) :
    xequals a c = true := by
  unfold xequals at *
  rw [xequals_congr a b h1 c]; exact h2

/-- … and exact-value `<=` is transitive for all values (the outer comparison is defined
    whenever the inner two are). -/
theorem spec_le_trans (a b c : Val) (d1 d2 : Int) (h1 : xcompare a b = some d1)
    (h2 : xcompare b c = some d2) (l1 : d1 ≤ 0) (l2 : d2 ≤ 0) :
    ∃ d3, xcompare a c = some d3 ∧ d3 ≤ 0 := by
  obtain ⟨d3, h3, l3, _⟩ := xcompare_le_trans h1 h2 l1 l2
  exact ⟨d3, h3, l3⟩

/-! ## non-vacuity: the guards and hypotheses are satisfiable by non-trivial inputs -/

/-- a mixed int/float/byte triple outside the guard that is really `==` -/
example : lossy (.int 1) (.float (exactF 1)) = false ∧ lossy (.float (exactF 1)) (.byte 1) = false ∧
    equals (.int 1) (.float (exactF 1)) = true ∧ equals (.float (exactF 1)) (.byte 1) = true := by
  decide +kernel

/-- nested lists with mixed numbers outside the guard, strictly ordered -/
example : lossy (.list [.int 1, .list [.float (exactF 2)]]) (.list [.byte 1, .list [.int 3]]) = false ∧
    opLt (.list [.int 1, .list [.float (exactF 2)]]) (.list [.byte 1, .list [.int 3]]) = some true := by
  decide +kernel

/-- a sortable list mixing the three numeric types, and what `sorted` returns for it
    (stability: `1` stays before `1.0`) -/
example : (sorted [.int 3, .int 1, .float (exactF 1), .byte 0]).map (fun ys => ys.map ty) =
    some [.byte, .int, .float, .int] := by decide +kernel
example : Sortable [.int 3, .int 1, .float (exactF 1), .byte 0] := by
  intro a ha b hb
  simp only [List.mem_cons, List.mem_nil_iff, or_false] at ha hb
  rcases ha with rfl | rfl | rfl | rfl <;> rcases hb with rfl | rfl | rfl | rfl <;> decide +kernel

/-- the guard really fires on the finding's witness, and only there -/
example : lossy (.int 9007199254740993) (.float (exactF 9007199254740992)) = true ∧
    lossy (.int 9007199254740992) (.float (exactF 9007199254740992)) = false := by decide +kernel

/-- well-formed maps of the same size with different key sets and a nil value are not `==`,
    in either direction, by the loop and by the canonical comparison alike:
    `{"a": nil, "b": 1}` / `{"b": 1, "c": 2}` and `{"a": nil}` / `{"b": nil}` -/
example : wf (.map [[97], [98]] [.nil, .int 1]) = true ∧ wf (.map [[98], [99]] [.int 1, .int 2]) = true ∧
    equalsW (.map [[97], [98]] [.nil, .int 1]) (.map [[98], [99]] [.int 1, .int 2]) = false ∧
    equalsW (.map [[98], [99]] [.int 1, .int 2]) (.map [[97], [98]] [.nil, .int 1]) = false ∧
    equalsW (.map [[97]] [.nil]) (.map [[98]] [.nil]) = false ∧
    equals (.map [[97]] [.nil]) (.map [[98]] [.nil]) = false := by decide +kernel

/-- nested: a list holding a map holding a set, equal to a copy of itself by the loops -/
example : wf (.list [.map [[97]] [.set [.int 1, .str [97]]]]) = true ∧
    equalsW (.list [.map [[97]] [.set [.int 1, .str [97]]]]) (.list [.map [[97]] [.set [.int 1, .str [97]]]]) = true := by
  decide +kernel

/-- the hypotheses of `map_eq_trans` are satisfiable by maps that are really `==` -/
example : lossy (.map [[107]] [.int 1]) (.map [[107]] [.float (exactF 1)]) = false ∧
    equalsW (.map [[107]] [.int 1]) (.map [[107]] [.float (exactF 1)]) = true ∧
    equalsW (.map [[107]] [.float (exactF 1)]) (.map [[107]] [.byte 1]) = true := by decide +kernel

/-- a set built from `==` values of one type has one slot; of different types, two -/
example : (mkSet [.int 1, .int 1, .float (exactF 1)]).map (fun s => s.map ty) = some [.float, .int] := by
  decide +kernel

/-! ## error objects: `==` and the ordering see the message and the raised flag, nothing else

An error value holds a Go `error` with an identity, a Go type and a chain of wrapped errors
(`ErrObj`, Model.lean).  The theorems below are for ALL error objects — any identities, any Go
types, any wrap chains, related or unrelated. -/

/-- `Error.Equals` / `Error.Compare` on two error objects are `==` / `Compare` of the script values
    they present (`Val.err message raised`): every law of this file about `Val.err` — alone or
    nested in lists, maps, … — is a law of error objects whatever Go errors they hold. -/
theorem errobj_eq_is_val_eq (a b : ErrObj) :
    errObjEquals a b = equals a.val b.val ∧ compare a.val b.val = some (errObjCompare a b) := by
  simp [errObjEquals, errObjCompare, ErrObj.val, equals, equalsG, scalarEquals, compare, compareG, scalarCompare]

/-- `==` on error objects is reflexive and SYMMETRIC for all pairs: in particular for an error
    and an error that wraps it (`fmt.Errorf("…: %w", e)`), in both directions. -/
theorem errobj_eq_refl_symm (a b : ErrObj) :
    errObjEquals a a = true ∧ errObjEquals a b = errObjEquals b a := by
  rw [(errobj_eq_is_val_eq a a).1, (errobj_eq_is_val_eq a b).1, (errobj_eq_is_val_eq b a).1]
  exact ⟨eq_refl _, eq_symm _ _⟩

/-- `==` on error objects is transitive, without any guard. -/
theorem errobj_eq_trans (a b c : ErrObj) (h1 : errObjEquals a b = true) (h2 : errObjEquals b c = true) :
    errObjEquals a c = true := by
  rw [(errobj_eq_is_val_eq _ _).1] at *
  exact eq_trans_scalar_same_type a.val b.val c.val rfl rfl rfl h1 h2

/-- The ordering of error objects agrees with `==` and is antisymmetric:
    `a.Compare(b) = 0` exactly when `a == b`, and `b.Compare(a) = -a.Compare(b)`. -/
theorem errobj_compare_agrees_eq (a b : ErrObj) :
    (errObjCompare a b = 0 ↔ errObjEquals a b = true) ∧ errObjCompare b a = -errObjCompare a b := by
  constructor
  · rw [(errobj_eq_is_val_eq a b).1]
    exact compare_agrees_eq a.val b.val _ (errobj_eq_is_val_eq a b).2
  · exact errCmp_antisymm _ _ _ _

/-- The provenance is invisible: two error objects with the same message and raised flag are
    `==` and interchangeable in every comparison, whatever their identities, Go types and wrap
    chains (e.g. `errors.new("x")` twice, `errors.type_error("x")`, `fmt.Errorf("%w", e)`). -/
theorem errobj_eq_ignores_provenance (a a' b : ErrObj) (hm : a.go.msg = a'.go.msg) (hr : a.raised = a'.raised) :
    errObjEquals a a' = true ∧ errObjEquals a b = errObjEquals a' b ∧ errObjEquals b a = errObjEquals b a' ∧
    errObjCompare a b = errObjCompare a' b := by
  simp [errObjEquals, errObjCompare, hm, hr]

/-- Conversely an error and an error that wraps it under a longer message are NOT `==`, in either
    direction (what `errors.is` answers is not what `==` answers). -/
theorem errobj_wrapper_ne (a b : ErrObj) (hm : a.go.msg ≠ b.go.msg) :
    errObjEquals a b = false ∧ errObjEquals b a = false := by
  simp [errObjEquals, hm, Ne.symm hm]

/-- Why the provenance must not enter `==`: `errors.Is` is directional, so an equality that also
    accepted `errors.Is(a, b)` would not be symmetric — witness: a sentinel and a wrapper of it. -/
theorem eq_consulting_is_not_symmetric :
    ¬ ∀ a b : ErrObj, errObjEqualsIs a b = errObjEqualsIs b a := by
  intro h
  have := h ⟨⟨1, 1, [108, 58, 110], [0]⟩, false⟩ ⟨⟨0, 0, [110], []⟩, false⟩
  revert this
  decide

/-! ## sets and maps with a history

`setHist s ops` is the set object `s` after the operations `ops` (add / remove / delete() /
clear, interleaved with observations), `mapRun es ops` the same for a map (assignment,
delete(), pop, setdefault, clear, a rejected non-string key, observations).  The theorems are
for ALL histories of any length over any values. -/

/-- Every set reachable from a well-formed set by ANY history is well-formed (hashable items,
    strictly sorted, distinct hash keys): all set theorems of this file (`set_eq_refl/_symm/_trans`,
    `set_eq_iff_members`, `equals_as_written`, …) apply to sets with a history. -/
theorem set_hist_wf (s : List Val) (ops : List (SetOp Val)) (h : wf (.set s) = true) :
    wf (.set (setHist s ops)) = true := setHist_wf s ops h

/-- After any history, membership (`x in s`, decided by hash key) agrees with ITERATING the set
    (its `SortedItems` order, what `for … range s`, `list(s)`, `sorted(s)` and printing walk) and
    comparing within the type of the probe — for all probes, hashable or not. -/
theorem set_hist_in_iff_iter (s : List Val) (ops : List (SetOp Val)) (x : Val) (h : wf (.set s) = true) :
    contains (.set (setHist s ops)) x = some true ↔
      ∃ y ∈ setHist s ops, ty y = ty x ∧ equals y x = true := by
  have hw := (wf_set_iff _).1 (setHist_wf s ops h)
  cases hx : hashKey x with
  | none =>
    simp only [contains, hx, Option.some.injEq, Bool.false_eq_true, false_iff]
    rintro ⟨y, hy, ht, _⟩
    have := hashable_of_ty ht
    rw [hashKey_of_hashable (hw.1 y hy), hx] at this
    simp at this
  | some k =>
    rw [contains_set_memB _ hw.1 x k hx]
    simp only [Option.some.injEq, memB, List.any_eq_true, decide_eq_true_eq]
    constructor
    · rintro ⟨y, hy, e⟩
      exact ⟨y, hy, (hash_eq_same_type y x _ _ (hashKey_of_hashable (hw.1 y hy)) hx).1 e⟩
    · rintro ⟨y, hy, e⟩
      exact ⟨y, hy, (hash_eq_same_type y x _ _ (hashKey_of_hashable (hw.1 y hy)) hx).2 e⟩

/-- After any history, membership is what the history says: the LAST operation that mentions the
    probe's hash key decides (add → member; remove or delete() → not a member; clear → nothing is a
    member); observations and rejected (unhashable) arguments decide nothing. -/
theorem set_hist_in_iff_spec (s : List Val) (ops : List (SetOp Val)) (x : Val) (k : HashKey)
    (h : wf (.set s) = true) (hx : hashKey x = some k) :
    contains (.set (setHist s ops)) x = some (specMember s ops k) := by
  have hw := (wf_set_iff _).1 (setHist_wf s ops h)
  rw [contains_set_memB _ hw.1 x k hx, memB_setHist, specMember_eq]

/-- Observations are invisible: dropping every observation from a history changes nothing of
    the resulting set (so no later `in`, `len`, iteration, `sorted` or `==` can tell whether the
    set was printed, iterated, listed or sorted on the way). -/
theorem set_hist_observe_irrelevant (s : List Val) (ops : List (SetOp Val)) :
    setHist s (ops.filter (fun o => !o.isObserve)) = setHist s ops :=
  setRun_drop_observe isHashable keyOf ops s

/-- After any history no two slots hold values of one type that are `==`. -/
theorem set_hist_single_slot (s : List Val) (ops : List (SetOp Val)) (h : wf (.set s) = true) :
    (setHist s ops).Pairwise (fun a b => ¬ (ty a = ty b ∧ equals a b = true)) := by
  have hw := (wf_set_iff _).1 (setHist_wf s ops h)
  have hn := hw.2
  rw [List.pairwise_map] at hn
  refine List.Pairwise.imp_of_mem ?_ hn
  intro a b ha hb hlt hc
  have hk : keyOf a = keyOf b :=
    (hash_eq_same_type a b _ _ (hashKey_of_hashable (hw.1 a ha)) (hashKey_of_hashable (hw.1 b hb))).2 hc
  rw [hk] at hlt
  exact hkLess_strictTotal.irrefl _ hlt

/-- After any history `sorted(s)`, when it succeeds, is a permutation of the set's items: as many
    items as `len(s)`, each of them a member (`in`), and the set is truthy exactly when that
    number is non-zero. -/
theorem set_hist_sorted_members (s : List Val) (ops : List (SetOp Val)) (ys : List Val)
    (h : wf (.set s) = true) (hs : sorted (setHist s ops) = some ys) :
    ys.Perm (setHist s ops) ∧ len (.set (setHist s ops)) = some ys.length ∧
    (∀ y ∈ ys, contains (.set (setHist s ops)) y = some true) ∧
    (truthy (.set (setHist s ops)) = true ↔ ys.length ≠ 0) := by
  have hp := sorted_perm _ _ hs
  refine ⟨hp, by simp [len, hp.length_eq], ?_, ?_⟩
  · intro y hy
    exact (set_hist_in_iff_iter s ops y h).2 ⟨y, hp.mem_iff.1 hy, rfl, eq_refl y⟩
  · rw [truthy_iff_len_pos _ _ (show len (.set (setHist s ops)) = some ys.length by simp [len, hp.length_eq])]

/-- Every map reachable from a well-formed map by ANY history that stores well-formed values is
    well-formed (strictly sorted, distinct keys): the map theorems of this file apply to it. -/
theorem map_hist_wf (es : List (List Nat × Val)) (ops : List (MapOp Val)) (h : wf (mapVal es) = true)
    (hv : ∀ o ∈ ops, ∀ v, o.stored = some v → wf v = true) : wf (mapVal (mapRun es ops)) = true := by
  rw [wf_map_iff] at h ⊢
  exact ⟨mapRun_sorted ops es h.1, mapRun_all (fun v => wf v = true) ops es hv h.2⟩

/-- After any history `k in m` agrees with iterating the map's keys (`SortedKeys`: iteration,
    `keys()`, `sorted(m)`, printing) and comparing them with the probe, for all probes. -/
theorem map_hist_in_iff_iter (es : List (List Nat × Val)) (ops : List (MapOp Val)) (x : Val) :
    contains (mapVal (mapRun es ops)) x = some true ↔ ∃ e ∈ mapRun es ops, equals (.str e.1) x = true := by
  unfold mapVal
  rw [map_in_iff_exists_eq]
  simp only [List.mem_map]
  constructor
  · rintro ⟨k, ⟨e, he, rfl⟩, hk⟩; exact ⟨e, he, hk⟩
  · rintro ⟨e, he, hk⟩; exact ⟨e.1, ⟨e, he, rfl⟩, hk⟩

/-- After any history key membership is what the history says: the last operation that mentions
    the key decides (assignment / setdefault → present; delete() / pop → absent; clear → no key is
    present); observations and rejected non-string keys decide nothing. -/
theorem map_hist_in_iff_spec (es : List (List Nat × Val)) (ops : List (MapOp Val)) (k : List Nat) :
    contains (mapVal (mapRun es ops)) (.str k) = some (specHasKey es ops k) := by
  rw [specHasKey_eq, ← hasKeyB_mapRun]
  simp only [mapVal, contains, hasKeyB, Option.some.injEq, List.any_map]
  congr 1
  funext e
  simp only [Function.comp]
  rw [Bool.eq_iff_iff]; simp

/-- Observations of a map are invisible to every later view. -/
theorem map_hist_observe_irrelevant (es : List (List Nat × Val)) (ops : List (MapOp Val)) :
    mapRun es (ops.filter (fun o => !o.isObserve)) = mapRun es ops := mapRun_drop_observe ops es

/-- A map after any history is truthy exactly when it has a key, and `len` counts the keys that
    iteration yields. -/
theorem map_hist_truthy_len (es : List (List Nat × Val)) (ops : List (MapOp Val)) :
    len (mapVal (mapRun es ops)) = some (mapRun es ops).length ∧
    (truthy (mapVal (mapRun es ops)) = true ↔ (mapRun es ops).length ≠ 0) := by
  have hl : len (mapVal (mapRun es ops)) = some (mapRun es ops).length := by simp [mapVal, len]
  exact ⟨hl, truthy_iff_len_pos _ _ hl⟩

/-- non-vacuity: a set that is iterated, then shrunk with delete(), then iterated again —
    `{0.0, 1, 2, "a"}`; observe; `delete(s, 2)`; observe; `s.add(2.0)`; `delete(s, [])` (rejected):
    the items are `0.0`, `2.0`, `1`, `"a"` (by hash key), and `2` is not a member -/
example : (setHist [.float (exactF 0), .int 1, .int 2, .str [97]]
      [.observe, .del (.int 2), .observe, .add (.float (exactF 2)), .del (.list [])]).map keyOf =
    [⟨.float, .fin 0, 0, []⟩, ⟨.float, exactF 2, 0, []⟩, ⟨.int, .fin 0, 1, []⟩, ⟨.str, .fin 0, 0, [97]⟩] ∧
    wf (.set [.float (exactF 0), .int 1, .int 2, .str [97]]) = true ∧
    specMember [.float (exactF 0), .int 1, .int 2, .str [97]]
      [.observe, .del (.int 2), .observe, .add (.float (exactF 2)), .del (.list [])] ⟨.int, .fin 0, 2, []⟩ = false := by
  decide +kernel

/-- non-vacuity: a map history `{"b": 1}`; `m["a"] = nil`; observe; `delete(m, "b")`;
    `m.setdefault("a", 2)`; `m[1] = 0` (rejected): one key `"a"`, still bound to nil -/
example : (mapRun [([98], Val.int 1)]
      [.set [97] .nil, .observe, .del [98], .setdefault [97] (.int 2), .badkey]).map (fun e => (e.1, ty e.2)) =
    [([97], Ty.nil)] := by decide +kernel

end Risor.C15
