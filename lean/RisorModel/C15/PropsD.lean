import RisorModel.C15.Props
import RisorModel.C15.Dispatch
set_option linter.unusedSimpArgs false
set_option linter.unusedVariables false
/-!
C15 — theorems over the DISPATCH tables (`comparableWith`, `equalsWith`, `hashField`, tied to
object/*.go by `Ties.lean`) and the laws of the comparable scalar types added in `Dispatch.lean`
(byte_slice, time).  All statements are for every value / every conversion; nothing is bounded.
-/
namespace Risor.C15

/-! ## the model's pattern matches implement the tables -/

/-- `a.Compare(b)` of a non-container value returns a value EXACTLY for the operand types listed in
    the table row of `a`'s type — for every int→float conversion (Impl and Spec) and all values. -/
theorem compare_defined_iff_table (conv : Int → F) (a b : Val) (hs : isScalar a = true) :
    (compareG conv a b).isSome = true ↔ ty b ∈ comparableWith (ty a) := by
  cases a <;> cases b <;> simp [compareG, scalarCompare, comparableWith, ty, isScalar] at hs ⊢

/-- For ALL values (containers included): a comparison that returns a value is in the table; so a
    pair outside the table is always a type error. -/
theorem compare_defined_only_in_table (conv : Int → F) (a b : Val)
    (h : compareG conv a b ≠ none) : ty b ∈ comparableWith (ty a) := by
  cases a <;> cases b <;> simp [compareG, scalarCompare, comparableWith, ty] at h ⊢

/-- `a.Equals(b)` can be True only for the operand types in the `Equals` table row of `a`'s type. -/
theorem equals_true_only_in_table (conv : Int → F) (a b : Val)
    (h : equalsG conv a b = true) : ty b ∈ equalsWith (ty a) := by
  cases a <;> cases b <;> simp [equalsG, scalarEquals, equalsWith, ty] at h ⊢

/-- The `Compare` table of the model types is symmetric: if `a`'s type accepts `b`'s type then `b`'s
    type accepts `a`'s. -/
theorem compare_table_symmetric (s t : Ty) (h : t ∈ comparableWith s) : s ∈ comparableWith t := by
  cases s <;> cases t <;> simp [comparableWith] at h ⊢

/-- The `Equals` table of the model types is symmetric. -/
theorem equals_table_symmetric (s t : Ty) (h : t ∈ equalsWith s) : s ∈ equalsWith t := by
  cases s <;> cases t <;> simp [equalsWith] at h ⊢

/-- `Compare` and `Equals` accept the same operand types wherever a type is comparable at all. -/
theorem compare_table_within_equals_table (s t : Ty) (h : t ∈ comparableWith s) : t ∈ equalsWith s := by
  cases s <;> cases t <;> simp [comparableWith, equalsWith] at h ⊢

/-- A value is hashable exactly when the table names a field for its type. -/
theorem hashable_iff_table (a : Val) : (hashKey a).isSome = (hashField (ty a)).isSome := by
  cases a <;> rfl

/-- The hash key of a value carries its type and NOTHING outside the field the table names: all
    other fields are zero. -/
theorem hash_field_carries_value (a : Val) (k : HashKey) (f : HField)
    (hk : hashKey a = some k) (hf : hashField (ty a) = some f) :
    k.ty = ty a ∧ (k.flt, k.int, k.str) = k.proj f := by
  cases a <;> simp [hashKey, hashField, ty] at hk hf <;> subst hk <;> subst hf <;> simp [HashKey.proj, ty]

/-- Within one type, the single field named by the table determines the value: two values of the
    same type whose hash keys agree on that field are the same value (so equal values ⇔ equal
    field, and `hash_eq_same_type` rests on this field alone). -/
theorem hash_field_injective_per_type (a b : Val) (f : HField) (hty : ty a = ty b)
    (hf : hashField (ty a) = some f) (h : (keyOf a).proj f = (keyOf b).proj f) : a = b := by
  cases a <;> cases b <;> simp [ty] at hty <;>
    simp [hashField, ty] at hf <;> subst hf <;>
    simp [keyOf, hashKey, HashKey.proj] at h ⊢
  · rename_i x y; cases x <;> cases y <;> simp at h ⊢
  · exact h
  · exact h
  · omega
  · exact h

example : hashField (ty (.int 3)) = some .int := rfl
example : ty (.float (.fin 0)) ∈ comparableWith (ty (.int 1)) := by decide

/-! ## byte_slice and time -/

/-- the extended tables are the base tables on the model types -/
theorem xtable_extends (t u : Ty) : (XTy.base u ∈ xComparableWith (.base t) ↔ u ∈ comparableWith t) := by
  simp [xComparableWith]

/-- `Compare`/`Equals` on the extended values return a value / True only inside the extended tables. -/
theorem vcompare_defined_only_in_table (a b : XVal) (h : vcompare a b ≠ none) :
    xty b ∈ xComparableWith (xty a) := by
  cases a with
  | base v =>
    cases b with
    | base w =>
      have := compare_defined_only_in_table toF v w h
      simpa [xty, xComparableWith] using this
    | bslice _ => simp [vcompare] at h
    | time _ => simp [vcompare] at h
  | bslice bs =>
    cases b with
    | base w => cases w <;> simp [vcompare, xty, xComparableWith, ty] at h ⊢
    | bslice _ => simp [xty, xComparableWith]
    | time _ => simp [vcompare] at h
  | time s => cases b <;> simp [vcompare, xty, xComparableWith] at h ⊢

/-- The full statement "the `Compare`/`Equals` dispatch is symmetric" over the covered types. -/
def C15_full_xtable_symmetric : Prop :=
  ∀ s t : XTy, (t ∈ xComparableWith s → s ∈ xComparableWith t) ∧ (t ∈ xEqualsWith s → s ∈ xEqualsWith t)

/-- It fails on the unchanged code: `ByteSlice.Compare`/`Equals` accept a `*String`,
    `String.Compare`/`Equals` do not accept a `*ByteSlice` (tie `asymmetric_pairs_tie`). -/
theorem C15_counterexample_xtable_symmetric : ¬ C15_full_xtable_symmetric := by
  intro h
  have := (h .bslice (.base .str)).1 (by decide)
  revert this; decide

/-- Outside the byte_slice/string pair the dispatch is symmetric. -/
theorem C15_partial_xtable_symmetric (s t : XTy)
    (hg : ¬ (s = .bslice ∧ t = .base .str)) :
    (t ∈ xComparableWith s → s ∈ xComparableWith t) ∧ (t ∈ xEqualsWith s → s ∈ xEqualsWith t) := by
  cases s with
  | base s' =>
    cases t with
    | base t' =>
      constructor
      · intro h; simp [xComparableWith] at h ⊢; exact compare_table_symmetric s' t' h
      · intro h; simp [xEqualsWith] at h ⊢; exact equals_table_symmetric s' t' h
    | bslice => constructor <;> intro h <;> simp [xComparableWith, xEqualsWith] at h
    | time => constructor <;> intro h <;> simp [xComparableWith, xEqualsWith] at h
  | bslice =>
    cases t with
    | base t' =>
      constructor <;> intro h <;> simp [xComparableWith, xEqualsWith] at h <;> subst h <;> exact absurd ⟨rfl, rfl⟩ hg
    | bslice => simp [xComparableWith, xEqualsWith]
    | time => constructor <;> intro h <;> simp [xComparableWith, xEqualsWith] at h
  | time => cases t <;> simp [xComparableWith, xEqualsWith]

/-- `==` is reflexive on byte_slice and time values too. -/
theorem veq_refl (a : XVal) : vequals a a = true := by
  cases a with
  | base v => exact eq_refl v
  | bslice bs => simp [vequals, cmpBytes_self]
  | time t => simp [vequals]

/-- The full statement: `==` is symmetric for all covered values. -/
def C15_full_veq_symm : Prop := ∀ a b : XVal, vequals a b = vequals b a

/-- It fails on the unchanged code: `byte_slice("a") == "a"` is true, `"a" == byte_slice("a")` is false. -/
theorem C15_counterexample_veq_symm : ¬ C15_full_veq_symm := by
  intro h
  have := h (.bslice [97]) (.base (.str [97]))
  revert this; decide

/-- Outside the guard `crossBytes` (a byte_slice meeting a string), `==` is symmetric. -/
theorem C15_partial_veq_symm (a b : XVal) (hg : crossBytes a b = false) : vequals a b = vequals b a := by
  cases a with
  | base v =>
    cases b with
    | base w => exact eq_symm v w
    | bslice bs => cases v <;> simp [vequals, crossBytes] at hg ⊢
    | time _ => simp [vequals]
  | bslice bs =>
    cases b with
    | base w => cases w <;> simp [vequals, crossBytes] at hg ⊢
    | bslice cs =>
      simp only [vequals]
      have := cmpBytes_antisymm bs cs
      by_cases h : cmpBytes bs cs = 0
      · have h2 : cmpBytes cs bs = 0 := by omega
        rw [h, h2]
      · have h2 : ¬ cmpBytes cs bs = 0 := by omega
        rw [beq_false_of_ne h, beq_false_of_ne h2]
    | time _ => simp [vequals]
  | time s =>
    cases b with
    | time t => simp [vequals, eq_comm]
    | base _ => simp [vequals]
    | bslice _ => simp [vequals]

example : crossBytes (.bslice [1]) (.bslice [2]) = false := rfl

/-- byte_slices are ordered and compared exactly as the strings with the same bytes, so every law of
    string `==`/`<` (`eq_trans_scalar_same_type`, `le_trans_scalar_same_type`, `compare_antisymm`,
    `compare_total_scalar`) is a law of byte_slices; and a byte_slice against a string gives what
    the two strings give. -/
theorem bslice_as_string (a b : List Nat) :
    vcompare (.bslice a) (.bslice b) = compare (.str a) (.str b) ∧
    vcompare (.bslice a) (.base (.str b)) = compare (.str a) (.str b) ∧
    vequals (.bslice a) (.bslice b) = equals (.str a) (.str b) ∧
    vequals (.bslice a) (.base (.str b)) = equals (.str a) (.str b) := by
  have e : (cmpBytes a b == 0) = (a == b) := by
    by_cases h : a = b
    · subst h; simp [cmpBytes_self]
    · have h' : ¬ cmpBytes a b = 0 := fun e => h (cmpBytes_eq_zero.mp e)
      rw [beq_false_of_ne h', beq_false_of_ne h]
  refine ⟨rfl, rfl, ?_, ?_⟩ <;> simp [vequals, equals, equalsG, scalarEquals, e]

/-- `==` on byte_slices is transitive and agrees with `Compare = 0` and with the hash key. -/
theorem bslice_eq_laws (a b c : List Nat) :
    (vequals (.bslice a) (.bslice b) = true → vequals (.bslice b) (.bslice c) = true →
      vequals (.bslice a) (.bslice c) = true) ∧
    (vcompare (.bslice a) (.bslice b) = some 0 ↔ vequals (.bslice a) (.bslice b) = true) ∧
    (vequals (.bslice a) (.bslice b) = true ↔ vhashKey (.bslice a) = vhashKey (.bslice b)) := by
  simp [vequals, vcompare, vhashKey, cmpBytes_eq_zero]
  intro h1 h2; exact h1.trans h2

/-- `==` on times is an equivalence and `Compare` returns 0 exactly on `==` times. -/
theorem time_eq_laws (s t u : GoTime) :
    vequals (.time s) (.time s) = true ∧
    vequals (.time s) (.time t) = vequals (.time t) (.time s) ∧
    (vequals (.time s) (.time t) = true → vequals (.time t) (.time u) = true → vequals (.time s) (.time u) = true) ∧
    (vcompare (.time s) (.time t) = some 0 ↔ vequals (.time s) (.time t) = true) := by
  refine ⟨by simp [vequals], by simp [vequals, eq_comm], ?_, ?_⟩
  · simp [vequals]; intro h1 h2; exact h1.trans h2
  · simp only [vcompare, vequals, timeCmp]
    by_cases h : s = t
    · simp [h]
    · simp [h]; split <;> simp

/-- `After` never holds in both directions. -/
theorem timeAfter_asymm (s t : GoTime) (h : timeAfter s t = true) : timeAfter t s = false := by
  unfold timeAfter at h ⊢
  cases hs : s.mono <;> cases ht : t.mono <;> simp [hs, ht] at h ⊢ <;> omega

/-- The full statement "the order on times is antisymmetric": `t.Compare(s) = -s.Compare(t)`. -/
def C15_full_time_antisymm : Prop := ∀ s t : GoTime, timeCmp t s = -timeCmp s t

/-- It fails on the unchanged code: the same instant in two `*Location`s is neither `==` nor
    `After` in either direction, so BOTH `s < t` and `t < s` hold.  (The property's text lists the
    ordered types int, float, byte, string, bool, list; time is not among them, so the harness
    records such pairs in a histogram and not as a violation.) -/
theorem C15_counterexample_time_antisymm : ¬ C15_full_time_antisymm := by
  intro h
  have := h ⟨0, 0, none, 0⟩ ⟨0, 0, none, 1⟩
  revert this; decide

/-- Outside the guard `timeTwins`, the order on times is antisymmetric. -/
theorem C15_partial_time_antisymm (s t : GoTime) (hg : timeTwins s t = false) :
    timeCmp t s = -timeCmp s t := by
  unfold timeCmp
  by_cases h : s = t
  · subst h; simp
  · have h' : ¬ t = s := fun e => h e.symm
    simp only [h, h', if_false]
    cases hst : timeAfter s t
    · cases hts : timeAfter t s
      · simp [timeTwins, h, hst, hts] at hg
      · simp
    · have := timeAfter_asymm s t hst
      simp [this]

example : timeTwins ⟨5, 0, none, 0⟩ ⟨6, 0, none, 1⟩ = false := by decide

end Risor.C15
