import RisorModel.C15.Lemmas
set_option linter.unusedSimpArgs false
set_option linter.unnecessarySimpa false
/-! Lemmas for C15 about `Equals` as it is written (`equalsWG`: the range-and-lookup loops of
`Map.Equals` / `Set.Equals`): the loop over an association list with distinct keys, its
characterisation entry by entry, and its agreement with the pointwise comparison of the
canonical forms (`equalsG`) on well-formed values. -/
namespace Risor.C15

/-! ### association lists: `lookupKV`, `loopAll` -/

section Assoc
variable {κ : Type} [DecidableEq κ]

theorem lookupKV_mem {k : κ} {v : Val} : ∀ {ks : List κ} {vs : List Val},
    lookupKV k ks vs = some v → k ∈ ks ∧ v ∈ vs
  | [], _, h => by simp [lookupKV] at h
  | _ :: _, [], h => by simp [lookupKV] at h
  | k' :: ks, v' :: vs, h => by
    simp only [lookupKV] at h
    split at h
    · rename_i e; simp at h; subst e; subst h; simp
    · have := lookupKV_mem h
      exact ⟨List.mem_cons_of_mem _ this.1, List.mem_cons_of_mem _ this.2⟩

theorem lookupKV_of_mem {k : κ} : ∀ {ks : List κ} {vs : List Val},
    ks.length = vs.length → k ∈ ks → ∃ v, lookupKV k ks vs = some v
  | [], _, _, h => by simp at h
  | _ :: _, [], hl, _ => by simp at hl
  | k' :: ks, v' :: vs, hl, h => by
    simp only [lookupKV]
    by_cases e : k = k'
    · exact ⟨v', by simp [e]⟩
    · simp only [if_neg e]
      simp only [List.mem_cons] at h
      rcases h with h | h
      · exact absurd h e
      · exact lookupKV_of_mem (by simpa using hl) h

theorem lookupKV_cons_ne {k k' : κ} (h : k ≠ k') (v' : Val) (ks : List κ) (vs : List Val) :
    lookupKV k (k' :: ks) (v' :: vs) = lookupKV k ks vs := by
  simp [lookupKV, h]

/-- a key that the left list does not contain can be dropped from the right one -/
theorem loopAll_skip (eq : Val → Val → Bool) (k : κ) (v' : Val) (ks' : List κ) (vs' : List Val) :
    ∀ (ks : List κ) (vs : List Val), k ∉ ks →
      loopAll eq ks vs (k :: ks') (v' :: vs') = loopAll eq ks vs ks' vs'
  | [], _, _ => by simp [loopAll]
  | _ :: _, [], _ => by simp [loopAll]
  | k1 :: ks, v1 :: vs, h => by
    simp only [List.mem_cons, not_or] at h
    simp only [loopAll]
    rw [lookupKV_cons_ne (fun e => h.1 e.symm), loopAll_skip eq k v' ks' vs' ks vs h.2]

/-- pointwise comparison of two value lists by `eq` (false when the lengths differ) -/
def pw (eq : Val → Val → Bool) : List Val → List Val → Bool
  | [], [] => true
  | x :: xs, y :: ys => eq x y && pw eq xs ys
  | _, _ => false

theorem pw_congr {eq eq' : Val → Val → Bool} : ∀ (xs ys : List Val),
    (∀ x ∈ xs, ∀ y ∈ ys, eq x y = eq' x y) → pw eq xs ys = pw eq' xs ys
  | [], [], _ => rfl
  | [], _ :: _, _ => rfl
  | _ :: _, [], _ => rfl
  | x :: xs, y :: ys, h => by
    simp only [pw]
    rw [h x (by simp) y (by simp), pw_congr xs ys (fun a ha b hb => h a (by simp [ha]) b (by simp [hb]))]

/-- with the same distinct keys on both sides the loop is the pointwise comparison -/
theorem loopAll_self (eq : Val → Val → Bool) : ∀ (ks : List κ) (vs vs' : List Val),
    ks.Nodup → ks.length = vs.length → ks.length = vs'.length →
      loopAll eq ks vs ks vs' = pw eq vs vs'
  | [], [], [], _, _, _ => rfl
  | [], _ :: _, _, _, h, _ => by simp at h
  | [], [], _ :: _, _, _, h => by simp at h
  | _ :: _, [], _, _, h, _ => by simp at h
  | _ :: _, _ :: _, [], _, _, h => by simp at h
  | k :: ks, v :: vs, v' :: vs', hn, h1, h2 => by
    rw [List.nodup_cons] at hn
    simp only [loopAll, lookupKV, if_pos, pw]
    rw [loopAll_skip eq k v' ks vs' ks vs hn.1,
      loopAll_self eq ks vs vs' hn.2 (by simpa using h1) (by simpa using h2)]

/-- a successful loop finds every left key on the right -/
theorem loopAll_subset (eq : Val → Val → Bool) (ks' : List κ) (vs' : List Val) :
    ∀ (ks : List κ) (vs : List Val), ks.length = vs.length →
      loopAll eq ks vs ks' vs' = true → ∀ k ∈ ks, k ∈ ks'
  | [], _, _, _, k, hk => by simp at hk
  | _ :: _, [], h, _, _, _ => by simp at h
  | k1 :: ks, v1 :: vs, hl, h, k, hk => by
    simp only [loopAll, Bool.and_eq_true] at h
    simp only [List.mem_cons] at hk
    rcases hk with rfl | hk
    · cases e : lookupKV k ks' vs' with
      | none => rw [e] at h; simp at h
      | some w => exact (lookupKV_mem e).1
    · exact loopAll_subset eq ks' vs' ks vs (by simpa using hl) h.2 k hk

/-- the loop, entry by entry: every binding `k ↦ v` on the left has a binding `k ↦ v'` on
    the right with `eq v v'` -/
theorem loopAll_iff (eq : Val → Val → Bool) (ks' : List κ) (vs' : List Val) :
    ∀ (ks : List κ) (vs : List Val), ks.Nodup → ks.length = vs.length →
      (loopAll eq ks vs ks' vs' = true ↔
        ∀ k v, lookupKV k ks vs = some v → ∃ v', lookupKV k ks' vs' = some v' ∧ eq v v' = true)
  | [], _, _, _ => by simp [loopAll, lookupKV]
  | _ :: _, [], _, h => by simp at h
  | k1 :: ks, v1 :: vs, hn, hl => by
    rw [List.nodup_cons] at hn
    have ih := loopAll_iff eq ks' vs' ks vs hn.2 (by simpa using hl)
    simp only [loopAll, Bool.and_eq_true]
    rw [ih]
    constructor
    · rintro ⟨h1, h2⟩ k v hk
      simp only [lookupKV] at hk
      split at hk
      · rename_i e
        simp at hk; subst hk; subst e
        cases e' : lookupKV k ks' vs' with
        | none => rw [e'] at h1; simp at h1
        | some w => rw [e'] at h1; exact ⟨w, rfl, h1⟩
      · exact h2 k v hk
    · intro h
      constructor
      · obtain ⟨w, hw, he⟩ := h k1 v1 (by simp [lookupKV])
        rw [hw]; exact he
      · intro k v hk
        have hne : k ≠ k1 := fun e => hn.1 (e ▸ (lookupKV_mem hk).1)
        exact h k v (by rw [lookupKV_cons_ne hne]; exact hk)

/-- pigeonhole: a duplicate-free list inside a list of the same length fills it -/
theorem subset_of_nodup_length {l₁ l₂ : List κ} (h₁ : l₁.Nodup) (hs : l₁ ⊆ l₂)
    (hl : l₁.length = l₂.length) : l₂ ⊆ l₁ := by
  intro b hb
  apply Classical.byContradiction
  intro hnb
  have hsub : l₁ ⊆ l₂.erase b := by
    intro x hx
    have hxb : x ≠ b := fun e => hnb (e ▸ hx)
    exact (List.mem_erase_of_ne hxb).2 (hs hx)
  have hle := h₁.length_le_of_subset hsub
  have hlen : (l₂.erase b).length = l₂.length - 1 := by rw [List.length_erase]; simp [hb]
  have hpos : 1 ≤ l₂.length := List.length_pos_of_mem hb
  omega

theorem sortedBy_iff {α : Type} (lt : α → α → Bool) : ∀ l : List α,
    sortedBy lt l = true ↔ l.Pairwise (fun a b => lt a b = true)
  | [] => by simp [sortedBy]
  | a :: rest => by
    simp only [sortedBy, Bool.and_eq_true, List.all_eq_true, List.pairwise_cons, sortedBy_iff lt rest]

omit [DecidableEq κ] in
theorem nodup_of_sortedBy {lt : κ → κ → Bool} (hirr : ∀ a, lt a a = false) {l : List κ}
    (h : sortedBy lt l = true) : l.Nodup := by
  rw [sortedBy_iff] at h
  refine List.Pairwise.imp ?_ h
  intro a b hab e
  subst e
  rw [hirr a] at hab
  contradiction

omit [DecidableEq κ] in
/-- two strictly sorted lists with the same elements are the same list -/
theorem eq_of_sortedBy {lt : κ → κ → Bool} (hasym : ∀ a b, lt a b = true → lt b a = true → False)
    {l₁ l₂ : List κ} (h₁ : sortedBy lt l₁ = true) (h₂ : sortedBy lt l₂ = true)
    (hm : ∀ a, a ∈ l₁ ↔ a ∈ l₂) : l₁ = l₂ := by
  have hirr : ∀ a, lt a a = false := by
    intro a
    cases e : lt a a with
    | false => rfl
    | true => exact (hasym a a e e).elim
  have n₁ := nodup_of_sortedBy hirr h₁
  have n₂ := nodup_of_sortedBy hirr h₂
  have hp := (List.perm_ext_iff_of_nodup n₁ n₂).2 hm
  rw [sortedBy_iff] at h₁ h₂
  exact List.Perm.eq_of_pairwise (le := fun a b => lt a b = true)
    (fun a b _ _ hab hba => (hasym a b hab hba).elim) h₁ h₂ hp

/-- The Go loop against the canonical form.  For strictly sorted key lists with as many
    values as keys: "same size, and every left entry has an `eq`-equal right entry under
    the same key" is "the key lists are identical and the values are pointwise equal". -/
theorem loop_eq_canonical {lt : κ → κ → Bool} (hasym : ∀ a b, lt a b = true → lt b a = true → False)
    (eq eq' : Val → Val → Bool) {ks ks' : List κ} {vs vs' : List Val}
    (hs : sortedBy lt ks = true) (hs' : sortedBy lt ks' = true)
    (hl : ks.length = vs.length) (hl' : ks'.length = vs'.length)
    (hag : ∀ v ∈ vs, ∀ v' ∈ vs', eq v v' = eq' v v') :
    (ks.length == ks'.length && loopAll eq ks vs ks' vs') = (decide (ks = ks') && pw eq' vs vs') := by
  have hirr : ∀ a, lt a a = false := by
    intro a
    cases e : lt a a with
    | false => rfl
    | true => exact (hasym a a e e).elim
  by_cases h : ks = ks'
  · subst h
    simp only [BEq.rfl, Bool.true_and, decide_true]
    rw [loopAll_self eq ks vs vs' (nodup_of_sortedBy hirr hs) hl hl', pw_congr vs vs' hag]
  · simp only [h, decide_false, Bool.false_and]
    cases hb : (ks.length == ks'.length && loopAll eq ks vs ks' vs') with
    | false => rfl
    | true =>
      exfalso
      simp only [Bool.and_eq_true, beq_iff_eq] at hb
      have hsub : ks ⊆ ks' := fun k hk => loopAll_subset eq ks' vs' ks vs hl hb.2 k hk
      have hsup := subset_of_nodup_length (nodup_of_sortedBy hirr hs) hsub hb.1
      exact h (eq_of_sortedBy hasym hs hs' (fun a => ⟨fun m => hsub m, fun m => hsup m⟩))

/-- The Go loop, entry by entry and key set by key set: for strictly sorted (distinct) keys
    with as many values as keys, "same size and every left entry matched on the right" is
    "the two key SETS are equal and the values under every common key are `eq`". -/
theorem loop_iff_entries {lt : κ → κ → Bool} (hasym : ∀ a b, lt a b = true → lt b a = true → False)
    (eq : Val → Val → Bool) {ks ks' : List κ} {vs vs' : List Val}
    (hs : sortedBy lt ks = true) (hs' : sortedBy lt ks' = true)
    (hl : ks.length = vs.length) (hl' : ks'.length = vs'.length) :
    (ks.length == ks'.length && loopAll eq ks vs ks' vs') = true ↔
      (∀ k, k ∈ ks ↔ k ∈ ks') ∧
      (∀ k v v', lookupKV k ks vs = some v → lookupKV k ks' vs' = some v' → eq v v' = true) := by
  have hirr : ∀ a, lt a a = false := by
    intro a
    cases e : lt a a with
    | false => rfl
    | true => exact (hasym a a e e).elim
  have hn := nodup_of_sortedBy hirr hs
  have hn' := nodup_of_sortedBy hirr hs'
  simp only [Bool.and_eq_true, beq_iff_eq]
  rw [loopAll_iff eq ks' vs' ks vs hn hl]
  constructor
  · rintro ⟨hlen, hall⟩
    have hsub : ks ⊆ ks' := by
      intro k hk
      obtain ⟨v, hv⟩ := lookupKV_of_mem hl hk
      obtain ⟨v', hv', _⟩ := hall k v hv
      exact (lookupKV_mem hv').1
    have hsup := subset_of_nodup_length hn hsub hlen
    refine ⟨fun k => ⟨fun m => hsub m, fun m => hsup m⟩, ?_⟩
    intro k v v' h1 h2
    obtain ⟨w, hw, he⟩ := hall k v h1
    rw [h2] at hw
    cases hw
    exact he
  · rintro ⟨hkeys, hvals⟩
    refine ⟨((List.perm_ext_iff_of_nodup hn hn').2 hkeys).length_eq, ?_⟩
    intro k v h1
    obtain ⟨v', hv'⟩ := lookupKV_of_mem hl' ((hkeys k).1 (lookupKV_mem h1).1)
    exact ⟨v', hv', hvals k v v' h1 hv'⟩

end Assoc

/-! ### the mutual definitions are these loops -/

theorem equalsWL_eq_pw (conv : Int → F) : ∀ xs ys, equalsWL conv xs ys = pw (equalsWG conv) xs ys
  | [], [] => by simp [equalsWL, pw]
  | [], _ :: _ => by simp [equalsWL, pw]
  | _ :: _, [] => by simp [equalsWL, pw]
  | x :: xs, y :: ys => by simp [equalsWL, pw, equalsWL_eq_pw conv xs ys]

theorem equalsLG_eq_pw (conv : Int → F) : ∀ xs ys, equalsLG conv xs ys = pw (equalsG conv) xs ys
  | [], [] => by simp [equalsLG, pw]
  | [], _ :: _ => by simp [equalsLG, pw]
  | _ :: _, [] => by simp [equalsLG, pw]
  | x :: xs, y :: ys => by simp [equalsLG, pw, equalsLG_eq_pw conv xs ys]

theorem equalsWM_eq_loop (conv : Int → F) (ks' : List (List Nat)) (vs' : List Val) :
    ∀ ks vs, equalsWM conv ks vs ks' vs' = loopAll (equalsWG conv) ks vs ks' vs'
  | [], _ => by simp [equalsWM, loopAll]
  | _ :: _, [] => by simp [equalsWM, loopAll]
  | k :: ks, v :: vs => by simp only [equalsWM, loopAll, equalsWM_eq_loop conv ks' vs' ks vs]

theorem equalsWS_eq_loop (conv : Int → F) (ys : List Val) :
    ∀ xs, equalsWS conv xs ys = loopAll (equalsWG conv) (hashKeys xs) xs (hashKeys ys) ys
  | [] => by simp [equalsWS, loopAll, hashKeys]
  | x :: xs => by simp only [equalsWS, loopAll, hashKeys, equalsWS_eq_loop conv ys xs]

theorem hashKeys_length : ∀ xs : List Val, (hashKeys xs).length = xs.length
  | [] => rfl
  | _ :: xs => by simp [hashKeys, hashKeys_length xs]

theorem wfL_iff : ∀ xs : List Val, wfL xs = true ↔ ∀ x ∈ xs, wf x = true
  | [] => by simp [wfL]
  | x :: xs => by simp [wfL, wfL_iff xs]

/-! ### the key orders are asymmetric -/

theorem keyLt_asymm (a b : List Nat) : keyLt a b = true → keyLt b a = true → False := by
  unfold keyLt
  rw [cmpBytes_antisymm a b]
  simp only [beq_iff_eq]
  omega

theorem hkLess_asymm (a b : HashKey) : hkLess a b = true → hkLess b a = true → False := by
  unfold hkLess
  by_cases h1 : a.ty = b.ty
  · by_cases h2 : a.int = b.int
    · by_cases h3 : a.str = b.str
      · by_cases h4 : a.flt = b.flt
        · simp [h1, h2, h3, h4]
        · have h4' : ¬ b.flt = a.flt := fun e => h4 e.symm
          simp only [h1, h2, h3, ne_eq, not_true_eq_false, if_false, h4, h4', not_false_eq_true, if_true]
          rw [cmpF_antisymm a.flt b.flt]
          simp only [beq_iff_eq]
          omega
      · have h3' : ¬ b.str = a.str := fun e => h3 e.symm
        simp only [h1, h2, ne_eq, not_true_eq_false, if_false, h3, h3', not_false_eq_true, if_true]
        rw [cmpBytes_antisymm a.str b.str]
        simp only [beq_iff_eq]
        omega
    · have h2' : ¬ b.int = a.int := fun e => h2 e.symm
      simp only [h1, ne_eq, not_true_eq_false, if_false, h2, h2', not_false_eq_true, if_true, decide_eq_true_eq]
      omega
  · have h1' : ¬ b.ty = a.ty := fun e => h1 e.symm
    simp only [ne_eq, h1, h1', not_false_eq_true, if_true, decide_eq_true_eq]
    omega

theorem okLt_asymm (a b : Option HashKey) : okLt a b = true → okLt b a = true → False := by
  cases a <;> cases b <;> simp only [okLt] <;> try (intro h; contradiction)
  exact hkLess_asymm _ _

/-! ### as written = canonical, on well-formed values -/

theorem equalsWG_scalar {conv : Int → F} {a : Val} (h : isScalar a = true) (b : Val) :
    equalsWG conv a b = scalarEquals conv a b := by
  cases a <;> simp_all [equalsWG, isScalar]

/-- `Equals` as the code computes it (size test, then range over the left entries and look
    each key up on the right) is the pointwise comparison of the canonical forms — for ALL
    well-formed values of any nesting depth, for every int→float conversion (so for Impl
    and for Spec).  This is a proof of what `checks/C15.json` used to list as trusted. -/
theorem equalsWG_eq_equalsG (conv : Int → F) :
    ∀ a, wf a = true → ∀ b, wf b = true → equalsWG conv a b = equalsG conv a b := by
  refine Val.induct
    (P := fun a => wf a = true → ∀ b, wf b = true → equalsWG conv a b = equalsG conv a b)
    (Q := fun xs => ∀ x ∈ xs, wf x = true → ∀ b, wf b = true → equalsWG conv x b = equalsG conv x b)
    ?_ ?_ ?_ ?_ ?_ ?_
  · intro a h _ b _
    rw [equalsWG_scalar h, equalsG_scalar h]
  · intro xs ih hw b hb
    cases b <;> simp only [equalsWG, equalsG]
    rename_i ys
    simp only [wf] at hw hb
    rw [wfL_iff] at hw hb
    rw [equalsWL_eq_pw, equalsLG_eq_pw,
      pw_congr xs ys (fun x hx y hy => ih x hx (hw x hx) y (hb y hy))]
  · intro ks vs ih hw b hb
    cases b <;> simp only [equalsWG, equalsG]
    rename_i ks' vs'
    simp only [wf, Bool.and_eq_true, beq_iff_eq] at hw hb
    rw [equalsWM_eq_loop, equalsLG_eq_pw]
    have hv := (wfL_iff vs).1 hw.2
    have hv' := (wfL_iff vs').1 hb.2
    exact loop_eq_canonical keyLt_asymm _ _ hw.1.2 hb.1.2 hw.1.1 hb.1.1
      (fun x hx y hy => ih x hx (hv x hx) y (hv' y hy))
  · intro xs ih hw b hb
    cases b <;> simp only [equalsWG, equalsG]
    rename_i ys
    simp only [wf, Bool.and_eq_true] at hw hb
    rw [equalsWS_eq_loop, equalsLG_eq_pw, ← hashKeys_length xs, ← hashKeys_length ys]
    have hv := (wfL_iff xs).1 hw.2
    have hv' := (wfL_iff ys).1 hb.2
    exact loop_eq_canonical okLt_asymm _ _ hw.1.2 hb.1.2 (hashKeys_length xs) (hashKeys_length ys)
      (fun x hx y hy => ih x hx (hv x hx) y (hv' y hy))
  · intro x hx; simp at hx
  · intro x xs h1 h2 y hy
    simp only [List.mem_cons] at hy
    rcases hy with rfl | hy
    · exact h1
    · exact h2 y hy

/-- `Map.Equals` as written, entry by entry -/
theorem equalsWG_map_iff_entries (conv : Int → F) {ks ks' : List (List Nat)} {vs vs' : List Val}
    (h : wf (.map ks vs) = true) (h' : wf (.map ks' vs') = true) :
    equalsWG conv (.map ks vs) (.map ks' vs') = true ↔
      (∀ k, k ∈ ks ↔ k ∈ ks') ∧
      (∀ k v v', lookupKV k ks vs = some v → lookupKV k ks' vs' = some v' →
        equalsWG conv v v' = true) := by
  simp only [wf, Bool.and_eq_true, beq_iff_eq] at h h'
  simp only [equalsWG]
  rw [equalsWM_eq_loop]
  exact loop_iff_entries keyLt_asymm _ h.1.2 h'.1.2 h.1.1 h'.1.1

theorem lookupKV_hashKeys {k : Option HashKey} {v : Val} : ∀ {xs : List Val},
    lookupKV k (hashKeys xs) xs = some v → hashKey v = k ∧ v ∈ xs
  | [], h => by simp [hashKeys, lookupKV] at h
  | x :: xs, h => by
    simp only [hashKeys, lookupKV] at h
    split at h
    · rename_i e; simp at h; subst h; exact ⟨e.symm, by simp⟩
    · have := lookupKV_hashKeys h
      exact ⟨this.1, List.mem_cons_of_mem _ this.2⟩

/-- `Set.Equals` as written: two sets are equal exactly when they have the same hash keys -/
theorem equalsWG_set_iff_keys (conv : Int → F) {xs ys : List Val}
    (h : wf (.set xs) = true) (h' : wf (.set ys) = true) :
    equalsWG conv (.set xs) (.set ys) = true ↔ ∀ k, k ∈ hashKeys xs ↔ k ∈ hashKeys ys := by
  simp only [wf, Bool.and_eq_true] at h h'
  simp only [equalsWG]
  rw [equalsWS_eq_loop, ← hashKeys_length xs, ← hashKeys_length ys,
    loop_iff_entries okLt_asymm _ h.1.2 h'.1.2 (hashKeys_length xs) (hashKeys_length ys)]
  constructor
  · exact fun hh => hh.1
  · intro hk
    refine ⟨hk, ?_⟩
    intro k v v' h1 h2
    have e1 := lookupKV_hashKeys h1
    have e2 := lookupKV_hashKeys h2
    have hv := allHashable_mem h.1.1 v e1.2
    have hv' := allHashable_mem h'.1.1 v' e2.2
    have hsc : isScalar v = true := by
      cases v <;> simp_all [hashKey, isScalar]
    rw [equalsWG_scalar hsc, ← equalsG_scalar hsc]
    have hkk : keyOf v = keyOf v' := by
      have : some (keyOf v) = some (keyOf v') := by rw [← hv, ← hv', e1.1, e2.1]
      exact Option.some.inj this
    exact ((hashKey_eq_iff conv hv hv').1 hkk).2

theorem hashKeys_eq_map : ∀ xs : List Val, hashKeys xs = xs.map hashKey
  | [] => rfl
  | x :: xs => by simp [hashKeys, hashKeys_eq_map xs]

/-- `x in set` for a hashable probe is "the probe's hash key is one of the set's" -/
theorem contains_set_iff {ys : List Val} {x : Val} (hx : (hashKey x).isSome = true) :
    contains (.set ys) x = some true ↔ hashKey x ∈ hashKeys ys := by
  rw [hashKeys_eq_map]
  cases e : hashKey x with
  | none => rw [e] at hx; simp at hx
  | some k =>
    simp only [contains, e, Option.some.injEq, List.any_eq_true, beq_iff_eq, List.mem_map]

end Risor.C15
