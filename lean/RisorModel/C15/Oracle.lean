import RisorModel.Util
import RisorModel.C15.Model
import RisorModel.C15.Dispatch
/-!
Line-protocol front end of the C15 model (requests after the leading `C15` field).

Values travel in one TAB field as space-separated prefix tokens:
  N | T | U | I <dec> | F <16 hex digits of the IEEE-754 bits> | B <n> | S <hex> | E <hex> <0|1>
  | L <n> v₁…vₙ | M <n> k₁ v₁ … kₙ vₙ (keys hex, sorted) | Z <n> v₁…vₙ (SortedItems order)

Requests:
  pair  <a> <b>      → eq= qe= cmp= pmc= hk= kh= tr= lz= in= ne= lt= le= gt= ge= lossy= seq= scmp= weq= wqe= wf=
                       (weq/wqe: `Equals` as written — the range-and-lookup loops of Map.Equals/Set.Equals;
                        wf: both values are well-formed, i.e. in the canonical form the theorems assume)
  sort  <L …>        → ok <i,j,…> lossy=<0|1>   | err lossy=…      (indices into the input)
  mkset <L …>        → ok <i,j,…>               | err               (kept representative per slot)
  errpair <a> <b>    → eq= qe= cmp= pmc= is= si= veq=
                       (an error object is `<id> <cls> <msg hex> <raised 0|1> <wrapped ids i,j,… or ->`;
                        is/si: errors.Is in both directions; veq: `==` of the presented script values)
  sethist <L table> <init i,j,…> <ops> → one entry per state (after construction, then after each
                       operation), joined by `|`: `<ok 0|1> <items i,j,…> <in bits over the table>`
                       (ops: a<i> add, r<i> remove, d<i> delete(), c clear, o observe; comma-separated;
                        an empty comma-separated list is `.` in these two requests)
  maphist <L table> <init k:i,…> <ops> <probe keys k,…> → the same for a map: `<ok> <entries k:i,…> <has-key bits>`
                       (ops: s<k>:<i> assign, d<k> delete(), p<k> pop, f<k>:<i> setdefault, b rejected key, c clear, o observe;
                        keys hex, the empty key is `-`)
  xpair <a> <b>      → eq= qe= cmp= pmc= hkeq= cross= twins=
                       (a, b: a value as above, or `Y <hex>` a byte_slice, or
                        `W <sec> <nsec> <monotonic reading | -> <location id>` a time;
                        hkeq: both hashable with the same hash key = 1, both hashable with different keys = 0,
                        else `none`; cross: guard `crossBytes`; twins: guard `timeTwins`)
-/
namespace Risor.C15
open Risor.Util

def hexNat (s : String) : Option Nat :=
  s.toList.foldl (fun acc c => match acc, hexVal c with
    | some a, some d => some (a * 16 + d)
    | _, _ => none) (some 0)

/-- decode IEEE-754 binary64 bits; `none` for NaN -/
def decodeF (bits : Nat) : Option F :=
  let sign := bits / 2 ^ 63 % 2
  let e := bits / 2 ^ 52 % 2048
  let m := bits % 2 ^ 52
  if e = 2047 then
    if m = 0 then some (if sign = 1 then .ninf else .pinf) else none
  else
    let mag : Nat := if e = 0 then m else (2 ^ 52 + m) * 2 ^ (e - 1)
    some (.fin (if sign = 1 then -(Int.ofNat mag) else Int.ofNat mag))

/-- encode back (the sign of zero is not part of the model: +0) -/
def encodeF : F → Nat
  | .pinf => 2047 * 2 ^ 52
  | .ninf => 2 ^ 63 + 2047 * 2 ^ 52
  | .fin n =>
    let mag := n.natAbs
    let s := if n < 0 then 2 ^ 63 else 0
    if mag < 2 ^ 52 then s + mag
    else
      let e := mag.log2 - 52
      s + (e + 1) * 2 ^ 52 + (mag / 2 ^ e - 2 ^ 52)

def hex16 (n : Nat) : String :=
  String.ofList ((List.range 16).reverse.map fun i => hexDigit (n / 16 ^ i % 16))

def parseN (fuel : Nat) (p : List String → Option (Val × List String)) :
    Nat → List String → Option (List Val × List String)
  | 0, ts => some ([], ts)
  | n + 1, ts =>
    match fuel with
    | 0 => none
    | _ + 1 =>
      match p ts with
      | none => none
      | some (v, ts') =>
        match parseN fuel p n ts' with
        | none => none
        | some (vs, ts'') => some (v :: vs, ts'')

def parseKV (p : List String → Option (Val × List String)) :
    Nat → List String → Option (List (List Nat) × List Val × List String)
  | 0, ts => some ([], [], ts)
  | n + 1, k :: ts =>
    match fromHex k, p ts with
    | some kb, some (v, ts') =>
      match parseKV p n ts' with
      | some (ks, vs, ts'') => some (kb :: ks, v :: vs, ts'')
      | none => none
    | _, _ => none
  | _ + 1, [] => none

def parseVal : Nat → List String → Option (Val × List String)
  | 0, _ => none
  | fuel + 1, ts =>
    match ts with
    | "N" :: r => some (.nil, r)
    | "T" :: r => some (.bool true, r)
    | "U" :: r => some (.bool false, r)
    | "I" :: d :: r => d.toInt?.map fun i => (.int i, r)
    | "F" :: h :: r => (hexNat h).bind fun b => (decodeF b).map fun f => (.float f, r)
    | "B" :: d :: r => d.toNat?.map fun n => (.byte n, r)
    | "S" :: h :: r => (fromHex h).map fun s => (.str s, r)
    | "E" :: h :: f :: r => (fromHex h).map fun s => (.err s (f == "1"), r)
    | "L" :: d :: r =>
      d.toNat?.bind fun n => (parseN fuel (parseVal fuel) n r).map fun (vs, r') => (.list vs, r')
    | "Z" :: d :: r =>
      d.toNat?.bind fun n => (parseN fuel (parseVal fuel) n r).map fun (vs, r') => (.set vs, r')
    | "M" :: d :: r =>
      d.toNat?.bind fun n => (parseKV (parseVal fuel) n r).map fun (ks, vs, r') => (.map ks vs, r')
    | _ => none

def parseField (s : String) : Option Val :=
  let ts := (s.splitOn " ").filter (· ≠ "")
  match parseVal (ts.length + 1) ts with
  | some (v, []) => some v
  | _ => none

def b01 (b : Bool) : String := if b then "1" else "0"

def showOI : Option Int → String
  | some i => toString i
  | none => "err"

def showOB : Option Bool → String
  | some b => b01 b
  | none => "err"

def tyName : Ty → String
  | .nil => "nil" | .bool => "bool" | .int => "int" | .float => "float" | .byte => "byte"
  | .str => "string" | .err => "error" | .list => "list" | .map => "map" | .set => "set"

def showHK : Option HashKey → String
  | none => "none"
  | some k => tyName k.ty ++ "/" ++ toString k.int ++ "/" ++ toHexField k.str ++ "/" ++ hex16 (encodeF k.flt)

def showIdx (xs : List (Nat × Val)) : String :=
  if xs.isEmpty then "-" else ",".intercalate (xs.map fun p => toString p.1)

def indexed (xs : List Val) : List (Nat × Val) := (List.range xs.length).zip xs

/-! ### error objects and histories -/

def parseIdx (s : String) : Option (List Nat) :=
  if s = "-" then some [] else (s.splitOn ",").mapM fun t => t.toNat?

def parseErrObj (s : String) : Option ErrObj :=
  match (s.splitOn " ").filter (· ≠ "") with
  | [i, c, m, r, w] =>
    match i.toNat?, c.toNat?, fromHex m, parseIdx w with
    | some i, some c, some m, some w => some ⟨⟨i, c, m, w⟩, r == "1"⟩
    | _, _, _, _ => none
  | _ => none

def nth? {α : Type} : List α → Nat → Option α
  | [], _ => none
  | x :: _, 0 => some x
  | _ :: xs, n + 1 => nth? xs n

def parseSetOp (tab : List Val) (t : String) : Option (SetOp (Nat × Val)) :=
  let arg := (t.drop 1).toString.toNat?.bind fun i => (nth? tab i).map fun v => (i, v)
  match t.toList.head? with
  | some 'a' => arg.map .add
  | some 'r' => arg.map .remove
  | some 'd' => arg.map .del
  | some 'c' => some .clear
  | some 'o' => some .observe
  | _ => none

def parseKI (tab : List Val) (s : String) : Option (List Nat × (Nat × Val)) :=
  match s.splitOn ":" with
  | [k, i] =>
    match fromHex k, i.toNat? with
    | some k, some i => (nth? tab i).map fun v => (k, (i, v))
    | _, _ => none
  | _ => none

def parseMapOp (tab : List Val) (t : String) : Option (MapOp (Nat × Val)) :=
  let rest := (t.drop 1).toString
  match t.toList.head? with
  | some 's' => (parseKI tab rest).map fun p => .set p.1 p.2
  | some 'f' => (parseKI tab rest).map fun p => .setdefault p.1 p.2
  | some 'd' => (fromHex rest).map .del
  | some 'p' => (fromHex rest).map .pop
  | some 'b' => some .badkey
  | some 'c' => some .clear
  | some 'o' => some .observe
  | _ => none

def splitList (s : String) : List String := if s = "." then [] else s.splitOn ","

def showNats (xs : List Nat) : String :=
  if xs.isEmpty then "." else ",".intercalate (xs.map toString)

def showSetState (tab : List Val) (st : List (Nat × Val) × Bool) : String :=
  b01 st.2 ++ " " ++ showNats (st.1.map (·.1)) ++ " " ++
    String.join (tab.map fun v => showOB (contains (.set (st.1.map (·.2))) v))

def showMapState (probes : List (List Nat)) (st : List (List Nat × (Nat × Val)) × Bool) : String :=
  b01 st.2 ++ " " ++
    (if st.1.isEmpty then "." else ",".intercalate (st.1.map fun e => toHexField e.1 ++ ":" ++ toString e.2.1)) ++ " " ++
    String.join (probes.map fun k => showOB (contains (mapVal (st.1.map fun e => (e.1, e.2.2))) (.str k)))

def handleH : List String → String
  | ["errpair", a, b] =>
    match parseErrObj a, parseErrObj b with
    | some a, some b =>
      " ".intercalate [
        "eq=" ++ b01 (errObjEquals a b), "qe=" ++ b01 (errObjEquals b a),
        "cmp=" ++ toString (errObjCompare a b), "pmc=" ++ toString (errObjCompare b a),
        "is=" ++ b01 (goIs a.go b.go), "si=" ++ b01 (goIs b.go a.go),
        "veq=" ++ b01 (equals a.val b.val)]
    | _, _ => "error\tbad-error-object"
  | ["sethist", tab, init, ops] =>
    match parseField tab with
    | some (.list tab) =>
      let hashable := fun (p : Nat × Val) => isHashable p.2
      let key := fun (p : Nat × Val) => keyOf p.2
      match (splitList init).mapM (fun t => t.toNat?.bind fun i => (nth? tab i).map fun v => (i, v)),
            (splitList ops).mapM (parseSetOp tab) with
      | some init, some ops =>
        if init.all hashable then
          let s0 := buildSet key init
          "|".intercalate (((s0, true) :: setTrace hashable key s0 ops).map (showSetState tab))
        else "error\tunhashable-initial-item"
      | _, _ => "error\tbad-history"
    | _ => "error\tbad-value"
  | ["maphist", tab, init, ops, probes] =>
    match parseField tab with
    | some (.list tab) =>
      match (splitList init).mapM (parseKI tab), (splitList ops).mapM (parseMapOp tab),
            (splitList probes).mapM fromHex with
      | some init, some ops, some probes =>
        let e0 : List (List Nat × (Nat × Val)) := mapRun [] (init.map fun p => MapOp.set p.1 p.2)
        "|".intercalate (((e0, true) :: mapTrace e0 ops).map (showMapState probes))
      | _, _, _ => "error\tbad-history"
    | _ => "error\tbad-value"
  | _ => "error\tunknown-request"

def parseX (s : String) : Option XVal :=
  match (s.splitOn " ").filter (· ≠ "") with
  | ["Y", h] => (fromHex h).map fun bs => XVal.bslice bs
  | ["W", sec, nsec, mono, loc] =>
    match sec.toInt?, nsec.toNat?, loc.toNat? with
    | some s', some n, some l =>
      if mono = "-" then some (.time ⟨s', n, none, l⟩)
      else mono.toInt?.map fun m => XVal.time ⟨s', n, some m, l⟩
    | _, _, _ => none
  | _ => (parseField s).map XVal.base

def handle : List String → String
  | ["xpair", a, b] =>
    match parseX a, parseX b with
    | some a, some b =>
      " ".intercalate [
        "eq=" ++ b01 (vequals a b), "qe=" ++ b01 (vequals b a),
        "cmp=" ++ showOI (vcompare a b), "pmc=" ++ showOI (vcompare b a),
        "hkeq=" ++ (match vhashKey a, vhashKey b with
          | some k, some k' => b01 (decide (k = k'))
          | _, _ => "none"),
        "cross=" ++ b01 (crossBytes a b),
        "twins=" ++ (match a, b with | .time s, .time t => b01 (timeTwins s t) | _, _ => "0")]
    | _, _ => "error\tbad-value"
  | ["pair", a, b] =>
    match parseField a, parseField b with
    | some a, some b =>
      " ".intercalate [
        "eq=" ++ b01 (equals a b), "qe=" ++ b01 (equals b a),
        "cmp=" ++ showOI (compare a b), "pmc=" ++ showOI (compare b a),
        "hk=" ++ showHK (hashKey a), "kh=" ++ showHK (hashKey b),
        "tr=" ++ b01 (truthy a),
        "lz=" ++ (match len a with | some n => b01 (n == 0) | none => "none"),
        "in=" ++ showOB (contains a b),
        "ne=" ++ b01 (notEquals a b),
        "lt=" ++ showOB (opLt a b), "le=" ++ showOB (opLe a b),
        "gt=" ++ showOB (opGt a b), "ge=" ++ showOB (opGe a b),
        "lossy=" ++ b01 (lossy a b),
        "seq=" ++ b01 (xequals a b), "scmp=" ++ showOI (xcompare a b),
        "weq=" ++ b01 (equalsW a b), "wqe=" ++ b01 (equalsW b a),
        "wf=" ++ b01 (wf a && wf b)]
    | _, _ => "error\tbad-value"
  | ["sort", l] =>
    match parseField l with
    | some (.list xs) =>
      let r := sortM (fun (p q : Nat × Val) => lessM p.2 q.2) (indexed xs)
      (match r with
       | some ys => "ok " ++ showIdx ys
       | none => "err") ++ " lossy=" ++ b01 (lossyAny xs)
    | _ => "error\tbad-value"
  | ["mkset", l] =>
    match parseField l with
    | some (.list xs) =>
      if allHashable xs then
        "ok " ++ showIdx (buildSet (fun (p : Nat × Val) => keyOf p.2) (indexed xs))
      else "err"
    | _ => "error\tbad-value"
  | req => handleH req

end Risor.C15
