import RisorModel.Util
/-! Line-protocol front end of the C15 model (stub until the model exists). -/
namespace Risor.C15

def handle : List String → String
  | _ => "error\tnot-implemented"

end Risor.C15
