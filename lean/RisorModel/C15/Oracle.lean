import RisorModel.Util
import RisorModel.C15.Model
/-!
Line-protocol front end of the C15 model (requests after the leading `C15` field).

Values travel in one TAB field as space-separated prefix tokens:
  N | T | U | I <dec> | F <16 hex digits of the IEEE-754 bits> | B <n> | S <hex> | E <hex> <0|1>
  | L <n> v₁…vₙ | M <n> k₁ v₁ … kₙ vₙ (keys hex, sorted) | Z <n> v₁…vₙ (SortedItems order)

Requests:
  pair  <a> <b>      → eq= qe= cmp= pmc= hk= kh= tr= lz= in= ne= lt= le= gt= ge= lossy= seq= scmp= weq= wqe= wf=
                       (weq/wqe: `Equals` as written — the range-and-lookup loops of Map.Equals/Set.Equals;
                        wf: both values are well-formed, i.e. in the canonical form the theorems assume)
  sort  <L …>        → ok <i,j,…> lossy=<0|1>   | err lossy=…      (indices into the input)
  mkset <L …>        → ok <i,j,…>               | err               (kept representative per slot)
-/
namespace Risor.C15
open Risor.Util

def hexNat (s : String) : Option Nat :=
  s.toList.foldl (fun acc c => match acc, hexVal c with
    | some a, some d => some (a * 16 + d)
    | _, _ => none) (some 0)

/-- decode IEEE-754 binary64 bits; `none` for NaN -/
def decodeF (bits : Nat) : Option F :=
  let sign := bits / 2 ^ 63 % 2
  let e := bits / 2 ^ 52 % 2048
  let m := bits % 2 ^ 52
  if e = 2047 then
    if m = 0 then some (if sign = 1 then .ninf else .pinf) else none
  else
    let mag : Nat := if e = 0 then m else (2 ^ 52 + m) * 2 ^ (e - 1)
    some (.fin (if sign = 1 then -(Int.ofNat mag) else Int.ofNat mag))

/-- encode back (the sign of zero is not part of the model: +0) -/
def encodeF : F → Nat
  | .pinf => 2047 * 2 ^ 52
  | .ninf => 2 ^ 63 + 2047 * 2 ^ 52
  | .fin n =>
    let mag := n.natAbs
    let s := if n < 0 then 2 ^ 63 else 0
    if mag < 2 ^ 52 then s + mag
    else
      let e := mag.log2 - 52
      s + (e + 1) * 2 ^ 52 + (mag / 2 ^ e - 2 ^ 52)

def hex16 (n : Nat) : String :=
  String.ofList ((List.range 16).reverse.map fun i => hexDigit (n / 16 ^ i % 16))

def parseN (fuel : Nat) (p : List String → Option (Val × List String)) :
    Nat → List String → Option (List Val × List String)
  | 0, ts => some ([], ts)
  | n + 1, ts =>
    match fuel with
    | 0 => none
    | _ + 1 =>
      match p ts with
      | none => none
      | some (v, ts') =>
        match parseN fuel p n ts' with
        | none => none
        | some (vs, ts'') => some (v :: vs, ts'')

def parseKV (p : List String → Option (Val × List String)) :
    Nat → List String → Option (List (List Nat) × List Val × List String)
  | 0, ts => some ([], [], ts)
  | n + 1, k :: ts =>
    match fromHex k, p ts with
    | some kb, some (v, ts') =>
      match parseKV p n ts' with
      | some (ks, vs, ts'') => some (kb :: ks, v :: vs, ts'')
      | none => none
    | _, _ => none
  | _ + 1, [] => none

def parseVal : Nat → List String → Option (Val × List String)
  | 0, _ => none
  | fuel + 1, ts =>
    match ts with
    | "N" :: r => some (.nil, r)
    | "T" :: r => some (.bool true, r)
    | "U" :: r => some (.bool false, r)
    | "I" :: d :: r => d.toInt?.map fun i => (.int i, r)
    | "F" :: h :: r => (hexNat h).bind fun b => (decodeF b).map fun f => (.float f, r)
    | "B" :: d :: r => d.toNat?.map fun n => (.byte n, r)
    | "S" :: h :: r => (fromHex h).map fun s => (.str s, r)
    | "E" :: h :: f :: r => (fromHex h).map fun s => (.err s (f == "1"), r)
    | "L" :: d :: r =>
      d.toNat?.bind fun n => (parseN fuel (parseVal fuel) n r).map fun (vs, r') => (.list vs, r')
    | "Z" :: d :: r =>
      d.toNat?.bind fun n => (parseN fuel (parseVal fuel) n r).map fun (vs, r') => (.set vs, r')
    | "M" :: d :: r =>
      d.toNat?.bind fun n => (parseKV (parseVal fuel) n r).map fun (ks, vs, r') => (.map ks vs, r')
    | _ => none

def parseField (s : String) : Option Val :=
  let ts := (s.splitOn " ").filter (· ≠ "")
  match parseVal (ts.length + 1) ts with
  | some (v, []) => some v
  | _ => none

def b01 (b : Bool) : String := if b then "1" else "0"

def showOI : Option Int → String
  | some i => toString i
  | none => "err"

def showOB : Option Bool → String
  | some b => b01 b
  | none => "err"

def tyName : Ty → String
  | .nil => "nil" | .bool => "bool" | .int => "int" | .float => "float" | .byte => "byte"
  | .str => "string" | .err => "error" | .list => "list" | .map => "map" | .set => "set"

def showHK : Option HashKey → String
  | none => "none"
  | some k => tyName k.ty ++ "/" ++ toString k.int ++ "/" ++ toHexField k.str ++ "/" ++ hex16 (encodeF k.flt)

def showIdx (xs : List (Nat × Val)) : String :=
  if xs.isEmpty then "-" else ",".intercalate (xs.map fun p => toString p.1)

def indexed (xs : List Val) : List (Nat × Val) := (List.range xs.length).zip xs

def handle : List String → String
  | ["pair", a, b] =>
    match parseField a, parseField b with
    | some a, some b =>
      " ".intercalate [
        "eq=" ++ b01 (equals a b), "qe=" ++ b01 (equals b a),
        "cmp=" ++ showOI (compare a b), "pmc=" ++ showOI (compare b a),
        "hk=" ++ showHK (hashKey a), "kh=" ++ showHK (hashKey b),
        "tr=" ++ b01 (truthy a),
        "lz=" ++ (match len a with | some n => b01 (n == 0) | none => "none"),
        "in=" ++ showOB (contains a b),
        "ne=" ++ b01 (notEquals a b),
        "lt=" ++ showOB (opLt a b), "le=" ++ showOB (opLe a b),
        "gt=" ++ showOB (opGt a b), "ge=" ++ showOB (opGe a b),
        "lossy=" ++ b01 (lossy a b),
        "seq=" ++ b01 (xequals a b), "scmp=" ++ showOI (xcompare a b),
        "weq=" ++ b01 (equalsW a b), "wqe=" ++ b01 (equalsW b a),
        "wf=" ++ b01 (wf a && wf b)]
    | _, _ => "error\tbad-value"
  | ["sort", l] =>
    match parseField l with
    | some (.list xs) =>
      let r := sortM (fun (p q : Nat × Val) => lessM p.2 q.2) (indexed xs)
      (match r with
       | some ys => "ok " ++ showIdx ys
       | none => "err") ++ " lossy=" ++ b01 (lossyAny xs)
    | _ => "error\tbad-value"
  | ["mkset", l] =>
    match parseField l with
    | some (.list xs) =>
      if allHashable xs then
        "ok " ++ showIdx (buildSet (fun (p : Nat × Val) => keyOf p.2) (indexed xs))
      else "err"
    | _ => "error\tbad-value"
  | _ => "error\tunknown-request"

end Risor.C15
