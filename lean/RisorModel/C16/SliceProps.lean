import RisorModel.C16.Model
import RisorModel.C16.Lemmas
/-!
C16 — the index arithmetic TRANSLATED from object/list.go on every run (`resolveIntSliceGo`,
`insertAct`; `Ties.lean` proves the regenerated definitions equal to the copies in Model.lean
by `rfl`) related to the compact models the heap machine runs, and the property's statements
about slices over ALL integers, all bounds (present, omitted, wrongly typed) and all lists.
-/
namespace Risor.C16

/-- the acceptance condition of a slice with normalised bounds `a`, `b` on a container of
    length `n`, as the property reads it plus the code's extra demand `a < n` -/
def sliceOk (n : Nat) (st sp : Int) : Prop :=
  0 ≤ Spec.sliceNorm n st ∧ Spec.sliceNorm n st ≤ Spec.sliceNorm n sp ∧
    Spec.sliceNorm n sp ≤ n ∧ Spec.sliceNorm n st < n

instance (n : Nat) (st sp : Int) : Decidable (sliceOk n st sp) := by unfold sliceOk; infer_instance

/-- closed form of the translated function on two int bounds -/
def goClosed (n : Nat) (st sp : Int) : SliceResI :=
  if sliceOk n st sp then .ok (Spec.sliceNorm n st) (Spec.sliceNorm n sp) else .err .slice

theorem go_int_int (st sp : Int) (n : Nat) :
    resolveIntSliceGo (some (.int st)) (some (.int sp)) n = goClosed n st sp := by
  unfold resolveIntSliceGo
  dsimp only [notNil, boundInt, isOk, intValue, Option.isSome, Option.getD]
  simp only [Bool.not_true, Bool.false_eq_true, ↓reduceIte, goClosed, sliceOk, Spec.sliceNorm, Bool.not_true]
  repeat' split
  all_goals first
    | rfl
    | (exfalso; simp only [decide_eq_true_eq] at *; omega)
    | (simp only [decide_eq_true_eq] at *; congr 1 <;> omega)

theorem go_none_int (sp : Int) (n : Nat) :
    resolveIntSliceGo none (some (.int sp)) n = goClosed n 0 sp := by
  unfold resolveIntSliceGo
  dsimp only [notNil, boundInt, isOk, intValue, Option.isSome, Option.getD]
  simp only [Bool.not_true, Bool.false_eq_true, ↓reduceIte, goClosed, sliceOk, Spec.sliceNorm, Bool.not_true]
  repeat' split
  all_goals first
    | rfl
    | (exfalso; simp only [decide_eq_true_eq] at *; omega)
    | (simp only [decide_eq_true_eq] at *; congr 1 <;> omega)

theorem go_int_none (st : Int) (n : Nat) :
    resolveIntSliceGo (some (.int st)) none n = goClosed n st n := by
  unfold resolveIntSliceGo
  dsimp only [notNil, boundInt, isOk, intValue, Option.isSome, Option.getD]
  simp only [Bool.not_true, Bool.false_eq_true, ↓reduceIte, goClosed, sliceOk, Spec.sliceNorm, Bool.not_true]
  repeat' split
  all_goals first
    | rfl
    | (exfalso; simp only [decide_eq_true_eq] at *; omega)
    | (simp only [decide_eq_true_eq] at *; congr 1 <;> omega)

theorem go_none_none (n : Nat) :
    resolveIntSliceGo none none n = goClosed n 0 n := by
  unfold resolveIntSliceGo
  dsimp only [notNil, boundInt, isOk, intValue, Option.isSome, Option.getD]
  simp only [Bool.not_true, Bool.false_eq_true, ↓reduceIte, goClosed, sliceOk, Spec.sliceNorm, Bool.not_true]
  repeat' split
  all_goals first
    | rfl
    | (exfalso; simp only [decide_eq_true_eq] at *; omega)
    | (simp only [decide_eq_true_eq] at *; congr 1 <;> omega)

/-- a bound that is present and not an Int object -/
def badBound (x : Option Val) : Bool :=
  match x with
  | none => false
  | some (.int _) => false
  | some _ => true

theorem go_bad_start (s t : Option Val) (n : Int) (h : badBound s = true) :
    resolveIntSliceGo s t n = .err .type := by
  cases s with
  | none => cases h
  | some v => cases v <;> first | rfl | cases h

theorem go_bad_stop (s t : Option Val) (n : Int) (h : badBound t = true) :
    resolveIntSliceGo s t n = .err .type := by
  cases t with
  | none => cases h
  | some w =>
    cases w <;> first
      | (cases s with
         | none => rfl
         | some v => cases v <;> rfl)
      | cases h

theorem boundOf_bad (x : Option Val) (d : Int) : boundOf x d = none ↔ badBound x = true := by
  cases x with
  | none => simp [boundOf, badBound]
  | some v => cases v <;> simp [boundOf, badBound]

/-- the translated `ResolveIntSlice`, in closed form, for every pair of bounds -/
theorem resolveIntSliceGo_eq (s t : Option Val) (n : Nat) :
    resolveIntSliceGo s t n =
      (match boundOf s 0, boundOf t n with
       | some st, some sp => goClosed n st sp
       | _, _ => .err .type) := by
  by_cases hs : badBound s = true
  · rw [go_bad_start s t n hs, (boundOf_bad s 0).2 hs]
  by_cases ht : badBound t = true
  · rw [go_bad_stop s t n ht, (boundOf_bad t n).2 ht]
    cases boundOf s 0 <;> rfl
  cases s with
  | none =>
    cases t with
    | none => exact go_none_none n
    | some w => cases w <;> first | exact go_none_int _ n | (exfalso; exact ht rfl)
  | some v =>
    cases v <;> first
      | (exfalso; exact hs rfl)
      | (cases t with
         | none => exact go_int_none _ n
         | some w => cases w <;> first | exact go_int_int _ _ n | (exfalso; exact ht rfl))

/-- the machine's slice result read as the translated function's result type -/
def SliceRes.toI : SliceRes → SliceResI
  | .ok a b => .ok a b
  | .err c => .err c

/-- The compact model of `ResolveIntSlice` the heap machine (and every theorem of Props.lean
    about slices) runs computes, for EVERY pair of bounds (omitted, an int of any size, a value
    of any other type) and every length, exactly what the function translated from the Go
    source on this run computes: same bounds, same error class. -/
theorem resolveIntSlice_eq_go (s t : Option Val) (n : Nat) :
    resolveIntSliceGo s t n = (resolveIntSlice s t n).toI := by
  rw [resolveIntSliceGo_eq]
  unfold resolveIntSlice
  cases boundOf s 0 with
  | none => rfl
  | some st =>
    cases boundOf t n with
    | none => rfl
    | some sp =>
      simp only [sliceBounds_eq, goClosed]
      by_cases h : sliceOk n st sp
      · have h' := h
        unfold sliceOk at h'
        rw [if_pos h, if_pos h']
        simp only [SliceRes.toI, SliceResI.ok.injEq]
        omega
      · have h' := h
        unfold sliceOk at h'
        rw [if_neg h, if_neg h']; rfl

/-! ## The property's statements about slices, over the TRANSLATED function -/

/-- **resolveIntSlice_in_bounds**: whenever the function translated from object/list.go
    `ResolveIntSlice` succeeds -- for every pair of bounds (omitted, any int, any other value)
    and every container length `n` -- the bounds it returns satisfy `0 ≤ start ≤ stop ≤ n`
    (and, as the code is written, `start < n`), so `items[start:stop]` never reads outside
    the container. -/
theorem resolveIntSlice_in_bounds (s t : Option Val) (n : Nat) (a b : Int)
    (h : resolveIntSliceGo s t n = .ok a b) : 0 ≤ a ∧ a ≤ b ∧ b ≤ n ∧ a < n := by
  rw [resolveIntSliceGo_eq] at h
  split at h
  · unfold goClosed at h
    split at h
    · rename_i hc
      unfold sliceOk at hc
      simp only [SliceResI.ok.injEq] at h
      omega
    · cases h
  · cases h

/-- **resolveIntSlice_rejects_iff**: with bounds that are omitted or ints (of any size), the
    translated function raises an error exactly when the normalised bounds (`x + n` for a
    negative `x`; 0 / `n` for an omitted one) are NOT a range `0 ≤ a ≤ b ≤ n` with `a < n`; the
    error is then a slice error, and otherwise the result is exactly the normalised pair. -/
theorem resolveIntSlice_rejects_iff (s t : Option Val) (n : Nat) (st sp : Int)
    (hs : boundOf s 0 = some st) (ht : boundOf t n = some sp) :
    (resolveIntSliceGo s t n = .err .slice ↔ ¬ sliceOk n st sp) ∧
    (resolveIntSliceGo s t n = .ok (Spec.sliceNorm n st) (Spec.sliceNorm n sp) ↔ sliceOk n st sp) ∧
    resolveIntSliceGo s t n ≠ .err .type := by
  rw [resolveIntSliceGo_eq, hs, ht]
  simp only [goClosed]
  by_cases h : sliceOk n st sp
  · simp [h]
  · simp [h]

/-- **resolveIntSlice_type_error_iff**: the translated function raises a type error exactly
    when a bound is present and is not an int. -/
theorem resolveIntSlice_type_error_iff (s t : Option Val) (n : Nat) :
    resolveIntSliceGo s t n = .err .type ↔ (badBound s = true ∨ badBound t = true) := by
  constructor
  · intro h
    rw [resolveIntSliceGo_eq] at h
    cases hs : boundOf s 0 with
    | none => exact Or.inl ((boundOf_bad s 0).1 hs)
    | some st =>
      cases ht : boundOf t n with
      | none => exact Or.inr ((boundOf_bad t n).1 ht)
      | some sp =>
        rw [hs, ht] at h
        simp only [goClosed] at h
        split at h <;> cases h
  · rintro (h | h)
    · exact go_bad_start s t n h
    · exact go_bad_stop s t n h

/-- **slice_is_sublist**: for every list, `l[s:t]` of the code-shaped model succeeds exactly
    when the translated `ResolveIntSlice` does, and is then the sub-list between the resolved
    bounds: `take stop` then `drop start` (= `List.extract`) -- nothing else of the list, in
    order. -/
theorem slice_is_sublist (items : List Val) (s t : Option Val) :
    (∀ r, Impl.slice items s t = .ok r →
      ∃ a b : Int, resolveIntSliceGo s t items.length = .ok a b ∧
        r = (items.take b.toNat).drop a.toNat ∧ r = items.extract a.toNat b.toNat) ∧
    (∀ c, Impl.slice items s t = .error c ↔ resolveIntSliceGo s t items.length = .err c) := by
  rw [resolveIntSlice_eq_go]
  unfold Impl.slice
  cases h : resolveIntSlice s t items.length with
  | ok a b =>
    refine ⟨fun r hr => ⟨a, b, rfl, ?_, ?_⟩, fun c => ?_⟩
    · simp only [Except.ok.injEq] at hr
      subst hr
      simp [List.drop_take]
    · simp only [Except.ok.injEq] at hr
      subst hr
      rw [List.extract_eq_take_drop]
      simp
    · simp [SliceRes.toI]
  | err c =>
    refine ⟨fun r hr => (by cases hr), fun c' => ?_⟩
    simp [SliceRes.toI]

/-- **slice_full_is_copy**: `l[:]` of a non-empty list is the whole list (the machine stores
    it as a new object: `slice_independent` in Props.lean). -/
theorem slice_full_is_copy (items : List Val) (h : items ≠ []) :
    Impl.slice items none none = .ok items := by
  rw [Impl.slice_refines]
  unfold Spec.slice
  have : 0 < items.length := List.length_pos_iff.mpr h
  have hn : ¬ ((items.length : Int) < 0) := by omega
  simp [boundOf, Spec.sliceNorm, this, hn]

/-- as the code is written (`start > size-1` is an error even for `start = 0`), `[][:]` and
    every other slice of an EMPTY list raises a slice error instead of giving `[]`: an error,
    not wrong data -/
theorem slice_of_empty_rejected (s t : Option Val) (r : List Val) :
    Impl.slice [] s t ≠ .ok r := by
  intro h
  obtain ⟨a, b, hab, _⟩ := (slice_is_sublist [] s t).1 r h
  have := resolveIntSlice_in_bounds s t 0 a b hab
  omega

/-- **slice_concat**: for every list and every integer `k`, whenever the code accepts both
    `l[:k]` and `l[k:]`, the two pieces joined are the list. -/
theorem slice_concat (items : List Val) (k : Int) (r1 r2 : List Val)
    (h1 : Impl.slice items none (some (.int k)) = .ok r1)
    (h2 : Impl.slice items (some (.int k)) none = .ok r2) : r1 ++ r2 = items := by
  rw [Impl.slice_refines] at h1 h2
  simp only [Spec.slice, boundOf] at h1 h2
  have e0 : Spec.sliceNorm items.length 0 = 0 := by simp [Spec.sliceNorm]
  have en : Spec.sliceNorm items.length items.length = items.length := by
    simp only [Spec.sliceNorm]; split <;> omega
  rw [e0] at h1
  rw [en] at h2
  split at h1
  · split at h2
    · simp only [Except.ok.injEq] at h1 h2
      subst h1; subst h2
      simp only [Int.toNat_zero, List.drop_zero, Nat.sub_zero, Int.toNat_natCast]
      rw [List.take_of_length_le (l := List.drop _ _) (by simp), List.take_append_drop]
    · cases h2
  · cases h1

theorem ite_ok_iff {c : Prop} [Decidable c] (x : List Val) :
    (∃ r, (if c then (Except.ok x : Except ErrC (List Val)) else .error .slice) = .ok r) ↔ c := by
  by_cases h : c <;> simp [h]

/-- the code accepts both `l[:k]` and `l[k:]` exactly for `-n ≤ k < n` -/
theorem slice_concat_accepts_iff (items : List Val) (k : Int) :
    ((∃ r1, Impl.slice items none (some (.int k)) = .ok r1) ∧
      (∃ r2, Impl.slice items (some (.int k)) none = .ok r2)) ↔
    (-(items.length : Int) ≤ k ∧ k < items.length) := by
  rw [Impl.slice_refines, Impl.slice_refines]
  simp only [Spec.slice, boundOf]
  have e0 : Spec.sliceNorm items.length 0 = 0 := by simp [Spec.sliceNorm]
  have en : Spec.sliceNorm items.length items.length = items.length := by
    simp only [Spec.sliceNorm]; split <;> omega
  rw [e0, en]
  simp only [ite_ok_iff]
  unfold Spec.sliceNorm
  split <;> omega

example : resolveIntSliceGo (some (.int (-2))) none 3 = .ok 1 3 := by decide
example : resolveIntSliceGo (some (.int 3)) none 3 = .err .slice := by decide
example : resolveIntSliceGo none (some (.str [97])) 3 = .err .type := by decide
example : Impl.slice [.int 1, .int 2, .int 3] none (some (.int (-1))) = .ok [.int 1, .int 2] := by rfl

/-! ## `(*List).Insert`: the translated index arithmetic and choice of slice operation -/

/-- what the three slice operations of `(*List).Insert` leave in `items` -/
def applyInsAct (items : List Val) (v : Val) : InsAct → List Val
  | .prepend => v :: items
  | .append => items ++ [v]
  | .shift k => items.take k.toNat ++ v :: items.drop k.toNat

/-- **insert_eq_act**: for every list, every integer index and every value, the compact
    `Impl.insert` the machine runs is the slice operation the TRANSLATED `(*List).Insert`
    chooses, applied to the list. -/
theorem insert_eq_act (items : List Val) (index : Int) (v : Val) :
    Impl.insert items index v = applyInsAct items v (insertAct index items.length) := by
  unfold Impl.insert insertAct
  simp only [beq_iff_eq, decide_eq_true_eq]
  repeat' split
  all_goals first
    | rfl
    | (exfalso; omega)
    | (exfalso; simp_all; done)
    | (simp only [applyInsAct]; congr <;> omega)

/-- **insertAct_position**: the translated `(*List).Insert` puts the new item before
    position `clamp(index)` of the reference reading (`Spec.insertPos`: negative indices count
    from the end and stop at 0, large ones stop at the end), for ALL integers. -/
theorem insertAct_position (items : List Val) (index : Int) (v : Val) :
    applyInsAct items v (insertAct index items.length) = Spec.insert items index v := by
  rw [← insert_eq_act]; exact Impl.insert_refines items index v

example : insertAct (-9) 2 = .prepend := by decide
example : insertAct 1 3 = .shift 1 := by decide
example : insertAct 99 3 = .append := by decide

end Risor.C16
