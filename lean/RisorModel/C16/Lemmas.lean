import RisorModel.C16.Model
/-! C16 — helper lemmas: index arithmetic and per-operation agreement of the code-shaped
    (`Impl`) and reference (`Spec`) container functions. -/
namespace Risor.C16

/-! ### index normalisation -/

theorem resolveIndex_eq_normIndex (i : Int) (n : Nat) :
    resolveIndex i n = (match Spec.normIndex n i with | some k => IdxRes.ok k | none => IdxRes.err) := by
  unfold resolveIndex Spec.normIndex
  simp only [decide_eq_true_eq, Bool.or_eq_true]
  split
  · rename_i h1
    have : ¬ (0 ≤ i ∧ i < n) := by omega
    have : ¬ (-(n : Int) ≤ i ∧ i < 0) := by omega
    simp [*]
  · rename_i h1
    split
    · rename_i h2
      have h : 0 ≤ i ∧ i < n := by omega
      simp only [h, and_self, ↓reduceIte]
      congr 1
      omega
    · rename_i h2
      have hn : ¬ (0 ≤ i ∧ i < n) := by omega
      split
      · rename_i h3
        have : ¬ (-(n : Int) ≤ i ∧ i < 0) := by omega
        simp [*]
      · rename_i h3
        have h : -(n : Int) ≤ i ∧ i < 0 := by omega
        simp only [↓reduceIte, h, and_self]
        congr 1
        omega

theorem normIndex_lt (n : Nat) (i : Int) (k : Nat) (h : Spec.normIndex n i = some k) : k < n := by
  unfold Spec.normIndex at h
  split at h
  · simp only [Option.some.injEq] at h; omega
  · split at h
    · simp only [Option.some.injEq] at h; omega
    · cases h

/-- `ResolveIntSlice`'s arithmetic accepts exactly the normalised pairs with
    `0 ≤ a ≤ b ≤ n` and `a < n`, and returns them unchanged -/
theorem sliceBounds_eq (st sp : Int) (n : Nat) :
    sliceBounds st sp n =
      (if 0 ≤ Spec.sliceNorm n st ∧ Spec.sliceNorm n st ≤ Spec.sliceNorm n sp ∧ Spec.sliceNorm n sp ≤ n ∧ Spec.sliceNorm n st < n
       then some (Spec.sliceNorm n st, Spec.sliceNorm n sp) else none) := by
  unfold sliceBounds Spec.sliceNorm
  by_cases h1 : st < 0 <;> by_cases h2 : sp < 0 <;> simp only [h1, h2, ↓reduceIte]
  all_goals (repeat' split)
  all_goals first
    | rfl
    | (exfalso; omega)
    | (congr 2 <;> omega)

namespace Impl

theorem slice_refines (xs : List Val) (a b : Option Val) : Impl.slice xs a b = Spec.slice xs a b := by
  unfold Impl.slice Spec.slice resolveIntSlice
  cases h1 : boundOf a 0 <;> cases h2 : boundOf b xs.length <;> simp only []
  rw [sliceBounds_eq]
  rename_i st sp
  by_cases hc : 0 ≤ Spec.sliceNorm xs.length st ∧ Spec.sliceNorm xs.length st ≤ Spec.sliceNorm xs.length sp ∧
      Spec.sliceNorm xs.length sp ≤ xs.length ∧ Spec.sliceNorm xs.length st < xs.length
  · rw [if_pos hc, if_pos hc]
  · rw [if_neg hc, if_neg hc]

theorem getItem_refines (xs : List Val) (i : Int) : Impl.getItem xs i = Spec.getItem xs i := by
  unfold Impl.getItem Spec.getItem
  rw [resolveIndex_eq_normIndex]
  cases h : Spec.normIndex xs.length i <;> simp

theorem setItem_refines (xs : List Val) (i : Int) (v : Val) : Impl.setItem xs i v = Spec.setItem xs i v := by
  unfold Impl.setItem Spec.setItem
  rw [resolveIndex_eq_normIndex]
  cases h : Spec.normIndex xs.length i <;> simp

theorem splice_eq_eraseIdx (xs : List Val) (k : Nat) : Impl.splice xs k = xs.eraseIdx k := by
  unfold Impl.splice
  rw [List.eraseIdx_eq_take_drop_succ]

theorem pop_refines (xs : List Val) (i : Int) : Impl.pop xs i = Spec.pop xs i := by
  unfold Impl.pop Spec.pop
  rw [resolveIndex_eq_normIndex]
  cases h : Spec.normIndex xs.length i <;> simp [splice_eq_eraseIdx]

theorem delItem_refines (xs : List Val) (i : Int) : Impl.delItem xs i = Spec.delItem xs i := by
  unfold Impl.delItem Spec.delItem
  rw [resolveIndex_eq_normIndex]
  cases h : Spec.normIndex xs.length i <;> simp [splice_eq_eraseIdx]

theorem insert_refines (xs : List Val) (i : Int) (v : Val) : Impl.insert xs i v = Spec.insert xs i v := by
  unfold Impl.insert Spec.insert Spec.insertPos
  simp only
  by_cases h0 : i < 0
  · simp only [h0, ↓reduceIte]
    by_cases h1 : (xs.length : Int) + i < 0
    · simp [h1]
    · simp only [h1, ↓reduceIte]
      by_cases h2 : (xs.length : Int) + i = 0
      · simp [h2]
      · have h3 : ¬ ((xs.length : Int) + i ≥ xs.length) := by omega
        simp [h2, h3]
  · simp only [h0, ↓reduceIte]
    by_cases h2 : i = 0
    · subst h2
      cases xs with
      | nil => simp
      | cons y ys =>
        have : ¬ ((ys.length : Int) + 1 ≤ 0) := by omega
        simp [this]
    · simp only [h2, ↓reduceIte]
      by_cases h3 : i ≥ xs.length
      · simp [h3]
      · simp [h3]

theorem indexOf_none (eq : Val → Val → Bool) (v : Val) (xs : List Val)
    (h : Impl.indexOf eq v xs = none) : ∀ x ∈ xs, eq v x = false := by
  induction xs with
  | nil => simp
  | cons y ys ih =>
    unfold Impl.indexOf at h
    split at h
    · cases h
    · rename_i hy
      simp only [Option.map_eq_none_iff] at h
      intro x hx
      simp only [List.mem_cons] at hx
      rcases hx with rfl | hx
      · simpa using hy
      · exact ih h x hx

theorem remove_refines (eq : Val → Val → Bool) (xs : List Val) (v : Val) :
    Impl.remove eq xs v = Spec.remove eq xs v := by
  unfold Impl.remove Spec.remove
  induction xs with
  | nil => simp [Impl.indexOf]
  | cons y ys ih =>
    unfold Impl.indexOf
    by_cases hy : eq v y = true
    · simp [hy, Impl.splice]
    · simp only [hy, Bool.false_eq_true, ↓reduceIte]
      have hy' : eq v y = false := by simpa using hy
      rw [List.eraseP_cons_of_neg (by simp [hy'])]
      cases hi : Impl.indexOf eq v ys with
      | none =>
        simp only [hi] at ih
        simp [← ih]
      | some k =>
        simp only [hi] at ih
        simp only [Option.map_some]
        rw [← ih]
        simp [Impl.splice]

theorem count_foldl (eq : Val → Val → Bool) (v : Val) (xs : List Val) (c : Nat) :
    xs.foldl (fun c x => if eq v x then c + 1 else c) c = c + xs.countP (fun x => eq v x) := by
  induction xs generalizing c with
  | nil => simp
  | cons y ys ih =>
    simp only [List.foldl_cons, List.countP_cons]
    rw [ih]
    by_cases hy : eq v y = true <;> simp [hy] <;> omega

theorem count_refines (eq : Val → Val → Bool) (xs : List Val) (v : Val) :
    Impl.count eq xs v = Spec.count eq xs v := by
  unfold Impl.count Spec.count
  rw [count_foldl]; simp

/-! ### the in-place swap loop of `List.Reverse` computes `List.reverse` -/

theorem swapAt_shape (p m s : List Val) (x y : Val) :
    swapAt (p ++ x :: (m ++ y :: s)) p.length (p.length + m.length + 1) = p ++ y :: (m ++ x :: s) := by
  unfold swapAt
  have h1 : (p ++ x :: (m ++ y :: s))[p.length]? = some x := by simp
  have h2 : (p ++ x :: (m ++ y :: s))[p.length + m.length + 1]? = some y := by
    rw [List.getElem?_append_right (by omega)]
    have : p.length + m.length + 1 - p.length = m.length + 1 := by omega
    rw [this]
    simp
  rw [h1, h2]
  simp only
  rw [List.set_append_right _ _ (by omega)]
  simp only [Nat.sub_self, List.set_cons_zero]
  rw [List.set_append_right _ _ (by omega)]
  have : p.length + m.length + 1 - p.length = m.length + 1 := by omega
  rw [this]
  simp only [List.set_cons_succ]
  rw [List.set_append_right _ _ (by omega)]
  simp

theorem revLoop_spec (n : Nat) : ∀ (m p s : List Val) (f : Nat), m.length = n → m.length ≤ f →
    revLoop f (p ++ m ++ s) p.length (p.length + m.length - 1) = p ++ m.reverse ++ s := by
  induction n using Nat.strongRecOn with
  | _ n ih =>
    intro m p s f hn hf
    cases f with
    | zero =>
      have : m = [] := by cases m <;> simp_all
      subst this; simp [revLoop]
    | succ f =>
      unfold revLoop
      cases m with
      | nil => simp; omega
      | cons x m1 =>
        by_cases h1 : m1 = []
        · subst h1; simp
        · obtain ⟨m2, y, rfl⟩ : ∃ m2 y, m1 = m2 ++ [y] := ⟨m1.dropLast, m1.getLast h1, (List.dropLast_concat_getLast h1).symm⟩
          have hlt : p.length < p.length + (x :: (m2 ++ [y])).length - 1 := by simp
          simp only [hlt, ↓reduceIte]
          have e1 : p ++ x :: (m2 ++ [y]) ++ s = p ++ x :: (m2 ++ y :: s) := by simp
          have e2 : p.length + (x :: (m2 ++ [y])).length - 1 = p.length + m2.length + 1 := by simp; omega
          rw [e1, e2, swapAt_shape]
          have e3 : p ++ y :: (m2 ++ x :: s) = (p ++ [y]) ++ m2 ++ (x :: s) := by simp
          have e4 : p.length + 1 = (p ++ [y]).length := by simp
          have e5 : p.length + m2.length + 1 - 1 = (p ++ [y]).length + m2.length - 1 := by simp
          rw [e3, e5, e4]
          rw [ih m2.length (by simp at hn; omega) m2 (p ++ [y]) (x :: s) f rfl (by simp at hf; omega)]
          simp

theorem reverse_refines (xs : List Val) : Impl.reverse xs = Spec.reverse xs := by
  unfold Impl.reverse Spec.reverse
  have := revLoop_spec xs.length xs [] [] xs.length rfl (Nat.le_refl _)
  simpa using this

theorem strGet_refines (s : Str) (i : Int) : Impl.strGet s i = Spec.strGet s i := by
  unfold Impl.strGet Spec.strGet
  simp only
  rw [resolveIndex_eq_normIndex]
  cases h : Spec.normIndex (runes s).length i <;> simp

/-! ### list.map -/

/-- the loop appends, to what it has collected so far, the reference result of the rest -/
theorem mapLoop_eq (cb : Cb) (i : Nat) (xs acc : List Val) :
    mapLoop cb i xs acc = acc ++ Spec.mapIdxFrom cb i xs := by
  induction xs generalizing i acc with
  | nil => simp [mapLoop, Spec.mapIdxFrom]
  | cons x xs ih =>
    simp only [mapLoop, Spec.mapIdxFrom, ih, List.append_assoc, List.cons_append, List.nil_append]
    cases cb <;> rfl

/-- **`list.map` refines the reference map, for EVERY callback shape** (the index-returning
    one included: since the repair each call gets an index object of its own) -/
theorem mapIdx_refines (cb : Cb) (xs : List Val) : Impl.mapIdx cb xs = Spec.mapIdx cb xs := by
  unfold Impl.mapIdx Spec.mapIdx
  rw [mapLoop_eq]; rfl

/-! #### historical: the shared index object of the code before the repair -/

/-- callbacks that did not let the index object escape were right before the repair too -/
theorem preFixMapPtrs_no_ptr (cb : Cb) (hcb : cb ≠ .idx) (last : Int) (i : Nat) (xs : List Val) :
    (preFixMapPtrs cb i xs).map (fun p => match p with | some v => v | none => Val.int last) = Spec.mapIdxFrom cb i xs := by
  induction xs generalizing i with
  | nil => simp [preFixMapPtrs, Spec.mapIdxFrom]
  | cons x xs ih =>
    simp only [preFixMapPtrs, Spec.mapIdxFrom, List.map_cons, ih]
    cases cb <;> simp_all

theorem preFixMapIdx_refines (cb : Cb) (hcb : cb ≠ .idx) (xs : List Val) :
    Impl.preFixMapIdx cb xs = Spec.mapIdx cb xs := by
  unfold Impl.preFixMapIdx Spec.mapIdx
  exact preFixMapPtrs_no_ptr cb hcb _ 0 xs

theorem preFixMapPtrs_idx (last : Int) (i : Nat) (xs : List Val) :
    (preFixMapPtrs .idx i xs).map (fun p => match p with | some v => v | none => Val.int last)
      = List.replicate xs.length (Val.int last) := by
  induction xs generalizing i with
  | nil => simp [preFixMapPtrs]
  | cons x xs ih => simp [preFixMapPtrs, ih, List.replicate_succ]

/-- what the code before the repair returned for `xs.map(func(i, x) { return i })`:
    n copies of n-1 -/
theorem preFixMapIdx_idx (xs : List Val) :
    Impl.preFixMapIdx .idx xs = List.replicate xs.length (Val.int ((xs.length : Int) - 1)) := by
  unfold Impl.preFixMapIdx
  exact preFixMapPtrs_idx _ 0 xs

/-! ### sort keeps every element (also when a comparison fails or panics) -/

theorem ins_perm (cmp : Val → Val → Cmp) (x : Val) (rp : List Val) : (Impl.ins cmp x rp).1.Perm (x :: rp) := by
  induction rp with
  | nil => simp [Impl.ins]
  | cons y ys ih =>
    unfold Impl.ins
    cases cmp x y with
    | lt => exact (List.Perm.cons y ih).trans (List.Perm.swap x y ys)
    | ge => exact List.Perm.refl _
    | err => exact List.Perm.refl _
    | panic => exact List.Perm.refl _

theorem sortLoop_perm (cmp : Val → Val → Cmp) (rp rest : List Val) (flag : Cmp) :
    (Impl.sortLoop cmp rp rest flag).1.Perm (rp.reverse ++ rest) := by
  induction rest generalizing rp flag with
  | nil => simp [Impl.sortLoop]
  | cons x rest ih =>
    have hp := ins_perm cmp x rp
    have key : ∀ rp' : List Val, rp'.Perm (x :: rp) → (rp'.reverse ++ rest).Perm (rp.reverse ++ x :: rest) := by
      intro rp' h
      have h1 : rp'.reverse.Perm (x :: rp.reverse) :=
        (List.reverse_perm rp').trans (h.trans (List.Perm.cons x (List.reverse_perm rp).symm))
      exact (List.Perm.append_right rest h1).trans (by simpa using (List.perm_middle (a := x) (l₁ := rp.reverse) (l₂ := rest)).symm)
    unfold Impl.sortLoop
    cases hc : Impl.ins cmp x rp with
    | mk rp' c =>
      rw [hc] at hp
      cases c with
      | panic => exact key rp' hp
      | err => exact (ih rp' .err).trans (key rp' hp)
      | lt => exact (ih rp' flag).trans (key rp' hp)
      | ge => exact (ih rp' flag).trans (key rp' hp)

theorem sort_perm (cmp : Val → Val → Cmp) (xs : List Val) : (Impl.sort cmp xs).1.Perm xs := by
  simpa [Impl.sort] using sortLoop_perm cmp [] xs .ge

/-! ### sort sorts, for comparators that behave as a total order -/

/-- the comparator is a total, consistent "less than": it never fails, and "not less" is
    transitive and connected (what C15 proves for mutually comparable values) -/
structure GoodCmp (cmp : Val → Val → Cmp) : Prop where
  total : ∀ a b, cmp a b = .lt ∨ cmp a b = .ge
  asymm : ∀ a b, cmp a b = .lt → cmp b a = .ge
  trans : ∀ a b c, cmp a b = .ge → cmp b c = .ge → cmp a c = .ge

/-- reversed prefix is sorted: every earlier element (further right in the array) is not
    less than any later one -/
def RSorted (cmp : Val → Val → Cmp) (rp : List Val) : Prop := rp.Pairwise (fun a b => cmp a b = .ge)

theorem ins_flag (cmp : Val → Val → Cmp) (g : GoodCmp cmp) (x : Val) (rp : List Val) :
    (Impl.ins cmp x rp).2 = .ge := by
  induction rp with
  | nil => simp [Impl.ins]
  | cons y ys ih =>
    unfold Impl.ins
    rcases g.total x y with h | h <;> simp [h, ih]

theorem ins_sorted (cmp : Val → Val → Cmp) (g : GoodCmp cmp) (x : Val) (rp : List Val)
    (hs : RSorted cmp rp) : RSorted cmp (Impl.ins cmp x rp).1 := by
  induction rp with
  | nil => simp [Impl.ins, RSorted]
  | cons y ys ih =>
    unfold Impl.ins
    have hys : RSorted cmp ys := (List.pairwise_cons.1 hs).2
    have hy : ∀ z ∈ ys, cmp y z = .ge := (List.pairwise_cons.1 hs).1
    rcases g.total x y with h | h
    · simp only [h]
      refine List.pairwise_cons.2 ⟨?_, ih hys⟩
      intro z hz
      have hz' : z ∈ x :: ys := (ins_perm cmp x ys).mem_iff.1 hz
      simp only [List.mem_cons] at hz'
      rcases hz' with rfl | hz'
      · exact g.asymm _ _ h
      · exact hy z hz'
    · simp only [h]
      refine List.pairwise_cons.2 ⟨?_, hs⟩
      intro z hz
      simp only [List.mem_cons] at hz
      rcases hz with rfl | hz
      · exact h
      · exact g.trans x y z h (hy z hz)

theorem sortLoop_sorted (cmp : Val → Val → Cmp) (g : GoodCmp cmp) (rp rest : List Val)
    (hs : RSorted cmp rp) :
    (Impl.sortLoop cmp rp rest .ge).2 = .ge ∧
    (Impl.sortLoop cmp rp rest .ge).1.Pairwise (fun a b => cmp b a = .ge) := by
  induction rest generalizing rp with
  | nil =>
    simp only [Impl.sortLoop, true_and]
    exact List.pairwise_reverse.2 hs
  | cons x rest ih =>
    unfold Impl.sortLoop
    have hf := ins_flag cmp g x rp
    have hs' := ins_sorted cmp g x rp hs
    cases hc : Impl.ins cmp x rp with
    | mk rp' c =>
      rw [hc] at hf hs'
      simp only at hf hs'
      subst hf
      exact ih rp' hs'

/-- any comparator induced by an integer key is good (e.g. lists of ints) -/
theorem goodCmp_of_key (key : Val → Int) : GoodCmp (fun a b => if key a < key b then .lt else .ge) := by
  refine ⟨?_, ?_, ?_⟩
  · intro a b; by_cases h : key a < key b <;> simp [h]
  · intro a b h
    by_cases h1 : key a < key b
    · have : ¬ key b < key a := by omega
      simp [this]
    · simp [h1] at h
  · intro a b c h1 h2
    by_cases h3 : key a < key b
    · simp [h3] at h1
    · by_cases h4 : key b < key c
      · simp [h4] at h2
      · have : ¬ key a < key c := by omega
        simp [this]

/-! ### maps -/

def keys (kvs : List (Str × Val)) : List Str := kvs.map (·.1)

theorem lookup_mset (kvs : List (Str × Val)) (k : Str) (v : Val) (k' : Str) :
    lookupKV k' (Impl.mset kvs k v) = if k' = k then some v else lookupKV k' kvs := by
  induction kvs with
  | nil => simp [Impl.mset, lookupKV, eq_comm]
  | cons p rest ih =>
    obtain ⟨a, b⟩ := p
    unfold Impl.mset
    by_cases h : a = k
    · subst h
      by_cases h2 : k' = a <;> simp [lookupKV, h2, eq_comm]
    · simp only [h, ↓reduceIte, lookupKV, ih]
      by_cases h2 : a = k'
      · have : ¬ k' = k := fun e => h (h2.trans e)
        simp [h2, this]
      · simp [h2]

theorem lookup_mdel (kvs : List (Str × Val)) (k k' : Str) :
    lookupKV k' (Impl.mdel kvs k) = if k' = k then none else lookupKV k' kvs := by
  induction kvs with
  | nil => simp [Impl.mdel, lookupKV]
  | cons p rest ih =>
    obtain ⟨a, b⟩ := p
    have hstep : Impl.mdel ((a, b) :: rest) k = if a = k then Impl.mdel rest k else (a, b) :: Impl.mdel rest k := by
      unfold Impl.mdel
      by_cases h : a = k <;> simp [List.filter_cons, h]
    rw [hstep]
    by_cases h : a = k
    · subst h
      simp only [↓reduceIte, ih]
      by_cases h2 : k' = a
      · simp [h2]
      · have : ¬ a = k' := fun e => h2 e.symm
        simp [h2, lookupKV, this]
    · simp only [h, ↓reduceIte, lookupKV, ih]
      by_cases h2 : a = k'
      · have : ¬ k' = k := fun e => h (h2.trans e)
        simp [h2, this]
      · simp [h2]

theorem lookup_none_of_not_mem (kvs : List (Str × Val)) (k : Str) (h : k ∉ keys kvs) : lookupKV k kvs = none := by
  induction kvs with
  | nil => rfl
  | cons p rest ih =>
    obtain ⟨a, b⟩ := p
    simp only [keys, List.map_cons, List.mem_cons, not_or] at h
    have h1 : ¬ a = k := fun e => h.1 e.symm
    simp only [lookupKV, h1, ↓reduceIte]
    exact ih h.2

theorem lookup_mupdate (kvs other : List (Str × Val)) (hnd : (keys other).Nodup) (k' : Str) :
    lookupKV k' (Impl.mupdate kvs other) =
      (match lookupKV k' other with | some v => some v | none => lookupKV k' kvs) := by
  unfold Impl.mupdate
  induction other generalizing kvs with
  | nil => simp [lookupKV]
  | cons p rest ih =>
    obtain ⟨a, b⟩ := p
    simp only [keys, List.map_cons, List.nodup_cons] at hnd
    simp only [List.foldl_cons]
    rw [ih _ hnd.2, lookup_mset]
    by_cases h : a = k'
    · subst h
      have := lookup_none_of_not_mem rest a hnd.1
      simp [lookupKV, this]
    · have h' : ¬ k' = a := fun e => h e.symm
      simp [lookupKV, h, h']

theorem keys_mset (kvs : List (Str × Val)) (k : Str) (v : Val) :
    keys (Impl.mset kvs k v) = if k ∈ keys kvs then keys kvs else keys kvs ++ [k] := by
  induction kvs with
  | nil => simp [Impl.mset, keys]
  | cons p rest ih =>
    obtain ⟨a, b⟩ := p
    unfold Impl.mset
    by_cases h : a = k
    · subst h; simp [keys]
    · have h' : ¬ k = a := fun e => h e.symm
      simp only [h, ↓reduceIte, keys, List.map_cons, List.mem_cons, h', false_or] at ih ⊢
      rw [ih]
      split <;> simp_all

theorem nodup_mset (kvs : List (Str × Val)) (k : Str) (v : Val) (h : (keys kvs).Nodup) :
    (keys (Impl.mset kvs k v)).Nodup := by
  rw [keys_mset]
  split
  · exact h
  · rename_i hk
    exact List.nodup_append.2 ⟨h, by simp, by intro a ha b hb; simp at hb; subst hb; exact fun e => hk (e ▸ ha)⟩

theorem nodup_mdel (kvs : List (Str × Val)) (k : Str) (h : (keys kvs).Nodup) :
    (keys (Impl.mdel kvs k)).Nodup := by
  unfold Impl.mdel keys
  exact (List.Sublist.map _ List.filter_sublist).nodup h

/-! ### sets -/

theorem keyEq_iff (a b : Val) : keyEq a b = true ↔ ∃ k, hashKey a = some k ∧ hashKey b = some k := by
  unfold keyEq
  cases ha : hashKey a <;> cases hb : hashKey b <;> simp
  exact eq_comm

theorem keyEq_symm (a b : Val) : keyEq a b = keyEq b a := by
  cases h : keyEq b a
  · cases h2 : keyEq a b
    · rfl
    · obtain ⟨k, h3, h4⟩ := (keyEq_iff a b).1 h2
      have := (keyEq_iff b a).2 ⟨k, h4, h3⟩
      rw [h] at this; cases this
  · obtain ⟨k, h3, h4⟩ := (keyEq_iff b a).1 h
    exact (keyEq_iff a b).2 ⟨k, h4, h3⟩

theorem keyEq_trans (a b c : Val) (h1 : keyEq a b = true) (h2 : keyEq b c = true) : keyEq a c = true := by
  obtain ⟨k, h3, h4⟩ := (keyEq_iff a b).1 h1
  obtain ⟨k', h5, h6⟩ := (keyEq_iff b c).1 h2
  rw [h4] at h5
  cases h5
  exact (keyEq_iff a c).2 ⟨k, h3, h6⟩

theorem keyEq_congr_left (a b x : Val) (h : keyEq a b = true) : keyEq a x = keyEq b x := by
  cases h2 : keyEq b x
  · cases h3 : keyEq a x
    · rfl
    · have := keyEq_trans b a x (by rw [keyEq_symm]; exact h) h3
      rw [h2] at this; cases this
  · exact keyEq_trans a b x h h2

theorem smem_sadd (xs : List Val) (v x : Val) :
    Impl.smem (Impl.sadd xs v) x = (keyEq v x || Impl.smem xs x) := by
  induction xs with
  | nil => simp [Impl.sadd, Impl.smem]
  | cons y ys ih =>
    unfold Impl.sadd
    by_cases h : keyEq y v = true
    · simp only [h, ↓reduceIte]
      simp only [Impl.smem, List.any_cons]
      rw [keyEq_congr_left y v x h]
      cases keyEq v x <;> simp
    · simp only [h, Bool.false_eq_true, ↓reduceIte]
      simp only [Impl.smem, List.any_cons] at ih ⊢
      rw [ih]
      cases keyEq y x <;> cases keyEq v x <;> simp

theorem smem_sremove (xs : List Val) (v x : Val) :
    Impl.smem (Impl.sremove xs v) x = (!keyEq v x && Impl.smem xs x) := by
  induction xs with
  | nil => simp [Impl.sremove, Impl.smem]
  | cons y ys ih =>
    unfold Impl.sremove at ih ⊢
    simp only [Impl.smem] at ih ⊢
    by_cases h : keyEq y v = true
    · simp only [List.filter_cons, h, Bool.not_true, Bool.false_eq_true, ↓reduceIte, ih, List.any_cons]
      rw [keyEq_congr_left y v x h]
      cases keyEq v x <;> simp
    · have h' : keyEq y v = false := by simpa using h
      simp only [List.filter_cons, h', Bool.not_false, ↓reduceIte, List.any_cons, ih]
      cases hyx : keyEq y x
      · simp
      · -- y ~ x and v ~ x would give y ~ v
        cases hvx : keyEq v x
        · simp
        · have := keyEq_trans y x v hyx (by rw [keyEq_symm]; exact hvx)
          rw [h'] at this; cases this

theorem smem_sunion (a b : List Val) (x : Val) :
    Impl.smem (Impl.sunion a b) x = (Impl.smem a x || Impl.smem b x) := by
  unfold Impl.sunion
  induction b generalizing a with
  | nil => simp [Impl.smem]
  | cons y ys ih =>
    simp only [List.foldl_cons]
    rw [ih, smem_sadd]
    simp only [Impl.smem, List.any_cons]
    rw [keyEq_symm y x]
    cases keyEq x y <;> cases a.any (fun z => keyEq z x) <;> simp

theorem smem_sinter (a b : List Val) (x : Val) :
    Impl.smem (Impl.sinter a b) x = (Impl.smem a x && Impl.smem b x) := by
  unfold Impl.sinter
  induction a with
  | nil => simp [Impl.smem]
  | cons y ys ih =>
    simp only [Impl.smem] at ih ⊢
    by_cases h : b.any (fun z => keyEq z y) = true
    · simp only [List.filter_cons, Impl.smem, h, ↓reduceIte, List.any_cons, ih]
      cases hyx : keyEq y x
      · simp
      · -- y ∈ b and y ~ x, hence x ∈ b
        have : b.any (fun z => keyEq z x) = true := by
          simp only [List.any_eq_true] at h ⊢
          obtain ⟨z, hz, hzy⟩ := h
          exact ⟨z, hz, keyEq_trans z y x hzy hyx⟩
        simp [this]
    · have h' : b.any (fun z => keyEq z y) = false := by simpa using h
      simp only [List.filter_cons, Impl.smem, h', Bool.false_eq_true, ↓reduceIte, List.any_cons, ih]
      cases hyx : keyEq y x
      · simp
      · have : b.any (fun z => keyEq z x) = false := by
          cases hb : b.any (fun z => keyEq z x)
          · rfl
          · simp only [List.any_eq_true] at hb
            obtain ⟨z, hz, hzx⟩ := hb
            have : b.any (fun z => keyEq z y) = true := by
              simp only [List.any_eq_true]
              exact ⟨z, hz, keyEq_trans z x y hzx (by rw [keyEq_symm]; exact hyx)⟩
            rw [h'] at this; cases this
        simp [this]

/-! ### sorted(x, f): the sort driven by a call-numbered comparison oracle -/

theorem insBy_perm (f : Nat → Val → Val → Option Bool) (x : Val) (n : Nat) (rp : List Val) :
    (Impl.insBy f x n rp).1.Perm (x :: rp) := by
  induction rp generalizing n with
  | nil => simp [Impl.insBy]
  | cons y ys ih =>
    unfold Impl.insBy
    cases f n x y with
    | none => exact List.Perm.refl _
    | some b =>
      cases b with
      | true => exact (List.Perm.cons y (ih (n + 1))).trans (List.Perm.swap x y ys)
      | false => exact List.Perm.refl _

theorem sortByLoop_perm (f : Nat → Val → Val → Option Bool) (rp rest : List Val) (n : Nat) (e : Bool) :
    (Impl.sortByLoop f rp rest n e).1.Perm (rp.reverse ++ rest) := by
  induction rest generalizing rp n e with
  | nil => simp [Impl.sortByLoop]
  | cons x rest ih =>
    have hp := insBy_perm f x n rp
    unfold Impl.sortByLoop
    refine (ih _ _ _).trans ?_
    have h1 : (Impl.insBy f x n rp).1.reverse.Perm (x :: rp.reverse) :=
      (List.reverse_perm _).trans (hp.trans (List.Perm.cons x (List.reverse_perm rp).symm))
    exact (List.Perm.append_right rest h1).trans
      (by simpa using (List.perm_middle (a := x) (l₁ := rp.reverse) (l₂ := rest)).symm)

theorem sortBy_perm (f : Nat → Val → Val → Option Bool) (xs : List Val) : (Impl.sortBy f xs).1.Perm xs := by
  simpa [Impl.sortBy] using sortByLoop_perm f [] xs 0 false

/-- the `Cmp`-valued comparator of an abstract "less" relation -/
def relCmp (lt : Val → Val → Bool) : Val → Val → Cmp := fun a b => if lt a b then .lt else .ge

theorem insBy_of_rel (lt : Val → Val → Bool) (f : Nat → Val → Val → Option Bool)
    (hf : ∀ n a b, f n a b = some (lt a b)) (x : Val) (n : Nat) (rp : List Val) :
    (Impl.insBy f x n rp).1 = (Impl.ins (relCmp lt) x rp).1 ∧ (Impl.insBy f x n rp).2.2 = false ∧
    (Impl.ins (relCmp lt) x rp).2 = .ge := by
  induction rp generalizing n with
  | nil => simp [Impl.insBy, Impl.ins]
  | cons y ys ih =>
    unfold Impl.insBy Impl.ins
    rw [hf]
    have := ih (n + 1)
    cases hl : lt x y with
    | true => simp [relCmp, hl, this]
    | false => simp [relCmp, hl]

theorem sortByLoop_of_rel (lt : Val → Val → Bool) (f : Nat → Val → Val → Option Bool)
    (hf : ∀ n a b, f n a b = some (lt a b)) (rp rest : List Val) (n : Nat) :
    Impl.sortByLoop f rp rest n false = ((Impl.sortLoop (relCmp lt) rp rest .ge).1, false) := by
  induction rest generalizing rp n with
  | nil => simp [Impl.sortByLoop, Impl.sortLoop]
  | cons x rest ih =>
    have h3 := insBy_of_rel lt f hf x n rp
    unfold Impl.sortByLoop Impl.sortLoop
    cases hc : Impl.ins (relCmp lt) x rp with
    | mk rp' c =>
      rw [hc] at h3
      simp only at h3
      obtain ⟨h1, h2, rfl⟩ := h3
      simp only [h1, h2, Bool.or_false]
      exact ih rp' _

/-- **an abstract relation as comparison function**: when every call answers `lt a b` (no
    call raises, the call number is irrelevant) the oracle-driven sort is the sort by the
    comparator of `lt`, and reports no error -/
theorem sortBy_of_rel (lt : Val → Val → Bool) (f : Nat → Val → Val → Option Bool)
    (hf : ∀ n a b, f n a b = some (lt a b)) (xs : List Val) :
    Impl.sortBy f xs = ((Impl.sort (relCmp lt) xs).1, false) := by
  unfold Impl.sortBy Impl.sort
  exact sortByLoop_of_rel lt f hf [] xs 0

theorem insBy_no_raise (f : Nat → Val → Val → Option Bool) (hf : ∀ n a b, (f n a b).isSome = true)
    (x : Val) (n : Nat) (rp : List Val) : (Impl.insBy f x n rp).2.2 = false := by
  induction rp generalizing n with
  | nil => simp [Impl.insBy]
  | cons y ys ih =>
    unfold Impl.insBy
    have := hf n x y
    cases hv : f n x y with
    | none => simp [hv] at this
    | some b => cases b <;> simp [ih]

theorem sortByLoop_no_raise (f : Nat → Val → Val → Option Bool) (hf : ∀ n a b, (f n a b).isSome = true)
    (rp rest : List Val) (n : Nat) : (Impl.sortByLoop f rp rest n false).2 = false := by
  induction rest generalizing rp n with
  | nil => simp [Impl.sortByLoop]
  | cons x rest ih =>
    unfold Impl.sortByLoop
    simp only [insBy_no_raise f hf, Bool.or_false]
    exact ih _ _

theorem sortByLoop_raised (f : Nat → Val → Val → Option Bool) (rp rest : List Val) (n : Nat) :
    (Impl.sortByLoop f rp rest n true).2 = true := by
  induction rest generalizing rp n with
  | nil => simp [Impl.sortByLoop]
  | cons x rest ih =>
    unfold Impl.sortByLoop
    simp only [Bool.true_or]
    exact ih _ _

end Impl
open Impl

/-! ### searching: `List.Index`'s loop finds the first equal item -/

theorem indexOf_refines (eq : Val → Val → Bool) (v : Val) (xs : List Val) :
    Impl.indexOf eq v xs = Spec.indexOf eq v xs := by
  unfold Spec.indexOf
  induction xs with
  | nil => simp [Impl.indexOf]
  | cons y ys ih =>
    unfold Impl.indexOf
    rw [List.findIdx?_cons]
    by_cases hy : eq v y = true
    · simp [hy]
    · simp only [hy, Bool.false_eq_true, ↓reduceIte, ih]

/-! ### list iterators: Go's cursor arithmetic reads item number `k` of the live list -/

theorem iterNext_refines (xs : List Val) (k : Nat) : Impl.iterNext xs k = Spec.iterNext xs k := by
  unfold Impl.iterNext Spec.iterNext
  split
  · rename_i h
    have : xs.length ≤ k := by omega
    simp [List.getElem?_eq_none_iff.2 this]
  · rfl

theorem nextOf_refines (xs : List Val) (k : Nat) : nextOf .impl xs k = nextOf .spec xs k := by
  simp only [nextOf, iterNext_refines]

theorem nextOf_eq (m : Mode) (xs : List Val) (k : Nat) : nextOf m xs k = xs[k]? := by
  cases m
  · simp only [nextOf, iterNext_refines, Spec.iterNext]
  · simp only [nextOf, Spec.iterNext]

theorem drainLoop_eq (f : Nat) (xs : List Val) (k : Nat) (acc : List Val) (hf : xs.length - k < f) :
    Impl.drainLoop f xs k acc = (acc ++ xs.drop k, max k xs.length) := by
  induction f generalizing k acc with
  | zero => omega
  | succ f ih =>
    unfold Impl.drainLoop
    rw [iterNext_refines]; unfold Spec.iterNext
    cases hk : xs[k]? with
    | none =>
      have : xs.length ≤ k := List.getElem?_eq_none_iff.1 hk
      simp only
      rw [List.drop_eq_nil_of_le this, List.append_nil, Nat.max_eq_left this]
    | some v =>
      have hlt : k < xs.length := by
        rcases Nat.lt_or_ge k xs.length with h | h
        · exact h
        · rw [List.getElem?_eq_none_iff.2 h] at hk; cases hk
      simp only
      rw [ih (k + 1) (acc ++ [v]) (by omega)]
      have hd : xs.drop k = v :: xs.drop (k + 1) := by
        rw [List.drop_eq_getElem_cons hlt]
        congr 1
        rw [List.getElem?_eq_getElem hlt] at hk
        exact Option.some.inj hk
      rw [hd, List.append_assoc]
      simp only [List.cons_append, List.nil_append]
      congr 1
      omega

theorem drain_refines (xs : List Val) (k : Nat) : Impl.drain xs k = Spec.drain xs k := by
  unfold Impl.drain Spec.drain
  rw [drainLoop_eq _ xs k [] (by omega)]
  simp

/-! ### `for` loops over a list that the body changes -/

theorem bodyList_refines (eq : Val → Val → Bool) (b : Body) (xs : List Val) (k : Nat) (x : Val) :
    bodyList .impl eq b xs k x = bodyList .spec eq b xs k x := by
  cases b <;> simp only [bodyList, pop_refines, remove_refines, setItem_refines, insert_refines]

theorem forLoop_refines (r : Nat) (w : Bool) (b : Body) (f : Nat) (h : Heap) (k : Nat) (acc : List Val) :
    forLoop .impl r w b f h k acc = forLoop .spec r w b f h k acc := by
  induction f generalizing h k acc with
  | zero => rfl
  | succ f ih =>
    unfold forLoop
    simp only [nextOf_refines, bodyList_refines, ih]

theorem Heap.put_get_self (h : Heap) (r : Nat) : h.put r (h.get r) = h := by
  unfold Heap.put Heap.get
  rcases Nat.lt_or_ge r h.objs.length with hr | hr
  · have : h.objs.getD r (.list []) = h.objs[r] := by
      rw [List.getD_eq_getElem?_getD, List.getElem?_eq_getElem hr]; rfl
    rw [this, List.set_getElem_self]
  · rw [List.set_eq_of_length_le hr]

/-- a loop whose body does nothing to the list leaves the whole heap as it was and records
    the items from the cursor on -/
def pairsFrom (w : Bool) : Nat → List Val → List Val
  | _, [] => []
  | k, x :: xs => (if w then [.int k, x] else [x]) ++ pairsFrom w (k + 1) xs

theorem forLoop_none (m : Mode) (r : Nat) (w : Bool) (xs : List Val) (f : Nat) (h : Heap) (k : Nat)
    (acc : List Val) (hg : h.get r = .list xs) (hf : xs.length - k < f) :
    forLoop m r w .none f h k acc = (h, acc ++ pairsFrom w k (xs.drop k)) := by
  induction f generalizing k acc with
  | zero => omega
  | succ f ih =>
    unfold forLoop
    simp only [hg, nextOf_eq, bodyList]
    cases hk : xs[k]? with
    | none =>
      have : xs.length ≤ k := List.getElem?_eq_none_iff.1 hk
      simp [List.drop_eq_nil_of_le this, pairsFrom]
    | some v =>
      have hlt : k < xs.length := by
        rcases Nat.lt_or_ge k xs.length with h' | h'
        · exact h'
        · rw [List.getElem?_eq_none_iff.2 h'] at hk; cases hk
      have hd : xs.drop k = v :: xs.drop (k + 1) := by
        rw [List.drop_eq_getElem_cons hlt]
        congr 1
        rw [List.getElem?_eq_getElem hlt] at hk
        exact Option.some.inj hk
      simp only
      rw [← hg, Heap.put_get_self, ih (k + 1) _ (by omega), hd]
      simp [pairsFrom, List.append_assoc]

/-- a loop changes no object but the list it iterates, and creates none -/
theorem forLoop_keeps (m : Mode) (r : Nat) (w : Bool) (b : Body) (f : Nat) (h : Heap) (k : Nat) (acc : List Val) :
    (forLoop m r w b f h k acc).1.objs.length = h.objs.length ∧
    (forLoop m r w b f h k acc).1.arrs = h.arrs ∧
    ∀ q, q ≠ r → (forLoop m r w b f h k acc).1.objs[q]? = h.objs[q]? := by
  induction f generalizing h k acc with
  | zero => simp [forLoop]
  | succ f ih =>
    unfold forLoop
    split
    · split
      · simp
      · rename_i xs _ _ x _
        have := ih (h.put r (.list (bodyList m (heq h) b xs k x))) (k + 1) (acc ++ (if w then [.int k, x] else [x]))
        refine ⟨?_, ?_, ?_⟩
        · rw [this.1]; simp [Heap.put]
        · rw [this.2.1]; simp [Heap.put]
        · intro q hq
          rw [this.2.2 q hq]
          simp only [Heap.put, List.getElem?_set]
          split
          · omega
          · rfl
    · simp

/-! ### the fuel of a `for` loop: `max (length, bound of the body)` rounds always suffice -/

theorem get_lt_of_ne_nil (h : Heap) (r : Nat) (xs : List Val) (hg : h.get r = .list xs) (hne : xs ≠ []) :
    r < h.objs.length := by
  rcases Nat.lt_or_ge r h.objs.length with hr | hr
  · exact hr
  · exfalso
    unfold Heap.get at hg
    rw [List.getD_eq_getElem?_getD, List.getElem?_eq_none_iff.2 hr] at hg
    simp only [Option.getD_none, Obj.list.injEq] at hg
    exact hne hg.symm

theorem get_put_same (h : Heap) (r : Nat) (o : Obj) (hr : r < h.objs.length) : (h.put r o).get r = o := by
  unfold Heap.put Heap.get
  rw [List.getD_eq_getElem?_getD]
  simp [List.getElem?_set_self hr]

/-- no body lets the list grow beyond `max (its length, the body's bound)` -/
theorem bodyList_length_le (m : Mode) (eq : Val → Val → Bool) (b : Body) (xs : List Val) (k : Nat) (x : Val) :
    (bodyList m eq b xs k x).length ≤ max xs.length b.bound := by
  have hspec : bodyList m eq b xs k x = bodyList .spec eq b xs k x := by
    cases m
    · exact bodyList_refines eq b xs k x
    · rfl
  rw [hspec]
  cases b with
  | none => simp [bodyList, Body.bound]
  | grow n =>
    simp only [bodyList, Body.bound]
    split
    · simp only [List.length_append, List.length_singleton]; omega
    · omega
  | popLast =>
    simp only [bodyList, Body.bound, Spec.pop]
    split
    · rename_i v ys hp
      split at hp
      · split at hp
        · simp only [Option.some.injEq, Prod.mk.injEq] at hp
          rw [← hp.2]
          exact Nat.le_trans (List.length_eraseIdx_le ..) (Nat.le_max_left ..)
        · cases hp
      · cases hp
    · omega
  | removeCur =>
    simp only [bodyList, Body.bound, Spec.remove]
    exact Nat.le_trans (List.length_eraseP_le ..) (Nat.le_max_left ..)
  | clear => simp [bodyList]
  | setNext v =>
    simp only [bodyList, Body.bound, Spec.setItem]
    split
    · split
      · rename_i ys hs
        split at hs
        · simp only [Option.some.injEq] at hs
          rw [← hs]; simp
        · cases hs
      · omega
    · omega
  | insertFront n =>
    simp only [bodyList, Body.bound]
    split
    · simp only [Spec.insert, List.length_append, List.length_take, List.length_cons, List.length_drop]
      omega
    · omega

/-- **one more unit of fuel changes nothing** once the fuel exceeds the rounds that can still
    come: `max (length, bound) - k` -/
theorem forLoop_fuel_succ (m : Mode) (r : Nat) (w : Bool) (b : Body) (f : Nat) (h : Heap) (k : Nat)
    (acc : List Val) (xs : List Val) (hg : h.get r = .list xs) (hf : max xs.length b.bound - k < f) :
    forLoop m r w b (f + 1) h k acc = forLoop m r w b f h k acc := by
  induction f generalizing h k acc xs with
  | zero => omega
  | succ f ih =>
    rw [forLoop, forLoop]
    simp only [hg, nextOf_eq]
    cases hk : xs[k]? with
    | none => rfl
    | some x =>
      have hlt : k < xs.length := by
        rcases Nat.lt_or_ge k xs.length with h' | h'
        · exact h'
        · rw [List.getElem?_eq_none_iff.2 h'] at hk; cases hk
      have hne : xs ≠ [] := by intro e; subst e; simp at hlt
      have hr := get_lt_of_ne_nil h r xs hg hne
      have hlen := bodyList_length_le m (heq h) b xs k x
      simp only
      exact ih _ (k + 1) _ _ (get_put_same h r _ hr) (by omega)

theorem forLoop_fuel_enough (m : Mode) (r : Nat) (w : Bool) (b : Body) (h : Heap) (k : Nat)
    (acc : List Val) (xs : List Val) (hg : h.get r = .list xs) (f d : Nat) (hf : max xs.length b.bound - k < f) :
    forLoop m r w b (f + d) h k acc = forLoop m r w b f h k acc := by
  induction d with
  | zero => rfl
  | succ d ih =>
    rw [← Nat.add_assoc, forLoop_fuel_succ m r w b (f + d) h k acc xs hg (by omega), ih]

/-! ### sorting numbers of every magnitude -/

/-- on numbers the comparator `object.Sort` uses is "less by exact value", whatever the
    magnitude and whichever of the three numeric types the two items have (`cmpVal_num`) -/
theorem cmp_aux (p q : Int) (lt eq : Bool) (h1 : lt = true ↔ p < q) (h2 : eq = true ↔ p = q) :
    (match three lt eq with | .ok c => if c = -1 then Cmp.lt else Cmp.ge | .err => Cmp.err) = if p < q then Cmp.lt else Cmp.ge := by
  by_cases hlt : p < q
  · have e1 : lt = true := h1.2 hlt
    have e2 : eq = false := by
      cases eq
      · rfl
      · have := h2.1 rfl; omega
    subst e1; subst e2; simp [three, hlt]
  · have e1 : lt = false := by
      cases lt
      · rfl
      · exact absurd (h1.1 rfl) hlt
    subst e1
    cases eq <;> simp [three, hlt]

theorem cmpVal_num (h : Heap) (fuel : Nat) (a b : Val) (ha : isNum a = true) (hb : isNum b = true) :
    cmpVal h fuel a b = keyCmp a b := by
  cases a <;> simp [isNum, numKey] at ha <;> cases b <;> simp [isNum, numKey] at hb <;>
    simp only [cmpVal, cmp3, keyCmp] <;>
    refine cmp_aux _ _ _ _ ?_ ?_ <;>
    simp only [decide_eq_true_eq, beq_iff_eq, keyOf, numKey, Option.getD_some] <;> omega
theorem ins_congr (cmp cmp' : Val → Val → Cmp) (x : Val) (rp : List Val)
    (hc : ∀ y ∈ rp, cmp x y = cmp' x y) : Impl.ins cmp x rp = Impl.ins cmp' x rp := by
  induction rp with
  | nil => simp [Impl.ins]
  | cons y ys ih =>
    unfold Impl.ins
    rw [hc y (by simp), ih (fun z hz => hc z (by simp [hz]))]

theorem sortLoop_congr (cmp cmp' : Val → Val → Cmp) (rp rest : List Val) (flag : Cmp)
    (hc : ∀ a ∈ rp ++ rest, ∀ b ∈ rp ++ rest, cmp a b = cmp' a b) :
    Impl.sortLoop cmp rp rest flag = Impl.sortLoop cmp' rp rest flag := by
  induction rest generalizing rp flag with
  | nil => simp [Impl.sortLoop]
  | cons x rest ih =>
    unfold Impl.sortLoop
    have hi : Impl.ins cmp x rp = Impl.ins cmp' x rp :=
      ins_congr cmp cmp' x rp (fun y hy => hc x (by simp) y (by simp [hy]))
    rw [← hi]
    have hp := ins_perm cmp x rp
    cases hins : Impl.ins cmp x rp with
    | mk rp' c =>
      rw [hins] at hp
      have hc' : ∀ a ∈ rp' ++ rest, ∀ b ∈ rp' ++ rest, cmp a b = cmp' a b := by
        intro a ha b hb
        have mem : ∀ z, z ∈ rp' ++ rest → z ∈ rp ++ x :: rest := by
          intro z hz
          simp only [List.mem_append, List.mem_cons] at hz ⊢
          rcases hz with hz | hz
          · have := hp.mem_iff.1 hz
            simp only [List.mem_cons] at this
            rcases this with rfl | h1
            · exact Or.inr (Or.inl rfl)
            · exact Or.inl h1
          · exact Or.inr (Or.inr hz)
        exact hc a (mem a ha) b (mem b hb)
      cases c with
      | panic => rfl
      | err => exact ih rp' .err hc'
      | lt => exact ih rp' flag hc'
      | ge => exact ih rp' flag hc'

theorem sort_num_eq (h : Heap) (xs : List Val) (hn : xs.all isNum = true) :
    Impl.sort (hcmp h) xs = Impl.sort keyCmp xs := by
  unfold Impl.sort
  apply sortLoop_congr
  intro a ha b hb
  simp only [List.nil_append] at ha hb
  rw [List.all_eq_true] at hn
  exact cmpVal_num h _ a b (hn a ha) (hn b hb)

theorem keyCmp_good : GoodCmp keyCmp := goodCmp_of_key keyOf

/-- stability of one insertion: `x` only moves past items of another value -/
theorem ins_sameValue (v x : Val) (rp : List Val) :
    Spec.sameValue v (Impl.ins keyCmp x rp).1 = Spec.sameValue v (x :: rp) := by
  induction rp with
  | nil => simp [Impl.ins]
  | cons y ys ih =>
    unfold Impl.ins
    by_cases hlt : keyOf x < keyOf y
    · simp only [keyCmp, hlt, if_true]
      have ih' : Spec.sameValue v (Impl.ins keyCmp x ys).1 = Spec.sameValue v (x :: ys) := ih
      simp only [Spec.sameValue, List.filter_cons] at ih' ⊢
      rw [ih']
      by_cases h1 : keyOf x = keyOf v <;> by_cases h2 : keyOf y = keyOf v <;> simp [h1, h2]
      omega
    · simp [keyCmp, hlt]

theorem sameValue_append (v : Val) (a b : List Val) :
    Spec.sameValue v (a ++ b) = Spec.sameValue v a ++ Spec.sameValue v b := by
  simp [Spec.sameValue]

theorem sameValue_reverse (v : Val) (a : List Val) :
    Spec.sameValue v a.reverse = (Spec.sameValue v a).reverse := by
  simp [Spec.sameValue, List.filter_reverse]

theorem sortLoop_sameValue (v : Val) (rp rest : List Val) (flag : Cmp) :
    Spec.sameValue v (Impl.sortLoop keyCmp rp rest flag).1 = Spec.sameValue v (rp.reverse ++ rest) := by
  induction rest generalizing rp flag with
  | nil => simp [Impl.sortLoop]
  | cons x rest ih =>
    unfold Impl.sortLoop
    have hs := ins_sameValue v x rp
    cases hins : Impl.ins keyCmp x rp with
    | mk rp' c =>
      rw [hins] at hs
      simp only at hs
      have key : Spec.sameValue v (rp'.reverse ++ rest) = Spec.sameValue v (rp.reverse ++ x :: rest) := by
        rw [sameValue_append, sameValue_reverse, hs]
        simp [Spec.sameValue, List.filter_cons, List.filter_reverse]
        split <;> simp
      cases c with
      | panic => exact key
      | err => exact (ih rp' .err).trans key
      | lt => exact (ih rp' flag).trans key
      | ge => exact (ih rp' flag).trans key

theorem ascending_of_pairwise (ys : List Val) (hp : ys.Pairwise (fun a b => keyOf a ≤ keyOf b)) :
    Spec.ascending ys = true := by
  induction ys with
  | nil => rfl
  | cons a rest ih =>
    cases rest with
    | nil => rfl
    | cons b rest =>
      have h1 := List.pairwise_cons.1 hp
      simp only [Spec.ascending, Bool.and_eq_true, decide_eq_true_eq]
      exact ⟨h1.1 b (by simp), ih h1.2⟩

theorem sort_key_pairwise (xs : List Val) :
    (Impl.sort keyCmp xs).2 = .ge ∧ (Impl.sort keyCmp xs).1.Pairwise (fun a b => keyOf a ≤ keyOf b) := by
  have h := sortLoop_sorted keyCmp keyCmp_good [] xs (by simp [RSorted])
  refine ⟨h.1, List.Pairwise.imp ?_ h.2⟩
  intro a b hab
  unfold keyCmp at hab
  by_cases hlt : keyOf b < keyOf a
  · simp [hlt] at hab
  · omega

theorem sort_key_isSortOf (xs : List Val) : Spec.isSortOf xs (Impl.sort keyCmp xs).1 = true := by
  unfold Spec.isSortOf
  simp only [Bool.and_eq_true, List.all_eq_true, beq_iff_eq]
  refine ⟨ascending_of_pairwise _ (sort_key_pairwise xs).2, ?_⟩
  intro v _
  have := sortLoop_sameValue v [] xs .ge
  simpa [Impl.sort] using this

end Risor.C16
