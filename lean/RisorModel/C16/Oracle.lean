import RisorModel.Util
/-! Line-protocol front end of the C16 model (stub until the model exists). -/
namespace Risor.C16

def handle : List String → String
  | _ => "error\tnot-implemented"

end Risor.C16
