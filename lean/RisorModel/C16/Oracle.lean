import RisorModel.Util
import RisorModel.C16.Model
import RisorModel.C16.Alias
/-!
Line-protocol front end of the C16 model (requests after the leading `C16` field).

  seq  <objects>  <ops>
     objects : `;`-separated   L:v,v,…  |  M:hexkey=v,…  |  S:v,…  |  B:hexbytes
     ops     : `;`-separated   name,arg,arg,…      (handles are decimal object numbers)
     values  : n | t | f | i<int> | y<byte> | d<2·float> | s<hex> | r<handle> | _ (absent)
               (d4 is the float 2.0, d3 is 1.5: floats are half-integers of small magnitude)
     iterators and loops:  inew,r  inext,it  irest,it
               lfor,r,idx|noidx,none|grow|poplast|removecur|clear|setnext|insertfront,arg|_
  reply: per step, `|`-separated:  implRes ; implState ; tag ; (= | specRes ; specState)
     builtins of the "operand untouched, result independent" class (Risor.C16.BOp):
       sortedby,r,lt|gt|le|ge|always|never,k|_   xsorted,r  xreversed,r  tolist,r  toset,r
       keysof,r  mitems,r  lfilter,r,ne|eq|all|nothing,v  leach,r  leachacc,r,acc  lchunk,r,n
     tag = `map` / `bytes` when the step is one on which today's code is known to leave the
     reference semantics (see `Risor.C16.findingTag`), `-` otherwise

  slicego  <start|_>  <stop|_>  <n>     the function TRANSLATED from object/list.go
     `ResolveIntSlice` (`resolveIntSliceGo`) on two bounds (values as above, `_` = omitted) and a
     length; reply: ok <TAB> start <TAB> stop | err <TAB> type|slice
  insact  <index>  <n>     the translated `(*List).Insert` (`insertAct`); reply: the position the
     new item gets: 0 (prepend) | n (append) | k (shift)
  alias  <lists>  <ops>     lists of ints WITH Go backing arrays (`Risor.C16.Alias`)
     lists: `;`-separated `L` + v,v,…     ops: `;`-separated  a,l,v | s,l,i,v | p,l,i | sl,l,start|_,stop|_
     | c,l | e,l,other | k,l,r | x,l      reply: ok <TAB> per step `|`-separated  o|e ; view ; distinct|SHARED
     (view = lists `/`-separated; distinct = no two list objects use one backing array)

  sortspec  <v,v,…>  <v,v,…>     is the second list the reference sort (`Spec.isSortOf`) of the
     first, a list of numbers?   reply: ok <TAB> sorted | not-the-sort;expected=…
-/
namespace Risor.C16
open Risor.Util

def parseInt (s : String) : Option Int :=
  match s.toList with
  | '-' :: rest => (String.ofList rest).toNat?.map (fun n => -(n : Int))
  | _ => s.toNat?.map (fun n => (n : Int))

def parseVal (s : String) : Option Val :=
  match s.toList with
  | ['n'] => some .nil
  | ['t'] => some (.bool true)
  | ['f'] => some (.bool false)
  | 'i' :: rest => (parseInt (String.ofList rest)).map .int
  | 'y' :: rest => (String.ofList rest).toNat?.map .byte
  | 'd' :: rest => (parseInt (String.ofList rest)).map .flt
  | 's' :: rest => (fromHexChars rest).map .str
  | 'r' :: rest => (String.ofList rest).toNat?.map .ref
  | _ => none

def parseOpt (s : String) : Option (Option Val) :=
  if s = "_" then some none else (parseVal s).map some

def splitNonEmpty (s : String) (sep : String) : List String :=
  if s.isEmpty then [] else s.splitOn sep

def parseObj (h : Heap) (s : String) : Option Heap :=
  match s.splitOn ":" with
  | ["L", body] => do
    let vs ← (splitNonEmpty body ",").mapM parseVal
    pure { h with objs := h.objs ++ [.list vs] }
  | ["S", body] => do
    let vs ← (splitNonEmpty body ",").mapM parseVal
    pure { h with objs := h.objs ++ [.set (vs.foldl Impl.sadd [])] }
  | ["M", body] => do
    let kvs ← (splitNonEmpty body ",").mapM (fun kv => match kv.splitOn "=" with
      | [k, v] => do
        let k ← fromHex k
        let v ← parseVal v
        pure (k, v)
      | _ => none)
    pure { h with objs := h.objs ++ [.map (kvs.foldl (fun acc p => Impl.mset acc p.1 p.2) [])] }
  | ["B", body] => do
    let bs ← fromHex body
    pure { objs := h.objs ++ [.bytes h.arrs.length 0 bs.length], arrs := h.arrs ++ [bs] }
  | _ => none

def parseCb (s : String) : Option Impl.Cb :=
  match s with
  | "idx" => some .idx
  | "val" => some .val
  | "idxplus" => some .idxPlus
  | "one" => some .one
  | _ => none

def parseCmpFn (s : String) : Option CmpFn :=
  match s with
  | "lt" => some .lt
  | "gt" => some .gt
  | "le" => some .le
  | "ge" => some .ge
  | "always" => some .always
  | "never" => some .never
  | _ => none

def parsePred (s : String) : Option Pred :=
  match s with
  | "ne" => some .ne
  | "eq" => some .eq
  | "all" => some .all
  | "nothing" => some .nothing
  | _ => none

def parseOptNat (s : String) : Option (Option Nat) :=
  if s = "_" then some none else s.toNat?.map some

def parseBody (name arg : String) : Option Body :=
  match name with
  | "none" => some .none
  | "grow" => arg.toNat?.map .grow
  | "poplast" => some .popLast
  | "removecur" => some .removeCur
  | "clear" => some .clear
  | "setnext" => (parseVal arg).map .setNext
  | "insertfront" => arg.toNat?.map .insertFront
  | _ => none

def parseOp (s : String) : Option Op :=
  match s.splitOn "," with
  | ["inew", r] => do pure (.iNew (← r.toNat?))
  | ["inext", it] => do pure (.iNext (← it.toNat?))
  | ["irest", it] => do pure (.iRest (← it.toNat?))
  | ["lfor", r, w, b, arg] => do pure (.lFor (← r.toNat?) (w == "idx") (← parseBody b arg))
  | ["sortedby", r, f, k] => do pure (.bi (.sortedBy (← r.toNat?) (← parseCmpFn f) (← parseOptNat k)))
  | ["xsorted", r] => do pure (.bi (.sorted (← r.toNat?)))
  | ["xreversed", r] => do pure (.bi (.reversed (← r.toNat?)))
  | ["tolist", r] => do pure (.bi (.toList (← r.toNat?)))
  | ["toset", r] => do pure (.bi (.toSet (← r.toNat?)))
  | ["keysof", r] => do pure (.bi (.keysOf (← r.toNat?)))
  | ["mitems", r] => do pure (.bi (.items (← r.toNat?)))
  | ["lfilter", r, p, v] => do pure (.bi (.filter (← r.toNat?) (← parsePred p) (← parseVal v)))
  | ["leach", r] => do pure (.bi (.each (← r.toNat?)))
  | ["leachacc", r, acc] => do pure (.bi (.eachAcc (← r.toNat?) (← acc.toNat?)))
  | ["lchunk", r, n] => do pure (.bi (.chunk (← r.toNat?) (← parseVal n)))
  | ["lget", r, i] => do pure (.lGet (← r.toNat?) (← parseVal i))
  | ["lslice", r, a, b] => do pure (.lSlice (← r.toNat?) (← parseOpt a) (← parseOpt b))
  | ["lset", r, i, v] => do pure (.lSet (← r.toNat?) (← parseVal i) (← parseVal v))
  | ["laddassign", r, i, v] => do pure (.lAddAssign (← r.toNat?) (← parseVal i) (← parseVal v))
  | ["lappend", r, v] => do pure (.lAppend (← r.toNat?) (← parseVal v))
  | ["linsert", r, i, v] => do pure (.lInsert (← r.toNat?) (← parseVal i) (← parseVal v))
  | ["lpop", r, i] => do pure (.lPop (← r.toNat?) (← parseVal i))
  | ["lremove", r, v] => do pure (.lRemove (← r.toNat?) (← parseVal v))
  | ["lextend", r, o] => do pure (.lExtend (← r.toNat?) (← parseVal o))
  | ["lreverse", r] => do pure (.lReverse (← r.toNat?))
  | ["lsort", r] => do pure (.lSort (← r.toNat?))
  | ["lcopy", r] => do pure (.lCopy (← r.toNat?))
  | ["lclear", r] => do pure (.lClear (← r.toNat?))
  | ["lindex", r, v] => do pure (.lIndex (← r.toNat?) (← parseVal v))
  | ["lcount", r, v] => do pure (.lCount (← r.toNat?) (← parseVal v))
  | ["lcontains", r, v] => do pure (.lContains (← r.toNat?) (← parseVal v))
  | ["llen", r] => do pure (.lLen (← r.toNat?))
  | ["ldel", r, i] => do pure (.lDel (← r.toNat?) (← parseVal i))
  | ["lconcat", r, o] => do pure (.lConcat (← r.toNat?) (← parseVal o))
  | ["lsorted", r] => do pure (.lSorted (← r.toNat?))
  | ["lreversed", r] => do pure (.lReversed (← r.toNat?))
  | ["lkeys", r] => do pure (.lKeys (← r.toNat?))
  | ["lmap", r, cb] => do pure (.lMap (← r.toNat?) (← parseCb cb))
  | ["lmapacc", r, acc] => do pure (.lMapAcc (← r.toNat?) (← acc.toNat?))
  | ["mset", r, k, v] => do pure (.mSet (← r.toNat?) (← parseVal k) (← parseVal v))
  | ["mget", r, k] => do pure (.mGet (← r.toNat?) (← parseVal k))
  | ["mgetdef", r, k, d] => do pure (.mGetDef (← r.toNat?) (← parseVal k) (← parseOpt d))
  | ["mpop", r, k, d] => do pure (.mPop (← r.toNat?) (← parseVal k) (← parseOpt d))
  | ["mdel", r, k] => do pure (.mDel (← r.toNat?) (← parseVal k))
  | ["mupdate", r, o] => do pure (.mUpdate (← r.toNat?) (← parseVal o))
  | ["msetdefault", r, k, v] => do pure (.mSetDefault (← r.toNat?) (← parseVal k) (← parseVal v))
  | ["mcopy", r] => do pure (.mCopy (← r.toNat?))
  | ["mclear", r] => do pure (.mClear (← r.toNat?))
  | ["mkeys", r] => do pure (.mKeys (← r.toNat?))
  | ["mvalues", r] => do pure (.mValues (← r.toNat?))
  | ["mcontains", r, k] => do pure (.mContains (← r.toNat?) (← parseVal k))
  | ["mlen", r] => do pure (.mLen (← r.toNat?))
  | ["maddassign", r, k, v] => do pure (.mAddAssign (← r.toNat?) (← parseVal k) (← parseVal v))
  | ["sadd", r, v] => do pure (.sAdd (← r.toNat?) (← parseVal v))
  | ["sremove", r, v] => do pure (.sRemove (← r.toNat?) (← parseVal v))
  | ["sunion", r, o] => do pure (.sUnion (← r.toNat?) (← parseVal o))
  | ["sinter", r, o] => do pure (.sInter (← r.toNat?) (← parseVal o))
  | ["scontains", r, v] => do pure (.sContains (← r.toNat?) (← parseVal v))
  | ["sget", r, v] => do pure (.sGet (← r.toNat?) (← parseVal v))
  | ["sdel", r, v] => do pure (.sDel (← r.toNat?) (← parseVal v))
  | ["slen", r] => do pure (.sLen (← r.toNat?))
  | ["sclear", r] => do pure (.sClear (← r.toNat?))
  | ["bget", r, i] => do pure (.bGet (← r.toNat?) (← parseVal i))
  | ["bset", r, i, v] => do pure (.bSet (← r.toNat?) (← parseVal i) (← parseVal v))
  | ["bslice", r, a, b] => do pure (.bSlice (← r.toNat?) (← parseOpt a) (← parseOpt b))
  | ["bclone", r] => do pure (.bClone (← r.toNat?))
  | ["blen", r] => do pure (.bLen (← r.toNat?))
  | ["strget", s, i] => do pure (.strGet (← parseVal s) (← parseVal i))
  | ["strslice", s, a, b] => do pure (.strSlice (← parseVal s) (← parseOpt a) (← parseOpt b))
  | ["strlen", s] => do pure (.strLen (← parseVal s))
  | _ => none

def insSet (v : Val) : List Val → List Val
  | [] => [v]
  | x :: xs => if keyLt v x then v :: x :: xs else x :: insSet v xs

def sortSet (xs : List Val) : List Val := xs.foldl (fun acc v => insSet v acc) []

def hexOf (bs : List Nat) : String := toHex bs

/-- canonical text of a value; containers are rendered structurally through the heap -/
def renderVal (h : Heap) (fuel : Nat) (v : Val) : String :=
  match v with
  | .nil => "n"
  | .bool true => "t"
  | .bool false => "f"
  | .int i => "i" ++ toString i
  | .byte n => "y" ++ toString n
  | .flt t => "d" ++ toString t
  | .str s => "s" ++ hexOf s
  | .ref r =>
    match fuel with
    | 0 => "?"
    | f+1 =>
      match h.get r with
      | .list xs => "L[" ++ ",".intercalate (xs.map (renderVal h f)) ++ "]"
      | .map kvs => "M{" ++ ",".intercalate ((sortedKVs kvs).map (fun p => hexOf p.1 ++ "=" ++ renderVal h f p.2)) ++ "}"
      | .set xs => "S{" ++ ",".intercalate ((sortSet xs).map (renderVal h f)) ++ "}"
      | .bytes a o l => "B" ++ hexOf (bytesContent h a o l)
      | .iter _ _ => "I"      -- a list iterator shows through `next` / `list(it)` only

def renderState (h : Heap) : String :=
  " ".intercalate ((List.range h.objs.length).map (fun r => renderVal h (fuelOf h) (.ref r)))

def renderErr : ErrC → String
  | .type => "type" | .index => "index" | .slice => "slice" | .key => "key" | .value => "value" | .panic => "panic"

/-- results that are freshly made containers are rendered as `new` (their content is in the
    state); other values structurally -/
def renderRes (h0 h : Heap) : Res → String
  | .unit => "unit"
  | .err c => "err:" ++ renderErr c
  | .val (.ref r) => if r ≥ h0.objs.length then "new" else "v:" ++ renderVal h (fuelOf h) (.ref r)
  | .val v => "v:" ++ renderVal h (fuelOf h) v

/-- does another byte_slice object view the same array as `r`? -/
def sharedArr (h : Heap) (r : Nat) : Bool :=
  match h.get r with
  | .bytes a _ _ =>
    ((List.range h.objs.length).filter (fun q => q ≠ r && (match h.get q with
      | .bytes a2 _ _ => a2 == a
      | _ => false))).length > 0
  | _ => false

/-- the known finding a step falls under, judged on the Impl heap before the step
    (the tag `map` of the repaired finding C16-list-map-shared-index is no longer given:
    a `list.map` step that leaves the reference is an unlisted violation) -/
def findingTag (h : Heap) (op : Op) : String :=
  match op with
  | .bSet r _ _ => if sharedArr h r then "bytes" else "-"
  | _ => "-"

def runSeq (hi hs : Heap) : List Op → List String
  | [] => []
  | op :: ops =>
    let (hi', ri) := step .impl hi op
    let (hs', rs) := step .spec hs op
    let a := renderRes hi hi' ri
    let sa := renderState hi'
    let b := renderRes hs hs' rs
    let sb := renderState hs'
    let tag := findingTag hi op
    let line := a ++ ";" ++ sa ++ ";" ++ tag ++ ";" ++ (if a == b && sa == sb then "=" else b ++ ";" ++ sb)
    line :: runSeq hi' hs' ops

def parseAOp (s : String) : Option Alias.AOp :=
  match s.splitOn "," with
  | ["a", l, v] => do pure (.append (← l.toNat?) (← parseVal v))
  | ["s", l, i, v] => do pure (.setItem (← l.toNat?) (← parseInt i) (← parseVal v))
  | ["p", l, i] => do pure (.pop (← l.toNat?) (← parseInt i))
  | ["sl", l, a, b] => do pure (.slice (← l.toNat?) (← parseOpt a) (← parseOpt b))
  | ["c", l] => do pure (.copy (← l.toNat?))
  | ["e", l, o] => do pure (.extend (← l.toNat?) (← o.toNat?))
  | ["k", l, r] => do pure (.concat (← l.toNat?) (← r.toNat?))
  | ["x", l] => do pure (.clear (← l.toNat?))
  | _ => none

def parseAList (s : String) : Option (List Val) :=
  match s.toList with
  | 'L' :: rest => (splitNonEmpty (String.ofList rest) ",").mapM parseVal
  | _ => none

def renderAView (h : Alias.AHeap) : String :=
  "/".intercalate ((Alias.view h).map (fun l => ",".intercalate (l.map (renderVal { objs := [], arrs := [] } 0))))

def aliasDistinct (h : Alias.AHeap) : Bool :=
  let ids := h.lists.map (·.arr)
  ids.eraseDups.length == ids.length

def runAlias (h : Alias.AHeap) : List Alias.AOp → List String
  | [] => []
  | op :: ops =>
    let r := Alias.stepA (fun c _ => 2 * c) h op
    let tag := match r.2 with
      | .err _ => "e"
      | _ => "o"
    (tag ++ ";" ++ renderAView r.1 ++ ";" ++ (if aliasDistinct r.1 then "distinct" else "SHARED")) :: runAlias r.1 ops

def handle : List String → String
  | ["slicego", a, b, n] =>
    match parseOpt a, parseOpt b, n.toNat? with
    | some a, some b, some n =>
      match resolveIntSliceGo a b n with
      | .ok x y => "ok\t" ++ toString x ++ "\t" ++ toString y
      | .err .type => "err\ttype"
      | .err _ => "err\tslice"
    | _, _, _ => "error\tbad-slicego"
  | ["insact", i, n] =>
    match parseInt i, n.toNat? with
    | some i, some n =>
      match insertAct i n with
      | .prepend => "0"
      | .append => toString n
      | .shift k => toString k
    | _, _ => "error\tbad-insact"
  | ["alias", ls, ops] =>
    let ls := if ls = "-" then "" else ls
    let ops := if ops = "-" then "" else ops
    match (splitNonEmpty ls ";").mapM parseAList, (splitNonEmpty ops ";").mapM parseAOp with
    | some ls, some ops => "ok\t" ++ "|".intercalate (runAlias (Alias.mk ls) ops)
    | none, _ => "error\tbad-lists"
    | _, none => "error\tbad-ops"
  | ["seq", objs, ops] =>
    let objs := if objs = "-" then "" else objs
    let ops := if ops = "-" then "" else ops
    match (splitNonEmpty objs ";").foldlM parseObj ({ objs := [], arrs := [] } : Heap),
          (splitNonEmpty ops ";").mapM parseOp with
    | some h, some ops => "ok\t" ++ renderState h ++ "\t" ++ "|".intercalate (runSeq h h ops)
    | none, _ => "error\tbad-objects"
    | _, none => "error\tbad-ops"
  | ["sortspec", xs, ys] =>
    -- is `ys` the reference sort (`Spec.isSortOf`: ascending by exact value, same items per
    -- value in input order) of the list of numbers `xs`?
    let xs := if xs = "-" then "" else xs
    let ys := if ys = "-" then "" else ys
    match (splitNonEmpty xs ",").mapM parseVal, (splitNonEmpty ys ",").mapM parseVal with
    | some xs, some ys =>
      if xs.all isNum && ys.all isNum then
        "ok\t" ++ (if Spec.isSortOf xs ys then "sorted" else
          "not-the-sort;expected=" ++ ",".intercalate ((Impl.sort keyCmp xs).1.map (renderVal { objs := [], arrs := [] } 0)))
      else "error\tnot-numbers"
    | _, _ => "error\tbad-values"
  | ["runes", s] =>
    match fromHex s with
    | some bs => ",".intercalate ((runes bs).map toString)
    | none => "error\tbad-hex"
  | _ => "error\tunknown-request"

end Risor.C16
