import RisorModel.C16.Lemmas
import RisorModel.Generated.C16
/-!
C16 — property theorems: lists, maps, sets, strings and byte slices behave as the abstract
containers they present.

Everything is for ALL container contents, ALL indices (any `Int`), ALL values and ALL
operation sequences (any length): no bound on sizes or on the number of operations.

Reading guide
* `Risor.Generated.C16.resolveIndex` is regenerated from object/list.go on every run.
* `Impl.*` are the container functions as the Go code computes them, `Spec.*` the reference
  containers (Model.lean); `step`/`run` is the heap machine over all objects of a scenario.
* The executable model is tied to the real code by the correspondence harness.
-/
namespace Risor.C16
open Impl

/-! ## 1. Index normalisation and bounds -/

/-- **ResolveIndex, as regenerated from the source**: for a container of `n` items and every
    integer `i`, the function succeeds exactly when `-n ≤ i < n`; the index it returns is `i`
    for `i ≥ 0` and `i + n` otherwise (so it always lies in `[0, n)`); in every other case it
    returns the error. -/
theorem resolveIndex_spec (i : Int) (n : Nat) :
    (∀ k, Risor.Generated.C16.resolveIndex i n = .ok k ↔
        (-(n : Int) ≤ i ∧ i < n ∧ k = if i < 0 then i + n else i)) ∧
    (Risor.Generated.C16.resolveIndex i n = .err ↔ ¬ (-(n : Int) ≤ i ∧ i < n)) := by
  unfold Risor.Generated.C16.resolveIndex
  simp only [decide_eq_true_eq, Bool.or_eq_true]
  refine ⟨fun k => ?_, ?_⟩
  · split
    · simp only [reduceCtorEq, false_iff]; omega
    · split
      · simp only [IdxRes.ok.injEq]
        constructor
        · intro h; subst h; refine ⟨by omega, by omega, ?_⟩; rw [if_neg (by omega)]
        · intro h; rw [if_neg (by omega)] at h; exact h.2.2.symm
      · split
        · simp only [reduceCtorEq, false_iff]; omega
        · simp only [IdxRes.ok.injEq]
          constructor
          · intro h; subst h; refine ⟨by omega, by omega, ?_⟩; rw [if_pos (by omega)]
          · intro h; rw [if_pos (by omega)] at h; exact h.2.2.symm
  · split
    · simp only [true_iff]; omega
    · split
      · simp only [reduceCtorEq, false_iff]; omega
      · split
        · simp only [true_iff]; omega
        · simp only [reduceCtorEq, false_iff]; omega

/-- a successful ResolveIndex result is a valid position: `0 ≤ k < n` -/
theorem resolveIndex_inbounds (i : Int) (n : Nat) (k : Int)
    (h : Risor.Generated.C16.resolveIndex i n = .ok k) : 0 ≤ k ∧ k < n := by
  have := ((resolveIndex_spec i n).1 k).1 h
  split at this <;> omega

/-- **ResolveIntSlice (arithmetic part, hand model of the Go code)**: for all integers
    `start`, `stop` and every size `n`, it succeeds exactly when the normalised bounds
    (`x + n` for negative `x`) satisfy `0 ≤ a ≤ b ≤ n` and `a < n`, and then returns exactly
    those bounds. -/
theorem resolveIntSlice_spec (st sp : Int) (n : Nat) (a b : Int) :
    sliceBounds st sp n = some (a, b) ↔
      (a = Spec.sliceNorm n st ∧ b = Spec.sliceNorm n sp ∧ 0 ≤ a ∧ a ≤ b ∧ b ≤ n ∧ a < n) := by
  rw [sliceBounds_eq]
  split
  · simp only [Option.some.injEq, Prod.mk.injEq]
    constructor
    · rintro ⟨rfl, rfl⟩; simp_all
    · rintro ⟨rfl, rfl, _⟩; simp
  · simp only [reduceCtorEq, false_iff]
    rintro ⟨rfl, rfl, h⟩
    simp_all

/-- whatever `ResolveIntSlice` accepts is a valid sub-range of the container -/
theorem resolveIntSlice_inbounds (a b : Option Val) (n s e : Nat)
    (h : resolveIntSlice a b n = .ok s e) : s ≤ e ∧ e ≤ n ∧ s < n := by
  unfold resolveIntSlice at h
  cases h1 : boundOf a 0 with
  | none => simp [h1] at h
  | some st =>
    cases h2 : boundOf b n with
    | none => simp [h1, h2] at h
    | some sp =>
      simp only [h1, h2] at h
      cases hb : sliceBounds st sp n with
      | none => simp [hb] at h
      | some ab =>
        obtain ⟨x, y⟩ := ab
        simp only [hb, SliceRes.ok.injEq] at h
        have := (resolveIntSlice_spec st sp n x y).1 hb
        omega

/-! ## 2. Every list operation computes the reference result (per-operation refinement) -/

/-- **Lists, per operation**: for all contents, indices and values, the code-shaped
    functions (index through ResolveIndex, `Insert`'s three cases, `Remove` = `Index` + splice,
    `Pop`/`DelItem` = `append(items[:i], items[i+1:]...)`, the in-place swap loop of `Reverse`,
    `GetSlice` through ResolveIntSlice, `Count`'s loop) return exactly what the reference list
    functions return: Python-style indexing valid for `-n ≤ i < n`, `eraseIdx`, insertion
    before the clamped position, erase-first-equal, `List.reverse`, the sub-list, `countP`. -/
theorem refines_list_ops (eq : Val → Val → Bool) (xs : List Val) (i : Int) (v : Val) (a b : Option Val) :
    Impl.getItem xs i = Spec.getItem xs i ∧
    Impl.setItem xs i v = Spec.setItem xs i v ∧
    Impl.pop xs i = Spec.pop xs i ∧
    Impl.delItem xs i = Spec.delItem xs i ∧
    Impl.insert xs i v = Spec.insert xs i v ∧
    Impl.remove eq xs v = Spec.remove eq xs v ∧
    Impl.count eq xs v = Spec.count eq xs v ∧
    Impl.reverse xs = Spec.reverse xs ∧
    Impl.slice xs a b = Spec.slice xs a b :=
  ⟨getItem_refines xs i, setItem_refines xs i v, pop_refines xs i, delItem_refines xs i,
   insert_refines xs i v, remove_refines eq xs v, count_refines eq xs v, reverse_refines xs,
   slice_refines xs a b⟩

/-- **Out-of-range list accesses are errors, in-range ones return the right element**: for
    every list and every integer index, reading fails exactly outside `-n ≤ i < n`, and
    inside it returns the element at position `i` (or `i + n`). Same for `pop`, `set`, `del`. -/
theorem list_index_error_iff (xs : List Val) (i : Int) :
    (Impl.getItem xs i = none ↔ ¬ (-(xs.length : Int) ≤ i ∧ i < xs.length)) ∧
    (∀ v, Impl.getItem xs i = some v → xs[(if i < 0 then i + xs.length else i).toNat]? = some v) ∧
    (Impl.pop xs i = none ↔ ¬ (-(xs.length : Int) ≤ i ∧ i < xs.length)) ∧
    (∀ v, Impl.setItem xs i v = none ↔ ¬ (-(xs.length : Int) ≤ i ∧ i < xs.length)) ∧
    (Impl.delItem xs i = none ↔ ¬ (-(xs.length : Int) ≤ i ∧ i < xs.length)) := by
  have key : ∀ k, Spec.normIndex xs.length i = some k → k < xs.length := fun k h => normIndex_lt _ _ _ h
  have hn : Spec.normIndex xs.length i = none ↔ ¬ (-(xs.length : Int) ≤ i ∧ i < xs.length) := by
    unfold Spec.normIndex; split
    · simp; omega
    · split
      · simp; omega
      · simp; omega
  refine ⟨?_, ?_, ?_, ?_, ?_⟩
  · rw [getItem_refines]; unfold Spec.getItem
    cases h : Spec.normIndex xs.length i with
    | none => simpa using hn.1 h
    | some k =>
      have := key k h
      have h2 : ¬ Spec.normIndex xs.length i = none := by simp [h]
      simp only [List.getElem?_eq_none_iff, Nat.not_le.2 this, false_iff, Classical.not_not]
      exact Classical.not_not.1 (fun c => h2 (hn.2 c))
  · intro v; rw [getItem_refines]; unfold Spec.getItem Spec.normIndex
    split
    · rename_i k hk
      split at hk
      · simp only [Option.some.injEq] at hk; subst hk
        intro h; rw [if_neg (by omega)]; exact h
      · split at hk
        · simp only [Option.some.injEq] at hk; subst hk
          intro h; rw [if_pos (by omega)]; exact h
        · cases hk
    · intro h; cases h
  · rw [pop_refines]; unfold Spec.pop
    cases h : Spec.normIndex xs.length i with
    | none => simpa using hn.1 h
    | some k =>
      have hk := key k h
      have h2 : ¬ Spec.normIndex xs.length i = none := by simp [h]
      have : xs[k]? = some xs[k] := List.getElem?_eq_getElem hk
      simp only [this, reduceCtorEq, false_iff, Classical.not_not]
      exact Classical.not_not.1 (fun c => h2 (hn.2 c))
  · intro v; rw [setItem_refines]; unfold Spec.setItem
    cases h : Spec.normIndex xs.length i with
    | none => simpa using hn.1 h
    | some k =>
      have h2 : ¬ Spec.normIndex xs.length i = none := by simp [h]
      simp only [reduceCtorEq, false_iff, Classical.not_not]
      exact Classical.not_not.1 (fun c => h2 (hn.2 c))
  · rw [delItem_refines]; unfold Spec.delItem
    cases h : Spec.normIndex xs.length i with
    | none => simpa using hn.1 h
    | some k =>
      have h2 : ¬ Spec.normIndex xs.length i = none := by simp [h]
      simp only [reduceCtorEq, false_iff, Classical.not_not]
      exact Classical.not_not.1 (fun c => h2 (hn.2 c))

/-- **Sorting never loses or duplicates an element**: for every comparator outcome function
    (including comparisons that fail with a type error or panic half-way, after which Go
    leaves the list partly sorted) the list after `sort` is a permutation of the list before. -/
theorem sort_keeps_elements (cmp : Val → Val → Cmp) (xs : List Val) : (Impl.sort cmp xs).1.Perm xs :=
  sort_perm cmp xs

/-- **Sorting sorts**: for a comparator that behaves as a total order on the items, `sort`
    reports no error and leaves the list ordered: no later item is less than an earlier one. -/
theorem sort_sorted (cmp : Val → Val → Cmp) (g : GoodCmp cmp) (xs : List Val) :
    (Impl.sort cmp xs).2 = .ge ∧ (Impl.sort cmp xs).1.Pairwise (fun a b => cmp b a = .ge) := by
  unfold Impl.sort
  exact sortLoop_sorted cmp g [] xs (by simp [RSorted])

/-! ### sorting numbers of every magnitude (ints beyond 2^53 included)

Strengthened after a missed seeded change (`object.Sort` sorting lists of numbers through
precomputed float64 keys, which cannot tell 2^53 from 2^53+1 or MaxInt64-1 from MaxInt64). -/

/-- **Numbers compare by their exact values**: for every heap and any two numbers — ints of
    ANY magnitude, bytes, (half-integer) floats, in any combination — the comparator
    `object.Sort` hands to `sort.SliceStable` is "less by exact value" (`keyOf` = twice the
    value): never an error, and two different ints are never treated as equal. -/
theorem compare_numbers_exact (h : Heap) (fuel : Nat) (a b : Val) (ha : isNum a = true) (hb : isNum b = true) :
    cmpVal h fuel a b = (if keyOf a < keyOf b then .lt else .ge) :=
  cmpVal_num h fuel a b ha hb

/-- **Sorting a list of numbers sorts it by exact value**, for every heap and every list of
    numbers of any length and any magnitude: `sort` reports no error; the result is ascending
    by exact value (so of two different ints the smaller one comes first, however close to
    ±2^63 they are); it is a permutation of the input; and it is stable — for every value the
    items having that value are the same, in input order (`2`, `2.0` and `byte(2)` keep their
    relative order). Together: the result satisfies the reference reading `Spec.isSortOf`. -/
theorem sort_numbers_exact (h : Heap) (xs : List Val) (hn : xs.all isNum = true) :
    (Impl.sort (hcmp h) xs).2 = .ge ∧
    (Impl.sort (hcmp h) xs).1.Pairwise (fun a b => keyOf a ≤ keyOf b) ∧
    (Impl.sort (hcmp h) xs).1.Perm xs ∧
    (∀ v, Spec.sameValue v (Impl.sort (hcmp h) xs).1 = Spec.sameValue v xs) ∧
    Spec.isSortOf xs (Impl.sort (hcmp h) xs).1 = true := by
  rw [sort_num_eq h xs hn]
  refine ⟨(sort_key_pairwise xs).1, (sort_key_pairwise xs).2, sort_perm _ xs, ?_, sort_key_isSortOf xs⟩
  intro v
  have := sortLoop_sameValue v [] xs .ge
  simpa [Impl.sort] using this

/-- **Neighbouring ints are told apart at every magnitude**: for EVERY integer `i` (no bound:
    2^53, MaxInt64-1, …) sorting `[i+1, i]` gives `[i, i+1]`. -/
theorem sort_tells_neighbours_apart (h : Heap) (i : Int) :
    Impl.sort (hcmp h) [.int (i + 1), .int i] = ([.int i, .int (i + 1)], .ge) := by
  rw [sort_num_eq h _ (by simp [isNum, numKey])]
  have hk : keyOf (.int i) < keyOf (.int (i + 1)) := by
    show 2 * i < 2 * (i + 1)
    omega
  have h1 : keyCmp (.int i) (.int (i + 1)) = .lt := by unfold keyCmp; rw [if_pos hk]
  simp [Impl.sort, Impl.sortLoop, Impl.ins, h1]

/-- the reference reading determines the result: ascending lists with the same items per
    value in the same order are equal — stated on the keys: two ascending arrangements of
    the same multiset of ints are the same list -/
theorem ascending_ints_unique (xs ys : List Int) (hx : xs.Pairwise (· ≤ ·)) (hy : ys.Pairwise (· ≤ ·))
    (hp : xs.Perm ys) : xs = ys :=
  List.Perm.eq_of_pairwise (le := (· ≤ ·)) (fun _ _ _ _ h1 h2 => Int.le_antisymm h1 h2) hx hy hp

/-- **`l.sort()` on the machine**: for every heap and every list object holding numbers only,
    in both readings of the machine, the step succeeds, changes no other object than `r`, and
    leaves in `r` the reference sort of its former content. -/
theorem lsort_numbers (m : Mode) (h : Heap) (r : Nat) (xs : List Val) (hg : h.get r = .list xs)
    (hn : xs.all isNum = true) :
    ∃ ys, step m h (.lSort r) = (h.put r (.list ys), .unit) ∧ Spec.isSortOf xs ys = true ∧ ys.Perm xs := by
  have hs := sort_numbers_exact h xs hn
  refine ⟨(Impl.sort (hcmp h) xs).1, ?_, hs.2.2.2.2, hs.2.2.1⟩
  simp only [step, hg]
  cases hsort : Impl.sort (hcmp h) xs with
  | mk ys c =>
    have hc : c = .ge := by have := hs.1; rw [hsort] at this; exact this
    subst hc; rfl

/-- **`sorted(l)` / `l.sorted()` on the machine**: same for the two non-mutating forms — the
    heap only grows by one new list, which is the reference sort of the operand's content. -/
theorem sorted_numbers (m : Mode) (h : Heap) (r : Nat) (xs : List Val) (hg : h.get r = .list xs)
    (hn : xs.all isNum = true) :
    ∃ ys, step m h (.lSorted r) = newList h ys ∧ step m h (.bi (.sorted r)) = newList h ys ∧
      Spec.isSortOf xs ys = true ∧ ys.Perm xs := by
  have hs := sort_numbers_exact h xs hn
  refine ⟨(Impl.sort (hcmp h) xs).1, ?_, ?_, hs.2.2.2.2, hs.2.2.1⟩
  · simp only [step, hg]
    cases hsort : Impl.sort (hcmp h) xs with
    | mk ys c =>
      have hc : c = .ge := by have := hs.1; rw [hsort] at this; exact this
      subst hc; rfl
  · have hi : sortItems h r = xs := by simp [sortItems, hg]
    simp only [step, stepB, hi]
    cases hsort : Impl.sort (hcmp h) xs with
    | mk ys c =>
      have hc : c = .ge := by have := hs.1; rw [hsort] at this; exact this
      subst hc; rfl

/-- what a float64 sees of large ints: 2^53+1 collapses onto 2^53, MaxInt64 and MaxInt64-1
    onto 2^63 (checked values of the rounding model `f64OfInt`) -/
theorem f64_collapses_large_ints :
    f64OfInt 9007199254740993 = f64OfInt 9007199254740992 ∧
    f64OfInt 9223372036854775807 = f64OfInt 9223372036854775806 ∧
    f64OfInt (-9007199254740993) = f64OfInt (-9007199254740992) := by decide

/-- **Sorting numbers through float64 keys is no sort**: the full statement "for every list
    of numbers the arrangement left by a sort whose comparator looks at `float64(int)` is the
    reference sort" is false — `[2^53+1, 2^53]` stays as it is. (`sort_numbers_exact` is this
    statement for the comparator the code has.) -/
def C16_full_float_key_sort : Prop :=
  ∀ xs : List Val, xs.all isNum = true → Spec.isSortOf xs (Impl.sort f64KeyCmp xs).1 = true

theorem C16_float_keys_do_not_sort : ¬ C16_full_float_key_sort := by
  intro hf
  have := hf [.int 9007199254740993, .int 9007199254740992] (by decide)
  revert this; decide

/-- on ints the machine's comparator is such a key comparator -/
theorem cmpVal_int (h : Heap) (f : Nat) (x y : Int) : cmpVal h f (.int x) (.int y) = if x < y then .lt else .ge := by
  simp only [cmpVal, cmp3, three]
  by_cases h1 : x = y
  · subst h1; simp
  · by_cases h2 : x < y <;> simp [h1, h2]

/-- **Strings are indexed by code point**: for every byte string `s` and integer `i`,
    `s[i]` is the UTF-8 encoding of the `i`-th rune of `[]rune(s)` (negative `i` from the end)
    exactly for `-n ≤ i < n` where `n` is the number of runes, and an error otherwise. -/
theorem string_index_by_rune (s : Str) (i : Int) :
    Impl.strGet s i = Spec.strGet s i ∧
    (Impl.strGet s i = none ↔ ¬ (-((runes s).length : Int) ≤ i ∧ i < (runes s).length)) := by
  refine ⟨strGet_refines s i, ?_⟩
  rw [strGet_refines]; unfold Spec.strGet
  cases h : Spec.normIndex (runes s).length i with
  | none =>
    unfold Spec.normIndex at h
    split at h
    · cases h
    · split at h
      · cases h
      · simp; omega
  | some k =>
    have hk := normIndex_lt _ _ _ h
    have : (runes s)[k]? = some (runes s)[k] := List.getElem?_eq_getElem hk
    simp only [this, Option.map_some, reduceCtorEq, false_iff, Classical.not_not]
    unfold Spec.normIndex at h
    split at h
    · omega
    · split at h
      · omega
      · cases h

/-! ## 3. Maps and sets refine finite maps / membership predicates, for operation sequences -/

/-- abstraction of the association list the code's hash map is modelled by -/
def absMap (kvs : List (Str × Val)) : Spec.FMap := fun k => lookupKV k kvs

inductive MOp where
  | set (k : Str) (v : Val)
  | del (k : Str)
  | update (other : List (Str × Val))
  | setdefault (k : Str) (v : Val)
  | clear

def implM (kvs : List (Str × Val)) : MOp → List (Str × Val)
  | .set k v => Impl.mset kvs k v
  | .del k => Impl.mdel kvs k
  | .update o => Impl.mupdate kvs o
  | .setdefault k v => (Impl.msetdefault kvs k v).1
  | .clear => []

def specM (f : Spec.FMap) : MOp → Spec.FMap
  | .set k v => Spec.mset f k v
  | .del k => Spec.mdel f k
  | .update o => Spec.mupdate f (absMap o)
  | .setdefault k v => fun k' => if k' = k then (match f k with | some w => some w | none => some v) else f k'
  | .clear => fun _ => none

/-- the `update` arguments are maps (unique keys) -/
def MOp.wf : MOp → Prop
  | .update o => (keys o).Nodup
  | _ => True

/-- one map operation: lookups after the code's operation = the finite-map operation, for
    every map content, key and value -/
theorem map_refines_op (kvs : List (Str × Val)) (op : MOp) (hw : op.wf) :
    absMap (implM kvs op) = specM (absMap kvs) op := by
  funext k'
  cases op with
  | set k v => simp [absMap, implM, specM, Spec.mset, lookup_mset]
  | del k => simp [absMap, implM, specM, Spec.mdel, lookup_mdel]
  | update o => simp only [absMap, implM, specM, Spec.mupdate]; exact lookup_mupdate kvs o hw k'
  | setdefault k v =>
    simp only [absMap, implM, specM, Impl.msetdefault]
    cases h : lookupKV k kvs with
    | some w => by_cases hk : k' = k <;> simp [hk, h]
    | none => by_cases hk : k' = k <;> simp [hk, h, lookup_mset]
  | clear => simp [absMap, implM, specM, lookupKV]

/-- **Maps, any operation sequence**: after ANY sequence of set / delete (also `pop`) /
    update / setdefault / clear operations of ANY length, looking a key up in the code's
    map gives what the same operations give on a mathematical finite map. -/
theorem map_refines_seq (ops : List MOp) (kvs : List (Str × Val)) (hw : ∀ op ∈ ops, op.wf) :
    absMap (ops.foldl implM kvs) = ops.foldl specM (absMap kvs) := by
  induction ops generalizing kvs with
  | nil => rfl
  | cons op ops ih =>
    simp only [List.foldl_cons]
    rw [ih _ (fun o ho => hw o (by simp [ho])), map_refines_op kvs op (hw op (by simp))]

/-- the keys of a map stay unique under set and delete (so `len` counts keys) -/
theorem map_keys_unique (kvs : List (Str × Val)) (h : (keys kvs).Nodup) (k : Str) (v : Val) :
    (keys (Impl.mset kvs k v)).Nodup ∧ (keys (Impl.mdel kvs k)).Nodup :=
  ⟨nodup_mset kvs k v h, nodup_mdel kvs k h⟩

def absSet (xs : List Val) : Spec.FSet := fun x => Impl.smem xs x

inductive SOp where
  | add (v : Val)
  | remove (v : Val)
  | union (other : List Val)
  | inter (other : List Val)
  | clear

def implS (xs : List Val) : SOp → List Val
  | .add v => Impl.sadd xs v
  | .remove v => Impl.sremove xs v
  | .union o => Impl.sunion xs o
  | .inter o => Impl.sinter xs o
  | .clear => []

def specS (f : Spec.FSet) : SOp → Spec.FSet
  | .add v => fun x => keyEq v x || f x
  | .remove v => fun x => !keyEq v x && f x
  | .union o => fun x => f x || absSet o x
  | .inter o => fun x => f x && absSet o x
  | .clear => fun _ => false

/-- **Sets, any operation sequence**: after ANY sequence of add / remove / union /
    intersection / clear of ANY length, membership in the code's set is what the same
    operations give on a mathematical set of hash keys. -/
theorem set_refines_seq (ops : List SOp) (xs : List Val) :
    absSet (ops.foldl implS xs) = ops.foldl specS (absSet xs) := by
  induction ops generalizing xs with
  | nil => rfl
  | cons op ops ih =>
    simp only [List.foldl_cons]
    rw [ih]
    congr 1
    funext x
    cases op with
    | add v => simp [absSet, implS, specS, smem_sadd]
    | remove v => simp [absSet, implS, specS, smem_sremove]
    | union o => simp [absSet, implS, specS, smem_sunion]
    | inter o => simp [absSet, implS, specS, smem_sinter]
    | clear => simp [absSet, implS, specS, Impl.smem]

/-! ## 4. The heap machine: whole scenarios with object identity and aliasing -/

def noDefectOps (ops : List Op) : Bool := ops.all (fun o => !defectOp o)

/-- **Per-operation refinement on the heap**: for every heap and every operation other than
    the one excluded kind (byte_slice slicing), performing it as the code does gives the same
    heap and the same result (value or error class) as performing it on the reference
    containers. `list.map` is covered for every callback shape, the ones that return or store
    their index object included. -/
theorem refines_step (h : Heap) (op : Op) (hd : defectOp op = false) :
    step .impl h op = step .spec h op := by
  cases op <;>
    simp only [step, getItem_refines, setItem_refines, pop_refines, delItem_refines, insert_refines,
      remove_refines, count_refines, slice_refines, reverse_refines, strGet_refines,
      mapIdx_refines, indexOf_refines, nextOf_refines, drain_refines, forLoop_refines] <;> try rfl
  · simp [defectOp] at hd

/-- The full statement of the refinement half of the property: EVERY operation sequence
    gives the reference results. -/
def C16_full_refines : Prop :=
  ∀ (h : Heap) (ops : List Op), run .impl h ops = run .spec h ops

/-- **Lifted to sequences (the strongest true part)**: for every heap and every operation
    sequence of any length that contains no byte_slice slicing (`list.map` with callbacks that
    keep their index is INCLUDED since its repair), running it as the code does gives the same final heap and the same
    list of results as the reference containers. -/
theorem C16_partial_refines_seq (h : Heap) (ops : List Op) (hg : noDefectOps ops = true) :
    run .impl h ops = run .spec h ops := by
  induction ops generalizing h with
  | nil => rfl
  | cons op ops ih =>
    simp only [noDefectOps, List.all_cons, Bool.and_eq_true, Bool.not_eq_true'] at hg
    simp only [run]
    rw [refines_step h op hg.1]
    rw [ih _ (by simpa [noDefectOps] using hg.2)]

/-- `["a","b","c"]` -/
def cexList : Heap := { objs := [.list [.str [97], .str [98], .str [99]]], arrs := [] }

/-- **`list.map` gives every callback its own index** (all heaps, all lists, all callback
    shapes; formerly the first counterexample to the full statement): a two-parameter
    callback that returns its index, and one that appends its index to another list (or to
    the mapped list itself), produce exactly what the reference map produces. -/
theorem C16_map_index_refines (h : Heap) (r acc : Nat) (cb : Impl.Cb) :
    step .impl h (.lMap r cb) = step .spec h (.lMap r cb) ∧
    step .impl h (.lMapAcc r acc) = step .spec h (.lMapAcc r acc) :=
  ⟨refines_step h _ rfl, refines_step h _ rfl⟩

/-- the result of `xs.map(func(i, x) { return i })` is `[0, 1, …, n-1]` for EVERY list -/
theorem map_index_positions (xs : List Val) :
    Impl.mapIdx .idx xs = (List.range xs.length).map (fun (i : Nat) => Val.int (i : Int)) := by
  rw [mapIdx_refines]
  have key : ∀ (ys : List Val) (i : Nat),
      Spec.mapIdxFrom .idx i ys = (List.range' i ys.length).map (fun (k : Nat) => Val.int (k : Int)) := by
    intro ys
    induction ys with
    | nil => intro i; simp [Spec.mapIdxFrom]
    | cons y ys ih => intro i; simp [Spec.mapIdxFrom, ih, List.range'_succ]
  rw [Spec.mapIdx, key, List.range_eq_range']

/-- the design-time probe, on the machine as it is now:
    `["a","b","c"].map(func(i, x) { return i })` yields `[0, 1, 2]` in both readings -/
theorem C16_map_index_values :
    (step .impl cexList (.lMap 0 .idx)).1.objs[1]? = some (.list [.int 0, .int 1, .int 2]) ∧
    (step .spec cexList (.lMap 0 .idx)).1.objs[1]? = some (.list [.int 0, .int 1, .int 2]) := by decide

/-- **HISTORICAL — the defect repaired by `fix: give every list.map callback its own index
    object`**: the code before the repair (`Impl.preFixMapIdx`: one reused index object)
    turned `["a","b","c"].map(func(i, x) { return i })` into `[2, 2, 2]`, the reference and
    the repaired code give `[0, 1, 2]`. -/
theorem C16_fixed_map_index_was_shared :
    Impl.preFixMapIdx .idx [.str [97], .str [98], .str [99]] = [.int 2, .int 2, .int 2] ∧
    Spec.mapIdx .idx [.str [97], .str [98], .str [99]] = [.int 0, .int 1, .int 2] ∧
    Impl.mapIdx .idx [.str [97], .str [98], .str [99]] = [.int 0, .int 1, .int 2] := by decide

/-- HISTORICAL — the repaired defect in general: for EVERY list of length ≥ 2 the result of
    the code before the repair differed from the reference result (it was `n` copies of
    `n-1`), while the repaired loop agrees with the reference; callbacks that did not let
    the index escape were right before the repair too. -/
theorem C16_fixed_map_index_defect_general (xs : List Val) (h : 2 ≤ xs.length) :
    Impl.preFixMapIdx .idx xs = List.replicate xs.length (.int ((xs.length : Int) - 1)) ∧
    Impl.preFixMapIdx .idx xs ≠ Spec.mapIdx .idx xs ∧
    Impl.mapIdx .idx xs = Spec.mapIdx .idx xs ∧
    (∀ cb, cb ≠ Impl.Cb.idx → Impl.preFixMapIdx cb xs = Spec.mapIdx cb xs) := by
  refine ⟨preFixMapIdx_idx xs, ?_, mapIdx_refines _ xs, fun cb hcb => preFixMapIdx_refines cb hcb xs⟩
  rw [preFixMapIdx_idx]
  cases xs with
  | nil => simp at h
  | cons x xs =>
    simp only [List.length_cons, List.replicate_succ, Spec.mapIdx, Spec.mapIdxFrom]
    intro e
    simp only [List.cons.injEq, Val.int.injEq] at e
    simp only [List.length_cons] at h
    omega

/-- `byte_slice([1,2,3,4])` -/
def cexBytes : Heap := { objs := [.bytes 0 0 4], arrs := [[1, 2, 3, 4]] }

/-- **The unchanged code violates the full statement**: `c := b[1:3]; c[0] = "z"`
    changes `b` as well: the slice is a view on the same bytes, not an independent copy. -/
theorem C16_counterexample_bytes_slice : ¬ C16_full_refines := by
  intro h
  have := h cexBytes [.bSlice 0 (some (.int 1)) (some (.int 3)), .bSet 1 (.int 0) (.str [122])]
  revert this
  decide

theorem C16_counterexample_bytes_slice_values :
    let ops := [Op.bSlice 0 (some (.int 1)) (some (.int 3)), .bSet 1 (.int 0) (.str [122])]
    bytesContent (run .impl cexBytes ops).1 0 0 4 = [1, 122, 3, 4] ∧
    bytesContent (run .spec cexBytes ops).1 0 0 4 = [1, 2, 3, 4] := by decide

/-- the guard excludes the byte_slice counterexample and nothing of `list.map` -/
theorem C16_counterexample_guards :
    noDefectOps [.lMap 0 .idx, .lMapAcc 0 1] = true ∧
    noDefectOps [.bSlice 0 (some (.int 1)) (some (.int 3)), .bSet 1 (.int 0) (.str [122])] = false := by decide

/-! ## 5. Read-only operations never mutate; copies and slices are independent -/

/-- **Read-only operations leave the whole heap unchanged** (every object, not only the
    operand), whether they succeed or raise an error, in both readings of the machine. -/
theorem readonly_preserves (m : Mode) (h : Heap) (op : Op) (hr : readOnly op = true) :
    (step m h op).1 = h := by
  cases op
  case bi b =>
    cases b <;> simp only [readOnly, Bool.false_eq_true] at hr
    simp only [step, stepB]; (repeat' split) <;> rfl
  all_goals
    simp only [readOnly, Bool.false_eq_true] at hr <;>
    simp only [step] <;> (repeat' split) <;> rfl

/-- any sequence of read-only operations of any length leaves the heap unchanged -/
theorem readonly_seq (m : Mode) (h : Heap) (ops : List Op) (hr : ∀ op ∈ ops, readOnly op = true) :
    (run m h ops).1 = h := by
  induction ops generalizing h with
  | nil => rfl
  | cons op ops ih =>
    simp only [run]
    have h1 := readonly_preserves m h op (hr op (by simp))
    rw [ih _ (fun o ho => hr o (by simp [ho]))]
    exact h1

/-- object `r` is untouched and no object disappears -/
def Keeps (r : Nat) (h h' : Heap) : Prop := h'.objs[r]? = h.objs[r]? ∧ h.objs.length ≤ h'.objs.length

/-- frame for the builtins of the "operand untouched" class (`BOp`): none but
    `l.each(func(x) { acc.append(x) })` has a target at all -/
theorem keeps_stepB (h : Heap) (b : BOp) (r : Nat) (hr : r < h.objs.length)
    (ht : target (.bi b) ≠ some r) : Keeps r h (stepB h b).1 := by
  cases b <;> simp only [stepB, target, ne_eq, Option.some.injEq, reduceCtorEq, not_false_eq_true] at ht ⊢ <;>
    (repeat' split) <;>
    simp_all [Keeps, Heap.put, Heap.alloc, newList, allocs, List.getElem?_append_left] <;>
    omega

/-- frame for `for` loops: a loop whose body leaves the list alone changes nothing at all, a
    loop whose body changes the list changes that list only; the record is a new object -/
theorem keeps_lFor (m : Mode) (h : Heap) (r' : Nat) (w : Bool) (b : Body) (r : Nat) (hr : r < h.objs.length)
    (ht : target (.lFor r' w b) ≠ some r) : Keeps r h (step m h (.lFor r' w b)).1 := by
  simp only [step]
  split
  · rename_i xs hg
    have hk := forLoop_keeps m r' w b (max xs.length b.bound + 1) h 0 []
    simp only [newList, Heap.alloc, Keeps, List.length_append, List.length_singleton]
    refine ⟨?_, by omega⟩
    rw [List.getElem?_append_left (by omega)]
    by_cases hb : b = .none
    · subst hb
      rw [forLoop_none m r' w xs _ h 0 [] hg (by simp [Body.bound])]
    · have hne : r ≠ r' := by
        intro e; subst e
        cases b <;> simp_all [target]
      exact hk.2.2 r hne
  · exact ⟨rfl, Nat.le_refl _⟩

/-- **Frame**: an operation changes no container object other than its target; operations
    that build a new container (slice, copy, sorted, reversed, keys, values, union, …) have
    no target and change no existing object. -/
theorem keeps_step (m : Mode) (h : Heap) (op : Op) (r : Nat) (hr : r < h.objs.length)
    (ht : target op ≠ some r) : Keeps r h (step m h op).1 := by
  cases op
  case bi b =>
    simp only [step]
    exact keeps_stepB h b r hr ht
  case lFor r' w b => exact keeps_lFor m h r' w b r hr ht
  all_goals
    simp only [step, target, ne_eq, Option.some.injEq, reduceCtorEq, not_false_eq_true] at ht ⊢ <;>
    (repeat' split) <;>
    simp_all [Keeps, Heap.put, Heap.alloc, newList, List.getElem?_append_left] <;>
    omega

/-- **Independence for operation sequences**: for every heap, every object `r` in it and
    every operation sequence of any length none of whose operations targets `r`, object `r`
    (its item list / key-value pairs / members) is the same afterwards. Nested containers are
    references, as in the language: what is preserved is the object itself, its elements'
    identities included. For byte slices the preserved part is the slice header; see
    `C16_counterexample_bytes_slice` for their contents. -/
theorem keeps_seq (m : Mode) (h : Heap) (ops : List Op) (r : Nat) (hr : r < h.objs.length)
    (ht : ∀ op ∈ ops, target op ≠ some r) : Keeps r h (run m h ops).1 := by
  induction ops generalizing h with
  | nil => exact ⟨rfl, Nat.le_refl _⟩
  | cons op ops ih =>
    simp only [run]
    have h1 := keeps_step m h op r hr (ht op (by simp))
    have h2 := ih (step m h op).1 (by have := h1.2; omega) (fun o ho => ht o (by simp [ho]))
    exact ⟨h2.1.trans h1.1, Nat.le_trans h1.2 h2.2⟩

/-- shared core of the copy theorems: an operation that only appends the new object `o` -/
theorem alloc_independent (m : Mode) (h : Heap) (r : Nat) (o o' : Obj) (hr : r < h.objs.length)
    (hx : h.objs[r]? = some o) :
    let h1 : Heap := { h with objs := h.objs ++ [o'] }
    let r' := h.objs.length
    h1.objs[r']? = some o' ∧ h1.objs[r]? = some o ∧
    (∀ ops, (∀ op ∈ ops, target op ≠ some r') → (run m h1 ops).1.objs[r']? = some o') ∧
    (∀ ops, (∀ op ∈ ops, target op ≠ some r) → (run m h1 ops).1.objs[r]? = some o) := by
  have e1 : (h.objs ++ [o'])[h.objs.length]? = some o' := by simp
  have e2 : (h.objs ++ [o'])[r]? = some o := by
    rw [List.getElem?_append_left hr]; exact hx
  refine ⟨e1, e2, ?_, ?_⟩
  · intro ops hops
    have := keeps_seq m { h with objs := h.objs ++ [o'] } ops h.objs.length (by simp) hops
    rw [this.1]; exact e1
  · intro ops hops
    have := keeps_seq m { h with objs := h.objs ++ [o'] } ops r (by simp; omega) hops
    rw [this.1]; exact e2

/-- **Slice then mutate**: if `a[x:y]` succeeds on list `r`, the result is a NEW object
    holding exactly the reference sub-list; the original is unchanged by slicing; afterwards
    any operation sequence that does not target the slice leaves the slice as it is — in
    particular every mutation of the original — and any sequence that does not target the
    original (every mutation of the slice) leaves the original as it is. -/
theorem slice_independent (m : Mode) (h : Heap) (r : Nat) (xs ys : List Val) (a b : Option Val)
    (hr : r < h.objs.length) (hx : h.objs[r]? = some (.list xs)) (hs : Spec.slice xs a b = .ok ys) :
    let h1 := (step m h (.lSlice r a b)).1
    let r' := h.objs.length
    h1.objs[r']? = some (.list ys) ∧ h1.objs[r]? = some (.list xs) ∧
    (∀ ops, (∀ op ∈ ops, target op ≠ some r') → (run m h1 ops).1.objs[r']? = some (.list ys)) ∧
    (∀ ops, (∀ op ∈ ops, target op ≠ some r) → (run m h1 ops).1.objs[r]? = some (.list xs)) := by
  have hget : h.get r = .list xs := by
    unfold Heap.get; rw [List.getD_eq_getElem?_getD, hx]; rfl
  have hstep : (step m h (.lSlice r a b)).1 = { h with objs := h.objs ++ [.list ys] } := by
    cases m <;> simp [step, hget, slice_refines, hs, newList, Heap.alloc]
  simp only [hstep]
  exact alloc_independent m h r (.list xs) (.list ys) hr hx

/-- **Copy then mutate (lists)**: `a.copy()` returns a NEW object with the same items;
    afterwards operation sequences that do not target the copy leave the copy unchanged
    (every mutation of the original included), and sequences that do not target the original
    (every mutation of the copy) leave the original unchanged. -/
theorem copy_independent_list (m : Mode) (h : Heap) (r : Nat) (xs : List Val) (hr : r < h.objs.length)
    (hx : h.objs[r]? = some (.list xs)) :
    let h1 := (step m h (.lCopy r)).1
    let r' := h.objs.length
    h1.objs[r']? = some (.list xs) ∧ h1.objs[r]? = some (.list xs) ∧
    (∀ ops, (∀ op ∈ ops, target op ≠ some r') → (run m h1 ops).1.objs[r']? = some (.list xs)) ∧
    (∀ ops, (∀ op ∈ ops, target op ≠ some r) → (run m h1 ops).1.objs[r]? = some (.list xs)) := by
  have hget : h.get r = .list xs := by
    unfold Heap.get; rw [List.getD_eq_getElem?_getD, hx]; rfl
  have hstep : (step m h (.lCopy r)).1 = { h with objs := h.objs ++ [.list xs] } := by
    simp [step, hget, newList, Heap.alloc]
  simp only [hstep]
  exact alloc_independent m h r (.list xs) (.list xs) hr hx

/-- **Copy then mutate (maps)**: the same for `m.copy()`. -/
theorem copy_independent_map (m : Mode) (h : Heap) (r : Nat) (kvs : List (Str × Val)) (hr : r < h.objs.length)
    (hx : h.objs[r]? = some (.map kvs)) :
    let h1 := (step m h (.mCopy r)).1
    let r' := h.objs.length
    h1.objs[r']? = some (.map kvs) ∧ h1.objs[r]? = some (.map kvs) ∧
    (∀ ops, (∀ op ∈ ops, target op ≠ some r') → (run m h1 ops).1.objs[r']? = some (.map kvs)) ∧
    (∀ ops, (∀ op ∈ ops, target op ≠ some r) → (run m h1 ops).1.objs[r]? = some (.map kvs)) := by
  have hget : h.get r = .map kvs := by
    unfold Heap.get; rw [List.getD_eq_getElem?_getD, hx]; rfl
  have hstep : (step m h (.mCopy r)).1 = { h with objs := h.objs ++ [.map kvs] } := by
    simp [step, hget, Heap.alloc]
  simp only [hstep]
  exact alloc_independent m h r (.map kvs) (.map kvs) hr hx

/-! ## 6. Builtins that take a container must leave it untouched and return an independent one

`sorted(x)` / `sorted(x, f)`, `reversed`, `list()`, `set()`, `keys()`, `m.items()`,
`l.filter`, `l.each`, `chunk` (`BOp`, `stepB` in Model.lean), for EVERY heap, EVERY operand
kind, EVERY comparison function — given as an abstract relation or as a call-numbered oracle,
including oracles that raise at some call — and EVERY later operation sequence. -/

/-- `h'` is `h` plus appended objects / byte arrays: nothing that existed has changed -/
def Extends (h h' : Heap) : Prop := h.objs <+: h'.objs ∧ h.arrs <+: h'.arrs

theorem Extends.obj {h h' : Heap} (e : Extends h h') (r : Nat) (hr : r < h.objs.length) :
    h'.objs[r]? = h.objs[r]? := by
  obtain ⟨t, ht⟩ := e.1
  rw [← ht, List.getElem?_append_left hr]

theorem Extends.arr {h h' : Heap} (e : Extends h h') (a : Nat) (ha : a < h.arrs.length) :
    h'.arrs[a]? = h.arrs[a]? := by
  obtain ⟨t, ht⟩ := e.2
  rw [← ht, List.getElem?_append_left ha]

/-- **Every builtin of the class only reads**: for every heap and every such builtin other
    than the accumulating `each`, on every operand kind, whether it succeeds or raises (a
    comparison function that raises at any call included), the heap afterwards is the heap
    before plus, at most, newly appended objects: every container object and every byte
    array that existed is exactly as it was. -/
theorem builtin_readonly (h : Heap) (b : BOp) (ht : target (.bi b) = none) : Extends h (stepB h b).1 := by
  cases b <;> simp only [target, reduceCtorEq] at ht <;>
    simp only [stepB] <;> (repeat' split) <;>
    simp [Extends, newList, Heap.alloc, allocs]

/-- **A builtin that raises has changed nothing** — not even partially: for every builtin of
    the class (all of them), an error result comes with exactly the heap it started from. -/
theorem builtin_error_leaves_heap (h : Heap) (b : BOp) (c : ErrC) (he : (stepB h b).2 = .err c) :
    (stepB h b).1 = h := by
  cases b <;> simp only [stepB] at he ⊢ <;> (repeat' split) <;>
    simp_all [newList, Heap.alloc, allocs]

/-- **The container a builtin returns is a NEW object**: its handle did not exist before
    the call and exists afterwards. -/
theorem builtin_result_fresh (h : Heap) (b : BOp) (q : Nat) (hq : (stepB h b).2 = .val (.ref q)) :
    h.objs.length ≤ q ∧ q < (stepB h b).1.objs.length := by
  cases b <;> simp only [stepB] at hq ⊢ <;> (repeat' split) <;>
    simp_all [newList, Heap.alloc, allocs] <;> omega

/-- **Read-only in operation sequences of any length**: any sequence made only of
    operations without a target — reads, slices, copies, `+`, `sorted` (1 and 2 arguments),
    `reversed`, `list()`, `set()`, `keys`, `values`, `items`, `filter`, `each`, `chunk`,
    `map`, union, intersection — leaves every object that existed at the start as it was. -/
theorem readonly_builtins_seq (m : Mode) (h : Heap) (ops : List Op) (hn : ∀ op ∈ ops, target op = none)
    (r : Nat) (hr : r < h.objs.length) : (run m h ops).1.objs[r]? = h.objs[r]? :=
  (keeps_seq m h ops r hr (fun op ho => by rw [hn op ho]; exact fun e => by cases e)).1

/-- **Independence of operand and result, for every builtin of the class and every later
    operation sequence**: if builtin `b` (without a target) returns container `q`, then the
    operand — and every other object `r` that existed — is unchanged by the call, `q` is new,
    and afterwards: every operation sequence of any length that does not target `q` (every
    mutation of the operand included) leaves `q` as it was returned, and every sequence that
    does not target `r` (every mutation of the result included) leaves `r` as it was. -/
theorem builtin_independent (m : Mode) (h : Heap) (b : BOp) (r q : Nat) (hr : r < h.objs.length)
    (ht : target (.bi b) = none) (hq : (step m h (.bi b)).2 = .val (.ref q)) :
    let h1 := (step m h (.bi b)).1
    h.objs.length ≤ q ∧ q < h1.objs.length ∧ h1.objs[r]? = h.objs[r]? ∧
    (∀ ops, (∀ op ∈ ops, target op ≠ some q) → (run m h1 ops).1.objs[q]? = h1.objs[q]?) ∧
    (∀ ops, (∀ op ∈ ops, target op ≠ some r) → (run m h1 ops).1.objs[r]? = h.objs[r]?) := by
  simp only [step] at hq ⊢
  have hf := builtin_result_fresh h b q hq
  have he := builtin_readonly h b ht
  have hlen : h.objs.length ≤ (stepB h b).1.objs.length := by omega
  refine ⟨hf.1, hf.2, he.obj r hr, ?_, ?_⟩
  · intro ops hops
    exact (keeps_seq m (stepB h b).1 ops q hf.2 hops).1
  · intro ops hops
    rw [(keeps_seq m (stepB h b).1 ops r (by omega) hops).1]
    exact he.obj r hr

/-- **`sorted(x, f)` never loses, duplicates or invents an element**, whatever the
    comparison function answers and wherever it raises: the arrangement is a permutation. -/
theorem sorted_by_keeps_elements (f : CmpOracle) (xs : List Val) : (Impl.sortBy f xs).1.Perm xs :=
  sortBy_perm f xs

/-- **`sorted(x, f)` sorts**: when the comparison function is an abstract relation `lt`
    (every call answers `lt a b`) that behaves as a strict total preorder on the items, no
    error is reported and in the result no later item is less than an earlier one; the
    result is what the one-argument sort gives for the comparator of `lt`. -/
theorem sorted_by_sorted (lt : Val → Val → Bool) (g : GoodCmp (relCmp lt)) (f : CmpOracle)
    (hf : ∀ n a b, f n a b = some (lt a b)) (xs : List Val) :
    Impl.sortBy f xs = ((Impl.sort (relCmp lt) xs).1, false) ∧
    (Impl.sortBy f xs).1.Pairwise (fun a b => lt b a = false) := by
  have h1 := sortBy_of_rel lt f hf xs
  refine ⟨h1, ?_⟩
  rw [h1]
  refine List.Pairwise.imp ?_ (sort_sorted (relCmp lt) g xs).2
  intro a b hab
  simp only [relCmp] at hab
  split at hab
  · cases hab
  · rename_i hn; simpa using hn

/-- a comparison function that never raises gives no error -/
theorem sorted_by_no_raise (f : CmpOracle) (hf : ∀ n a b, (f n a b).isSome = true) (xs : List Val) :
    (Impl.sortBy f xs).2 = false := by
  unfold Impl.sortBy; exact sortByLoop_no_raise f hf [] xs 0

/-- **`sorted(x, f)` is read-only on its operand**: for every heap, operand `r` of any kind,
    comparison function `f` and raising call number `k`, in both readings of the machine,
    every object (the operand included) and every byte array that existed before the call is
    exactly as it was afterwards — whether the call returns a list or raises. -/
theorem sorted_by_readonly (m : Mode) (h : Heap) (r : Nat) (f : CmpFn) (k : Option Nat) :
    Extends h (step m h (.bi (.sortedBy r f k))).1 := by
  simp only [step]
  exact builtin_readonly h (.sortedBy r f k) rfl

/-- **… in sequences of any length**: any number of `sorted(x, f)` calls in a row — any
    operands, comparison functions and raising call numbers, successful or not — leaves every
    object that existed at the start exactly as it was. (`readonly_builtins_seq` is the same
    for arbitrary mixes with the other target-less operations.) -/
theorem sorted_by_readonly_seq (m : Mode) (h : Heap) (calls : List (Nat × CmpFn × Option Nat))
    (r : Nat) (hr : r < h.objs.length) :
    (run m h (calls.map (fun c => Op.bi (.sortedBy c.1 c.2.1 c.2.2)))).1.objs[r]? = h.objs[r]? := by
  refine readonly_builtins_seq m h _ ?_ r hr
  intro op ho
  simp only [List.mem_map] at ho
  obtain ⟨c, _, rfl⟩ := ho
  rfl

/-- **`sorted(x, f)` when a comparison raises at some step**: the call returns a type error
    and the heap — the operand in particular — is exactly what it was before the call: no
    half-sorted operand. (`Impl.sortBy … .1` is the half-sorted arrangement of the private
    copy at that point; it is dropped.) -/
theorem sorted_by_error_leaves_operand (m : Mode) (h : Heap) (r : Nat) (f : CmpFn) (k : Option Nat)
    (he : (Impl.sortBy (oracleOf h f k) (sortItems h r)).2 = true) :
    step m h (.bi (.sortedBy r f k)) = (h, .err .type) := by
  simp only [step, stepB]
  split
  · rfl
  · rename_i heq; rw [heq] at he; cases he

/-- … and, conversely, an error of `sorted(x, f)` only ever comes from a raising comparison -/
theorem sorted_by_error_iff (m : Mode) (h : Heap) (r : Nat) (f : CmpFn) (k : Option Nat) :
    (∃ c, (step m h (.bi (.sortedBy r f k))).2 = .err c) ↔
      (Impl.sortBy (oracleOf h f k) (sortItems h r)).2 = true := by
  simp only [step, stepB]
  split
  · rename_i heq; simp [heq]
  · rename_i heq; simp [heq, newList, Heap.alloc]

/-- **`sorted(x, f)` returns an independent list**: when no comparison raises, the result is
    a NEW list object holding a permutation `ys` of the operand's items (the arrangement the
    oracle-driven sort computes); the operand is unchanged by the call; afterwards every
    operation sequence of any length that does not target the result (every mutation of the
    operand included) leaves the result `ys`, and every sequence that does not target the
    operand (every mutation of the result included) leaves the operand as it was. -/
theorem sorted_by_independent (m : Mode) (h : Heap) (r : Nat) (f : CmpFn) (k : Option Nat) (ys : List Val)
    (o : Obj) (hr : r < h.objs.length) (hx : h.objs[r]? = some o)
    (hs : Impl.sortBy (oracleOf h f k) (sortItems h r) = (ys, false)) :
    let h1 := (step m h (.bi (.sortedBy r f k))).1
    let r' := h.objs.length
    (step m h (.bi (.sortedBy r f k))).2 = .val (.ref r') ∧ ys.Perm (sortItems h r) ∧
    h1.objs[r']? = some (.list ys) ∧ h1.objs[r]? = some o ∧
    (∀ ops, (∀ op ∈ ops, target op ≠ some r') → (run m h1 ops).1.objs[r']? = some (.list ys)) ∧
    (∀ ops, (∀ op ∈ ops, target op ≠ some r) → (run m h1 ops).1.objs[r]? = some o) := by
  have hstep : step m h (.bi (.sortedBy r f k)) =
      ({ h with objs := h.objs ++ [.list ys] }, .val (.ref h.objs.length)) := by
    simp [step, stepB, hs, newList, Heap.alloc]
  have hp : ys.Perm (sortItems h r) := by
    have := sortBy_perm (oracleOf h f k) (sortItems h r)
    rw [hs] at this; exact this
  simp only [hstep]
  exact ⟨trivial, hp, alloc_independent m h r o (.list ys) hr hx⟩

/-- **`reversed(l)`, `list(x)`, `l.filter(p)`, one-argument `sorted(x)`**: same statement for
    the other list-returning builtins, with the content each must have. -/
theorem list_builtin_independent (m : Mode) (h : Heap) (b : BOp) (r : Nat) (ys : List Val) (o : Obj)
    (hr : r < h.objs.length) (hx : h.objs[r]? = some o)
    (hb : stepB h b = (({ h with objs := h.objs ++ [.list ys] } : Heap), .val (.ref h.objs.length))) :
    let h1 := (step m h (.bi b)).1
    let r' := h.objs.length
    h1.objs[r']? = some (.list ys) ∧ h1.objs[r]? = some o ∧
    (∀ ops, (∀ op ∈ ops, target op ≠ some r') → (run m h1 ops).1.objs[r']? = some (.list ys)) ∧
    (∀ ops, (∀ op ∈ ops, target op ≠ some r) → (run m h1 ops).1.objs[r]? = some o) := by
  simp only [step, hb]
  exact alloc_independent m h r o (.list ys) hr hx

/-- `reversed(l)` is such a builtin and its content is the reversed item list -/
theorem reversed_result (h : Heap) (r : Nat) (xs : List Val) (hg : h.get r = .list xs) :
    stepB h (.reversed r) = (({ h with objs := h.objs ++ [.list xs.reverse] } : Heap), .val (.ref h.objs.length)) := by
  simp [stepB, hg, newList, Heap.alloc]

/-- `list(l)` is such a builtin and its content is the item list -/
theorem toList_result (h : Heap) (r : Nat) (xs : List Val) (hg : h.get r = .list xs) :
    stepB h (.toList r) = (({ h with objs := h.objs ++ [.list xs] } : Heap), .val (.ref h.objs.length)) := by
  simp [stepB, iterItems, hg, newList, Heap.alloc]

/-- `l.filter(p)` is such a builtin and its content is the sub-list of the items `p` accepts -/
theorem filter_result (h : Heap) (r : Nat) (xs : List Val) (p : Pred) (v : Val) (hg : h.get r = .list xs) :
    stepB h (.filter r p v) =
      (({ h with objs := h.objs ++ [.list (xs.filter (predOf h p v))] } : Heap), .val (.ref h.objs.length)) := by
  simp [stepB, hg, newList, Heap.alloc]

/-- **`chunk(l, n)` for n ≥ 1** cuts the items into consecutive pieces without losing or
    reordering anything: the pieces concatenated are the list. -/
theorem chunks_join (n : Nat) (hn : 1 ≤ n) (f : Nat) (xs : List Val) (hf : xs.length ≤ f) :
    (Impl.chunksOf n f xs).flatten = xs := by
  induction f generalizing xs with
  | zero =>
    have : xs = [] := List.length_eq_zero_iff.1 (by omega)
    subst this; simp [Impl.chunksOf]
  | succ f ih =>
    cases xs with
    | nil => simp [Impl.chunksOf]
    | cons x xs =>
      simp only [Impl.chunksOf, List.flatten_cons]
      rw [ih _ (by simp only [List.length_drop, List.length_cons] at hf ⊢; omega)]
      exact List.take_append_drop n (x :: xs)

/-! ## 7a. Searching a list uses the LANGUAGE's equality — across the numeric types too

`l.index(v)`, `l.count(v)`, `l.remove(v)`, `v in l` for EVERY list, EVERY needle and EVERY
equality relation (`eq` is a parameter; the machine instantiates it with `heq`, the model of
`object.Equals`, under which `2 == 2.0 == byte(2)`). -/

/-- **`l.index(v)` returns the FIRST position whose item equals `v`, and −1 (`none`) exactly
    when no item equals `v`**: for every equality relation, needle and list, the loop of
    `List.Index` answers `k` iff item `k` equals the needle and no earlier item does; it
    answers "absent" iff every item differs from the needle. No item is skipped for any
    other reason (its type, for instance). -/
theorem index_finds_first (eq : Val → Val → Bool) (v : Val) (xs : List Val) :
    (∀ k, Impl.indexOf eq v xs = some k ↔
      ∃ hk : k < xs.length, eq v xs[k] = true ∧
        ∀ j (hj : j < k), ¬ (eq v (xs[j]'(Nat.lt_trans hj hk)) = true)) ∧
    (Impl.indexOf eq v xs = none ↔ ∀ x, x ∈ xs → eq v x = false) := by
  rw [indexOf_refines]; unfold Spec.indexOf
  exact ⟨fun k => List.findIdx?_eq_some_iff_getElem, List.findIdx?_eq_none_iff⟩

/-- **`index`, `count`, `remove` and `in` agree with one another**: for every equality
    relation, list and needle — `index` finds something iff some item equals the needle iff
    `count` is positive; `remove` shortens the list by exactly one in that case and leaves its
    length alone otherwise; `v in l` holds iff some item equals `v`. -/
theorem search_consistent (eq : Val → Val → Bool) (xs : List Val) (v : Val) :
    ((Impl.indexOf eq v xs).isSome = true ↔ ∃ x, x ∈ xs ∧ eq v x = true) ∧
    (0 < Impl.count eq xs v ↔ ∃ x, x ∈ xs ∧ eq v x = true) ∧
    ((Impl.remove eq xs v).length = xs.length - (if (Impl.indexOf eq v xs).isSome then 1 else 0)) ∧
    (Impl.contains eq xs v = true ↔ ∃ x, x ∈ xs ∧ eq x v = true) := by
  refine ⟨?_, ?_, ?_, ?_⟩
  · rw [indexOf_refines]; unfold Spec.indexOf
    rw [List.findIdx?_isSome]; simp
  · rw [count_refines]; unfold Spec.count; simp
  · rw [remove_refines, indexOf_refines]; unfold Spec.remove Spec.indexOf
    rw [List.length_eraseP, List.findIdx?_isSome]
    split <;> simp
  · unfold Impl.contains; simp

/-- **Numbers are equal by value, whatever their type**: for every heap, fuel, integer `x`
    and byte `n`, the model of `object.Equals` makes `x == float(x)`, `n == int(n)`,
    `n == float(n)`, in both argument orders (a float is `flt t` with value `t/2`). -/
theorem numeric_equal_by_value (h : Heap) (f : Nat) (x : Int) (n : Nat) :
    valEq h f (.int x) (.flt (2 * x)) = true ∧ valEq h f (.flt (2 * x)) (.int x) = true ∧
    valEq h f (.int n) (.byte n) = true ∧ valEq h f (.byte n) (.int n) = true ∧
    valEq h f (.byte n) (.flt (2 * n)) = true ∧ valEq h f (.flt (2 * n)) (.byte n) = true := by
  simp [valEq]

/-- equality of two atoms (neither is a container) does not depend on the argument order -/
theorem atom_eq_symm (h : Heap) (f : Nat) (a b : Val) (ha : ∀ r, a ≠ .ref r) (hb : ∀ r, b ≠ .ref r) :
    valEq h f a b = valEq h f b a := by
  cases a <;> cases b <;> simp_all [valEq, Bool.beq_comm, eq_comm]

theorem get_put_self (h : Heap) (r : Nat) (o : Obj) (hr : r < h.objs.length) : (h.put r o).get r = o :=
  get_put_same h r o hr

/-- **On the machine: an item that equals the needle is found whatever its type**: for every
    heap, list `r`, needle `v` and item `w` of the list with `v == w` under the language's
    equality (e.g. `v = 2`, `w = 2.0`), in both readings of the machine `l.index(v)` answers a
    position inside the list (not −1), `l.count(v)` is at least one, and `l.remove(v)` makes the
    list exactly one item shorter. -/
theorem search_crosses_numeric_types (m : Mode) (h : Heap) (r : Nat) (xs : List Val) (v w : Val)
    (hr : r < h.objs.length) (hg : h.get r = .list xs) (hw : w ∈ xs) (he : heq h v w = true) :
    (∃ k : Nat, (step m h (.lIndex r v)).2 = .val (.int k) ∧ k < xs.length) ∧
    (∃ c : Nat, (step m h (.lCount r v)).2 = .val (.int c) ∧ 1 ≤ c) ∧
    (∃ ys, (step m h (.lRemove r v)).1.get r = .list ys ∧ ys.length + 1 = xs.length) := by
  have hex : ∃ x, x ∈ xs ∧ heq h v x = true := ⟨w, hw, he⟩
  have hc := search_consistent (heq h) xs v
  have hidx : (Impl.indexOf (heq h) v xs).isSome = true := hc.1.2 hex
  have hpos : 0 < xs.length := List.length_pos_of_mem hw
  refine ⟨?_, ?_, ?_⟩
  · cases hk : Impl.indexOf (heq h) v xs with
    | none => rw [hk] at hidx; cases hidx
    | some k =>
      have hlt : k < xs.length := by
        obtain ⟨hlt, _⟩ := ((index_finds_first (heq h) v xs).1 k).1 hk
        exact hlt
      refine ⟨k, ?_, hlt⟩
      cases m
      · simp [step, hg, hk]
      · simp [step, hg, ← indexOf_refines, hk]
  · refine ⟨Impl.count (heq h) xs v, ?_, hc.2.1.2 hex⟩
    cases m
    · simp [step, hg]
    · simp [step, hg, count_refines]
  · refine ⟨Impl.remove (heq h) xs v, ?_, ?_⟩
    · cases m
      · simp [step, hg, get_put_self h r _ hr]
      · simp [step, hg, remove_refines, get_put_self h r _ hr]
    · rw [hc.2.2.1, hidx]; simp; omega

/-- the case the property's generator reaches through arithmetic: the list holds `2.0`
    (`flt 4`), the needle is the int `2` -/
theorem index_int_finds_float (m : Mode) (h : Heap) (r : Nat) (xs : List Val) (x : Int)
    (hr : r < h.objs.length) (hg : h.get r = .list xs) (hw : Val.flt (2 * x) ∈ xs) :
    ∃ k : Nat, (step m h (.lIndex r (.int x))).2 = .val (.int k) ∧ k < xs.length :=
  (search_crosses_numeric_types m h r xs (.int x) (.flt (2 * x)) hr hg hw
    (numeric_equal_by_value h (fuelOf h) x 0).1).1

/-! ## 7b. Iterating a list that changes meanwhile: the iterator is a cursor into the LIVE list

`iter(l)`, `it.next()`, `list(it)` and `for` loops whose body changes the list they run over.
The reference reading: an iterator that has yielded `k` items yields item number `k` of the
list AS IT IS AT THAT MOMENT, and is exhausted exactly when the list has no such item. -/

/-- **Go's cursor arithmetic is the reference cursor**: for every list content and every
    number `k` of items already yielded, `ListIter.Next` (`pos >= len-1` on the live items,
    then `items[pos+1]`) yields `items[k]` exactly when it exists; draining (`list(it)`) collects
    exactly `items.drop k` and parks the cursor at the end. -/
theorem iter_refines (xs : List Val) (k : Nat) :
    Impl.iterNext xs k = Spec.iterNext xs k ∧ Impl.drain xs k = Spec.drain xs k :=
  ⟨iterNext_refines xs k, drain_refines xs k⟩

/-- **`it.next()` reads the live list**: for every heap in which `it` is a cursor on list
    object `l` with `k` items yielded and `l` holds `xs` NOW (however both got there), the
    step yields `xs[k]` and moves only the cursor, or yields nil and changes nothing when the
    list has no item `k`. In both readings of the machine. -/
theorem iter_next_live (m : Mode) (h : Heap) (it l k : Nat) (xs : List Val)
    (hi : h.get it = .iter l k) (hl : h.get l = .list xs) :
    step m h (.iNext it) = (match xs[k]? with
      | some v => (h.put it (.iter l (k + 1)), .val v)
      | none => (h, .val .nil)) := by
  simp only [step, hi, hl, nextOf_eq]
  cases xs[k]? <;> rfl

/-- **`list(it)` reads the live list**: the new list holds exactly the items from the cursor
    on, as the list is now; the cursor ends at the end of the list. -/
theorem iter_rest_live (m : Mode) (h : Heap) (it l k : Nat) (xs : List Val)
    (hi : h.get it = .iter l k) (hl : h.get l = .list xs) :
    step m h (.iRest it) = newList (h.put it (.iter l (max k xs.length))) (xs.drop k) := by
  cases m <;> simp [step, hi, hl, drain_refines, Spec.drain]

/-- **The cursor survives whatever is done to the list**: any operation sequence of any
    length without `next`/`list` on this iterator — every mutation of the list it runs over
    included — leaves the iterator object (its list, its count) as it was. -/
theorem iter_cursor_survives (m : Mode) (h : Heap) (ops : List Op) (it : Nat) (hit : it < h.objs.length)
    (hops : ∀ op ∈ ops, target op ≠ some it) : (run m h ops).1.objs[it]? = h.objs[it]? :=
  (keeps_seq m h ops it hit hops).1

/-- **`next`/`list(it)` never change the list**: they move the cursor only. -/
theorem iter_steps_keep_list (m : Mode) (h : Heap) (it r : Nat) (hr : r < h.objs.length) (hne : r ≠ it) :
    (step m h (.iNext it)).1.objs[r]? = h.objs[r]? ∧ (step m h (.iRest it)).1.objs[r]? = h.objs[r]? :=
  ⟨(keeps_step m h (.iNext it) r hr (by simp [target]; omega)).1,
   (keeps_step m h (.iRest it) r hr (by simp [target]; omega)).1⟩

/-- **Iterate after mutation**: `it := iter(l)`, then ANY operation sequence of any length
    that does not use `it` (appends, pops, removes, clears, assignments to `l` included), then
    `list(it)`: the result is exactly the content `l` has THEN (`ys`) — neither a snapshot taken
    when the iterator was made nor a view frozen at the old length — and `it.next()` in that
    place yields `ys[0]`. -/
theorem iter_sees_later_mutations (m : Mode) (h : Heap) (r : Nat) (xs ys : List Val) (ops : List Op)
    (hg : h.get r = .list xs) (hops : ∀ op ∈ ops, target op ≠ some h.objs.length)
    (hy : (run m (step m h (.iNew r)).1 ops).1.get r = .list ys) :
    (step m h (.iNew r)).2 = .val (.ref h.objs.length) ∧
    step m (run m (step m h (.iNew r)).1 ops).1 (.iRest h.objs.length) =
      newList ((run m (step m h (.iNew r)).1 ops).1.put h.objs.length (.iter r ys.length)) ys ∧
    step m (run m (step m h (.iNew r)).1 ops).1 (.iNext h.objs.length) =
      (match ys[0]? with
        | some v => ((run m (step m h (.iNew r)).1 ops).1.put h.objs.length (.iter r 1), .val v)
        | none => ((run m (step m h (.iNew r)).1 ops).1, .val .nil)) := by
  have hnew : step m h (.iNew r) = ({ h with objs := h.objs ++ [.iter r 0] }, .val (.ref h.objs.length)) := by
    simp [step, hg, Heap.alloc]
  rw [hnew]
  simp only at hy ⊢
  rw [hnew] at hy
  simp only at hy
  have hk := keeps_seq m { h with objs := h.objs ++ [.iter r 0] } ops h.objs.length (by simp) hops
  have hit : (run m { h with objs := h.objs ++ [.iter r 0] } ops).1.get h.objs.length = .iter r 0 := by
    unfold Heap.get
    rw [List.getD_eq_getElem?_getD, hk.1]
    simp
  refine ⟨trivial, ?_, ?_⟩
  · rw [iter_rest_live m _ _ r 0 ys hit hy]; simp
  · rw [iter_next_live m _ _ r 0 ys hit hy]

/-- **A `for` loop computes the reference loop**, whatever its body does to the list: in
    every heap, for every list, both forms (`for i, x := range l`, `for x in l`) and every body
    shape, running the rounds with Go's cursor and the code-shaped list functions gives the
    same heap and the same record as running them with the reference cursor on the reference
    list. -/
theorem for_refines (h : Heap) (r : Nat) (w : Bool) (b : Body) :
    step .impl h (.lFor r w b) = step .spec h (.lFor r w b) := refines_step h _ rfl

/-- **A loop that leaves its list alone visits every item once, in order, with its index**:
    the heap is unchanged and the record is `[0, xs[0], 1, xs[1], …]` (or `xs` itself for
    `for x in l`), for every list. -/
theorem for_plain_visits_all (m : Mode) (h : Heap) (r : Nat) (w : Bool) (xs : List Val) (hg : h.get r = .list xs) :
    step m h (.lFor r w .none) = newList h (pairsFrom w 0 xs) ∧ pairsFrom false 0 xs = xs := by
  refine ⟨?_, ?_⟩
  · simp only [step, hg]
    rw [forLoop_none m r w xs _ h 0 [] hg (by simp [Body.bound])]
    simp
  · have key : ∀ (ys : List Val) (k : Nat), pairsFrom false k ys = ys := by
      intro ys
      induction ys with
      | nil => intro k; rfl
      | cons y ys ih => intro k; simp [pairsFrom, ih]
    exact key xs 0

/-- **A loop whose body clears the list stops after the first round**: on every non-empty
    list the body runs once (it sees item 0), the list is empty afterwards, and the loop ends —
    it does not run on over the items the list used to have. -/
theorem for_clear_stops (m : Mode) (h : Heap) (r : Nat) (w : Bool) (x : Val) (xs : List Val)
    (hr : r < h.objs.length) (hg : h.get r = .list (x :: xs)) :
    step m h (.lFor r w .clear) = newList (h.put r (.list [])) (if w then [.int 0, x] else [x]) := by
  simp only [step, hg]
  have hf : max (x :: xs).length Body.clear.bound + 1 = (xs.length + 0) + 2 := by
    simp [Body.bound]
  rw [hf]
  unfold forLoop
  simp only [hg, nextOf_eq, List.getElem?_cons_zero, bodyList]
  unfold forLoop
  simp [get_put_self h r _ hr, nextOf_eq]

/-- **The round budget never cuts a loop short**: the machine gives a loop over a list of
    length `n` whose body lets it grow to at most `b` items `max n b + 1` rounds; for EVERY
    larger budget the loop ends in the same heap with the same record — it has ended by
    itself (the cursor reached the end of the live list) before the budget is used up. -/
theorem for_fuel_irrelevant (m : Mode) (h : Heap) (r : Nat) (w : Bool) (b : Body) (xs : List Val)
    (hg : h.get r = .list xs) (d : Nat) :
    forLoop m r w b (max xs.length b.bound + 1 + d) h 0 [] =
      forLoop m r w b (max xs.length b.bound + 1) h 0 [] :=
  forLoop_fuel_enough m r w b h 0 [] xs hg _ d (by omega)

/-- no loop body lets the list grow beyond `max (its length, the body's bound)`; with the
    cursor advancing by one per round this is why every generated loop ends -/
theorem for_body_bounded (m : Mode) (eq : Val → Val → Bool) (b : Body) (xs : List Val) (k : Nat) (x : Val) :
    (bodyList m eq b xs k x).length ≤ max xs.length b.bound := bodyList_length_le m eq b xs k x

/-- **A loop changes no object but the list it runs over**, and a loop whose body leaves the
    list alone changes nothing at all (`target`); its record is a new object. With `keeps_seq`
    this puts loops into the independence theorems for arbitrary operation sequences. -/
theorem for_frame (m : Mode) (h : Heap) (r q : Nat) (w : Bool) (b : Body) (hq : q < h.objs.length)
    (hne : q ≠ r ∨ b = .none) : (step m h (.lFor r w b)).1.objs[q]? = h.objs[q]? := by
  refine (keeps_lFor m h r w b q hq ?_).1
  rcases hne with hne | hb
  · cases b <;> simp [target] <;> omega
  · subst hb; simp [target]

/-! ## 7. Non-vacuity: the hypotheses are satisfiable and the functions do something -/

example : Risor.Generated.C16.resolveIndex (-3) 3 = .ok 0 := by decide
example : Risor.Generated.C16.resolveIndex (-4) 3 = .err := by decide
example : Risor.Generated.C16.resolveIndex 3 3 = .err := by decide
example : sliceBounds (-2) 3 3 = some (1, 3) := by decide
example : sliceBounds 3 3 3 = none := by decide
example : Impl.insert [.int 1, .int 2, .int 3] (-1) (.int 9) = [.int 1, .int 2, .int 9, .int 3] := by decide
example : Impl.reverse [.int 1, .int 2, .int 3, .int 4] = [.int 4, .int 3, .int 2, .int 1] := by decide
example : Impl.strGet [104, 195, 169, 108] 1 = some [195, 169] := by decide
-- a guard-satisfying mixed sequence with aliasing: slice, mutate both, copy, pop
example : noDefectOps [.lSlice 0 (some (.int 0)) (some (.int 2)), .lSet 1 (.int 0) (.int 9), .lPop 0 (.int (-1)),
    .lCopy 0, .lMap 0 .idxPlus, .lMap 0 .idx, .lMapAcc 0 1, .lInsert 0 (.int (-9)) (.int 5)] = true := by decide
-- index-keeping callbacks: the returned indices, and the indices stored in another list
example : (run .impl { objs := [.list [.str [97], .str [98], .str [99]], .list []], arrs := [] }
    [.lMap 0 .idx, .lMapAcc 0 1]).1.objs
    = [.list [.str [97], .str [98], .str [99]], .list [.int 0, .int 1, .int 2], .list [.int 0, .int 1, .int 2],
       .list [.str [97], .str [98], .str [99]]] := by decide
example : (run .impl cexList [.lSlice 0 (some (.int 0)) (some (.int 2)), .lSet 1 (.int 0) (.int 9), .lPop 0 (.int (-1))]).1.objs
    = [.list [.str [97], .str [98]], .list [.int 9, .str [98]]] := by decide
-- comparators that satisfy `GoodCmp` exist (e.g. integer lists, `cmpVal_int`)
example (key : Val → Int) : GoodCmp (fun a b => if key a < key b then .lt else .ge) := goodCmp_of_key key
example : (Impl.sort (fun a b => if (match a with | .int i => i | _ => 0) < (match b with | .int i => i | _ => 0) then .lt else .ge)
    [.int 3, .int 1, .int 2]).1 = [.int 1, .int 2, .int 3] := by decide
example : MOp.wf (.update [([97], .int 1), ([98], .int 2)]) := by simp [MOp.wf, keys]
example : target (.lSet 1 (.int 0) (.int 9)) ≠ some 0 := by decide

-- sorted(l, f): a list operand, `a < b`, no raising call: new sorted list, operand untouched
example : (run .impl { objs := [.list [.int 3, .int 1, .int 2]], arrs := [] }
    [.bi (.sortedBy 0 .lt none), .lSet 1 (.int 0) (.int 100), .lAppend 0 (.int 7)]).1.objs
    = [.list [.int 3, .int 1, .int 2, .int 7], .list [.int 100, .int 2, .int 3]] := by decide
-- a comparison that raises at call 1: type error, and the heap is untouched although the
-- private copy ends half-sorted ([0, 1, 3, 2], next example)
example : step .impl { objs := [.list [.int 3, .int 1, .int 2, .int 0]], arrs := [] } (.bi (.sortedBy 0 .lt (some 1)))
    = ({ objs := [.list [.int 3, .int 1, .int 2, .int 0]], arrs := [] }, .err .type) := by decide
example : Impl.sortBy (fun n a b => if n = 1 then none else
      match a, b with | .int x, .int y => some (decide (x < y)) | _, _ => none)
    [.int 3, .int 1, .int 2, .int 0] = ([.int 0, .int 1, .int 3, .int 2], true) := by decide
-- a comparison that raises by itself (int against string) half-way
example : (step .impl { objs := [.list [.int 3, .int 1, .str [97], .int 0]], arrs := [] } (.bi (.sortedBy 0 .lt none))).2
    = .err .type := by decide
-- an oracle list (answers by call number only) is a comparison oracle too
example : Impl.sortBy (fun n _ _ => [true, false, true][n]?) [.int 1, .int 2, .int 3] = ([.int 2, .int 1, .int 3], false) := by decide
example : (Impl.sortBy (fun n _ _ => [true][n]?) [.int 1, .int 2, .int 3]).2 = true := by decide
-- the hypotheses of `sorted_by_sorted` are satisfiable: integer keys
example (key : Val → Int) : GoodCmp (relCmp (fun a b => decide (key a < key b))) := by
  have h := goodCmp_of_key key
  have e : relCmp (fun a b => decide (key a < key b)) = (fun a b => if key a < key b then Cmp.lt else Cmp.ge) := by
    funext a b; simp [relCmp]
  rw [e]; exact h
-- chunk / items build nested fresh lists; each(acc) on the list itself doubles it
example : (run .impl { objs := [.list [.int 1, .int 2, .int 3]], arrs := [] }
    [.bi (.chunk 0 (.int 2)), .lSet 1 (.int 0) (.int 9), .bi (.eachAcc 0 0)]).1.objs
    = [.list [.int 1, .int 2, .int 3, .int 1, .int 2, .int 3], .list [.int 9, .int 2], .list [.int 3], .list [.ref 1, .ref 2]] := by decide
example : target (.bi (.sortedBy 0 .lt (some 3))) = none ∧ target (.bi (.eachAcc 0 1)) = some 1 := by decide

-- searching across numeric types: [1, 2.0, 3] with the needles 2 (int) and byte(2)
example : (run .impl { objs := [.list [.int 1, .flt 4, .int 3]], arrs := [] }
    [.lIndex 0 (.int 2), .lCount 0 (.byte 2), .lContains 0 (.int 2), .lRemove 0 (.int 2)]).2
    = [.val (.int 1), .val (.int 1), .val (.bool true), .unit] := by decide
example : (run .impl { objs := [.list [.int 1, .flt 4, .int 3]], arrs := [] } [.lRemove 0 (.int 2)]).1.objs
    = [.list [.int 1, .int 3]] := by decide
-- 1.5 equals no integer
example : (step .impl { objs := [.list [.int 1, .flt 3]], arrs := [] } (.lIndex 0 (.int 1))).2 = .val (.int 0) ∧
    (step .impl { objs := [.list [.int 1, .flt 3]], arrs := [] } (.lIndex 0 (.int 2))).2 = .val (.int (-1)) := by decide
-- iterate after mutation: it := iter([1,2]); next; append 3; pop 0; list(it) sees the live list
example : (run .impl { objs := [.list [.int 1, .int 2]], arrs := [] }
    [.iNew 0, .iNext 1, .lAppend 0 (.int 3), .iNext 1, .iNext 1, .iNext 1, .lAppend 0 (.int 4), .iNext 1]).2
    = [.val (.ref 1), .val (.int 1), .unit, .val (.int 2), .val (.int 3), .val .nil, .unit, .val (.int 4)] := by decide
example : (run .impl { objs := [.list [.int 1, .int 2, .int 3]], arrs := [] }
    [.iNew 0, .iNext 1, .lClear 0, .lAppend 0 (.int 9), .lAppend 0 (.int 8), .iRest 1]).1.objs
    = [.list [.int 9, .int 8], .iter 0 2, .list [.int 8]] := by decide
-- work list: `for i, x := range l { if len(l) < 5 { l.append(x) } }` on [1, 2] visits five items
example : (step .impl { objs := [.list [.int 1, .int 2]], arrs := [] } (.lFor 0 true (.grow 5))).1.objs
    = [.list [.int 1, .int 2, .int 1, .int 2, .int 1],
       .list [.int 0, .int 1, .int 1, .int 2, .int 2, .int 1, .int 3, .int 2, .int 4, .int 1]] := by decide
-- popping inside the loop: the loop ends where the list ends NOW
example : (step .impl { objs := [.list [.int 1, .int 2, .int 3, .int 4]], arrs := [] } (.lFor 0 false .popLast)).1.objs
    = [.list [.int 1, .int 2], .list [.int 1, .int 2]] := by decide
-- removing the current item shifts the rest under the cursor: every second item is skipped
example : (step .impl { objs := [.list [.int 1, .int 2, .int 3, .int 4]], arrs := [] } (.lFor 0 false .removeCur)).1.objs
    = [.list [.int 2, .int 4], .list [.int 1, .int 3]] := by decide
example : target (.lFor 0 true .none) = none ∧ target (.lFor 0 true .popLast) = some 0 ∧ target (.iNext 3) = some 3 := by decide

end Risor.C16
