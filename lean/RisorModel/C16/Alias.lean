/-
C16 extension — Go slice headers and backing arrays under `object.List.items`.

`Model.lean` keeps one `List Val` per list object (the contents level). In Go `items` is a
slice header (pointer, len, cap) into a backing array, and `append` writes IN PLACE whenever
`len + k ≤ cap`. This file models exactly that level:

* `Hdr` / `AHeap`  — slice headers, backing arrays (fixed-length cell lists), one header per
  list object;
* `read`, `writeAt`, `writeVs`, `sub`, `goAppend`, `makeCopy` — Go's slice primitives, with
  memmove semantics (the source values are read first, then written) and an ARBITRARY growth
  policy `grow` for a reallocating `append`;
* `AOp`, `stepA`, `runA` — the methods of object/list.go written line by line in terms of
  those primitives (`Append`, `SetItem`, `Pop`, `GetSlice`, `Copy`, `Extend`, `+`, `Clear`; `Insert` is not covered here);
* `stepC`, `runC` — the same operations at the contents level, through the existing
  `Impl.setItem / Impl.pop / Impl.slice`;
* `stepA_sliceNoCopy` — the hypothetical variant in which `GetSlice` hands out the sub-slice
  `items[start:stop]` itself (sharing the array) — used only for the counterexample that the
  model CAN express write-through.

`AliasProps.lean` proves that `stepA` refines `stepC` for every growth policy.
-/
import RisorModel.C16.Model

namespace Risor.C16.Alias
open Risor.C16

abbrev Res' := Res

/-- a Go slice header: backing array id, offset of the first cell, length, capacity
    (= number of cells available from `off`) -/
structure Hdr where
  arr : Nat
  off : Nat
  len : Nat
  cap : Nat
  deriving DecidableEq, Repr, Inhabited

/-- backing arrays (each a fixed-length list of cells) and one slice header per list object -/
structure AHeap where
  arrs : List (List Val)
  lists : List Hdr
  deriving DecidableEq, Repr, Inhabited

def arrOf (h : AHeap) (id : Nat) : List Val := (h.arrs[id]?).getD []

/-- the values a slice header shows: cells `off .. off+len` of its array -/
def read (h : AHeap) (hd : Hdr) : List Val := ((arrOf h hd.arr).drop hd.off).take hd.len

/-- overwrite cells `p .. p+|vs|` of an array (no effect if they do not all exist: an array
    never changes its length) -/
def writeVs (a : List Val) (p : Nat) (vs : List Val) : List Val :=
  if p + vs.length ≤ a.length then a.take p ++ vs ++ a.drop (p + vs.length) else a

/-- `s[i] = v`: set cell `off + i` of the array -/
def writeAt (h : AHeap) (hd : Hdr) (i : Nat) (v : Val) : AHeap :=
  { h with arrs := h.arrs.set hd.arr ((arrOf h hd.arr).set (hd.off + i) v) }

/-- `s[a:b]`: same array, offset `off+a`, length `b-a`, capacity `cap-a` -/
def sub (hd : Hdr) (a b : Nat) : Hdr := ⟨hd.arr, hd.off + a, b - a, hd.cap - a⟩

/-- Go's `append(s, vs...)`: in place (same array, cells `off+len ..`) when `len+k ≤ cap`,
    otherwise a NEW array of capacity `max (len+k) (grow cap (len+k))` holding the old
    content, `vs`, and nil padding. `grow` is the runtime's growth policy (any function). -/
def goAppend (grow : Nat → Nat → Nat) (h : AHeap) (hd : Hdr) (vs : List Val) : AHeap × Hdr :=
  if hd.len + vs.length ≤ hd.cap then
    ({ h with arrs := h.arrs.set hd.arr (writeVs (arrOf h hd.arr) (hd.off + hd.len) vs) },
     { hd with len := hd.len + vs.length })
  else
    let c := max (hd.len + vs.length) (grow hd.cap (hd.len + vs.length))
    let content := read h hd ++ vs
    ({ h with arrs := h.arrs ++ [content ++ List.replicate (c - content.length) Val.nil] },
     ⟨h.arrs.length, 0, hd.len + vs.length, c⟩)

/-- `d := make([]Object, len(vs)); copy(d, vs)` (also a slice literal): a new array holding
    exactly `vs`, len = cap = |vs| -/
def makeCopy (h : AHeap) (vs : List Val) : AHeap × Hdr :=
  ({ h with arrs := h.arrs ++ [vs] }, ⟨h.arrs.length, 0, vs.length, vs.length⟩)

/-- `ls.items = hd` -/
def setHdr (h : AHeap) (l : Nat) (hd : Hdr) : AHeap := { h with lists := h.lists.set l hd }

/-- `NewList(hd)`: a new list object -/
def newList (h : AHeap) (hd : Hdr) : AHeap × Res' :=
  ({ h with lists := h.lists ++ [hd] }, .val (.ref h.lists.length))

inductive AOp where
  | append (l : Nat) (v : Val)
  | setItem (l : Nat) (i : Int) (v : Val)
  | pop (l : Nat) (i : Int)
  | slice (l : Nat) (start stop : Option Val)
  | copy (l : Nat)
  | extend (l other : Nat)
  | concat (l r : Nat)
  | clear (l : Nat)
  deriving DecidableEq, Repr

/-- object/list.go at the slice-header level. `copyOnSlice = true` is the code as it is;
    `false` is the hypothetical `GetSlice` that returns `items[start:stop]` uncopied. -/
def stepA' (copyOnSlice : Bool) (grow : Nat → Nat → Nat) (h : AHeap) : AOp → AHeap × Res'
  | .append l v =>
    match h.lists[l]? with
    | none => (h, .err .type)
    | some hd =>
      -- ls.items = append(ls.items, obj)
      let r := goAppend grow h hd [v]
      (setHdr r.1 l r.2, .unit)
  | .setItem l i v =>
    match h.lists[l]? with
    | none => (h, .err .type)
    | some hd =>
      match resolveIndex i hd.len with
      | .err => (h, .err .index)
      | .ok k => (writeAt h hd k.toNat v, .unit)       -- ls.items[idx] = v
  | .pop l i =>
    match h.lists[l]? with
    | none => (h, .err .type)
    | some hd =>
      match resolveIndex i hd.len with
      | .err => (h, .err .index)
      | .ok k =>
        match (read h hd)[k.toNat]? with               -- result := ls.items[idx]
        | none => (h, .err .index)
        | some x =>
          -- ls.items = append(ls.items[:idx], ls.items[idx+1:]...)
          let r := goAppend grow h (sub hd 0 k.toNat) (read h (sub hd (k.toNat + 1) hd.len))
          (setHdr r.1 l r.2, .val x)
  | .slice l start stop =>
    match h.lists[l]? with
    | none => (h, .err .type)
    | some hd =>
      match resolveIntSlice start stop hd.len with
      | .err c => (h, .err c)
      | .ok a b =>
        if copyOnSlice then
          -- items := ls.items[start:stop]; itemsCopy := make(..); copy(itemsCopy, items)
          let r := makeCopy h (read h (sub hd a b))
          newList r.1 r.2
        else
          newList h (sub hd a b)
  | .copy l =>
    match h.lists[l]? with
    | none => (h, .err .type)
    | some hd =>
      let r := makeCopy h (read h hd)
      newList r.1 r.2
  | .extend l o =>
    match h.lists[l]?, h.lists[o]? with
    | some hd, some ho =>
      -- ls.items = append(ls.items, other.items...)
      let r := goAppend grow h hd (read h ho)
      (setHdr r.1 l r.2, .unit)
    | _, _ => (h, .err .type)
  | .concat l o =>
    match h.lists[l]?, h.lists[o]? with
    | some hd, some ho =>
      let r := makeCopy h (read h hd ++ read h ho)
      newList r.1 r.2
    | _, _ => (h, .err .type)
  | .clear l =>
    match h.lists[l]? with
    | none => (h, .err .type)
    | some _ =>
      let r := makeCopy h []                           -- ls.items = []Object{}
      (setHdr r.1 l r.2, .unit)

def stepA := stepA' true
def stepA_sliceNoCopy := stepA' false

def runA (grow : Nat → Nat → Nat) (h : AHeap) : List AOp → AHeap
  | [] => h
  | op :: ops => runA grow (stepA grow h op).1 ops

def runA_sliceNoCopy (grow : Nat → Nat → Nat) (h : AHeap) : List AOp → AHeap
  | [] => h
  | op :: ops => runA_sliceNoCopy grow (stepA_sliceNoCopy grow h op).1 ops

/-- the contents-level reference: one `List Val` per list object, the functions of `Impl` -/
def stepC (ls : List (List Val)) : AOp → List (List Val) × Res'
  | .append l v =>
    match ls[l]? with
    | none => (ls, .err .type)
    | some it => (ls.set l (it ++ [v]), .unit)
  | .setItem l i v =>
    match ls[l]? with
    | none => (ls, .err .type)
    | some it =>
      match Impl.setItem it i v with
      | none => (ls, .err .index)
      | some it' => (ls.set l it', .unit)
  | .pop l i =>
    match ls[l]? with
    | none => (ls, .err .type)
    | some it =>
      match Impl.pop it i with
      | none => (ls, .err .index)
      | some (x, it') => (ls.set l it', .val x)
  | .slice l start stop =>
    match ls[l]? with
    | none => (ls, .err .type)
    | some it =>
      match Impl.slice it start stop with
      | .error c => (ls, .err c)
      | .ok r => (ls ++ [r], .val (.ref ls.length))
  | .copy l =>
    match ls[l]? with
    | none => (ls, .err .type)
    | some it => (ls ++ [it], .val (.ref ls.length))
  | .extend l o =>
    match ls[l]?, ls[o]? with
    | some it, some ot => (ls.set l (it ++ ot), .unit)
    | _, _ => (ls, .err .type)
  | .concat l o =>
    match ls[l]?, ls[o]? with
    | some it, some ot => (ls ++ [it ++ ot], .val (.ref ls.length))
    | _, _ => (ls, .err .type)
  | .clear l =>
    match ls[l]? with
    | none => (ls, .err .type)
    | some _ => (ls.set l [], .unit)

def runC (ls : List (List Val)) : List AOp → List (List Val)
  | [] => ls
  | op :: ops => runC (stepC ls op).1 ops

/-- what a script can see of the lists: the values each header shows -/
def view (h : AHeap) : List (List Val) := h.lists.map (read h)

/-- one exact-capacity array per list -/
def mk (ls : List (List Val)) : AHeap :=
  ls.foldl (fun h vs => let r := makeCopy h vs; (newList r.1 r.2).1) ⟨[], []⟩

end Risor.C16.Alias
