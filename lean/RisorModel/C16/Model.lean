/-
C16 — executable model of risor's containers (object/list.go, map.go, set.go, string.go,
byte_slice.go, the index helpers ResolveIndex / ResolveIntSlice, and the VM's subscript,
slice, compound-assignment and `delete` paths).

Three layers, core Lean only:

* `Impl.*`  — pure functions on the *contents* of one container, written the way the Go code
  computes (index normalisation through `resolveIndex`, the three-way case split of
  `List.Insert`, `Remove` = `Index` + splice, the in-place swap loop of `Reverse`, Go's
  insertion sort, maps as unordered association lists, the accumulating loop of `list.map`
  with one index object per call; the single reused index object it had before its repair is
  kept as `Impl.preFixMapIdx`).
* `Spec.*`  — the simple reference functions the property demands (Python-like list
  semantics on `List`, finite maps as functions, sets as membership predicates).
* `step` / `run` — a heap machine over *all* container objects of a scenario, with object
  identity (nested containers are references) and byte arrays shared between byte_slice
  views, run either as the code is (`Mode.impl`) or as the property demands (`Mode.spec`).

* `BOp` / `stepB` — the builtins and methods that take a container, must leave it untouched
  and hand back an independent container: `sorted(x)` and `sorted(x, f)` (the comparison
  function as a call-numbered oracle that may raise at any call, `Impl.sortBy`), `reversed`,
  `list()`, `set()`, `keys()`, `m.items()`, `l.filter`, `l.each`, `chunk`. They are one
  constructor `Op.bi` of the machine and read the same in both modes.

* list iterators (`Obj.iter`, `Op.iNew/iNext/iRest`) and `for` loops whose body changes the
  list they run over (`Op.lFor`, `Body`, `forLoop`): object/list_iter.go reads `iter.l.items`
  on every step, so an iterator is a cursor into the LIVE list; `Impl.iterNext` is Go's
  `pos`/`len` arithmetic, `Spec.iterNext` is `items[k]?`.

* searching (`index`, `count`, `remove`, `in`, `filter`) goes through the model of
  `object.Equals` (`valEq`), which compares numbers BY VALUE across int, float and byte.

Abstractions (see checks/C16.json "trusted"): the capacity and backing-array identity of
`List.items` are not modelled, because no operation of list.go hands out a sub-slice of it
without copying (the correspondence check compares *every* live object after *every* step,
so a change of that fact shows up as a mismatch; `Alias.lean` models the slice headers and
backing arrays for eight list operations and `AliasProps.alias_refines_seq` proves that they show
exactly these contents for all histories and growth policies); Go's hash maps are association lists
observed only through sorted keys; floats are half-integers (`Val.flt t` = t/2) of small
magnitude, for which `float64(int) == float` and float sums are exact; NaN, infinities,
-0.0 and rounding are not modelled. Ints are exact at EVERY magnitude (`numKey`): sorting
lists that hold neighbouring ints beyond 2^53 has a reference reading of its own
(`Spec.isSortOf`), and `f64OfInt` models what a float64 sees of an int only to state that a
sort through float keys is no sort.
-/
namespace Risor.C16

abbrev Str := List Nat   -- the bytes of a Go string

inductive Val where
  | nil
  | bool (b : Bool)
  | int (i : Int)
  | byte (n : Nat)
  | flt (t : Int)          -- a float64 whose value is the half-integer t/2 (2.0 = flt 4, 1.5 = flt 3)
  | str (s : Str)
  | ref (r : Nat)          -- a container or iterator object on the heap
  deriving DecidableEq, Repr, Inhabited

inductive Obj where
  | list (items : List Val)
  | map (kvs : List (Str × Val))
  | set (items : List Val)
  | bytes (arr off len : Nat)    -- a Go slice header into byte array `arr`
  | iter (l : Nat) (k : Nat)     -- object.ListIter over list object `l`; `k` items were yielded (Go: pos = k - 1)
  deriving DecidableEq, Repr, Inhabited

structure Heap where
  objs : List Obj
  arrs : List (List Nat)
  deriving DecidableEq, Repr, Inhabited

inductive ErrC where
  | type | index | slice | key | value | panic
  deriving DecidableEq, Repr

inductive Res where
  | unit
  | val (v : Val)
  | err (c : ErrC)
  deriving DecidableEq, Repr

/-! ### index helpers -/

inductive IdxRes where
  | ok (i : Int)
  | err
  deriving DecidableEq, Repr

/-- hand copy of object/list.go `ResolveIndex`; `Ties.lean` proves it equal (by `rfl`) to the
    definition the extractor regenerates from the source on every run. -/
def resolveIndex (idx : Int) (size : Int) : IdxRes :=
  let max := (size - 1)
  if (decide (idx > max)) then
    .err
  else
    if (decide (idx ≥ 0)) then
      .ok idx
    else
      let reversed := (idx + size)
      if ((decide (reversed < 0)) || (decide (reversed > max))) then
        .err
      else
        .ok reversed

/-- the arithmetic part of object/list.go `ResolveIntSlice` (after the type checks), in the
    order of the Go code; `none` = "slice error" -/
def sliceBounds (start stop size : Int) : Option (Int × Int) :=
  let start1 := if start < 0 then size + start else start
  if start1 < 0 then none else
  let stop1 := if stop < 0 then size + stop else stop
  if stop1 < 0 then none else
  if start1 > stop1 then none else
  if start1 > size - 1 then none else
  if stop1 > size then none else
  some (start1, stop1)

inductive SliceRes where
  | ok (start stop : Nat)
  | err (c : ErrC)
  deriving DecidableEq, Repr

/-- a slice bound: missing = the default, an Int object = its value, anything else = type error -/
def boundOf (x : Option Val) (dflt : Int) : Option Int :=
  match x with
  | none => some dflt
  | some (.int i) => some i
  | some _ => none

/-- `ResolveIntSlice`: a missing bound is 0 / size, a non-int bound is a type error -/
def resolveIntSlice (start stop : Option Val) (size : Nat) : SliceRes :=
  match boundOf start 0 with
  | none => .err .type
  | some st =>
    match boundOf stop size with
    | none => .err .type
    | some sp =>
      match sliceBounds st sp size with
      | none => .err .slice
      | some (a, b) => .ok a.toNat b.toNat

/-! #### `ResolveIntSlice` and `(*List).Insert` as the source has them (regenerated on every run)

The two definitions below are hand copies of what `extract/c16.go` translates from
object/list.go; `Ties.lean` proves them equal (by `rfl`) to the regenerated definitions, and
`Lemmas.lean` (`resolveIntSlice_eq_go`, `insert_eq_act`) proves for ALL inputs that the
compact models the machine runs (`resolveIntSlice`, `Impl.insert`) compute the same. -/

/-- result of the translated `ResolveIntSlice`: the two int64 bounds, or the error class -/
inductive SliceResI where
  | ok (start stop : Int)
  | err (c : ErrC)
  deriving DecidableEq, Repr

/-- `x != nil` for a slice bound -/
def notNil (x : Option Val) : Bool := x.isSome
/-- `x.(*Int)`: the Int object behind a bound, if it is one -/
def boundInt (x : Option Val) : Option Int :=
  match x with
  | some (.int i) => some i
  | _ => none
/-- the `ok` of `v, ok := x.(*Int)` -/
def isOk (o : Option Int) : Bool := o.isSome
/-- `v.value` -/
def intValue (o : Option Int) : Int := o.getD 0

/-- hand copy of the translation of object/list.go `ResolveIntSlice` (`Ties.resolveIntSlice_tie`) -/
def resolveIntSliceGo (sStart : Option Val) (sStop : Option Val) (size : Int) : SliceResI :=
  let start : Int := 0
  let stop : Int := 0
  if (notNil sStart) then
    let startObj := (boundInt sStart)
    let ok := (isOk startObj)
    if (!ok) then
      .err .type
    else
      let start := (intValue startObj)
      if (notNil sStop) then
        let stopObj := (boundInt sStop)
        let ok := (isOk stopObj)
        if (!ok) then
          .err .type
        else
          let stop := (intValue stopObj)
          if (decide (start < 0)) then
            let start := (size + start)
            if (decide (start < 0)) then
              .err .slice
            else
              if (decide (stop < 0)) then
                let stop := (size + stop)
                if (decide (stop < 0)) then
                  .err .slice
                else
                  if (decide (start > stop)) then
                    .err .slice
                  else
                    if (decide (start > (size - 1))) then
                      .err .slice
                    else
                      if (decide (stop > size)) then
                        .err .slice
                      else
                        .ok start stop
              else
                if (decide (start > stop)) then
                  .err .slice
                else
                  if (decide (start > (size - 1))) then
                    .err .slice
                  else
                    if (decide (stop > size)) then
                      .err .slice
                    else
                      .ok start stop
          else
            if (decide (stop < 0)) then
              let stop := (size + stop)
              if (decide (stop < 0)) then
                .err .slice
              else
                if (decide (start > stop)) then
                  .err .slice
                else
                  if (decide (start > (size - 1))) then
                    .err .slice
                  else
                    if (decide (stop > size)) then
                      .err .slice
                    else
                      .ok start stop
            else
              if (decide (start > stop)) then
                .err .slice
              else
                if (decide (start > (size - 1))) then
                  .err .slice
                else
                  if (decide (stop > size)) then
                    .err .slice
                  else
                    .ok start stop
      else
        let stop := size
        if (decide (start < 0)) then
          let start := (size + start)
          if (decide (start < 0)) then
            .err .slice
          else
            if (decide (stop < 0)) then
              let stop := (size + stop)
              if (decide (stop < 0)) then
                .err .slice
              else
                if (decide (start > stop)) then
                  .err .slice
                else
                  if (decide (start > (size - 1))) then
                    .err .slice
                  else
                    if (decide (stop > size)) then
                      .err .slice
                    else
                      .ok start stop
            else
              if (decide (start > stop)) then
                .err .slice
              else
                if (decide (start > (size - 1))) then
                  .err .slice
                else
                  if (decide (stop > size)) then
                    .err .slice
                  else
                    .ok start stop
        else
          if (decide (stop < 0)) then
            let stop := (size + stop)
            if (decide (stop < 0)) then
              .err .slice
            else
              if (decide (start > stop)) then
                .err .slice
              else
                if (decide (start > (size - 1))) then
                  .err .slice
                else
                  if (decide (stop > size)) then
                    .err .slice
                  else
                    .ok start stop
          else
            if (decide (start > stop)) then
              .err .slice
            else
              if (decide (start > (size - 1))) then
                .err .slice
              else
                if (decide (stop > size)) then
                  .err .slice
                else
                  .ok start stop
  else
    if (notNil sStop) then
      let stopObj := (boundInt sStop)
      let ok := (isOk stopObj)
      if (!ok) then
        .err .type
      else
        let stop := (intValue stopObj)
        if (decide (start < 0)) then
          let start := (size + start)
          if (decide (start < 0)) then
            .err .slice
          else
            if (decide (stop < 0)) then
              let stop := (size + stop)
              if (decide (stop < 0)) then
                .err .slice
              else
                if (decide (start > stop)) then
                  .err .slice
                else
                  if (decide (start > (size - 1))) then
                    .err .slice
                  else
                    if (decide (stop > size)) then
                      .err .slice
                    else
                      .ok start stop
            else
              if (decide (start > stop)) then
                .err .slice
              else
                if (decide (start > (size - 1))) then
                  .err .slice
                else
                  if (decide (stop > size)) then
                    .err .slice
                  else
                    .ok start stop
        else
          if (decide (stop < 0)) then
            let stop := (size + stop)
            if (decide (stop < 0)) then
              .err .slice
            else
              if (decide (start > stop)) then
                .err .slice
              else
                if (decide (start > (size - 1))) then
                  .err .slice
                else
                  if (decide (stop > size)) then
                    .err .slice
                  else
                    .ok start stop
          else
            if (decide (start > stop)) then
              .err .slice
            else
              if (decide (start > (size - 1))) then
                .err .slice
              else
                if (decide (stop > size)) then
                  .err .slice
                else
                  .ok start stop
    else
      let stop := size
      if (decide (start < 0)) then
        let start := (size + start)
        if (decide (start < 0)) then
          .err .slice
        else
          if (decide (stop < 0)) then
            let stop := (size + stop)
            if (decide (stop < 0)) then
              .err .slice
            else
              if (decide (start > stop)) then
                .err .slice
              else
                if (decide (start > (size - 1))) then
                  .err .slice
                else
                  if (decide (stop > size)) then
                    .err .slice
                  else
                    .ok start stop
          else
            if (decide (start > stop)) then
              .err .slice
            else
              if (decide (start > (size - 1))) then
                .err .slice
              else
                if (decide (stop > size)) then
                  .err .slice
                else
                  .ok start stop
      else
        if (decide (stop < 0)) then
          let stop := (size + stop)
          if (decide (stop < 0)) then
            .err .slice
          else
            if (decide (start > stop)) then
              .err .slice
            else
              if (decide (start > (size - 1))) then
                .err .slice
              else
                if (decide (stop > size)) then
                  .err .slice
                else
                  .ok start stop
        else
          if (decide (start > stop)) then
            .err .slice
          else
            if (decide (start > (size - 1))) then
              .err .slice
            else
              if (decide (stop > size)) then
                .err .slice
              else
                .ok start stop

/-- which of its three slice operations `(*List).Insert` performs -/
inductive InsAct where
  | prepend              -- ls.items = append([]Object{obj}, ls.items...)
  | append               -- ls.items = append(ls.items, obj)
  | shift (index : Int)  -- append nil; copy(items[index+1:], items[index:]); items[index] = obj
  deriving DecidableEq, Repr

/-- hand copy of the translation of object/list.go `(*List).Insert` (`Ties.insertAct_tie`);
    `n` is `int64(len(ls.items))` -/
def insertAct (index : Int) (n : Int) : InsAct :=
  if (decide (index < 0)) then
    let index := (n + index)
    if (decide (index < 0)) then
      let index := 0
      if (index == 0) then
        .prepend
      else
        if (decide (index ≥ n)) then
          .append
        else
          (.shift index)
    else
      if (index == 0) then
        .prepend
      else
        if (decide (index ≥ n)) then
          .append
        else
          (.shift index)
  else
    if (index == 0) then
      .prepend
    else
      if (decide (index ≥ n)) then
        .append
      else
        (.shift index)

/-- 64-bit wrap-around of Go's int64 addition -/
def wrap64 (x : Int) : Int := (x + 9223372036854775808) % 18446744073709551616 - 9223372036854775808

/-! ### UTF-8 decoding as Go's `[]rune(s)` performs it (invalid bytes become U+FFFD, one
    byte at a time) and encoding as `string(rune)` -/

def cont (b : Nat) : Bool := 128 ≤ b && b ≤ 191

def decodeRunes : Nat → Str → List Nat
  | 0, _ => []
  | _, [] => []
  | f+1, b0 :: rest =>
    if b0 < 128 then b0 :: decodeRunes f rest
    else if 194 ≤ b0 && b0 ≤ 223 then
      match rest with
      | b1 :: r1 => if cont b1 then ((b0 - 192) * 64 + (b1 - 128)) :: decodeRunes f r1 else 65533 :: decodeRunes f rest
      | _ => 65533 :: decodeRunes f rest
    else if 224 ≤ b0 && b0 ≤ 239 then
      match rest with
      | b1 :: b2 :: r2 =>
        let lo := if b0 = 224 then 160 else 128
        let hi := if b0 = 237 then 159 else 191
        if lo ≤ b1 && b1 ≤ hi && cont b2 then
          ((b0 - 224) * 4096 + (b1 - 128) * 64 + (b2 - 128)) :: decodeRunes f r2
        else 65533 :: decodeRunes f rest
      | _ => 65533 :: decodeRunes f rest
    else if 240 ≤ b0 && b0 ≤ 244 then
      match rest with
      | b1 :: b2 :: b3 :: r3 =>
        let lo := if b0 = 240 then 144 else 128
        let hi := if b0 = 244 then 143 else 191
        if lo ≤ b1 && b1 ≤ hi && cont b2 && cont b3 then
          ((b0 - 240) * 262144 + (b1 - 128) * 4096 + (b2 - 128) * 64 + (b3 - 128)) :: decodeRunes f r3
        else 65533 :: decodeRunes f rest
      | _ => 65533 :: decodeRunes f rest
    else 65533 :: decodeRunes f rest

/-- `[]rune(s)` -/
def runes (s : Str) : List Nat := decodeRunes s.length s

/-- `string(rune)` (surrogates and out-of-range values become U+FFFD) -/
def encodeRune (r : Nat) : Str :=
  if r < 128 then [r]
  else if r < 2048 then [192 + r / 64, 128 + r % 64]
  else if (55296 ≤ r && r ≤ 57343) || r > 1114111 then [239, 191, 189]
  else if r < 65536 then [224 + r / 4096, 128 + r / 64 % 64, 128 + r % 64]
  else [240 + r / 262144, 128 + r / 4096 % 64, 128 + r / 64 % 64, 128 + r % 64]

def encodeRunes (rs : List Nat) : Str := rs.flatMap encodeRune

/-! ### equality, ordering, hash keys (C15 proves their laws; here they are parameters of the
    container theorems and concrete functions of the executable machine) -/

def bytesContent (h : Heap) (arr off len : Nat) : List Nat :=
  ((h.arrs.getD arr []).drop off).take len

def strLt : Str → Str → Bool
  | [], [] => false
  | [], _ :: _ => true
  | _ :: _, [] => false
  | a :: as, b :: bs => if a < b then true else if b < a then false else strLt as bs

def lookupKV (k : Str) : List (Str × Val) → Option Val
  | [] => none
  | (k', v) :: rest => if k' = k then some v else lookupKV k rest

/-- hash key of an atom: (rank of the type name, IntValue, StrValue); `none` = unhashable.
    Type names order as "bool" < "byte" < "float" < "int" < "nil" < "string". A float's key is
    (FLOAT, FltValue) with IntValue 0 and StrValue ""; two float keys are equal / ordered as
    their values are, so the half-integer numerator stands in the integer slot. -/
def hashKey : Val → Option (Nat × Int × Str)
  | .bool b => some (0, if b then 1 else 0, [])
  | .byte n => some (1, n, [])
  | .flt t => some (2, t, [])
  | .int i => some (3, i, [])
  | .nil => some (4, 0, [])
  | .str s => some (5, 0, s)
  | .ref _ => none

def keyEq (a b : Val) : Bool :=
  match hashKey a, hashKey b with
  | some x, some y => x == y
  | _, _ => false

def keyLt (a b : Val) : Bool :=
  match hashKey a, hashKey b with
  | some (t1, i1, s1), some (t2, i2, s2) =>
    if t1 ≠ t2 then t1 < t2 else if i1 ≠ i2 then i1 < i2 else strLt s1 s2
  | _, _ => false

def Heap.get (h : Heap) (r : Nat) : Obj := h.objs.getD r (.list [])

/-- `a.Equals(b)` with `fuel` bounding the nesting depth followed through references -/
def valEq (h : Heap) (fuel : Nat) (a b : Val) : Bool :=
  match a, b with
  | .nil, .nil => true
  | .bool x, .bool y => x == y
  | .int x, .int y => x == y
  | .int x, .byte y => x == (y : Int)
  | .byte x, .int y => (x : Int) == y
  | .byte x, .byte y => x == y
  -- Int/Byte/Float.Equals compare BY VALUE across the three numeric types
  -- (`float64(i.value) == other.value`): 2 == 2.0 == byte(2)
  | .int x, .flt t => 2 * x == t
  | .flt t, .int y => t == 2 * y
  | .byte x, .flt t => 2 * (x : Int) == t
  | .flt t, .byte y => t == 2 * (y : Int)
  | .flt s, .flt t => s == t
  | .str x, .str y => x == y
  | .ref r, other =>
    match fuel with
    | 0 => false
    | f+1 =>
      match h.get r, other with
      | .iter _ _, .ref q => r == q          -- ListIter.Equals: identity
      | .bytes arr off len, .str s => bytesContent h arr off len == s
      | .list xs, .ref q =>
        match h.get q with
        | .list ys => xs.length == ys.length && (xs.zip ys).all (fun p => valEq h f p.1 p.2)
        | _ => false
      | .map xs, .ref q =>
        match h.get q with
        | .map ys =>
          xs.length == ys.length && xs.all (fun p => match lookupKV p.1 ys with
            | some w => valEq h f p.2 w
            | none => false)
        | _ => false
      | .set xs, .ref q =>
        match h.get q with
        | .set ys => xs.length == ys.length && xs.all (fun x => ys.any (keyEq x))
        | _ => false
      | .bytes a o l, .ref q =>
        match h.get q with
        | .bytes a2 o2 l2 => bytesContent h a o l == bytesContent h a2 o2 l2
        | _ => false
      | _, _ => false
  | _, _ => false

/-- three-way `Compare` result or a type error -/
inductive C3 where
  | ok (c : Int)
  | err
  deriving DecidableEq, Repr

def three (lt eq : Bool) : C3 := if eq then .ok 0 else if lt then .ok (-1) else .ok 1

/-- `a.Compare(b)` -/
def cmp3 (h : Heap) (fuel : Nat) (a b : Val) : C3 :=
  match a, b with
  | .int x, .int y => three (x < y) (x == y)
  | .int x, .byte y => three (x < (y : Int)) (x == (y : Int))
  | .byte x, .int y => three ((x : Int) < y) ((x : Int) == y)
  | .byte x, .byte y => three (x < y) (x == y)
  | .int x, .flt t => three (2 * x < t) (2 * x == t)
  | .flt t, .int y => three (t < 2 * y) (t == 2 * y)
  | .byte x, .flt t => three (2 * (x : Int) < t) (2 * (x : Int) == t)
  | .flt t, .byte y => three (t < 2 * (y : Int)) (t == 2 * (y : Int))
  | .flt s, .flt t => three (s < t) (s == t)
  | .str x, .str y => three (strLt x y) (x == y)
  | .bool x, .bool y => three (!x && y) (x == y)
  | .nil, .nil => .ok 0
  | .ref r, other =>
    match fuel with
    | 0 => .err
    | f+1 =>
      match h.get r, other with
      | .list xs, .ref q =>
        match h.get q with
        | .list ys =>
          if xs.length > ys.length then .ok 1 else if xs.length < ys.length then .ok (-1)
          else (xs.zip ys).foldl (fun acc p => match acc with
            | .ok 0 => cmp3 h f p.1 p.2
            | other => other) (.ok 0)
        | _ => .err
      | .bytes a o l, .str s =>
        three (strLt (bytesContent h a o l) s) (bytesContent h a o l == s)
      | .bytes a o l, .ref q =>
        match h.get q with
        | .bytes a2 o2 l2 =>
          three (strLt (bytesContent h a o l) (bytesContent h a2 o2 l2)) (bytesContent h a o l == bytesContent h a2 o2 l2)
        | _ => .err
      | _, _ => .err
  | _, _ => .err

inductive Cmp where
  | lt | ge | err | panic
  deriving DecidableEq, Repr

/-- outcome of the comparator `object.Sort` hands to `sort.SliceStable` for items (a, b):
    `a.Compare(b) == -1`, a recorded type error (treated as "not less"), or the nil-interface
    panic when `a` is not Comparable (map, set). -/
def cmpVal (h : Heap) (fuel : Nat) (a b : Val) : Cmp :=
  match a with
  | .ref r =>
    match h.get r with
    | .map _ => .panic
    | .set _ => .panic
    | _ => match cmp3 h fuel a b with
      | .ok c => if c = -1 then .lt else .ge
      | .err => .err
  | _ => match cmp3 h fuel a b with
    | .ok c => if c = -1 then .lt else .ge
    | .err => .err

/-! ### numbers of every magnitude: what "sorted" means for them

`Int.Compare(Int)` compares the int64 values themselves, so two ints are told apart however
large they are (2^53 and 2^53+1, MaxInt64-1 and MaxInt64 — pairs a float64 cannot tell apart).
`numKey` is TWICE the exact value of a number (an integer for ints, bytes and the half-integer
floats of the model); the reference reading of a sort of numbers is stated with it. -/

/-- twice the exact numeric value; `none` for anything that is no number -/
def numKey : Val → Option Int
  | .int i => some (2 * i)
  | .byte n => some (2 * (n : Int))
  | .flt t => some t
  | _ => none

def isNum (v : Val) : Bool := (numKey v).isSome

def keyOf (v : Val) : Int := (numKey v).getD 0

/-- the comparator "less by exact value" -/
def keyCmp (a b : Val) : Cmp := if keyOf a < keyOf b then .lt else .ge

/-- Spec: the items are in ascending order of their exact values -/
def Spec.ascending : List Val → Bool
  | a :: b :: rest => decide (keyOf a ≤ keyOf b) && Spec.ascending (b :: rest)
  | _ => true

/-- the items of `xs` whose value equals that of `v`, in the order they have in `xs` -/
def Spec.sameValue (v : Val) (xs : List Val) : List Val := xs.filter (fun x => keyOf x == keyOf v)

/-- Spec: "`ys` is `xs` sorted" for lists of numbers — ascending by exact value, and for every
    value the items having it are the same objects in the same (input) order: nothing lost,
    duplicated or invented, and the sort is stable (an ascending arrangement is pinned down by
    what it holds per value: `ascending_ints_unique` states it for ints). -/
def Spec.isSortOf (xs ys : List Val) : Bool :=
  Spec.ascending ys && (xs ++ ys).all (fun v => Spec.sameValue v ys == Spec.sameValue v xs)

/-- what a sort through float64 keys sees of an int: `float64(i)` (round to nearest, ties to
    even, 53 significant bits), as an exact integer. NOT what `Int.Compare` looks at; kept to
    state why sorting numbers through float keys is no sort (`C16_float_keys_do_not_sort`). -/
def f64OfInt (i : Int) : Int :=
  let a := i.natAbs
  if a < 9007199254740992 then i else
  let e := Nat.log2 a - 52
  let q := a / 2 ^ e
  let r := a % 2 ^ e
  let half := 2 ^ (e - 1)
  let q' := if r > half || (r == half && q % 2 == 1) then q + 1 else q
  (if i < 0 then -1 else 1) * ((q' * 2 ^ e : Nat) : Int)

/-- the comparator of a sort that precomputes float64 keys for ints -/
def f64KeyCmp (a b : Val) : Cmp :=
  match a, b with
  | .int x, .int y => if f64OfInt x < f64OfInt y then .lt else .ge
  | _, _ => keyCmp a b

/-! ### Impl: list contents, as the code computes -/
namespace Impl

def getItem(items : List Val) (i : Int) : Option Val :=
  match resolveIndex i items.length with
  | .ok k => items[k.toNat]?
  | .err => none

def setItem (items : List Val) (i : Int) (v : Val) : Option (List Val) :=
  match resolveIndex i items.length with
  | .ok k => some (items.set k.toNat v)
  | .err => none

/-- `append(items[:idx], items[idx+1:]...)` -/
def splice (items : List Val) (k : Nat) : List Val := items.take k ++ items.drop (k + 1)

def pop (items : List Val) (i : Int) : Option (Val × List Val) :=
  match resolveIndex i items.length with
  | .ok k =>
    match items[k.toNat]? with
    | some x => some (x, splice items k.toNat)
    | none => none
  | .err => none

def delItem (items : List Val) (i : Int) : Option (List Val) :=
  match resolveIndex i items.length with
  | .ok k => some (splice items k.toNat)
  | .err => none

/-- `List.Insert`: negative index relative to the end and clamped to 0; then the three cases
    of the code (prepend, append, shift) -/
def insert (items : List Val) (index : Int) (v : Val) : List Val :=
  let n : Int := items.length
  let index := if index < 0 then (if n + index < 0 then 0 else n + index) else index
  if index = 0 then v :: items
  else if index ≥ n then items ++ [v]
  else items.take index.toNat ++ v :: items.drop index.toNat

/-- `List.Index`: position of the first item with `eq needle item` -/
def indexOf (eq : Val → Val → Bool) (v : Val) : List Val → Option Nat
  | [] => none
  | x :: xs => if eq v x then some 0 else (indexOf eq v xs).map (· + 1)

def remove (eq : Val → Val → Bool) (items : List Val) (v : Val) : List Val :=
  match indexOf eq v items with
  | none => items
  | some k => splice items k

def count (eq : Val → Val → Bool) (items : List Val) (v : Val) : Nat :=
  items.foldl (fun c x => if eq v x then c + 1 else c) 0

def contains (eq : Val → Val → Bool) (items : List Val) (v : Val) : Bool :=
  items.any (fun x => eq x v)

def swapAt (a : List Val) (i j : Nat) : List Val :=
  match a[i]?, a[j]? with
  | some x, some y => (a.set i y).set j x
  | _, _ => a

/-- `for i, j := 0, len-1; i < j; i, j = i+1, j-1 { swap }` with the trip count as fuel -/
def revLoop : Nat → List Val → Nat → Nat → List Val
  | 0, a, _, _ => a
  | f+1, a, i, j => if i < j then revLoop f (swapAt a i j) (i + 1) (j - 1) else a

def reverse (a : List Val) : List Val := revLoop a.length a 0 (a.length - 1)

def slice (items : List Val) (start stop : Option Val) : Except ErrC (List Val) :=
  match resolveIntSlice start stop items.length with
  | .ok a b => .ok ((items.drop a).take (b - a))
  | .err c => .error c

/-- one inner loop of Go's `insertionSort` on the reversed sorted prefix: bubble `x` down
    while `less x y`; returns the new reversed prefix and whether a comparison failed -/
def ins (cmp : Val → Val → Cmp) (x : Val) : List Val → List Val × Cmp
  | [] => ([x], .ge)
  | y :: ys =>
    match cmp x y with
    | .lt => let (r, c) := ins cmp x ys; (y :: r, c)
    | .ge => (x :: y :: ys, .ge)
    | .err => (x :: y :: ys, .err)
    | .panic => (x :: y :: ys, .panic)

/-- `sort.SliceStable` for n ≤ 20 (pure insertion sort; for consistent comparators every
    stable sort gives the same result at any length). Returns the final arrangement and
    the worst event seen: `.ge` none, `.err` a recorded type error, `.panic` aborted. -/
def sortLoop (cmp : Val → Val → Cmp) : List Val → List Val → Cmp → List Val × Cmp
  | rp, [], flag => (rp.reverse, flag)
  | rp, x :: rest, flag =>
    match ins cmp x rp with
    | (rp', .panic) => (rp'.reverse ++ rest, .panic)
    | (rp', .err) => sortLoop cmp rp' rest .err
    | (rp', _) => sortLoop cmp rp' rest flag

def sort (cmp : Val → Val → Cmp) (items : List Val) : List Val × Cmp := sortLoop cmp [] items .ge

inductive Cb where
  | idx       -- func(i, x) { return i }
  | val       -- func(i, x) { return x }
  | idxPlus   -- func(i, x) { return i + 0 }   (a fresh Int)
  | one       -- func(x) { return x }
  deriving DecidableEq, Repr

/-- what callback `cb` returns when it is called with the index object `idx` and the item `x`
    (`i + 0` builds a new Int with the same value) -/
def callCb (cb : Cb) (idx : Val) (x : Val) : Val :=
  match cb with
  | .idx => idx
  | .val => x
  | .idxPlus => idx
  | .one => x

/-- the loop of `List.Map` (object/list.go) as it is written: for item number `i` the callback
    receives `NewInt(int64(i))` -- an index object of its own -- and its output is appended to
    `result` -/
def mapLoop (cb : Cb) : Nat → List Val → List Val → List Val
  | _, [], result => result
  | i, x :: xs, result => mapLoop cb (i + 1) xs (result ++ [callCb cb (.int i) x])

/-- `list.map(fn)`: the result list after the loop -/
def mapIdx (cb : Cb) (items : List Val) : List Val := mapLoop cb 0 items []

/-! HISTORICAL (before `fix: give every list.map callback its own index object`): ONE Int
    object `index` was allocated before the loop, overwritten on each iteration
    (`index.value = int64(i)`) and passed by pointer (`mapArgs[0] = &index`). A callback that
    returned (or stored) its index therefore returned that shared object. Kept so that the
    repaired defect stays documented (`C16_fixed_map_index_was_shared` in Props); no part of
    the machine uses these two definitions any more. -/

/-- pre-fix loop: `none` stands for the pointer to the one shared index object -/
def preFixMapPtrs (cb : Cb) : Nat → List Val → List (Option Val)
  | _, [] => []
  | i, x :: xs =>
    (match cb with
      | .idx => none
      | .val => some x
      | .idxPlus => some (.int i)
      | .one => some x) :: preFixMapPtrs cb (i + 1) xs

/-- pre-fix result: after the loop every pointer reads the last index written -/
def preFixMapIdx (cb : Cb) (items : List Val) : List Val :=
  (preFixMapPtrs cb 0 items).map (fun p => match p with
    | some v => v
    | none => .int ((items.length : Int) - 1))

/-! `sorted(x, f)`: `sort.SliceStable` driven by a script comparison function.

    The comparison is a call-numbered ORACLE (`CmpOracle`, defined below the namespace header
    of this block): the outcome of call number `n` (0-based, counted over the whole sort) on
    the pair `(a, b)` is `some true` (less), `some false` (not less) or `none` (the function
    RAISES). An abstract relation is the oracle that ignores `n`; an oracle list / "fails at
    step k" is the oracle that looks only at `n`. As in the Go code a raising call counts as
    "not less", the error is remembered, and the sort carries on to the end. -/

/-- one inner loop of Go's `insertionSort` on the reversed sorted prefix, threading the call
    counter; returns the new reversed prefix, the counter and whether a call raised -/
def insBy (f : Nat → Val → Val → Option Bool) (x : Val) : Nat → List Val → List Val × Nat × Bool
  | n, [] => ([x], n, false)
  | n, y :: ys =>
    match f n x y with
    | some true => let r := insBy f x (n + 1) ys; (y :: r.1, r.2.1, r.2.2)
    | some false => (x :: y :: ys, n + 1, false)
    | none => (x :: y :: ys, n + 1, true)

def sortByLoop (f : Nat → Val → Val → Option Bool) : List Val → List Val → Nat → Bool → List Val × Bool
  | rp, [], _, e => (rp.reverse, e)
  | rp, x :: rest, n, e =>
    let r := insBy f x n rp
    sortByLoop f r.1 rest r.2.1 (e || r.2.2)

/-- the arrangement `sort.SliceStable(items, less)` leaves behind (insertion sort: exact for
    n ≤ 20, and at any length for consistent comparison functions) and whether a call raised.
    When a call raised, the arrangement is the HALF-SORTED one the slice is left in. -/
def sortBy (f : Nat → Val → Val → Option Bool) (xs : List Val) : List Val × Bool :=
  sortByLoop f [] xs 0 false

/-- `chunk`: consecutive pieces of `n ≥ 1` items (the last one may be shorter); `fuel` bounds
    the number of pieces -/
def chunksOf (n : Nat) : Nat → List Val → List (List Val)
  | 0, _ => []
  | _, [] => []
  | f+1, x :: xs => (x :: xs).take n :: chunksOf n f ((x :: xs).drop n)

/-! maps: unordered association lists with unique keys -/

def mset (kvs : List (Str × Val)) (k : Str) (v : Val) : List (Str × Val) :=
  match kvs with
  | [] => [(k, v)]
  | (k', v') :: rest => if k' = k then (k, v) :: rest else (k', v') :: mset rest k v

def mdel (kvs : List (Str × Val)) (k : Str) : List (Str × Val) :=
  kvs.filter (fun p => p.1 ≠ k)

def mupdate (kvs other : List (Str × Val)) : List (Str × Val) :=
  other.foldl (fun acc p => mset acc p.1 p.2) kvs

def msetdefault (kvs : List (Str × Val)) (k : Str) (v : Val) : List (Str × Val) × Val :=
  match lookupKV k kvs with
  | some w => (kvs, w)
  | none => (mset kvs k v, v)

/-! sets: lists of hashable atoms with unique hash keys -/

def sadd (items : List Val) (v : Val) : List Val :=
  match items with
  | [] => [v]
  | x :: rest => if keyEq x v then v :: rest else x :: sadd rest v

def sremove (items : List Val) (v : Val) : List Val := items.filter (fun x => !keyEq x v)
def smem (items : List Val) (v : Val) : Bool := items.any (fun x => keyEq x v)
def sunion (a b : List Val) : List Val := b.foldl sadd a
def sinter (a b : List Val) : List Val := a.filter (fun x => smem b x)

/-! strings -/

def strGet (s : Str) (i : Int) : Option Str :=
  let rs := runes s
  match resolveIndex i rs.length with
  | .ok k => (rs[k.toNat]?).map encodeRune
  | .err => none

def strSlice (s : Str) (start stop : Option Val) : Except ErrC Str :=
  let rs := runes s
  match resolveIntSlice start stop rs.length with
  | .ok a b => .ok (encodeRunes ((rs.drop a).take (b - a)))
  | .err c => .error c

/-! list iterators (object/list_iter.go): a cursor into the LIVE list -/

/-- `ListIter.Next` as it is written, for an iterator that has yielded `k` items (Go's field
    `pos` is `k - 1`, `-1` in a new iterator): `items := iter.l.items` -- the list's items as
    they are NOW --; `if iter.pos >= int64(len(items)-1) { return nil, false }`;
    `iter.pos++; return items[iter.pos], true` -/
def iterNext (items : List Val) (k : Nat) : Option Val :=
  if (k : Int) - 1 ≥ (items.length : Int) - 1 then none else items[k]?

/-- the loop of `list(it)` (builtins.List): `for { val, ok := iter.Next(ctx); if !ok { break };
    items = append(items, val) }`; returns the collected items and the final count -/
def drainLoop : Nat → List Val → Nat → List Val → List Val × Nat
  | 0, _, k, acc => (acc, k)
  | f+1, xs, k, acc =>
    match iterNext xs k with
    | some v => drainLoop f xs (k + 1) (acc ++ [v])
    | none => (acc, k)

def drain (xs : List Val) (k : Nat) : List Val × Nat := drainLoop (xs.length + 1) xs k []

end Impl

/-! ### Spec: the reference container functions -/
namespace Spec

/-- Python-style index: valid exactly for `-n ≤ i < n` -/
def normIndex (n : Nat) (i : Int) : Option Nat :=
  if 0 ≤ i ∧ i < n then some i.toNat
  else if -(n : Int) ≤ i ∧ i < 0 then some (i + n).toNat
  else none

def getItem (items : List Val) (i : Int) : Option Val :=
  match normIndex items.length i with
  | some k => items[k]?
  | none => none

def setItem (items : List Val) (i : Int) (v : Val) : Option (List Val) :=
  match normIndex items.length i with
  | some k => some (items.set k v)
  | none => none

def pop (items : List Val) (i : Int) : Option (Val × List Val) :=
  match normIndex items.length i with
  | some k =>
    match items[k]? with
    | some x => some (x, items.eraseIdx k)
    | none => none
  | none => none

def delItem (items : List Val) (i : Int) : Option (List Val) :=
  match normIndex items.length i with
  | some k => some (items.eraseIdx k)
  | none => none

/-- insert before position `clamp(index)` -/
def insertPos (n : Nat) (index : Int) : Nat :=
  if index < 0 then (if (n : Int) + index < 0 then 0 else ((n : Int) + index).toNat)
  else if index ≥ n then n else index.toNat

def insert (items : List Val) (index : Int) (v : Val) : List Val :=
  let k := insertPos items.length index
  items.take k ++ v :: items.drop k

def remove (eq : Val → Val → Bool) (items : List Val) (v : Val) : List Val :=
  items.eraseP (fun x => eq v x)

def count (eq : Val → Val → Bool) (items : List Val) (v : Val) : Nat :=
  items.countP (fun x => eq v x)

def contains (eq : Val → Val → Bool) (items : List Val) (v : Val) : Bool :=
  items.any (fun x => eq x v)

/-- `l.index(v)`: the first position whose item equals `v` under the LANGUAGE's equality -/
def indexOf (eq : Val → Val → Bool) (v : Val) (items : List Val) : Option Nat :=
  items.findIdx? (fun x => eq v x)

/-- an iterator that has yielded `k` items yields item number `k` of the list as it is now;
    it is exhausted exactly when there is no such item -/
def iterNext (items : List Val) (k : Nat) : Option Val := items[k]?

/-- draining an iterator collects everything from the cursor on and leaves it at the end -/
def drain (items : List Val) (k : Nat) : List Val × Nat := (items.drop k, max k items.length)

def reverse (a : List Val) : List Val := a.reverse

/-- the slice positions the property's text allows a successful slice to use -/
def sliceNorm (n : Nat) (x : Int) : Int := if x < 0 then x + n else x

def slice (items : List Val) (start stop : Option Val) : Except ErrC (List Val) :=
  match boundOf start 0, boundOf stop items.length with
  | some st, some sp =>
    let a := sliceNorm items.length st
    let b := sliceNorm items.length sp
    if 0 ≤ a ∧ a ≤ b ∧ b ≤ items.length ∧ a < items.length then
      .ok ((items.drop a.toNat).take (b.toNat - a.toNat))
    else .error .slice
  | _, _ => .error .type

/-- what `list.map(func(i, x) …)` must produce: callback `cb` applied to (position, item) -/
def mapIdxFrom (cb : Impl.Cb) : Nat → List Val → List Val
  | _, [] => []
  | i, x :: xs =>
    (match cb with
      | .idx => .int i
      | .val => x
      | .idxPlus => .int i
      | .one => x) :: mapIdxFrom cb (i + 1) xs

def mapIdx (cb : Impl.Cb) (items : List Val) : List Val := mapIdxFrom cb 0 items

/-- finite maps as functions -/
abbrev FMap := Str → Option Val
def mset (f : FMap) (k : Str) (v : Val) : FMap := fun k' => if k' = k then some v else f k'
def mdel (f : FMap) (k : Str) : FMap := fun k' => if k' = k then none else f k'
def mupdate (f g : FMap) : FMap := fun k' => match g k' with | some v => some v | none => f k'

/-- sets as membership predicates on hash keys -/
abbrev FSet := Val → Bool

def strGet (s : Str) (i : Int) : Option Str :=
  match normIndex (runes s).length i with
  | some k => ((runes s)[k]?).map encodeRune
  | none => none

end Spec

/-! ### the heap machine -/

inductive Mode where
  | impl | spec
  deriving DecidableEq, Repr

/-- the comparison functions the scenarios hand to `sorted(x, f)` -/
inductive CmpFn where
  | lt        -- func(a, b) { return a < b }
  | gt        -- func(a, b) { return a > b }
  | le        -- func(a, b) { return a <= b }   (not a strict order)
  | ge        -- func(a, b) { return a >= b }
  | always    -- func(a, b) { return true }
  | never     -- func(a, b) { return false }
  deriving DecidableEq, Repr

/-- a comparison oracle: outcome of call number `n` on `(a, b)`; `none` = the call raises -/
abbrev CmpOracle := Nat → Val → Val → Option Bool

/-- the predicates the scenarios hand to `list.filter` -/
inductive Pred where
  | ne        -- func(x) { return x != v }
  | eq        -- func(x) { return x == v }
  | all       -- func(x) { return true }
  | nothing   -- func(x) { return false }
  deriving DecidableEq, Repr

/-- what the body of a generated `for` loop over list `l` does to `l` itself, after recording
    the (index,) item it was handed:
      for i, x := range l { rec.append(i); rec.append(x); BODY }     (withIdx)
      for x in l { rec.append(x); BODY }                             (without) -/
inductive Body where
  | none                     -- nothing
  | grow (n : Nat)           -- if len(l) < n { l.append(x) }          (work list)
  | popLast                  -- l.pop(-1)
  | removeCur                -- l.remove(x)
  | clear                    -- l.clear()
  | setNext (v : Val)        -- if k + 1 < len(l) { l[k+1] = v }       (k = iterations so far)
  | insertFront (n : Nat)    -- if len(l) < n { l.insert(0, x) }
  deriving DecidableEq, Repr

/-- builtins and methods that take a container, must leave it untouched and hand back an
    independent container (or nothing) -/
inductive BOp where
  | sortedBy (r : Nat) (f : CmpFn) (failAt : Option Nat)  -- sorted(x, f); call number `failAt` raises
  | sorted (r : Nat)                 -- sorted(x)    x : list | map | set | byte_slice
  | reversed (r : Nat)               -- reversed(x)  x : list | byte_slice
  | toList (r : Nat)                 -- list(x)      x : list | map | set
  | toSet (r : Nat)                  -- set(x)       x : list | map | set
  | keysOf (r : Nat)                 -- keys(x)      x : list | map | set
  | items (r : Nat)                  -- m.items()
  | filter (r : Nat) (p : Pred) (v : Val)   -- l.filter(p)
  | each (r : Nat)                   -- l.each(func(x) { x })
  | eachAcc (r : Nat) (acc : Nat)    -- l.each(func(x) { acc.append(x) })
  | chunk (r : Nat) (n : Val)        -- chunk(l, n)
  deriving DecidableEq, Repr

inductive Op where
  | lGet (r : Nat) (i : Val)
  | lSlice (r : Nat) (a b : Option Val)
  | lSet (r : Nat) (i v : Val)
  | lAddAssign (r : Nat) (i v : Val)
  | lAppend (r : Nat) (v : Val)
  | lInsert (r : Nat) (i v : Val)
  | lPop (r : Nat) (i : Val)
  | lRemove (r : Nat) (v : Val)
  | lExtend (r : Nat) (o : Val)
  | lReverse (r : Nat)
  | lSort (r : Nat)
  | lCopy (r : Nat)
  | lClear (r : Nat)
  | lIndex (r : Nat) (v : Val)
  | lCount (r : Nat) (v : Val)
  | lContains (r : Nat) (v : Val)
  | lLen (r : Nat)
  | lDel (r : Nat) (i : Val)
  | lConcat (r : Nat) (o : Val)
  | lSorted (r : Nat)
  | lReversed (r : Nat)
  | lKeys (r : Nat)
  | lMap (r : Nat) (cb : Impl.Cb)
  | lMapAcc (r : Nat) (acc : Nat)       -- a.map(func(i, x) { acc.append(i); return x })
  | iNew (r : Nat)                      -- iter(l)
  | iNext (it : Nat)                    -- it.next()
  | iRest (it : Nat)                    -- list(it)
  | lFor (r : Nat) (withIdx : Bool) (b : Body)   -- a for loop over l whose body changes l; see `Body`
  | mSet (r : Nat) (k v : Val)
  | mGet (r : Nat) (k : Val)
  | mGetDef (r : Nat) (k : Val) (d : Option Val)
  | mPop (r : Nat) (k : Val) (d : Option Val)
  | mDel (r : Nat) (k : Val)
  | mUpdate (r : Nat) (o : Val)
  | mSetDefault (r : Nat) (k v : Val)
  | mCopy (r : Nat)
  | mClear (r : Nat)
  | mKeys (r : Nat)
  | mValues (r : Nat)
  | mContains (r : Nat) (k : Val)
  | mLen (r : Nat)
  | mAddAssign (r : Nat) (k v : Val)
  | sAdd (r : Nat) (v : Val)
  | sRemove (r : Nat) (v : Val)
  | sUnion (r : Nat) (o : Val)
  | sInter (r : Nat) (o : Val)
  | sContains (r : Nat) (v : Val)
  | sGet (r : Nat) (v : Val)
  | sDel (r : Nat) (v : Val)
  | sLen (r : Nat)
  | sClear (r : Nat)
  | bGet (r : Nat) (i : Val)
  | bSet (r : Nat) (i v : Val)
  | bSlice (r : Nat) (a b : Option Val)
  | bClone (r : Nat)
  | bLen (r : Nat)
  | strGet (s : Val) (i : Val)
  | strSlice (s : Val) (a b : Option Val)
  | strLen (s : Val)
  | bi (b : BOp)
  deriving DecidableEq, Repr

def Heap.put (h : Heap) (r : Nat) (o : Obj) : Heap := { h with objs := h.objs.set r o }
def Heap.alloc (h : Heap) (o : Obj) : Heap × Nat := ({ h with objs := h.objs ++ [o] }, h.objs.length)

def fuelOf (h : Heap) : Nat := h.objs.length + 1

def heq (h : Heap) : Val → Val → Bool := valEq h (fuelOf h)
def hcmp (h : Heap) : Val → Val → Cmp := cmpVal h (fuelOf h)

/-- `AsInt`: int or byte -/
def asInt : Val → Option Int
  | .int i => some i
  | .byte n => some n
  | _ => none

/-- `AsString`: string or byte_slice -/
def asString (h : Heap) : Val → Option Str
  | .str s => some s
  | .ref r => match h.get r with
    | .bytes a o l => some (bytesContent h a o l)
    | _ => none
  | _ => none

def asList (h : Heap) : Val → Option (List Val)
  | .ref r => match h.get r with
    | .list xs => some xs
    | _ => none
  | _ => none

def asMap (h : Heap) : Val → Option (List (Str × Val))
  | .ref r => match h.get r with
    | .map xs => some xs
    | _ => none
  | _ => none

def asSet (h : Heap) : Val → Option (List Val)
  | .ref r => match h.get r with
    | .set xs => some xs
    | _ => none
  | _ => none

/-- `a + b` as `BinaryOp(Add)` computes it for the operand kinds the generator produces:
    int+int (wrapping), the numeric tower (byte+byte stays a byte modulo 256, byte+int is an
    int, anything with a float is a float; float sums are exact for the half-integers of small
    magnitude the generator keeps them to), string+string; anything else is a type error.
    Lists are excluded here (the generator never adds lists in a compound assignment). -/
def addVal : Val → Val → Option Val
  | .int a, .int b => some (.int (wrap64 (a + b)))
  | .int a, .byte b => some (.int (wrap64 (a + b)))
  | .byte a, .int b => some (.int (wrap64 (a + b)))
  | .byte a, .byte b => some (.byte ((a + b) % 256))
  | .int a, .flt t => some (.flt (2 * a + t))
  | .flt t, .int b => some (.flt (t + 2 * b))
  | .byte a, .flt t => some (.flt (2 * (a : Int) + t))
  | .flt t, .byte b => some (.flt (t + 2 * (b : Int)))
  | .flt s, .flt t => some (.flt (s + t))
  | .str a, .str b => some (.str (a ++ b))
  | _, _ => none

def insKey (k : Str) : List Str → List Str
  | [] => [k]
  | x :: xs => if strLt k x then k :: x :: xs else x :: insKey k xs

def sortKeys (ks : List Str) : List Str := ks.foldl (fun acc k => insKey k acc) []

def sortedKVs (kvs : List (Str × Val)) : List (Str × Val) :=
  (sortKeys (kvs.map (·.1))).filterMap (fun k => (lookupKV k kvs).map (fun v => (k, v)))

def newList (h : Heap) (xs : List Val) : Heap × Res :=
  let (h', r) := h.alloc (.list xs)
  (h', .val (.ref r))

/-! ### builtins that must leave their operand untouched -/

def insByKey (v : Val) : List Val → List Val
  | [] => [v]
  | x :: xs => if keyLt v x then v :: x :: xs else x :: insByKey v xs

/-- `Set.SortedItems`: the members ordered by hash key (type name, int value, string value) -/
def sortedItems (xs : List Val) : List Val := xs.foldl (fun acc v => insByKey v acc) []

def mapKeys (kvs : List (Str × Val)) : List Val := (sortedKVs kvs).map (fun p => Val.str p.1)

/-- what `list(x)` / `set(x)` iterate over: list items, sorted map keys, sorted set members -/
def iterItems (h : Heap) (r : Nat) : Option (List Val) :=
  match h.get r with
  | .list xs => some xs
  | .map kvs => some (mapKeys kvs)
  | .set xs => some (sortedItems xs)
  | .bytes _ _ _ => none
  | .iter _ _ => none

/-- what `sorted(x[, f])` sorts: `Value()` of a list, the keys of a map, the members of a
    set, the bytes of a byte_slice as ints -/
def sortItems (h : Heap) (r : Nat) : List Val :=
  match h.get r with
  | .list xs => xs
  | .map kvs => mapKeys kvs
  | .set xs => sortedItems xs
  | .bytes a o l => (bytesContent h a o l).map (fun (b : Nat) => Val.int (b : Int))
  | .iter _ _ => []

/-- one call of a script comparison function: `a < b` etc. through `object.Compare`
    (a type error raises), or a constant -/
def cmpFnOutcome (h : Heap) (f : CmpFn) (a b : Val) : Option Bool :=
  match f with
  | .always => some true
  | .never => some false
  | .lt => match cmp3 h (fuelOf h) a b with | .ok c => some (decide (c < 0)) | .err => none
  | .gt => match cmp3 h (fuelOf h) a b with | .ok c => some (decide (c > 0)) | .err => none
  | .le => match cmp3 h (fuelOf h) a b with | .ok c => some (decide (c ≤ 0)) | .err => none
  | .ge => match cmp3 h (fuelOf h) a b with | .ok c => some (decide (c ≥ 0)) | .err => none

/-- the oracle of a scenario: call number `failAt` raises, every other call compares -/
def oracleOf (h : Heap) (f : CmpFn) (failAt : Option Nat) : CmpOracle :=
  fun n a b => if failAt = some n then none else cmpFnOutcome h f a b

def predOf (h : Heap) (p : Pred) (v : Val) : Val → Bool :=
  match p with
  | .ne => fun x => !heq h x v
  | .eq => fun x => heq h x v
  | .all => fun _ => true
  | .nothing => fun _ => false

/-- append several new objects at once -/
def allocs (h : Heap) (os : List Obj) : Heap := { h with objs := h.objs ++ os }

/-- references to `n` consecutive objects starting at `base` -/
def refsFrom (base n : Nat) : List Val := (List.range n).map (fun i => Val.ref (base + i))

/-- the builtins of the class, as the code performs them. They are the same in both readings
    of the machine: the property demands exactly that the operand is only read and that the
    result is a new object. -/
def stepB (h : Heap) (b : BOp) : Heap × Res :=
  match b with
  | .sortedBy r f k =>
    -- `resultItems := copy(items)`; `sort.SliceStable(resultItems, f)`; an error of `f` is
    -- returned as a type error and the copy is dropped
    match Impl.sortBy (oracleOf h f k) (sortItems h r) with
    | (_, true) => (h, .err .type)
    | (ys, false) => newList h ys
  | .sorted r =>
    match Impl.sort (hcmp h) (sortItems h r) with
    | (_, .err) => (h, .err .type)
    | (_, .panic) => (h, .err .panic)
    | (ys, _) => newList h ys
  | .reversed r =>
    match h.get r with
    | .list xs => newList h xs.reverse
    | .bytes a o l =>
      ({ objs := h.objs ++ [.bytes h.arrs.length 0 l], arrs := h.arrs ++ [(bytesContent h a o l).reverse] },
        .val (.ref h.objs.length))
    | _ => (h, .err .type)
  | .toList r =>
    match iterItems h r with
    | some xs => newList h xs
    | none => (h, .err .type)
  | .toSet r =>
    match iterItems h r with
    | some xs =>
      if xs.all (fun x => (hashKey x).isSome) then
        (allocs h [.set (xs.foldl Impl.sadd [])], .val (.ref h.objs.length))
      else (h, .err .type)
    | none => (h, .err .type)
  | .keysOf r =>
    match h.get r with
    | .list xs => newList h ((List.range xs.length).map (fun (i : Nat) => Val.int (i : Int)))
    | .map kvs => newList h (mapKeys kvs)
    | .set xs => newList h (sortedItems xs)
    | .bytes _ _ _ => (h, .err .type)
    | .iter _ _ => (h, .err .type)
  | .items r =>
    match h.get r with
    | .map kvs =>
      let ps := sortedKVs kvs
      (allocs h (ps.map (fun p => Obj.list [.str p.1, p.2]) ++ [.list (refsFrom h.objs.length ps.length)]),
        .val (.ref (h.objs.length + ps.length)))
    | _ => (h, .err .type)
  | .filter r p v =>
    match h.get r with
    | .list xs => newList h (xs.filter (predOf h p v))
    | _ => (h, .err .type)
  | .each r =>
    match h.get r with
    | .list _ => (h, .val .nil)
    | _ => (h, .err .type)
  | .eachAcc r acc =>
    -- `for _, value := range ls.items`: the items as they were when the loop started
    match h.get r, h.get acc with
    | .list xs, .list as => (h.put acc (.list (as ++ xs)), .val .nil)
    | _, _ => (h, .err .type)
  | .chunk r n =>
    match h.get r, n with
    | .list xs, .int k =>
      if k ≤ 0 then (h, .err .value)
      else
        let cs := Impl.chunksOf k.toNat xs.length xs
        (allocs h (cs.map Obj.list ++ [.list (refsFrom h.objs.length cs.length)]),
          .val (.ref (h.objs.length + cs.length)))
    | _, _ => (h, .err .type)

/-! ### iteration over a list that changes meanwhile -/

/-- the length up to which a loop body lets its list grow -/
def Body.bound : Body → Nat
  | .grow n => n
  | .insertFront n => n
  | _ => 0

/-- one step of a list iterator in the reading `m` of the machine -/
def nextOf (m : Mode) (xs : List Val) (k : Nat) : Option Val :=
  match m with
  | .impl => Impl.iterNext xs k
  | .spec => Spec.iterNext xs k

/-- what one run of loop body `b` makes of the iterated list `xs`; `k` = iterations before this
    one, `x` = the item the iterator handed to it -/
def bodyList (m : Mode) (eq : Val → Val → Bool) (b : Body) (xs : List Val) (k : Nat) (x : Val) : List Val :=
  match b with
  | .none => xs
  | .grow n => if xs.length < n then xs ++ [x] else xs
  | .popLast =>
    match (match m with | .impl => Impl.pop xs (-1) | .spec => Spec.pop xs (-1)) with
    | some (_, ys) => ys
    | none => xs
  | .removeCur => (match m with | .impl => Impl.remove eq xs x | .spec => Spec.remove eq xs x)
  | .clear => []
  | .setNext v =>
    if k + 1 < xs.length then
      match (match m with | .impl => Impl.setItem xs ((k : Int) + 1) v | .spec => Spec.setItem xs ((k : Int) + 1) v) with
      | some ys => ys
      | none => xs
    else xs
  | .insertFront n =>
    if xs.length < n then (match m with | .impl => Impl.insert xs 0 x | .spec => Spec.insert xs 0 x) else xs

/-- the `for` loop of the VM (`GetIter`, then `ForIter` before every round: `iter.Next`, the
    names are bound from `iter.Entry()`, the body runs): every round reads the list object
    `r` AS IT IS THEN, records `(k, x)` (or `x`) and lets the body change the list. `fuel`
    bounds the number of rounds. Returns the heap and the record. -/
def forLoop (m : Mode) (r : Nat) (w : Bool) (b : Body) : Nat → Heap → Nat → List Val → Heap × List Val
  | 0, h, _, acc => (h, acc)
  | f+1, h, k, acc =>
    match h.get r with
    | .list xs =>
      match nextOf m xs k with
      | none => (h, acc)
      | some x =>
        forLoop m r w b f (h.put r (.list (bodyList m (heq h) b xs k x))) (k + 1)
          (acc ++ (if w then [.int k, x] else [x]))
    | _ => (h, acc)

/-- one operation on the heap, as the code performs it (`.impl`) or as the reference
    containers do (`.spec`). Target handles of the wrong kind give a type error. -/
def step (m : Mode) (h : Heap) (op : Op) : Heap × Res :=
  match op with
  | .lGet r i =>
    match h.get r, i with
    | .list xs, .int k =>
      match (match m with | .impl => Impl.getItem xs k | .spec => Spec.getItem xs k) with
      | some v => (h, .val v)
      | none => (h, .err .index)
    | _, _ => (h, .err .type)
  | .lSlice r a b =>
    match h.get r with
    | .list xs =>
      match (match m with | .impl => Impl.slice xs a b | .spec => Spec.slice xs a b) with
      | .ok ys => newList h ys
      | .error c => (h, .err c)
    | _ => (h, .err .type)
  | .lSet r i v =>
    match h.get r, i with
    | .list xs, .int k =>
      match (match m with | .impl => Impl.setItem xs k v | .spec => Spec.setItem xs k v) with
      | some ys => (h.put r (.list ys), .unit)
      | none => (h, .err .index)
    | _, _ => (h, .err .type)
  | .lAddAssign r i v =>
    match h.get r, i with
    | .list xs, .int k =>
      match (match m with | .impl => Impl.getItem xs k | .spec => Spec.getItem xs k) with
      | none => (h, .err .index)
      | some old =>
        match addVal old v with
        | none => (h, .err .type)
        | some nv =>
          match (match m with | .impl => Impl.setItem xs k nv | .spec => Spec.setItem xs k nv) with
          | some ys => (h.put r (.list ys), .unit)
          | none => (h, .err .index)
    | _, _ => (h, .err .type)
  | .lAppend r v =>
    match h.get r with
    | .list xs => (h.put r (.list (xs ++ [v])), .unit)
    | _ => (h, .err .type)
  | .lInsert r i v =>
    match h.get r, asInt i with
    | .list xs, some k =>
      (h.put r (.list (match m with | .impl => Impl.insert xs k v | .spec => Spec.insert xs k v)), .unit)
    | _, _ => (h, .err .type)
  | .lPop r i =>
    match h.get r, asInt i with
    | .list xs, some k =>
      match (match m with | .impl => Impl.pop xs k | .spec => Spec.pop xs k) with
      | some (x, ys) => (h.put r (.list ys), .val x)
      | none => (h, .err .index)
    | _, _ => (h, .err .type)
  | .lRemove r v =>
    match h.get r with
    | .list xs =>
      (h.put r (.list (match m with | .impl => Impl.remove (heq h) xs v | .spec => Spec.remove (heq h) xs v)), .unit)
    | _ => (h, .err .type)
  | .lExtend r o =>
    match h.get r, asList h o with
    | .list xs, some ys => (h.put r (.list (xs ++ ys)), .unit)
    | _, _ => (h, .err .type)
  | .lReverse r =>
    match h.get r with
    | .list xs => (h.put r (.list (match m with | .impl => Impl.reverse xs | .spec => Spec.reverse xs)), .unit)
    | _ => (h, .err .type)
  | .lSort r =>
    match h.get r with
    | .list xs =>
      match Impl.sort (hcmp h) xs with
      | (ys, .ge) => (h.put r (.list ys), .unit)
      | (ys, .lt) => (h.put r (.list ys), .unit)
      | (ys, .err) => (h.put r (.list ys), .err .type)
      | (ys, .panic) => (h.put r (.list ys), .err .panic)
    | _ => (h, .err .type)
  | .lCopy r =>
    match h.get r with
    | .list xs => newList h xs
    | _ => (h, .err .type)
  | .lClear r =>
    match h.get r with
    | .list _ => (h.put r (.list []), .unit)
    | _ => (h, .err .type)
  | .lIndex r v =>
    match h.get r with
    | .list xs =>
      match (match m with | .impl => Impl.indexOf (heq h) v xs | .spec => Spec.indexOf (heq h) v xs) with
      | some k => (h, .val (.int k))
      | none => (h, .val (.int (-1)))
    | _ => (h, .err .type)
  | .lCount r v =>
    match h.get r with
    | .list xs =>
      (h, .val (.int (match m with | .impl => Impl.count (heq h) xs v | .spec => Spec.count (heq h) xs v)))
    | _ => (h, .err .type)
  | .lContains r v =>
    match h.get r with
    | .list xs => (h, .val (.bool (Impl.contains (heq h) xs v)))
    | _ => (h, .err .type)
  | .lLen r =>
    match h.get r with
    | .list xs => (h, .val (.int xs.length))
    | _ => (h, .err .type)
  | .lDel r i =>
    match h.get r, i with
    | .list xs, .int k =>
      match (match m with | .impl => Impl.delItem xs k | .spec => Spec.delItem xs k) with
      | some ys => (h.put r (.list ys), .unit)
      | none => (h, .err .index)
    | _, _ => (h, .err .type)
  | .lConcat r o =>
    match h.get r, asList h o with
    | .list xs, some ys => newList h (xs ++ ys)
    | _, _ => (h, .err .type)
  | .lSorted r =>
    match h.get r with
    | .list xs =>
      match Impl.sort (hcmp h) xs with
      | (_, .err) => (h, .err .type)
      | (_, .panic) => (h, .err .panic)
      | (ys, _) => newList h ys
    | _ => (h, .err .type)
  | .lReversed r =>
    match h.get r with
    | .list xs => newList h xs.reverse
    | _ => (h, .err .type)
  | .lKeys r =>
    match h.get r with
    | .list xs => newList h ((List.range xs.length).map (fun (i : Nat) => Val.int (i : Int)))
    | _ => (h, .err .type)
  | .lMap r cb =>
    match h.get r with
    | .list xs => newList h (match m with | .impl => Impl.mapIdx cb xs | .spec => Spec.mapIdx cb xs)
    | _ => (h, .err .type)
  | .lMapAcc r acc =>
    match h.get r, h.get acc with
    | .list xs, .list as =>
      -- the callback appends its index object to `acc` and returns x
      let seen := match m with | .impl => Impl.mapIdx .idx xs | .spec => Spec.mapIdx .idx xs
      let h1 := h.put acc (.list (as ++ seen))
      -- the result list is built from the items as they were when the loop started
      newList h1 xs
    | _, _ => (h, .err .type)
  | .iNew r =>
    -- `iter(l)` = `NewListIter(l)`: a new cursor object that refers to the list object
    match h.get r with
    | .list _ =>
      let (h', q) := h.alloc (.iter r 0)
      (h', .val (.ref q))
    | _ => (h, .err .type)
  | .iNext it =>
    -- `it.next()`: the item at the cursor in the list AS IT IS NOW, or nil when there is none
    match h.get it with
    | .iter l k =>
      match h.get l with
      | .list xs =>
        match nextOf m xs k with
        | some v => (h.put it (.iter l (k + 1)), .val v)
        | none => (h, .val .nil)
      | _ => (h, .err .type)
    | _ => (h, .err .type)
  | .iRest it =>
    -- `list(it)`: everything from the cursor on, as a new list; the cursor ends at the end
    match h.get it with
    | .iter l k =>
      match h.get l with
      | .list xs =>
        let d := (match m with | .impl => Impl.drain xs k | .spec => Spec.drain xs k)
        newList (h.put it (.iter l d.2)) d.1
      | _ => (h, .err .type)
    | _ => (h, .err .type)
  | .lFor r w b =>
    match h.get r with
    | .list xs =>
      let res := forLoop m r w b (max xs.length b.bound + 1) h 0 []
      newList res.1 res.2
    | _ => (h, .err .type)
  | .mSet r k v =>
    match h.get r, k with
    | .map kvs, .str s => (h.put r (.map (Impl.mset kvs s v)), .unit)
    | _, _ => (h, .err .type)
  | .mGet r k =>
    match h.get r, k with
    | .map kvs, .str s =>
      match lookupKV s kvs with
      | some v => (h, .val v)
      | none => (h, .err .key)
    | _, _ => (h, .err .type)
  | .mGetDef r k d =>
    match h.get r, asString h k with
    | .map kvs, some s =>
      match lookupKV s kvs with
      | some v => (h, .val v)
      | none => (h, .val (d.getD .nil))
    | _, _ => (h, .err .type)
  | .mPop r k d =>
    match h.get r, asString h k with
    | .map kvs, some s =>
      match lookupKV s kvs with
      | some v => (h.put r (.map (Impl.mdel kvs s)), .val v)
      | none => (h, .val (d.getD .nil))
    | _, _ => (h, .err .type)
  | .mDel r k =>
    match h.get r, k with
    | .map kvs, .str s => (h.put r (.map (Impl.mdel kvs s)), .unit)
    | _, _ => (h, .err .type)
  | .mUpdate r o =>
    match h.get r, asMap h o with
    | .map kvs, some other => (h.put r (.map (Impl.mupdate kvs other)), .unit)
    | _, _ => (h, .err .type)
  | .mSetDefault r k v =>
    match h.get r, asString h k with
    | .map kvs, some s =>
      let (kvs', w) := Impl.msetdefault kvs s v
      (h.put r (.map kvs'), .val w)
    | _, _ => (h, .err .type)
  | .mCopy r =>
    match h.get r with
    | .map kvs =>
      let (h', q) := h.alloc (.map kvs)
      (h', .val (.ref q))
    | _ => (h, .err .type)
  | .mClear r =>
    match h.get r with
    | .map _ => (h.put r (.map []), .unit)
    | _ => (h, .err .type)
  | .mKeys r =>
    match h.get r with
    | .map kvs => newList h ((sortedKVs kvs).map (fun p => .str p.1))
    | _ => (h, .err .type)
  | .mValues r =>
    match h.get r with
    | .map kvs => newList h ((sortedKVs kvs).map (·.2))
    | _ => (h, .err .type)
  | .mContains r k =>
    match h.get r with
    | .map kvs =>
      match k with
      | .str s => (h, .val (.bool (lookupKV s kvs).isSome))
      | _ => (h, .val (.bool false))
    | _ => (h, .err .type)
  | .mLen r =>
    match h.get r with
    | .map kvs => (h, .val (.int kvs.length))
    | _ => (h, .err .type)
  | .mAddAssign r k v =>
    match h.get r, k with
    | .map kvs, .str s =>
      match lookupKV s kvs with
      | none => (h, .err .key)
      | some old =>
        match addVal old v with
        | none => (h, .err .type)
        | some nv => (h.put r (.map (Impl.mset kvs s nv)), .unit)
    | _, _ => (h, .err .type)
  | .sAdd r v =>
    match h.get r with
    | .set xs => if (hashKey v).isSome then (h.put r (.set (Impl.sadd xs v)), .unit) else (h, .err .type)
    | _ => (h, .err .type)
  | .sRemove r v =>
    match h.get r with
    | .set xs => if (hashKey v).isSome then (h.put r (.set (Impl.sremove xs v)), .unit) else (h, .err .type)
    | _ => (h, .err .type)
  | .sUnion r o =>
    match h.get r, asSet h o with
    | .set xs, some ys =>
      let (h', q) := h.alloc (.set (Impl.sunion xs ys))
      (h', .val (.ref q))
    | _, _ => (h, .err .type)
  | .sInter r o =>
    match h.get r, asSet h o with
    | .set xs, some ys =>
      let (h', q) := h.alloc (.set (Impl.sinter xs ys))
      (h', .val (.ref q))
    | _, _ => (h, .err .type)
  | .sContains r v =>
    match h.get r with
    | .set xs => (h, .val (.bool (Impl.smem xs v)))
    | _ => (h, .err .type)
  | .sGet r v =>
    match h.get r with
    | .set xs => if (hashKey v).isSome then (h, .val (.bool (Impl.smem xs v))) else (h, .err .type)
    | _ => (h, .err .type)
  | .sDel r v =>
    match h.get r with
    | .set xs => if (hashKey v).isSome then (h.put r (.set (Impl.sremove xs v)), .unit) else (h, .err .type)
    | _ => (h, .err .type)
  | .sLen r =>
    match h.get r with
    | .set xs => (h, .val (.int xs.length))
    | _ => (h, .err .type)
  | .sClear r =>
    match h.get r with
    | .set _ => (h.put r (.set []), .unit)
    | _ => (h, .err .type)
  | .bGet r i =>
    match h.get r, i with
    | .bytes a o l, .int k =>
      let bs : List Val := (bytesContent h a o l).map Val.byte
      match (match m with | .impl => Impl.getItem bs k | .spec => Spec.getItem bs k) with
      | some v => (h, .val v)
      | none => (h, .err .index)
    | _, _ => (h, .err .type)
  | .bSet r i v =>
    match h.get r, i with
    | .bytes a o l, .int k =>
      match resolveIndex k l with
      | .err => (h, .err .index)
      | .ok idx =>
        match asString h v with
        | none => (h, .err .type)
        | some [b] =>
          ({ h with arrs := h.arrs.set a ((h.arrs.getD a []).set (o + idx.toNat) b) }, .unit)
        | some _ => (h, .err .value)
    | _, _ => (h, .err .type)
  | .bSlice r a b =>
    match h.get r with
    | .bytes arr o l =>
      match resolveIntSlice a b l with
      | .err c => (h, .err c)
      | .ok s e =>
        match m with
        | .impl =>
          -- `NewByteSlice(b.value[start:stop])`: a view on the SAME array
          let (h', q) := h.alloc (.bytes arr (o + s) (e - s))
          (h', .val (.ref q))
        | .spec =>
          -- an independent copy
          let content := ((bytesContent h arr o l).drop s).take (e - s)
          let (h', q) := { h with arrs := h.arrs ++ [content] }.alloc (.bytes h.arrs.length 0 (e - s))
          (h', .val (.ref q))
    | _ => (h, .err .type)
  | .bClone r =>
    match h.get r with
    | .bytes arr o l =>
      let (h', q) := { h with arrs := h.arrs ++ [bytesContent h arr o l] }.alloc (.bytes h.arrs.length 0 l)
      (h', .val (.ref q))
    | _ => (h, .err .type)
  | .bLen r =>
    match h.get r with
    | .bytes _ _ l => (h, .val (.int l))
    | _ => (h, .err .type)
  | .strGet s i =>
    match s, i with
    | .str bs, .int k =>
      match (match m with | .impl => Impl.strGet bs k | .spec => Spec.strGet bs k) with
      | some c => (h, .val (.str c))
      | none => (h, .err .index)
    | _, _ => (h, .err .type)
  | .strSlice s a b =>
    match s with
    | .str bs =>
      match Impl.strSlice bs a b with
      | .ok r => (h, .val (.str r))
      | .error c => (h, .err c)
    | _ => (h, .err .type)
  | .strLen s =>
    match s with
    | .str bs => (h, .val (.int (runes bs).length))
    | _ => (h, .err .type)
  | .bi b => stepB h b

/-- run a whole operation sequence, collecting the results -/
def run (m : Mode) : Heap → List Op → Heap × List Res
  | h, [] => (h, [])
  | h, op :: ops =>
    let (h1, r) := step m h op
    let (h2, rs) := run m h1 ops
    (h2, r :: rs)

/-- operations on which today's code is known to leave the reference semantics:
    byte_slice slicing (the slice shares its bytes with the original).
    (Until `fix: give every list.map callback its own index object` this also held
    `.lMap _ .idx` and `.lMapAcc _ _`.) -/
def defectOp : Op → Bool
  | .bSlice _ _ _ => true
  | _ => false

/-- operations that only read -/
def readOnly : Op → Bool
  | .lGet .. | .lIndex .. | .lCount .. | .lContains .. | .lLen .. => true
  | .mGet .. | .mGetDef .. | .mContains .. | .mLen .. => true
  | .sContains .. | .sGet .. | .sLen .. => true
  | .bGet .. | .bLen .. => true
  | .strGet .. | .strSlice .. | .strLen .. => true
  | .bi (.each _) => true
  | _ => false

/-- read-only operations that build a NEW container from their operand -/
def producesNew : Op → Bool
  | .lSlice .. | .lCopy .. | .lConcat .. | .lSorted .. | .lReversed .. | .lKeys .. | .lMap .. => true
  | .iNew .. | .iRest .. | .lFor .. => true
  | .mCopy .. | .mKeys .. | .mValues .. => true
  | .sUnion .. | .sInter .. => true
  | .bSlice .. | .bClone .. => true
  | .bi (.each _) => false
  | .bi (.eachAcc _ _) => false
  | .bi _ => true
  | _ => false

/-- the object an operation may modify -/
def target : Op → Option Nat
  | .lSet r .. | .lAddAssign r .. | .lAppend r .. | .lInsert r .. | .lPop r .. | .lRemove r ..
  | .lExtend r .. | .lReverse r | .lSort r | .lClear r | .lDel r .. => some r
  | .lMapAcc _ acc => some acc
  | .iNext it | .iRest it => some it          -- only the cursor moves, never the list
  | .lFor _ _ .none => none
  | .lFor r _ _ => some r                     -- the loop body changes the list it iterates
  | .mSet r .. | .mPop r .. | .mDel r .. | .mUpdate r .. | .mSetDefault r .. | .mClear r | .mAddAssign r .. => some r
  | .sAdd r .. | .sRemove r .. | .sDel r .. | .sClear r => some r
  | .bSet r .. => some r
  | .bi (.eachAcc _ acc) => some acc
  | _ => none

end Risor.C16
