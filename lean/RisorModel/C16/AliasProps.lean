/-
C16 extension — `stepA` (Go slice headers, backing arrays, in-place `append`, arbitrary growth
policy) refines `stepC` (one `List Val` per list object, the functions of `Impl`), for the
operations append, setItem, pop, slice, copy, extend, concat (`+`), clear. `Insert` is not in
`AOp` and not covered.
-/
import RisorModel.C16.Alias

namespace Risor.C16.Alias
open Risor.C16

/-- a header is well-formed in a set of arrays -/
def WF (arrs : List (List Val)) (hd : Hdr) : Prop :=
  hd.off = 0 ∧ hd.len ≤ hd.cap ∧ ∃ a, arrs[hd.arr]? = some a ∧ hd.off + hd.cap ≤ a.length

/-- the heap invariant of the unchanged code: every list's header is well-formed (offset 0,
    len ≤ cap, cap cells exist in its array) and two DIFFERENT list objects never point into
    the same backing array -/
structure Inv (h : AHeap) : Prop where
  wf : ∀ (i : Nat) (hd : Hdr), h.lists[i]? = some hd → WF h.arrs hd
  distinct : ∀ (i j : Nat) (hi hj : Hdr), h.lists[i]? = some hi → h.lists[j]? = some hj → i ≠ j → hi.arr ≠ hj.arr

theorem read_of {h : AHeap} {hd : Hdr} {a : List Val} (ha : h.arrs[hd.arr]? = some a)
    (h0 : hd.off = 0) : read h hd = a.take hd.len := by
  simp [read, arrOf, ha, h0]

/-- frame lemma: list `l` gets header `hd'` into an array `a'` that is its old array
    (rewritten) or a fresh one; all arrays of other lists are kept: the invariant holds and only
    entry `l` of the view changes -/
theorem frame {h : AHeap} {l : Nat} {hd : Hdr} (hI : Inv h) (hl : h.lists[l]? = some hd)
    (arrs' : List (List Val)) (hd' : Hdr) (a' : List Val)
    (hpres : ∀ k, k ≠ hd.arr → k < h.arrs.length → arrs'[k]? = h.arrs[k]?)
    (hfresh : hd'.arr = hd.arr ∨ h.arrs.length ≤ hd'.arr)
    (ha : arrs'[hd'.arr]? = some a') (hoff : hd'.off = 0) (hlen : hd'.len ≤ hd'.cap)
    (hcap : hd'.cap ≤ a'.length) :
    Inv ⟨arrs', h.lists.set l hd'⟩ ∧
      view ⟨arrs', h.lists.set l hd'⟩ = (view h).set l (a'.take hd'.len) := by
  have hlt : l < h.lists.length := by
    rcases List.getElem?_eq_some_iff.1 hl with ⟨h1, _⟩; exact h1
  -- facts about other lists
  have other : ∀ j hj, h.lists[j]? = some hj → j ≠ l →
      hj.arr ≠ hd.arr ∧ hj.arr < h.arrs.length ∧ arrs'[hj.arr]? = h.arrs[hj.arr]? := by
    intro j hj hjl hne
    have h1 := hI.distinct j l hj hd hjl hl hne
    obtain ⟨_, _, a, haj, _⟩ := hI.wf j hj hjl
    have h2 : hj.arr < h.arrs.length := by
      rcases List.getElem?_eq_some_iff.1 haj with ⟨h1, _⟩; exact h1
    exact ⟨h1, h2, hpres _ h1 h2⟩
  refine ⟨⟨?_, ?_⟩, ?_⟩
  · intro i hi hget
    simp only [List.getElem?_set] at hget
    split at hget
    · simp only [Option.some.injEq] at hget
      subst hget
      exact ⟨hoff, hlen, a', ha, by omega⟩
    · rename_i hne
      obtain ⟨h1, h2, h3⟩ := other i hi hget (fun e => hne e.symm)
      obtain ⟨w1, w2, a, haj, w3⟩ := hI.wf i hi hget
      exact ⟨w1, w2, a, by simp only [h3]; exact haj, w3⟩
  · intro i j hi hj gi gj hne
    simp only [List.getElem?_set] at gi gj
    split at gi <;> split at gj
    · omega
    · simp only [Option.some.injEq] at gi
      subst gi
      rename_i hne2
      obtain ⟨h1, h2, _⟩ := other j hj gj (fun e => hne2 e.symm)
      rcases hfresh with hf | hf <;> omega
    · simp only [Option.some.injEq] at gj
      subst gj
      rename_i hne2 _
      obtain ⟨h1, h2, _⟩ := other i hi gi (fun e => hne2 e.symm)
      rcases hfresh with hf | hf <;> omega
    · exact hI.distinct i j hi hj gi gj hne
  · apply List.ext_getElem?
    intro i
    simp only [view, List.getElem?_map, List.getElem?_set, List.length_map]
    by_cases hil : l = i
    · subst hil
      simp [hlt, read, arrOf, ha, hoff]
    · simp only [hil, if_false]
      cases hgi : h.lists[i]? with
      | none => rfl
      | some hi =>
        obtain ⟨h1, h2, h3⟩ := other i hi hgi (fun e => hil e.symm)
        simp [read, arrOf, h3]

/-- a new list object on a fresh exact-capacity array -/
theorem frame_alloc {h : AHeap} (hI : Inv h) (a' : List Val) :
    Inv ⟨h.arrs ++ [a'], h.lists ++ [⟨h.arrs.length, 0, a'.length, a'.length⟩]⟩ ∧
      view ⟨h.arrs ++ [a'], h.lists ++ [⟨h.arrs.length, 0, a'.length, a'.length⟩]⟩
        = view h ++ [a'] := by
  have old : ∀ (j : Nat) (hj : Hdr), h.lists[j]? = some hj →
      hj.arr < h.arrs.length ∧ (h.arrs ++ [a'])[hj.arr]? = h.arrs[hj.arr]? := by
    intro j hj hjl
    obtain ⟨_, _, a, haj, _⟩ := hI.wf j hj hjl
    have h2 : hj.arr < h.arrs.length := by
      rcases List.getElem?_eq_some_iff.1 haj with ⟨h1, _⟩; exact h1
    exact ⟨h2, by simp [List.getElem?_append, h2]⟩
  have new : ∀ (j : Nat) (hj : Hdr),
      (h.lists ++ [(⟨h.arrs.length, 0, a'.length, a'.length⟩ : Hdr)])[j]? = some hj →
      (j < h.lists.length ∧ h.lists[j]? = some hj) ∨
      (j = h.lists.length ∧ hj = ⟨h.arrs.length, 0, a'.length, a'.length⟩) := by
    intro j hj hg
    simp only [List.getElem?_append] at hg
    split at hg
    · rename_i hlt; exact .inl ⟨hlt, hg⟩
    · rename_i hnl
      right
      have : j - h.lists.length = 0 := by
        cases hc : j - h.lists.length with
        | zero => rfl
        | succ n => simp [hc] at hg
      simp [this] at hg
      exact ⟨by omega, hg.symm⟩
  refine ⟨⟨?_, ?_⟩, ?_⟩
  · intro i hi hget
    rcases new i hi hget with ⟨_, hg⟩ | ⟨_, rfl⟩
    · obtain ⟨w1, w2, a, haj, w3⟩ := hI.wf i hi hg
      exact ⟨w1, w2, a, by rw [(old i hi hg).2]; exact haj, w3⟩
    · exact ⟨rfl, Nat.le_refl _, a', by simp, by simp⟩
  · intro i j hi hj gi gj hne
    rcases new i hi gi with ⟨li, gi'⟩ | ⟨li, rfl⟩ <;> rcases new j hj gj with ⟨lj, gj'⟩ | ⟨lj, rfl⟩
    · exact hI.distinct i j hi hj gi' gj' hne
    · have := (old i hi gi').1; simp; omega
    · have := (old j hj gj').1; simp; omega
    · omega
  · simp only [view, List.map_append, List.map_cons, List.map_nil]
    congr 1
    · apply List.map_congr_left
      intro hd hmem
      obtain ⟨j, hlt, hj⟩ := List.getElem_of_mem hmem
      have hg : h.lists[j]? = some hd := by simp [hlt, hj]
      have := (old j hd hg).2
      simp [read, arrOf, this]
    · simp [read, arrOf]

/-! ### index helpers -/

theorem resolveIndex_ok {i : Int} {n : Nat} {k : Int} (h : resolveIndex i n = .ok k) :
    0 ≤ k ∧ k < n := by
  unfold resolveIndex at h
  simp only at h
  split at h
  · cases h
  · split at h
    · cases h; rename_i h1 h2; simp at h1 h2; omega
    · split at h
      · cases h
      · cases h; rename_i h1 h2 h3; simp at h1 h2 h3; omega

theorem sliceBounds_ok {st sp n a b : Int} (h : sliceBounds st sp n = some (a, b)) :
    b ≤ n := by
  unfold sliceBounds at h
  grind

theorem resolveIntSlice_ok {s t : Option Val} {n a b : Nat}
    (h : resolveIntSlice s t n = .ok a b) : b ≤ n := by
  unfold resolveIntSlice at h
  split at h
  · cases h
  · split at h
    · cases h
    · split at h
      · cases h
      · rename_i hs
        cases h
        have := sliceBounds_ok hs
        omega

theorem getElem?_lt {α} {xs : List α} {i : Nat} {x : α} (h : xs[i]? = some x) : i < xs.length := by
  rcases List.getElem?_eq_some_iff.1 h with ⟨h1, _⟩; exact h1

/-- `append` on (a prefix header of) list `l`'s own slice: list `l` now shows prefix ++ vs,
    every other list is untouched -/
theorem goAppend_spec (grow : Nat → Nat → Nat) {h : AHeap} {l : Nat} {hd : Hdr} {a : List Val}
    (hI : Inv h) (hl : h.lists[l]? = some hd) (ha : h.arrs[hd.arr]? = some a)
    (hd0 : Hdr) (vs : List Val) (h0arr : hd0.arr = hd.arr) (h0off : hd0.off = 0)
    (h0len : hd0.len ≤ hd0.cap) (h0cap : hd0.cap ≤ a.length) :
    Inv (setHdr (goAppend grow h hd0 vs).1 l (goAppend grow h hd0 vs).2) ∧
    view (setHdr (goAppend grow h hd0 vs).1 l (goAppend grow h hd0 vs).2)
      = (view h).set l (a.take hd0.len ++ vs) := by
  have hal := getElem?_lt ha
  unfold goAppend
  split
  · rename_i hfit
    have hw : writeVs (arrOf h hd0.arr) (hd0.off + hd0.len) vs
        = a.take hd0.len ++ vs ++ a.drop (hd0.len + vs.length) := by
      have : hd0.len + vs.length ≤ a.length := by omega
      simp [writeVs, arrOf, h0arr, ha, h0off, this]
    have := frame hI hl (h.arrs.set hd0.arr (writeVs (arrOf h hd0.arr) (hd0.off + hd0.len) vs))
      { hd0 with len := hd0.len + vs.length } (a.take hd0.len ++ vs ++ a.drop (hd0.len + vs.length))
      (by intro k hk _; rw [h0arr, List.getElem?_set]; simp [Ne.symm hk])
      (.inl h0arr)
      (by rw [hw]; simp [h0arr, hal])
      h0off hfit (by simp; omega)
    have ht : (a.take hd0.len ++ vs ++ a.drop (hd0.len + vs.length)).take (hd0.len + vs.length)
        = a.take hd0.len ++ vs := by
      rw [List.append_assoc, ← List.append_assoc]
      apply List.take_left'
      simp; omega
    simp only [ht] at this
    exact this
  · rename_i hnofit
    have hr : read h hd0 = a.take hd0.len := by
      simp [read, arrOf, h0arr, ha, h0off]
    have hlen : (a.take hd0.len ++ vs).length = hd0.len + vs.length := by
      simp; omega
    simp only [hr, hlen]
    have hcge := Nat.le_max_left (hd0.len + vs.length) (grow hd0.cap (hd0.len + vs.length))
    generalize max (hd0.len + vs.length) (grow hd0.cap (hd0.len + vs.length)) = c at hcge ⊢
    have := frame hI hl
      (h.arrs ++ [a.take hd0.len ++ vs ++ List.replicate (c - (hd0.len + vs.length)) Val.nil])
      ⟨h.arrs.length, 0, hd0.len + vs.length, c⟩
      (a.take hd0.len ++ vs ++ List.replicate (c - (hd0.len + vs.length)) Val.nil)
      (by intro k _ hk; simp [List.getElem?_append, hk])
      (.inr (Nat.le_refl _))
      (by simp)
      rfl hcge (by simp; omega)
    have ht : ∀ r, (a.take hd0.len ++ vs ++ r).take (hd0.len + vs.length) = a.take hd0.len ++ vs :=
      fun r => List.take_left' hlen
    simp only [ht] at this
    exact this

theorem view_get {h : AHeap} {l : Nat} {hd : Hdr} (hI : Inv h) (hl : h.lists[l]? = some hd) :
    ∃ a, h.arrs[hd.arr]? = some a ∧ hd.off = 0 ∧ hd.len ≤ hd.cap ∧ hd.cap ≤ a.length ∧
      (view h)[l]? = some (a.take hd.len) ∧ read h hd = a.take hd.len ∧
      (a.take hd.len).length = hd.len := by
  obtain ⟨w1, w2, a, ha, w3⟩ := hI.wf l hd hl
  refine ⟨a, ha, w1, w2, by omega, ?_, read_of ha w1, by simp; omega⟩
  simp [view, hl, read_of ha w1]

theorem view_none {h : AHeap} {l : Nat} (hl : h.lists[l]? = none) : (view h)[l]? = none := by
  simp [view, hl]

theorem set_self {α} {xs : List α} {l : Nat} {x : α} (h : xs[l]? = some x) : xs.set l x = xs := by
  apply List.ext_getElem?
  intro i
  rw [List.getElem?_set]
  split
  · subst_vars
    rcases List.getElem?_eq_some_iff.1 h with ⟨h1, h2⟩
    simp [h1, h2]
  · rfl

theorem step_append (grow : Nat → Nat → Nat) (h : AHeap) (hI : Inv h) (l : Nat) (v : Val) :
    Inv (stepA grow h (.append l v)).1 ∧
    view (stepA grow h (.append l v)).1 = (stepC (view h) (.append l v)).1 ∧
    (stepA grow h (.append l v)).2 = (stepC (view h) (.append l v)).2 := by
  cases hl : h.lists[l]? with
  | none => simp [stepA, stepA', stepC, hl, view_none hl, hI]
  | some hd =>
    obtain ⟨a, ha, ho, hle, hc, hv, hr, hn⟩ := view_get hI hl
    have := goAppend_spec grow hI hl ha hd [v] rfl ho hle hc
    simp only [stepA, stepA', stepC, hl, hv]
    exact ⟨this.1, this.2, trivial⟩

theorem step_setItem (grow : Nat → Nat → Nat) (h : AHeap) (hI : Inv h) (l : Nat) (i : Int) (v : Val) :
    Inv (stepA grow h (.setItem l i v)).1 ∧
    view (stepA grow h (.setItem l i v)).1 = (stepC (view h) (.setItem l i v)).1 ∧
    (stepA grow h (.setItem l i v)).2 = (stepC (view h) (.setItem l i v)).2 := by
  cases hl : h.lists[l]? with
  | none => simp [stepA, stepA', stepC, hl, view_none hl, hI]
  | some hd =>
    obtain ⟨a, ha, ho, hle, hc, hv, hr, hn⟩ := view_get hI hl
    simp only [stepA, stepA', stepC, hl, hv, Impl.setItem, hn]
    cases hk : resolveIndex i hd.len with
    | err => exact ⟨hI, rfl, rfl⟩
    | ok k =>
      have hb := resolveIndex_ok hk
      have := frame hI hl (h.arrs.set hd.arr (a.set k.toNat v)) hd (a.set k.toNat v)
        (by intro j hj _; rw [List.getElem?_set]; simp [Ne.symm hj])
        (.inl rfl) (by simp [getElem?_lt ha]) ho hle (by simp; omega)
      rw [set_self hl, List.take_set] at this
      simp only [writeAt, arrOf, ha, ho, Option.getD_some, Nat.zero_add]
      exact ⟨this.1, this.2, trivial⟩

theorem step_pop (grow : Nat → Nat → Nat) (h : AHeap) (hI : Inv h) (l : Nat) (i : Int) :
    Inv (stepA grow h (.pop l i)).1 ∧
    view (stepA grow h (.pop l i)).1 = (stepC (view h) (.pop l i)).1 ∧
    (stepA grow h (.pop l i)).2 = (stepC (view h) (.pop l i)).2 := by
  cases hl : h.lists[l]? with
  | none => simp [stepA, stepA', stepC, hl, view_none hl, hI]
  | some hd =>
    obtain ⟨a, ha, ho, hle, hc, hv, hr, hn⟩ := view_get hI hl
    simp only [stepA, stepA', stepC, hl, hv, Impl.pop, hn, hr]
    cases hk : resolveIndex i hd.len with
    | err => exact ⟨hI, rfl, rfl⟩
    | ok k =>
      have hb := resolveIndex_ok hk
      dsimp only
      cases hx : (a.take hd.len)[k.toNat]? with
      | none => exact ⟨hI, rfl, rfl⟩
      | some x =>
        dsimp only
        have := goAppend_spec grow hI hl ha (sub hd 0 k.toNat)
          (read h (sub hd (k.toNat + 1) hd.len)) rfl (by simp [sub, ho])
          (by simp [sub]; omega) (by simp [sub]; omega)
        have he : a.take (sub hd 0 k.toNat).len ++ read h (sub hd (k.toNat + 1) hd.len)
            = Impl.splice (a.take hd.len) k.toNat := by
          simp [sub, read, arrOf, ha, ho, Impl.splice, List.take_take, List.drop_take]
          omega
        rw [he] at this
        exact ⟨this.1, this.2, rfl⟩

theorem alloc_spec {h : AHeap} (hI : Inv h) (vs : List Val) :
    Inv (newList (makeCopy h vs).1 (makeCopy h vs).2).1 ∧
    view (newList (makeCopy h vs).1 (makeCopy h vs).2).1 = view h ++ [vs] ∧
    (newList (makeCopy h vs).1 (makeCopy h vs).2).2 = .val (.ref (view h).length) := by
  have := frame_alloc hI vs
  refine ⟨this.1, this.2, ?_⟩
  simp [newList, makeCopy, view]

theorem step_slice (grow : Nat → Nat → Nat) (h : AHeap) (hI : Inv h) (l : Nat) (s t : Option Val) :
    Inv (stepA grow h (.slice l s t)).1 ∧
    view (stepA grow h (.slice l s t)).1 = (stepC (view h) (.slice l s t)).1 ∧
    (stepA grow h (.slice l s t)).2 = (stepC (view h) (.slice l s t)).2 := by
  cases hl : h.lists[l]? with
  | none => simp [stepA, stepA', stepC, hl, view_none hl, hI]
  | some hd =>
    obtain ⟨a, ha, ho, hle, hc, hv, hr, hn⟩ := view_get hI hl
    simp only [stepA, stepA', stepC, hl, hv, Impl.slice, hn, if_true]
    cases hk : resolveIntSlice s t hd.len with
    | err c => exact ⟨hI, rfl, rfl⟩
    | ok x y =>
      have hb := resolveIntSlice_ok hk
      dsimp only
      have he : read h (sub hd x y) = ((a.take hd.len).drop x).take (y - x) := by
        simp [sub, read, arrOf, ha, ho, List.drop_take, List.take_take]
        omega
      rw [he]
      exact alloc_spec hI _

theorem step_copy (grow : Nat → Nat → Nat) (h : AHeap) (hI : Inv h) (l : Nat) :
    Inv (stepA grow h (.copy l)).1 ∧
    view (stepA grow h (.copy l)).1 = (stepC (view h) (.copy l)).1 ∧
    (stepA grow h (.copy l)).2 = (stepC (view h) (.copy l)).2 := by
  cases hl : h.lists[l]? with
  | none => simp [stepA, stepA', stepC, hl, view_none hl, hI]
  | some hd =>
    obtain ⟨a, ha, ho, hle, hc, hv, hr, hn⟩ := view_get hI hl
    simp only [stepA, stepA', stepC, hl, hv, hr]
    exact alloc_spec hI _

theorem step_clear (grow : Nat → Nat → Nat) (h : AHeap) (hI : Inv h) (l : Nat) :
    Inv (stepA grow h (.clear l)).1 ∧
    view (stepA grow h (.clear l)).1 = (stepC (view h) (.clear l)).1 ∧
    (stepA grow h (.clear l)).2 = (stepC (view h) (.clear l)).2 := by
  cases hl : h.lists[l]? with
  | none => simp [stepA, stepA', stepC, hl, view_none hl, hI]
  | some hd =>
    obtain ⟨a, ha, ho, hle, hc, hv, hr, hn⟩ := view_get hI hl
    simp only [stepA, stepA', stepC, hl, hv]
    have := frame hI hl (h.arrs ++ [[]]) ⟨h.arrs.length, 0, 0, 0⟩ []
      (by intro k _ hk; simp [List.getElem?_append, hk])
      (.inr (Nat.le_refl _)) (by simp) rfl (Nat.le_refl _) (Nat.le_refl _)
    exact ⟨this.1, this.2, trivial⟩

theorem step_extend (grow : Nat → Nat → Nat) (h : AHeap) (hI : Inv h) (l o : Nat) :
    Inv (stepA grow h (.extend l o)).1 ∧
    view (stepA grow h (.extend l o)).1 = (stepC (view h) (.extend l o)).1 ∧
    (stepA grow h (.extend l o)).2 = (stepC (view h) (.extend l o)).2 := by
  cases hl : h.lists[l]? with
  | none => simp [stepA, stepA', stepC, hl, view_none hl, hI]
  | some hd =>
    cases hlo : h.lists[o]? with
    | none => simp [stepA, stepA', stepC, hl, hlo, view_none hlo, hI]
    | some ho' =>
      obtain ⟨a, ha, ho, hle, hc, hv, hr, hn⟩ := view_get hI hl
      obtain ⟨b, hb, -, -, -, hvo, hro, -⟩ := view_get hI hlo
      simp only [stepA, stepA', stepC, hl, hlo, hv, hvo, hro]
      have := goAppend_spec grow hI hl ha hd (b.take ho'.len) rfl ho hle hc
      exact ⟨this.1, this.2, trivial⟩

theorem step_concat (grow : Nat → Nat → Nat) (h : AHeap) (hI : Inv h) (l o : Nat) :
    Inv (stepA grow h (.concat l o)).1 ∧
    view (stepA grow h (.concat l o)).1 = (stepC (view h) (.concat l o)).1 ∧
    (stepA grow h (.concat l o)).2 = (stepC (view h) (.concat l o)).2 := by
  cases hl : h.lists[l]? with
  | none => simp [stepA, stepA', stepC, hl, view_none hl, hI]
  | some hd =>
    cases hlo : h.lists[o]? with
    | none => simp [stepA, stepA', stepC, hl, hlo, view_none hlo, hI]
    | some ho' =>
      obtain ⟨a, ha, ho, hle, hc, hv, hr, hn⟩ := view_get hI hl
      obtain ⟨b, hb, -, -, -, hvo, hro, -⟩ := view_get hI hlo
      simp only [stepA, stepA', stepC, hl, hlo, hv, hvo, hro, hr]
      exact alloc_spec hI _

/-- ONE step: with Go's slice headers, in-place `append` and an arbitrary growth policy, every
    operation of list.go covered by `AOp` (append, setItem, pop, slice, copy, extend, concat,
    clear) keeps the invariant and shows the script exactly what the contents-level model
    (`Impl.setItem`, `Impl.pop`, `Impl.slice`, `++`) says — on EVERY list object, not only the
    receiver — and returns the same result. -/
theorem alias_step_refines (grow : Nat → Nat → Nat) (h : AHeap) (op : AOp) (hI : Inv h) :
    Inv (stepA grow h op).1 ∧
    view (stepA grow h op).1 = (stepC (view h) op).1 ∧
    (stepA grow h op).2 = (stepC (view h) op).2 := by
  cases op with
  | append l v => exact step_append grow h hI l v
  | setItem l i v => exact step_setItem grow h hI l i v
  | pop l i => exact step_pop grow h hI l i
  | slice l s t => exact step_slice grow h hI l s t
  | copy l => exact step_copy grow h hI l
  | extend l o => exact step_extend grow h hI l o
  | concat l o => exact step_concat grow h hI l o
  | clear l => exact step_clear grow h hI l

theorem runA_inv (grow : Nat → Nat → Nat) (ops : List AOp) (h : AHeap) (hI : Inv h) :
    Inv (runA grow h ops) := by
  induction ops generalizing h with
  | nil => exact hI
  | cons op ops ih => exact ih _ (alias_step_refines grow h op hI).1

/-- ALL histories, ALL growth policies: what a script sees of its lists on a heap with Go
    backing-array sharing equals the abstract per-object contents. -/
theorem alias_refines_seq (grow : Nat → Nat → Nat) (ops : List AOp) (h : AHeap) (hI : Inv h) :
    view (runA grow h ops) = runC (view h) ops := by
  induction ops generalizing h with
  | nil => rfl
  | cons op ops ih =>
    have := alias_step_refines grow h op hI
    simp only [runA, runC]
    rw [ih _ this.1, this.2.1]

/-! ### the invariant is satisfiable -/

theorem inv_empty : Inv ⟨[], []⟩ :=
  ⟨by intro i hd hg; simp at hg, by intro i j hi hj gi; simp at gi⟩

theorem mk_aux (ls : List (List Val)) (h : AHeap) (hI : Inv h) :
    Inv (ls.foldl (fun h vs => (newList (makeCopy h vs).1 (makeCopy h vs).2).1) h) ∧
    view (ls.foldl (fun h vs => (newList (makeCopy h vs).1 (makeCopy h vs).2).1) h)
      = view h ++ ls := by
  induction ls generalizing h with
  | nil => simp [hI]
  | cons vs ls ih =>
    have := alloc_spec hI vs
    simp only [List.foldl_cons]
    refine ⟨(ih _ this.1).1, ?_⟩
    rw [(ih _ this.1).2, this.2.1]
    simp

/-- `mk ls` (one exact-capacity backing array per list) satisfies the invariant -/
theorem mk_inv (ls : List (List Val)) : Inv (mk ls) := (mk_aux ls _ inv_empty).1

/-- ... and shows exactly `ls` -/
theorem view_mk (ls : List (List Val)) : view (mk ls) = ls := by
  have := (mk_aux ls _ inv_empty).2
  have h0 : view ⟨[], []⟩ = [] := rfl
  rw [h0, List.nil_append] at this
  exact this

/-- from any given contents, all histories on the slice-header heap equal the abstract run -/
theorem alias_refines_from_mk (grow : Nat → Nat → Nat) (ls : List (List Val)) (ops : List AOp) :
    view (runA grow (mk ls) ops) = runC ls ops := by
  rw [alias_refines_seq grow ops _ (mk_inv ls), view_mk]

/-! ### no write-through -/

/-- appending to list object `j` never changes what any OTHER list object `l` shows,
    whatever arrays and capacities the history has left behind -/
theorem append_other_no_write_through (grow : Nat → Nat → Nat) (h : AHeap) (hI : Inv h)
    (l j : Nat) (v : Val) (hne : j ≠ l) :
    (view (stepA grow h (.append j v)).1)[l]? = (view h)[l]? := by
  rw [(alias_step_refines grow h (.append j v) hI).2.1]
  simp only [stepC]
  split
  · rfl
  · simp [hne]

/-- `a := l[start:stop]; a.append(v)` after ANY history (any `h` with `Inv h`, e.g.
    `runA grow (mk ls) ops`) and under any growth policy: list `l` shows what it showed before.
    (`h.lists.length` is the handle of the slice result.) -/
theorem slice_then_append_no_write_through (grow : Nat → Nat → Nat) (h : AHeap) (hI : Inv h)
    (l : Nat) (s t : Option Val) (v : Val) (hl : l < h.lists.length) :
    (view (runA grow h [.slice l s t, .append h.lists.length v]))[l]? = (view h)[l]? := by
  have h1 := alias_step_refines grow h (.slice l s t) hI
  have hl' : l < (view h).length := by simpa [view] using hl
  simp only [runA]
  rw [append_other_no_write_through grow _ h1.1 l _ v (by omega), h1.2.1]
  simp only [stepC]
  split
  · rfl
  · split
    · rfl
    · simp [List.getElem?_append, hl']

/-- the same for every history before the slice, starting from arbitrary contents -/
theorem slice_then_append_no_write_through_hist (grow : Nat → Nat → Nat) (ls : List (List Val))
    (ops : List AOp) (l : Nat) (s t : Option Val) (v : Val)
    (hl : l < (runA grow (mk ls) ops).lists.length) :
    (view (runA grow (runA grow (mk ls) ops)
        [.slice l s t, .append (runA grow (mk ls) ops).lists.length v]))[l]?
      = (runC ls ops)[l]? := by
  rw [slice_then_append_no_write_through grow _ (runA_inv grow ops _ (mk_inv ls)) l s t v hl,
    alias_refines_from_mk]

/-! ### the model CAN express write-through: `GetSlice` without the copy -/

def exHeap : AHeap := mk [[.int 1, .int 2, .int 3]]
def exOps : List AOp := [.slice 0 (some (.int 0)) (some (.int 2)), .append 1 (.int 9)]

/-- with the copy (the code as it is): `l` keeps `[1,2,3]`, the slice becomes `[1,2,9]` -/
theorem sliceCopy_example :
    view (runA (fun c _ => 2 * c) exHeap exOps)
      = [[.int 1, .int 2, .int 3], [.int 1, .int 2, .int 9]] := by decide

/-- without the copy: `l = [1,2,3]` (cap 3), `a := l[0:2]` (cap 3), `a.append(9)` writes cell 2
    of the shared array: `l` shows `[1,2,9]` -/
theorem sliceNoCopy_example :
    view (runA_sliceNoCopy (fun c _ => 2 * c) exHeap exOps)
      = [[.int 1, .int 2, .int 9], [.int 1, .int 2, .int 9]] := by decide

/-- the refinement theorem is FALSE for the variant whose `GetSlice` shares the array -/
theorem sliceNoCopy_writes_through :
    ¬ (∀ (grow : Nat → Nat → Nat) (ops : List AOp) (h : AHeap), Inv h →
        view (runA_sliceNoCopy grow h ops) = runC (view h) ops) := by
  intro H
  have := H (fun c _ => 2 * c) exOps exHeap (mk_inv _)
  revert this
  decide

end Risor.C16.Alias
