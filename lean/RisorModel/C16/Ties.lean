import RisorModel.C16.Model
import RisorModel.Generated.C16
/-!
C16 ties: the definitions regenerated from `object/list.go` by the extractor on this run
equal the hand copies the executable model (and therefore the oracle) uses.
-/
namespace Risor.C16

theorem resolveIndex_tie (idx size : Int) :
    Risor.Generated.C16.resolveIndex idx size = resolveIndex idx size := rfl

-- `ResolveIntSlice` as translated from the source on this run = the copy in Model.lean that
-- `resolveIntSlice_eq_go` (SliceProps) relates to the machine's `resolveIntSlice` for all inputs
theorem resolveIntSlice_tie (sStart sStop : Option Val) (size : Int) :
    Risor.Generated.C16.resolveIntSliceGo sStart sStop size = resolveIntSliceGo sStart sStop size := rfl

-- `(*List).Insert`'s index arithmetic and choice of slice operation as translated from the
-- source on this run = the copy in Model.lean (`insert_eq_act` in SliceProps: = `Impl.insert`)
theorem insertAct_tie (index n : Int) :
    Risor.Generated.C16.insertAct index n = insertAct index n := rfl

end Risor.C16
