import RisorModel.C16.Model
import RisorModel.Generated.C16
/-!
C16 ties: the definition regenerated from `object/list.go` by the extractor on this run
equals the hand copy the executable model (and therefore the oracle) uses.
-/
namespace Risor.C16

theorem resolveIndex_tie (idx size : Int) :
    Risor.Generated.C16.resolveIndex idx size = resolveIndex idx size := rfl

end Risor.C16
