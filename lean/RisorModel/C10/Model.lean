/-
C10 — executable model of risor's channels (object/chan.go) and spawned threads
(object/spawn.go, object/thread.go, vm.cloneCallAsync), as the code IS (Impl), next to
what the property demands (Spec).

Channel.  One Go channel of capacity `cap` shared by any number of script goroutines
("threads", identified by a number).  Every step is one atomic action of one thread:

* `send t v`      `c <- v` / `c.send(v)`: error once closed, enqueue when there is room,
                  otherwise not enabled (the thread stays blocked in the `select`);
* `recv t`        `<-c` / `c.receive()`: dequeue; `nil` once closed and drained; otherwise
                  not enabled;
* `close t`       `close(c)` / `c.close()`: error when already closed;
* `next t`, `entry t`   the TWO steps the `ForIter` instruction performs for
                  `for _, v := range c`: `Chan.Next` dequeues into the channel's *shared*
                  field `lastReceived` (and bumps `rxCount`), then `Chan.Entry` reads that
                  field back.  Between the two steps of one thread any other thread may run;
* `peek t`        `Chan.Entry()` called outside an iteration (Go API only);
* `handoff s r v iter`  unbuffered rendezvous: sender `s` hands `v` to a receiver `r` that
                  is blocked in `recv` (`iter = false`) or in `next` (`iter = true`).

The record also carries history ("ghost") fields that the code does not have: `sent`,
`deq`, `deliv`, `pend`.  They never influence a step; theorems are stated over them.

Threads.  `spawn` evaluates the argument expressions, the arguments travel in a Go slice,
`object.Spawn` copies that slice, the copy is what the spawned call reads when it starts;
`Thread.result` is written once when the call returns and `wait` reads it after `done`.

Core Lean only.
-/
namespace Risor.C10

/-- A message.  In the canonical runs of the harness it is (sender id, sequence number of
    that sender); nothing in the channel model looks inside. -/
abbrev Msg := Nat × Nat

structure Chan where
  cap : Nat
  buf : List Msg := []            -- the Go channel's queue, head = oldest
  closed : Bool := false
  last : Option Msg := none       -- Chan.lastReceived
  rx : Nat := 0                   -- Chan.rxCount
  -- history fields (not in the code)
  pend : List (Nat × Msg) := []   -- threads between their Next and their Entry, with what their Next dequeued
  sent : List Msg := []           -- every value the channel accepted, in enqueue order
  deq : List (Nat × Msg) := []    -- every dequeue (receiver, value), in order
  deliv : List (Nat × Msg) := []  -- every value handed to script code (receiver, value), in order
  deriving Repr, DecidableEq

def init (cap : Nat) : Chan := { cap := cap }

inductive Op where
  | send (t : Nat) (v : Msg)
  | recv (t : Nat)
  | close (t : Nat)
  | next (t : Nat)
  | entry (t : Nat)
  | peek (t : Nat)
  | handoff (s r : Nat) (v : Msg) (iter : Bool)
  deriving Repr, DecidableEq

inductive Obs where
  | sendOk | sendErr | closeOk | closeErr
  | val (v : Msg) | nil                -- result of a receive
  | nextOk (v : Msg) | nextEnd         -- result of Chan.Next
  | ent (key : Nat) (v : Msg) | entNone  -- result of Chan.Entry
  deriving Repr, DecidableEq

def isPend (c : Chan) (t : Nat) : Bool := c.pend.any (fun p => p.1 == t)

/-- the value thread `t`'s own `Next` dequeued (history) -/
def pendVal (c : Chan) (t : Nat) : Option Msg := (c.pend.find? (fun p => p.1 == t)).map (·.2)

def dropPend (c : Chan) (t : Nat) : List (Nat × Msg) := c.pend.eraseP (fun p => p.1 == t)

/-- effect of an explicit receive of `v` by `t` on the history -/
def recvOf (c : Chan) (t : Nat) (v : Msg) (rest : List Msg) : Chan :=
  { c with buf := rest, deq := c.deq ++ [(t, v)], deliv := c.deliv ++ [(t, v)] }

/-- effect of `Chan.Next` dequeuing `v` for `t` -/
def nextOf (c : Chan) (t : Nat) (v : Msg) (rest : List Msg) : Chan :=
  { c with buf := rest, last := some v, rx := c.rx + 1, pend := c.pend ++ [(t, v)],
           deq := c.deq ++ [(t, v)] }

/-- **Impl**: one atomic step of the code as it is.  `none` = the action is not enabled
    (the thread is blocked, or the action cannot be the thread's next one). -/
def step (c : Chan) : Op → Option (Chan × Obs)
  | .send t v =>
    if isPend c t then none
    else if c.closed then some (c, .sendErr)
    else if c.buf.length < c.cap then
      some ({ c with buf := c.buf ++ [v], sent := c.sent ++ [v] }, .sendOk)
    else none
  | .recv t =>
    if isPend c t then none
    else match c.buf with
      | v :: rest => some (recvOf c t v rest, .val v)
      | [] => if c.closed then some (c, .nil) else none
  | .close t =>
    if isPend c t then none
    else if c.closed then some (c, .closeErr)
    else some ({ c with closed := true }, .closeOk)
  | .next t =>
    if isPend c t then none
    else match c.buf with
      | v :: rest => some (nextOf c t v rest, .nextOk v)
      | [] => if c.closed then some (c, .nextEnd) else none
  | .entry t =>
    if isPend c t then
      match c.last with
      | some v => some ({ c with pend := dropPend c t, deliv := c.deliv ++ [(t, v)] }, .ent (c.rx - 1) v)
      | none => some ({ c with pend := dropPend c t }, .entNone)
    else none
  | .peek t =>
    if isPend c t then none
    else match c.last with
      | some v => some (c, .ent (c.rx - 1) v)
      | none => some (c, .entNone)
  | .handoff s r v iter =>
    if isPend c s || isPend c r || s == r || c.closed || c.cap != 0 || !c.buf.isEmpty then none
    else
      let c1 := { c with sent := c.sent ++ [v] }
      if iter then some (nextOf c1 r v [], .nextOk v) else some (recvOf c1 r v [], .val v)

/-- **Spec**: the same machine except that the second half of an iteration step hands the
    iterating thread the value *its own* `Next` dequeued. -/
def specStep (c : Chan) : Op → Option (Chan × Obs)
  | .entry t =>
    match pendVal c t with
    | some v => some ({ c with pend := dropPend c t, deliv := c.deliv ++ [(t, v)] }, .ent (c.rx - 1) v)
    | none => none
  | o => step c o

/-- run a schedule; `none` when some action of the schedule is not enabled -/
def run (c : Chan) : List Op → Option Chan
  | [] => some c
  | o :: os =>
    match step c o with
    | some (c', _) => run c' os
    | none => none

def specRun (c : Chan) : List Op → Option Chan
  | [] => some c
  | o :: os =>
    match specStep c o with
    | some (c', _) => specRun c' os
    | none => none

/-- observations of a schedule, for the oracle: a blocked action is reported as `none`
    and leaves the state unchanged -/
def trace (stp : Chan → Op → Option (Chan × Obs)) (c : Chan) : List Op → List (Option Obs) × Chan
  | [] => ([], c)
  | o :: os =>
    match stp c o with
    | some (c', ob) => let (r, cf) := trace stp c' os; (some ob :: r, cf)
    | none => let (r, cf) := trace stp c os; (none :: r, cf)

/-- thread ids that take part in an iteration (`range`) in a schedule -/
def iterThreads : List Op → List Nat
  | [] => []
  | .next t :: os => t :: iterThreads os
  | .entry t :: os => t :: iterThreads os
  | .handoff _ r _ true :: os => r :: iterThreads os
  | _ :: os => iterThreads os

/-- **Guard**: every iteration step of the schedule is by the one thread `t0`
    ("at most one iterating receiver on the channel"). -/
def onlyIter (t0 : Nat) (ops : List Op) : Bool := (iterThreads ops).all (· == t0)

def atMostOneIterator (ops : List Op) : Bool :=
  match iterThreads ops with
  | [] => true
  | t :: _ => onlyIter t ops

/-! ### What the property demands of a channel state (Spec as laws) -/

def values (l : List (Nat × Msg)) : List Msg := l.map (·.2)

def fromSender (i : Nat) (l : List Msg) : List Msg := l.filter (fun m => m.1 == i)

def byReceiver (j : Nat) (l : List (Nat × Msg)) : List Msg := values (l.filter (fun p => p.1 == j))

/-- every accepted value was handed out exactly once or is still queued -/
def ExactlyOnce (c : Chan) : Prop := (values c.deliv ++ c.buf).Perm c.sent

/-- values of each sender were handed out (and are queued) in the order that sender sent them -/
def PerSenderOrder (c : Chan) : Prop :=
  ∀ i, fromSender i (values c.deliv ++ c.buf) = fromSender i c.sent

/-- each receiver observes the values of each sender in the order that sender sent them -/
def ReceiverOrder (c : Chan) : Prop :=
  ∀ i j, (fromSender i (byReceiver j c.deliv)).Sublist (fromSender i c.sent)

/-! ### Histories observed on the real code (per-thread logs) and their judge -/

/-- `next[i]` = how many messages of sender `i` the merge has consumed -/
def headEnabled (next : List Nat) : List Msg → Bool
  | [] => false
  | m :: _ => next[m.1]? == some m.2

def findEnabled (next : List Nat) : List (List Msg) → Nat → Option Nat
  | [], _ => none
  | r :: rs, j => if headEnabled next r then some j else findEnabled next rs (j + 1)

/-- consume the head of the first receiver log whose head is the next message of its sender -/
def mergeStep (next : List Nat) (recv : List (List Msg)) : Option (List Nat × List (List Msg)) :=
  match findEnabled next recv 0 with
  | none => none
  | some j =>
    match recv[j]? with
    | some (m :: rest) => some (next.set m.1 (m.2 + 1), recv.set j rest)
    | _ => none

def mergeRun (counts : List Nat) : Nat → List Nat → List (List Msg) → Bool
  | 0, next, recv => recv.all List.isEmpty && next == counts
  | fuel + 1, next, recv =>
    match mergeStep next recv with
    | none => recv.all List.isEmpty && next == counts
    | some (next', recv') => mergeRun counts fuel next' recv'

def totalLen (recv : List (List Msg)) : Nat := (recv.map List.length).sum

/-- **Judge of a finished run** (channel closed and drained, every receiver saw the end):
    sender `i` sent `(i,0) … (i,counts[i]-1)` in this order and receiver `j` observed
    `recv[j]`.  True iff the receivers' logs can be merged into one arrival order in which
    every sent message occurs exactly once and each sender's messages occur in sending
    order. -/
def validHistory (counts : List Nat) (recv : List (List Msg)) : Bool :=
  mergeRun counts (totalLen recv) (counts.map fun _ => 0) recv

/-- multiplicity table of a set of logs: `tab[i][k]` = how often `(i,k)` was observed;
    second component = number of observed messages that were never sent -/
def tally (counts : List Nat) (recv : List (List Msg)) : Array (Array Nat) × Nat :=
  let tab0 : Array (Array Nat) := (counts.map fun n => Array.replicate n 0).toArray
  recv.foldl (fun acc r => r.foldl (fun (acc : Array (Array Nat) × Nat) m =>
    if h : m.1 < acc.1.size then
      if m.2 < acc.1[m.1].size then (acc.1.modify m.1 (fun row => row.modify m.2 (· + 1)), acc.2)
      else (acc.1, acc.2 + 1)
    else (acc.1, acc.2 + 1)) acc) (tab0, 0)

structure DupLoss where
  dups : Nat      -- surplus deliveries (a value observed k times counts k-1)
  lost : Nat      -- sent values observed by nobody
  alien : Nat     -- observed values nobody sent
  deriving Repr, DecidableEq

def dupLoss (counts : List Nat) (recv : List (List Msg)) : DupLoss :=
  let (tab, alien) := tally counts recv
  let flat := tab.toList.flatMap Array.toList
  { dups := (flat.map (fun k => k - 1)).sum, lost := (flat.filter (· == 0)).length, alien := alien }

/-- **Defect pattern of the shared `lastReceived`** as the Impl model produces it (see
    `Props.impl_iteration_counts`): nothing alien, as many deliveries as sends, at least
    one value handed out twice and (hence) as many values lost as surplus deliveries. -/
def defectPattern (counts : List Nat) (recv : List (List Msg)) : Bool :=
  let d := dupLoss counts recv
  d.alien == 0 && d.dups == d.lost && d.lost ≥ 1

/-! ### Spawned threads -/

inductive Body where
  | echo        -- returns its arguments followed by the shared variables it reads when it runs
  | fail        -- raises an error carrying the same data
  | panic       -- faults with a Go panic inside the call (a panicking builtin, the frame array
                -- overflowing under unbounded recursion); `NewThread` recovers it into the
                -- thread's error "panic: …"
  deriving Repr, DecidableEq

inductive Outcome where
  | ret (vs : List Int)
  | err (vs : List Int)
  | panicked (vs : List Int)   -- the error `NewThread`'s recover stores: still an outcome of the call
  deriving Repr, DecidableEq

def Body.eval : Body → List Int → Outcome
  | .echo, vs => .ret vs
  | .fail, vs => .err vs
  | .panic, vs => .panicked vs

/-- An argument expression at a spawn site (`go f(e…)`, `go o.m(e…)`, `spawn(f, e…)`,
    `f.spawn(e…)`): a variable, a literal, or a *nested call* — with a side effect on the
    spawner's variables (`tick`) or pure (`dbl`), nested to any depth. -/
inductive Arg where
  | var (i : Nat)      -- `v_i`
  | lit (k : Int)      -- a literal
  | tick (i : Nat)     -- nested call `tick_i()`:  `v_i = v_i + 1; return v_i`
  | dbl (a : Arg)      -- nested call `dbl(a)` = 2 * a
  deriving Repr, DecidableEq

/-- value of one argument expression and the spawner's variables after evaluating it -/
def evalArg (vars : List Int) : Arg → Int × List Int
  | .var i => (vars.getD i 0, vars)
  | .lit k => (k, vars)
  | .tick i => (vars.getD i 0 + 1, vars.set i (vars.getD i 0 + 1))
  | .dbl a => (2 * (evalArg vars a).1, (evalArg vars a).2)

/-- the argument list is evaluated left to right, each expression once, by the spawner -/
def evalArgs (vars : List Int) : List Arg → List Int × List Int
  | [] => ([], vars)
  | a :: as => ((evalArg vars a).1 :: (evalArgs (evalArg vars a).2 as).1, (evalArgs (evalArg vars a).2 as).2)

structure Thread where
  slice : Nat                      -- id of the Go slice the call reads its arguments from
  body : Body
  result : Option Outcome := none  -- Thread.result; `none` until the call returned
  deriving Repr, DecidableEq

structure TState where
  vars : List Int := []                   -- the spawner's own variables
  shared : List Int := []                 -- variables reached through closures / globals (shared with clones)
  heap : List (List Int × Bool) := []     -- Go slices holding arguments; `true` = the spawner/host still holds it
  threads : List Thread := []
  finished : List (Nat × Outcome) := []   -- history: which call returned what
  deriving Repr, DecidableEq

inductive TOp where
  | assign (i : Nat) (v : Int)            -- spawner reassigns one of its variables
  | setShared (i : Nat) (v : Int)         -- anybody writes a shared variable
  | spawn (args : List Arg) (body : Body)   -- `go f(e…)`, `go o.m(e…)`, `spawn(f, e…)`, `f.spawn(e…)`
  | poke (sl i : Nat) (v : Int)           -- the holder of slice `sl` overwrites element `i` (Go API level)
  | runT (t : Nat)                        -- thread `t`'s call runs and returns
  | wait (t : Nat)
  deriving Repr, DecidableEq

inductive TObs where
  | unit
  | spawned (t : Nat) (callerSlice : Nat) (vars : List Int)   -- vars = the spawner's variables right after the statement
  | ran (r : Outcome)
  | waited (r : Outcome)
  deriving Repr, DecidableEq

def argVals (vars : List Int) (argVars : List Nat) : List Int := argVars.map (fun i => vars.getD i 0)

/-- `copySlice = true` is the code as it is (`object.Spawn` copies); `false` models the
    variant without the copy and exists only so that the theorems can show the copy matters. -/
def tstepWith (copySlice : Bool) (s : TState) : TOp → Option (TState × TObs)
  | .assign i v => some ({ s with vars := s.vars.set i v }, .unit)
  | .setShared i v => some ({ s with shared := s.shared.set i v }, .unit)
  | .spawn args body =>
    -- the argument expressions (nested calls included) are evaluated here, by the spawner,
    -- with their side effects; the spawned call only ever sees the resulting values
    let vals := (evalArgs s.vars args).1
    let vars' := (evalArgs s.vars args).2
    let caller := s.heap.length
    if copySlice then
      some ({ s with vars := vars',
                     heap := s.heap ++ [(vals, true), (vals, false)],
                     threads := s.threads ++ [{ slice := caller + 1, body := body }] },
            .spawned s.threads.length caller vars')
    else
      some ({ s with vars := vars',
                     heap := s.heap ++ [(vals, true)],
                     threads := s.threads ++ [{ slice := caller, body := body }] },
            .spawned s.threads.length caller vars')
  | .poke sl i v =>
    match s.heap[sl]? with
    | some (xs, true) => some ({ s with heap := s.heap.set sl (xs.set i v, true) }, .unit)
    | _ => none
  | .runT t =>
    match s.threads[t]? with
    | some th =>
      match th.result, s.heap[th.slice]? with
      | none, some (args, _) =>
        let r := th.body.eval (args ++ s.shared)
        some ({ s with threads := s.threads.set t { th with result := some r },
                       finished := s.finished ++ [(t, r)] }, .ran r)
      | _, _ => none
    | none => none
  | .wait t =>
    match s.threads[t]? with
    | some th =>
      match th.result with
      | some r => some (s, .waited r)
      | none => none          -- `<-t.done` blocks
    | none => none

/-- **Impl** of the thread machine -/
def tstep : TState → TOp → Option (TState × TObs) := tstepWith true

def trun (s : TState) : List TOp → Option TState
  | [] => some s
  | o :: os =>
    match tstep s o with
    | some (s', _) => trun s' os
    | none => none

def ttrace (stp : TState → TOp → Option (TState × TObs)) (s : TState) : List TOp → List (Option TObs)
  | [] => []
  | o :: os =>
    match stp s o with
    | some (s', ob) => some ob :: ttrace stp s' os
    | none => none :: ttrace stp s os

/-- the arguments thread `t`'s call reads -/
def threadArgs (s : TState) (t : Nat) : Option (List Int) :=
  match s.threads[t]? with
  | some th => (s.heap[th.slice]?).map (·.1)
  | none => none

/-! ### Thread trees: who started whom, who has returned, under which context each runs

Script threads form a TREE: the main program (thread 0) starts threads with `spawn(f,…)`,
`f.spawn(…)` or `go f(…)`, and every spawned function may start further threads.  Each
thread's code runs under a Go `context.Context`; every blocking channel operation is a
`select` over the channel and that context's `Done()`.

A context is represented by the list of *cancel scopes* it lies in (scope 0 = the context
the host handed to the run); it is done iff one of its scopes has been cancelled.  In the
code as it is (`cloneCallAsync` → `NewThread(clone.initContext(ctx), …)` →
`callFuncAdapter.Call(ctx)` → `callFunc(ctx, …)`) the context of a spawned thread is derived
from the spawner's by `context.WithValue` only: it lies in exactly the spawner's scopes, and
a function returning cancels nothing.  `ownScope = true` is the variant in which every spawned
call runs in a cancel scope of its own that is cancelled when the call returns; it exists
only so that the theorems can show that the context is part of what delivery depends on. -/

structure Net where
  chans : List Chan := []
  parent : List Nat := [0]            -- parent[t] = the thread that started t (thread 0 = the main program)
  ctx : List (List Nat) := [[0]]      -- ctx[t] = the cancel scopes thread t's code runs under
  returned : List Nat := []           -- the `returned` flags: threads whose call has ended
  cancelled : List Nat := []          -- cancel scopes cancelled so far
  nscopes : Nat := 1
  deriving Repr, DecidableEq

def ninit (caps : List Nat) : Net := { chans := caps.map init }

inductive NOp where
  | chan (k : Nat) (o : Op)      -- the thread(s) named in `o` act on channel `k`
  | spawn (p : Nat)              -- thread `p` starts a new thread (any spawn form)
  | ret (t : Nat)                -- thread `t`'s function returns
  | wait (w t : Nat)             -- thread `w` waits for thread `t` (`t.wait()`)
  | abort (t : Nat)              -- thread `t` finds its context done: its pending send/receive/range
                                 -- fails with the context's error and the thread ends
  | cancel                       -- the host cancels the run's context
  deriving Repr, DecidableEq

inductive NObs where
  | chan (ob : Obs)
  | spawned (t : Nat)
  | unit
  | aborted
  deriving Repr, DecidableEq

/-- the threads that act in a channel operation -/
def actors : Op → List Nat
  | .send t _ => [t]
  | .recv t => [t]
  | .close t => [t]
  | .next t => [t]
  | .entry t => [t]
  | .peek t => [t]
  | .handoff s r _ _ => [s, r]

def isReturned (s : Net) (t : Nat) : Bool := s.returned.contains t

/-- thread `t` exists and its call has not ended -/
def live (s : Net) (t : Nat) : Bool := decide (t < s.ctx.length) && !isReturned s t

def ctxOf (s : Net) (t : Nat) : List Nat := s.ctx.getD t []

/-- `ctx.Done()` of thread `t` is ready -/
def ctxDone (s : Net) (t : Nat) : Bool := (ctxOf s t).any (fun sc => s.cancelled.contains sc)

def nstepWith (ownScope : Bool) (s : Net) : NOp → Option (Net × NObs)
  | .chan k o =>
    if (actors o).all (live s) then
      match s.chans[k]? with
      | some c =>
        match step c o with
        | some (c', ob) => some ({ s with chans := s.chans.set k c' }, .chan ob)
        | none => none
      | none => none
    else none
  | .spawn p =>
    if live s p then
      if ownScope then
        some ({ s with parent := s.parent ++ [p], ctx := s.ctx ++ [ctxOf s p ++ [s.nscopes]],
                       nscopes := s.nscopes + 1 }, .spawned s.ctx.length)
      else
        -- the code as it is: the child's context lies in exactly the spawner's scopes
        some ({ s with parent := s.parent ++ [p], ctx := s.ctx ++ [ctxOf s p] }, .spawned s.ctx.length)
    else none
  | .ret t =>
    if t != 0 && live s t then
      if ownScope then
        some ({ s with returned := s.returned ++ [t],
                       cancelled := s.cancelled ++ [(ctxOf s t).getLastD 0] }, .unit)
      else
        -- the code as it is: a return ends the thread and touches no context
        some ({ s with returned := s.returned ++ [t] }, .unit)
    else none
  | .wait w t =>
    if live s w && isReturned s t then some (s, .unit) else none
  | .abort t =>
    if live s t && ctxDone s t then some ({ s with returned := s.returned ++ [t] }, .aborted) else none
  | .cancel => some ({ s with cancelled := s.cancelled ++ [0] }, .unit)

/-- **Impl** of the thread tree: the code as it is -/
def nstep : Net → NOp → Option (Net × NObs) := nstepWith false

def nrunWith (ownScope : Bool) (s : Net) : List NOp → Option Net
  | [] => some s
  | o :: os =>
    match nstepWith ownScope s o with
    | some (s', _) => nrunWith ownScope s' os
    | none => none

def nrun : Net → List NOp → Option Net := nrunWith false

def ntrace (ownScope : Bool) (s : Net) : List NOp → List (Option NObs) × Net
  | [] => ([], s)
  | o :: os =>
    match nstepWith ownScope s o with
    | some (s', ob) => let (r, sf) := ntrace ownScope s' os; (some ob :: r, sf)
    | none => let (r, sf) := ntrace ownScope s os; (none :: r, sf)

/-- the operations of a schedule that act on channel `k` -/
def chanOpsOf (k : Nat) : List NOp → List Op
  | [] => []
  | .chan k' o :: os => if k' = k then o :: chanOpsOf k os else chanOpsOf k os
  | _ :: os => chanOpsOf k os

/-- does the action `o` involve thread `p` (as actor, spawner, the one returning, waiter or waited-for)? -/
def involves (p : Nat) : NOp → Bool
  | .chan _ o => (actors o).contains p
  | .spawn q => q == p
  | .ret t => t == p
  | .wait w t => w == p || t == p
  | .abort t => t == p
  | .cancel => false

/-- **Spec** of the tree (what the property demands): a thread's channel operation is cut
    short only when the run itself has been cancelled. -/
def runCancelled (s : Net) : Bool := s.cancelled.contains 0

/-! ### "Closed and drained" is ONE test

A receive — explicit (`<-c`, `c.receive()`) or the first half of a `range` step
(`Chan.Next`) — reports "closed" (nil / end of iteration) on the strength of ONE atomic look
at the channel: *the queue is empty and the channel is closed, at the same moment*.  In the
code this is the single `case value, ok := <-c.value` of the `select` (Go's channel lock makes
"empty" and "closed" one reading).  `step` has exactly this shape; `closedAndDrained` names
the test so that the theorems can speak about it. -/

/-- the test behind every "closed" report: queue empty ∧ closed, read together -/
def closedAndDrained (c : Chan) : Bool := c.buf.isEmpty && c.closed

/-- receive-side observations that say "closed": nil from a receive, the end from `Next` -/
def Obs.reportsClosed : Obs → Bool
  | .nil => true
  | .nextEnd => true
  | _ => false

/-- the explicit presentation of a receive as "atomic test first" (proved equal to
    `step c (.recv t)` in `Props.recv_is_atomic_test`) -/
def recvAtomic (c : Chan) (t : Nat) : Option (Chan × Obs) :=
  if isPend c t then none
  else if closedAndDrained c then some (c, .nil)
  else match c.buf with
    | v :: rest => some (recvOf c t v rest, .val v)
    | [] => none

/-- the same for `Chan.Next` (`Props.next_is_atomic_test`) -/
def nextAtomic (c : Chan) (t : Nat) : Option (Chan × Obs) :=
  if isPend c t then none
  else if closedAndDrained c then some (c, .nextEnd)
  else match c.buf with
    | v :: rest => some (nextOf c t v rest, .nextOk v)
    | [] => none

/-- **Contrast only — NOT the code.**  A receive that reads "empty" and "closed" at two
    different moments: `poll t` is a non-blocking look at the queue — it dequeues when there
    is a value and otherwise only remembers that `t` found the queue empty; `flag t` is the
    later reading of a separate closed flag by such a thread: when the flag is set the thread
    reports "closed" WITHOUT looking at the queue again, otherwise it goes on to the blocking
    receive (an ordinary `base` step).  Any other thread may act between the two.  It exists
    only so that `Props.two_step_variant_loses_a_value` can show why the test must be one. -/
structure Chan2 where
  c : Chan
  sawEmpty : List Nat := []     -- threads between their poll and their reading of the flag
  deriving Repr, DecidableEq

inductive Op2 where
  | base (o : Op)                  -- a step of the channel machine as it is
  | poll (t : Nat) (iter : Bool)   -- first moment: is a value queued?
  | flag (t : Nat) (iter : Bool)   -- second moment: is the closed flag set?
  deriving Repr, DecidableEq

def step2 (s : Chan2) : Op2 → Option (Chan2 × Option Obs)
  | .base o =>
    if (actors o).any (fun t => s.sawEmpty.contains t) then none
    else match step s.c o with
      | some (c', ob) => some ({ s with c := c' }, some ob)
      | none => none
  | .poll t iter =>
    if s.sawEmpty.contains t || isPend s.c t then none
    else match s.c.buf with
      | v :: rest =>
        if iter then some ({ s with c := nextOf s.c t v rest }, some (.nextOk v))
        else some ({ s with c := recvOf s.c t v rest }, some (.val v))
      | [] => some ({ s with sawEmpty := s.sawEmpty ++ [t] }, none)
  | .flag t iter =>
    if s.sawEmpty.contains t then
      if s.c.closed then
        some ({ s with sawEmpty := s.sawEmpty.erase t }, some (if iter then .nextEnd else .nil))
      else some ({ s with sawEmpty := s.sawEmpty.erase t }, none)
    else none

/-- run the contrast machine; the observations are kept (a `none` entry = an internal step) -/
def run2 (s : Chan2) : List Op2 → Option (Chan2 × List (Option Obs))
  | [] => some (s, [])
  | o :: os =>
    match step2 s o with
    | some (s', ob) =>
      match run2 s' os with
      | some (sf, obs) => some (sf, ob :: obs)
      | none => none
    | none => none

/-! ### Which VM a thread's script code runs on

Every script thread executes script code on a VM (`vm.VirtualMachine`: frame array, data
stack, `ip`/`fp`/`sp`).  The main program runs on VM 0.  `object.Spawn` hands EVERY spawned
callable — a compiled function (`*object.Function`, through `callFuncAdapter`), a builtin
(`spawn(print, …)`), a bound method of a container (`items.map.spawn(f)`, `go items.each(f)`),
`call`, `try`, `sorted` … — to `vm.cloneCallAsync`, which makes a fresh clone and starts the
thread under `clone.initContext(ctx)`: whatever script code the thread causes to run (its own
body, or the callbacks a builtin invokes through the context's call function) runs on that
clone.  A VM is abstracted to one register `ip` = how many script steps have been executed on
it; `pos[t]` (history, not in the code) = how many script steps thread `t` itself executed.

`cloneAll = true` is the code as it is.  `false` is the variant in which only compiled
functions get a clone and every other callable runs on the spawner's VM; it exists only so
that the theorems can show that the clone is part of what the property depends on. -/

inductive Callee where
  | fn        -- a compiled function
  | builtin   -- a builtin (`call`, `try`, `sorted`, a host builtin …)
  | method    -- a bound method of a container (`items.map`, `items.each`, `items.filter`)
  deriving Repr, DecidableEq

structure VMs where
  vmOf : List Nat := [0]       -- vmOf[t] = the VM thread t's script code runs on
  ip : List Nat := [0]         -- ip[v] = register of VM v
  pos : List Nat := [0]        -- pos[t] = script steps thread t has executed (history)
  deriving Repr, DecidableEq

inductive VOp where
  | spawn (p : Nat) (k : Callee)   -- thread p starts a thread for a callable of kind k (any spawn form)
  | exec (t : Nat)                 -- thread t executes one step of script code (own body / a callback of its builtin)
  deriving Repr, DecidableEq

def vstepWith (cloneAll : Bool) (s : VMs) : VOp → Option VMs
  | .spawn p k =>
    if p < s.vmOf.length then
      if cloneAll || k == .fn then
        some { vmOf := s.vmOf ++ [s.ip.length], ip := s.ip ++ [0], pos := s.pos ++ [0] }
      else
        some { vmOf := s.vmOf ++ [s.vmOf.getD p 0], ip := s.ip, pos := s.pos ++ [0] }
    else none
  | .exec t =>
    if t < s.vmOf.length then
      some { s with ip := s.ip.set (s.vmOf.getD t 0) (s.ip.getD (s.vmOf.getD t 0) 0 + 1),
                    pos := s.pos.set t (s.pos.getD t 0 + 1) }
    else none

/-- **Impl**: every spawned callable gets a clone -/
def vstep : VMs → VOp → Option VMs := vstepWith true

def vrunWith (cloneAll : Bool) (s : VMs) : List VOp → Option VMs
  | [] => some s
  | o :: os =>
    match vstepWith cloneAll s o with
    | some s' => vrunWith cloneAll s' os
    | none => none

def vrun : VMs → List VOp → Option VMs := vrunWith true

/-- run a schedule skipping the steps that are not enabled (for the oracle) -/
def vtrace (cloneAll : Bool) (s : VMs) : List VOp → VMs
  | [] => s
  | o :: os =>
    match vstepWith cloneAll s o with
    | some s' => vtrace cloneAll s' os
    | none => vtrace cloneAll s os

/-- **Spec**: no two threads share a VM … -/
def distinctVMs (s : VMs) : Bool := s.vmOf.Nodup

/-- … and every thread's VM has executed exactly that thread's own steps (nobody else moved
    its registers) -/
def ownProgress (s : VMs) : Bool :=
  (List.range s.vmOf.length).all fun t => s.ip.getD (s.vmOf.getD t 0) 0 == s.pos.getD t 0

end Risor.C10
