import RisorModel.C10.ModelCall
/-
C10 — §3 (round 5): a spawned call is the call.  Theorems over `ModelCall.lean`.

Quantification: every list of statements (`COp`: nested calls to any depth, calls under `try`,
`defer` at any moment — before or after nested calls returned —, effects, returns, raised
errors, deferred calls that raise), every schedule of the thread net (`CNOp`: spawns by any
running thread at any depth of its own calls, statements of all threads interleaved, waits).
-/
namespace Risor.C10

/-! ### The frame chain of one call -/

theorem leaveFrames_counts (fs : List CFrame) (l : List Nat) (r : COutcome) (n : Nat) :
    (leaveFrames fs l r n).2.2.2 + pendingDefers (leaveFrames fs l r n).1 = n + pendingDefers fs := by
  induction fs generalizing l r n with
  | nil => simp [leaveFrames, pendingDefers]
  | cons f fs ih =>
    unfold leaveFrames
    simp only
    split
    · split
      · rename_i h
        have : fs = [] := by simpa using h
        subst this
        simp [pendingDefers]
      · simp only [pendingDefers]; omega
    · split
      · simp only [pendingDefers]; omega
      · rw [ih]; simp only [pendingDefers]; omega

theorem leaveFrames_done (fs : List CFrame) (l : List Nat) (r : COutcome) (n : Nat) :
    (leaveFrames fs l r n).2.2.1.isSome → (leaveFrames fs l r n).1 = [] := by
  induction fs generalizing l r n with
  | nil => simp [leaveFrames]
  | cons f fs ih =>
    unfold leaveFrames
    simp only
    split
    · split <;> simp
    · split
      · simp
      · exact ih _ _ _

/-- The invariant of a call: every `defer` executed so far has either run or is pending on a
frame that is still active; a finished call has no frame left. -/
def CInv (c : CallSt) : Prop :=
  c.reg = c.ran + pendingDefers c.frames ∧ (c.out.isSome → c.frames = [])

theorem cinv_fresh : CInv cfresh := by
  simp [CInv, cfresh, pendingDefers]

theorem cinv_leave (c : CallSt) (r : COutcome) (h : CInv c) : CInv (leaveWith c r) := by
  obtain ⟨h1, _⟩ := h
  refine ⟨?_, ?_⟩
  · have := leaveFrames_counts c.frames c.log r c.ran
    simp only [leaveWith]
    omega
  · simp only [leaveWith]
    exact leaveFrames_done _ _ _ _

theorem cinv_step (c : CallSt) (o : COp) (h : CInv c) : CInv (cstep c o) := by
  unfold cstep
  split
  · exact h
  · rename_i hout
    split
    · exact h
    · rename_i f fs hf
      obtain ⟨h1, h2⟩ := h
      have hnone : c.out = none := by
        cases hc : c.out with
        | none => rfl
        | some x => simp [hc] at hout
      cases o with
      | call => simp [CInv, hnone, pendingDefers, hf] at *; omega
      | tcall => simp [CInv, hnone, pendingDefers, hf] at *; omega
      | «defer» a => simp [CInv, hnone, pendingDefers, hf] at *; omega
      | emit k => simp [CInv, hnone, hf] at *; omega
      | ret v => exact cinv_leave c _ ⟨h1, h2⟩
      | raise k => exact cinv_leave c _ ⟨h1, h2⟩

theorem cinv_run (c : CallSt) (ops : List COp) (h : CInv c) : CInv (crun c ops) := by
  induction ops generalizing c with
  | nil => exact h
  | cons o ops ih => exact ih _ (cinv_step c o h)

/-- **Every deferred call of a call that has ended has run, once.**  For every list of
statements: when the call is over (it returned, or an error left its outermost frame), the number
of deferred calls that ran equals the number of `defer` statements that were executed — whatever
the nesting of the calls in between, whether a `defer` came before or after deeper calls, and
however the frames were left (return, error, error raised by another deferred call, `try`). -/
theorem deferred_calls_all_run (ops : List COp) :
    (crun cfresh ops).out.isSome → (crun cfresh ops).ran = (crun cfresh ops).reg := by
  intro h
  obtain ⟨h1, h2⟩ := cinv_run cfresh ops cinv_fresh
  rw [h2 h] at h1
  simp [pendingDefers] at h1
  omega

/-- While a call runs, the deferred calls that have not run are exactly those registered on its
active frames (every reachable state, every list of statements). -/
theorem deferred_calls_pending_on_active_frames (ops : List COp) :
    (crun cfresh ops).reg = (crun cfresh ops).ran + pendingDefers (crun cfresh ops).frames :=
  (cinv_run cfresh ops cinv_fresh).1

/-- A `defer` executed in the outermost frame AFTER nested calls of any depth `d` returned runs
when the call returns: its effect is the last effect of the call and the call's value stands. -/
theorem defer_after_deep_calls_runs (d k v : Nat) :
    crun cfresh (List.replicate d COp.call ++ List.replicate d (COp.ret 0) ++ [.defer (.emit k), .ret v])
      = { frames := [], log := [k], out := some (.val v), reg := 1, ran := 1 } := by
  have down : ∀ (d : Nat) (fs : List CFrame) (rest : List COp), fs ≠ [] →
      crun { frames := fs } (List.replicate d COp.call ++ rest)
        = crun { frames := List.replicate d ⟨false, []⟩ ++ fs } rest := by
    intro d
    induction d with
    | zero => intro fs rest _; simp
    | succ d ih =>
      intro fs rest hfs
      cases fs with
      | nil => exact absurd rfl hfs
      | cons f fs =>
        rw [List.replicate_succ, List.cons_append]
        show crun (cstep _ _) _ = _
        have : cstep { frames := f :: fs } COp.call = { frames := ⟨false, []⟩ :: f :: fs } := by
          simp [cstep]
        rw [this, ih _ _ (by simp)]
        congr 2
        rw [show (⟨false, []⟩ : CFrame) :: f :: fs = [⟨false, []⟩] ++ (f :: fs) from rfl, ← List.append_assoc]
        congr 1
        rw [List.replicate_succ']
  have up : ∀ (d : Nat) (fs : List CFrame) (rest : List COp), fs ≠ [] →
      crun { frames := List.replicate d ⟨false, []⟩ ++ fs } (List.replicate d (COp.ret 0) ++ rest)
        = crun { frames := fs } rest := by
    intro d
    induction d with
    | zero => intro fs rest _; simp
    | succ d ih =>
      intro fs rest hfs
      rw [List.replicate_succ, List.replicate_succ, List.cons_append, List.cons_append]
      show crun (cstep _ _) _ = _
      have hne : (List.replicate d (⟨false, []⟩ : CFrame) ++ fs).isEmpty = false := by
        cases fs with
        | nil => exact absurd rfl hfs
        | cons f fs => cases d <;> simp [List.replicate_succ]
      have : cstep { frames := ⟨false, []⟩ :: (List.replicate d ⟨false, []⟩ ++ fs) } (COp.ret 0)
          = { frames := List.replicate d ⟨false, []⟩ ++ fs } := by
        simp [cstep, leaveWith, leaveFrames, runDefers, hne]
      rw [this, ih _ _ hfs]
  rw [List.append_assoc]
  show crun { frames := [⟨false, []⟩] } _ = _
  rw [down d _ _ (by simp), up d _ _ (by simp)]
  simp [crun, cstep, leaveWith, leaveFrames, runDefers]

/-! ### The threads -/

theorem cnstep_n_mono (s : CNet) (o : CNOp) : s.n ≤ (cnstep s o).n := by
  cases o with
  | sp p => simp only [cnstep]; split <;> simp
  | op t o => simp only [cnstep]; split <;> simp
  | wait w t => simp [cnstep]

/-- **The state of a thread's call is made of its own statements only.**  For every state of the
net, every thread `t` that exists and every schedule: the call state of `t` afterwards (frames,
pending deferred calls, effects, outcome) is what `t`'s own statements make of its state before —
spawns (by `t` itself or by others, at any depth) and the statements of all other threads, however
interleaved, change nothing of it.  Each thread has its own VM and with it its own frames. -/
theorem thread_state_is_own_statements (s : CNet) (ops : List CNOp) (t : Nat) (ht : t < s.n) :
    (cnrun s ops).th t = crun (s.th t) (cproj t ops) := by
  induction ops generalizing s with
  | nil => rfl
  | cons o ops ih =>
    show (cnrun (cnstep s o) ops).th t = _
    rw [ih (cnstep s o) (Nat.lt_of_lt_of_le ht (cnstep_n_mono s o))]
    cases o with
    | sp p =>
      simp only [cnstep, cproj]
      split
      · have : t ≠ s.n := by omega
        simp [this]
      · rfl
    | op t' o =>
      simp only [cnstep, cproj]
      by_cases h : t' = t
      · subst h
        simp [ht, crun]
      · have h' : t ≠ t' := fun e => h e.symm
        simp only [h, if_false]
        split <;> simp [h']
    | wait w t' => rfl

/-- **A spawned call is the call.**  Take any schedule `pre` (the spawner may be at any depth of
its own calls, with deferred calls pending; other threads may have come and gone), let a running
thread `p` spawn a call, and let any schedule `post` follow.  The spawned thread's call state —
its effects in order, its result or error, the deferred calls it ran — is exactly that of a fresh
call executing the thread's own statements. -/
theorem spawned_call_is_direct_call (pre post : List CNOp) (p : Nat)
    (hp : p < (cnrun {} pre).n) (hrun : ((cnrun {} pre).th p).out = none) :
    (cnrun {} (pre ++ CNOp.sp p :: post)).th (cnrun {} pre).n = crun cfresh (cproj (cnrun {} pre).n post) := by
  have hsplit : cnrun {} (pre ++ CNOp.sp p :: post) = cnrun (cnstep (cnrun {} pre) (.sp p)) post := by
    simp [cnrun, List.foldl_append]
  rw [hsplit]
  have hstep : cnstep (cnrun {} pre) (.sp p)
      = { n := (cnrun {} pre).n + 1, th := fun i => if i = (cnrun {} pre).n then cfresh else (cnrun {} pre).th i } := by
    simp [cnstep, hp, hrun]
  rw [hstep, thread_state_is_own_statements _ _ _ (by simp)]
  simp

/-- The same, stated against the main program: the spawned thread ends in the state in which the
main program (thread 0 of a net in which nothing else happens) ends when it makes the call
DIRECTLY, executing the same statements `body`. -/
theorem spawn_equals_direct (pre post : List CNOp) (p : Nat) (body : List COp)
    (hp : p < (cnrun {} pre).n) (hrun : ((cnrun {} pre).th p).out = none)
    (hbody : cproj (cnrun {} pre).n post = body) :
    (cnrun {} (pre ++ CNOp.sp p :: post)).th (cnrun {} pre).n
      = (cnrun {} (body.map (CNOp.op 0))).th 0 := by
  rw [spawned_call_is_direct_call pre post p hp hrun, hbody,
    thread_state_is_own_statements {} _ 0 (by decide)]
  have : ∀ b : List COp, cproj 0 (b.map (CNOp.op 0)) = b := by
    intro b; induction b with
    | nil => rfl
    | cons o b ih => simp [cproj, ih]
  rw [this]

/-- **`wait()` hands out the call's result or error.**  After any schedule, what a wait on the
spawned thread returns is the outcome of the direct call with the thread's statements — nothing
while that call is still running. -/
theorem wait_returns_call_outcome (pre post : List CNOp) (p : Nat)
    (hp : p < (cnrun {} pre).n) (hrun : ((cnrun {} pre).th p).out = none) :
    waitObs (cnrun {} (pre ++ CNOp.sp p :: post)) (cnrun {} pre).n
      = (crun cfresh (cproj (cnrun {} pre).n post)).out := by
  have hn : (cnrun {} pre).n < (cnrun {} (pre ++ CNOp.sp p :: post)).n := by
    have hsplit : cnrun {} (pre ++ CNOp.sp p :: post) = cnrun (cnstep (cnrun {} pre) (.sp p)) post := by
      simp [cnrun, List.foldl_append]
    rw [hsplit]
    have mono : ∀ (ops : List CNOp) (s : CNet), s.n ≤ (cnrun s ops).n := by
      intro ops
      induction ops with
      | nil => intro s; exact Nat.le_refl _
      | cons o ops ih => intro s; exact Nat.le_trans (cnstep_n_mono s o) (ih (cnstep s o))
    have : (cnstep (cnrun {} pre) (.sp p)).n = (cnrun {} pre).n + 1 := by simp [cnstep, hp, hrun]
    have := mono post (cnstep (cnrun {} pre) (.sp p))
    omega
  simp only [waitObs, hn, if_true]
  rw [spawned_call_is_direct_call pre post p hp hrun]

/-! ### Non-vacuity and the contrast -/

/-- The hypotheses are satisfiable: the main program, two calls deep with a deferred call
pending, spawns; the spawned call nests, defers after the nested call returned, and a deferred
call raises: `wait()` gives that error. -/
example :
    let pre := [CNOp.op 0 .call, .op 0 (.defer (.emit 9)), .op 0 .call]
    let post := [CNOp.op 1 .call, .op 0 (.ret 0), .op 1 (.ret 0), .op 1 (.defer (.fail 5)), .op 1 (.emit 3), .op 1 (.ret 7)]
    (cnrun {} pre).n = 1 ∧ ((cnrun {} pre).th 0).out = none ∧
    waitObs (cnrun {} (pre ++ CNOp.sp 0 :: post)) 1 = some (.err 5) ∧
    ((cnrun {} (pre ++ CNOp.sp 0 :: post)).th 1).log = [3, 5] := by
  decide

/-- CONTRAST: in the variant whose frame array is replaced while calls are running (capacity 2
here), a `defer` executed after the nested calls returned is never run — the call made on such a
VM differs from the direct call (`defer_after_deep_calls_runs`: effect 7 is made, 1 is returned). -/
theorem growing_frame_array_variant_drops_defer :
    (grun (gfresh 2) [.call, .call, .ret 0, .ret 0, .defer (.emit 7), .ret 1]).log = [] ∧
    (crun cfresh [.call, .call, .ret 0, .ret 0, .defer (.emit 7), .ret 1]).log = [7] ∧
    (grun (gfresh 2) [.call, .call, .ret 0, .ret 0, .defer (.fail 7), .ret 1]).out = some (.val 1) ∧
    (crun cfresh [.call, .call, .ret 0, .ret 0, .defer (.fail 7), .ret 1]).out = some (.err 7) := by
  decide

/-- The variant agrees with the code as it is as long as the capacity is never exceeded … -/
example : (grun (gfresh 8) [.call, .call, .ret 0, .ret 0, .defer (.emit 7), .ret 1]).log = [7] := by decide

end Risor.C10
