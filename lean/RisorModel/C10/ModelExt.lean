import RisorModel.C10.Model
/-
C10 — two further pieces of the model (round 4), both as the code IS next to what the
property demands:

§1  RANGE LOOPS AS OBJECTS WITH A LIFETIME.  `for … := range c` asks the channel for an
    iterator (`Chan.Iter()`), drives it with `Next`/`Entry` (the two halves of ONE `ForIter`
    instruction) and drops it when the loop ends — at the end of the channel, or EARLY: by
    `break`, by `return`, by an error raised in the body.  What an iterator has taken out of
    the Go channel and not handed to its loop body is gone when the iterator is dropped.  In
    the code as it is `Iter()` returns the channel itself and `Next` takes exactly one value,
    which the same instruction hands to the body: an iterator never holds anything.

§2  WHAT A THREAD'S VM KNOWS OF THE MODULES.  `vm.Clone` gives the clone a SNAPSHOT of the
    spawner's `modules` and `loadedCode` maps, taken at this very spawn; globals (and with
    them every module object and its globals) are shared.  A thread can therefore call into
    every module its spawner knew when it started the thread, whatever threads came and went
    before.  (A module loaded by somebody else AFTER the snapshot is unknown to the clone: a
    call into it dereferences a missing root code — a recorded defect of the code as it is.)

Core Lean only.
-/
namespace Risor.C10

/-! ### §1 Range loops that may be left early -/

structure LChan where
  c : Chan
  inLoop : List Nat := []           -- threads executing a `range` loop over the channel (each holds what `Chan.Iter()` gave it)
  held : List (Nat × Msg) := []     -- values an iterator took out of the Go channel and has not handed to its loop yet
  dropped : List (Nat × Msg) := []  -- history: values that went away with an abandoned iterator
  deriving Repr, DecidableEq

def linit (cap : Nat) : LChan := { c := init cap }

inductive LOp where
  | base (o : Op)      -- a step of the channel machine (Next/Entry only by a thread inside a loop)
  | enter (t : Nat)    -- thread `t` starts `for … := range c` / `for v in c`: `Chan.Iter()`
  | leave (t : Nat)    -- the loop ends: `Next` reported the end, or `break`, `return`, a raised error
  | grab (t : Nat)     -- CONTRAST ONLY: the iterator takes one more ready value into a private batch
  deriving Repr, DecidableEq

/-- the thread that performs an iteration step -/
def iterActor : Op → Option Nat
  | .next t => some t
  | .entry t => some t
  | .handoff _ r _ true => some r
  | _ => none

def heldOf (s : LChan) (t : Nat) : Option Msg := (s.held.find? (fun p => p.1 == t)).map (·.2)

/-- `batching = false` is the code as it is.  `true` additionally enables `grab` (an iterator
    that reads ahead); it exists only so that the theorems can show that "an iterator holds
    nothing" is what delivery after an early exit depends on. -/
def lstepWith (batching : Bool) (s : LChan) : LOp → Option (LChan × Option Obs)
  | .enter t =>
    if s.inLoop.contains t || isPend s.c t then none
    else some ({ s with inLoop := s.inLoop ++ [t] }, none)
  | .leave t =>
    -- (the two halves of ForIter are one instruction: a loop is never left between them)
    if s.inLoop.contains t && !isPend s.c t then
      some ({ s with inLoop := s.inLoop.erase t,
                     held := s.held.filter (fun p => p.1 != t),
                     dropped := s.dropped ++ s.held.filter (fun p => p.1 == t) }, none)
    else none
  | .grab t =>
    if batching && s.inLoop.contains t && !isPend s.c t then
      match s.c.buf with
      | v :: rest =>
        some ({ s with c := { s.c with buf := rest, deq := s.c.deq ++ [(t, v)] }, held := s.held ++ [(t, v)] }, none)
      | [] => none
    else none
  | .base o =>
    match iterActor o with
    | some t =>
      if !s.inLoop.contains t then none
      else
        match o, heldOf s t with
        | .next _, some v =>
          -- the iterator serves its loop from what it holds
          if isPend s.c t then none
          else some ({ s with c := { s.c with last := some v, rx := s.c.rx + 1, pend := s.c.pend ++ [(t, v)] },
                              held := s.held.eraseP (fun p => p.1 == t) }, some (.nextOk v))
        | _, _ =>
          match step s.c o with
          | some (c', ob) => some ({ s with c := c' }, some ob)
          | none => none
    | none =>
      match step s.c o with
      | some (c', ob) => some ({ s with c := c' }, some ob)
      | none => none

/-- **Impl**: the code as it is -/
def lstep : LChan → LOp → Option (LChan × Option Obs) := lstepWith false

def lrunWith (batching : Bool) (s : LChan) : List LOp → Option LChan
  | [] => some s
  | o :: os =>
    match lstepWith batching s o with
    | some (s', _) => lrunWith batching s' os
    | none => none

def lrun : LChan → List LOp → Option LChan := lrunWith false

/-- observations of a schedule for the oracle (`none` = not enabled, state unchanged;
    `some none` = an enabled step without an observation) -/
def ltrace (s : LChan) : List LOp → List (Option (Option Obs)) × LChan
  | [] => ([], s)
  | o :: os =>
    match lstep s o with
    | some (s', ob) => let (r, sf) := ltrace s' os; (some ob :: r, sf)
    | none => let (r, sf) := ltrace s os; (none :: r, sf)

/-- **Spec** of the loop machine: loops are entered and left as in the code, the channel
    steps are those of the Spec machine (`specStep`) and no iterator ever holds anything. -/
def lspecStep (s : LChan) : LOp → Option (LChan × Option Obs)
  | .base o =>
    match iterActor o with
    | some t =>
      if !s.inLoop.contains t then none
      else match specStep s.c o with
        | some (c', ob) => some ({ s with c := c' }, some ob)
        | none => none
    | none =>
      match specStep s.c o with
      | some (c', ob) => some ({ s with c := c' }, some ob)
      | none => none
  | .grab _ => none
  | o => lstep s o

def ltraceWith (stp : LChan → LOp → Option (LChan × Option Obs)) (s : LChan) : List LOp → List (Option (Option Obs)) × LChan
  | [] => ([], s)
  | o :: os =>
    match stp s o with
    | some (s', ob) => let (r, sf) := ltraceWith stp s' os; (some ob :: r, sf)
    | none => let (r, sf) := ltraceWith stp s os; (none :: r, sf)

/-- the channel-machine steps of a loop schedule -/
def baseOps : List LOp → List Op
  | [] => []
  | .base o :: os => o :: baseOps os
  | _ :: os => baseOps os

/-- **Spec of a loop exit** (what the property demands): whatever the loops took out of the
    channel has been handed to script code — nothing is held back, nothing went away with an
    iterator. -/
def nothingWithheld (s : LChan) : Bool := s.held.isEmpty && s.dropped.isEmpty

/-! ### §2 Threads, their VMs and the modules those VMs know -/

def upd {α : Type} (f : Nat → α) (k : Nat) (v : α) : Nat → α := fun j => if j = k then v else f j

inductive TSt where
  | absent | running | returned | panicked
  deriving Repr, DecidableEq

/-- Module `m` is a file `m<m>.risor` with one global `counter` and a function
    `bump(x) { counter = counter + 1; return x * 1000 + counter }`.  Thread 0 is the main
    program and runs on VM 0. -/
structure Mods where
  nthreads : Nat := 1
  nvms : Nat := 1
  st : Nat → TSt := fun t => if t = 0 then .running else .absent
  vmOf : Nat → Nat := fun _ => 0          -- the VM thread t's script code runs on
  view : Nat → List Nat := fun _ => []    -- view v = the modules VM v knows (`vm.modules`, root code in `vm.loadedCode`)
  imported : List Nat := []               -- modules whose body has run (one module object each, reachable through shared globals)
  cnt : Nat → Nat := fun _ => 0           -- cnt m = module m's global `counter`
  outs : Nat → List Nat := fun _ => []    -- outs t = the values thread t's calls returned so far (what its function returns)
  idle : List Nat := []                   -- CONTRAST ONLY: clones whose call has returned, kept for the next spawn
  calls : List (Nat × Nat × Nat) := []    -- history: (thread, module, value) of every call that returned

inductive MOp where
  | imp (t m : Nat)       -- thread t executes `import m<m>` (at top level or inside a function)
  | call (t m x : Nat)    -- thread t calls `bump(x)` of module m (reached through a shared global)
  | spawn (p : Nat)       -- thread p starts a thread (any spawn form)
  | fin (t : Nat)         -- thread t's function returns (its list of results)
  | wait (w t : Nat)      -- thread w waits for thread t
  deriving Repr, DecidableEq

inductive MObs where
  | unit                  -- import of a module this VM knows already / return
  | ran                   -- import ran the module's body
  | val (r : Nat)         -- a call returned r
  | panic                 -- the call faulted (nil root code): the thread ends with a recovered Go panic
  | spawned (t : Nat)
  | ret (vs : List Nat)   -- wait: the thread's results
  | perr                  -- wait: the thread's error "panic: …"
  deriving Repr, DecidableEq

def viewOf (s : Mods) (t : Nat) : List Nat := s.view (s.vmOf t)

/-- `pooled = false` is the code as it is: every spawn makes a clone whose snapshot is taken
    at that spawn.  `true` keeps the clones of returned calls and hands them — with the
    snapshot they were made with — to later spawns; it exists only so that the theorems can
    show that the moment of the snapshot is part of what `wait()` depends on. -/
def mstepWith (pooled : Bool) (s : Mods) : MOp → Option (Mods × MObs)
  | .imp t m =>
    if s.st t != .running then none
    else if (viewOf s t).contains m then some (s, .unit)
    else if t == 0 && !s.imported.contains m then
      some ({ s with view := upd s.view (s.vmOf t) (viewOf s t ++ [m]), imported := s.imported ++ [m] }, .ran)
    else none     -- a thread importing what its VM does not know: C14's ground (C14-spawn-reimport), not modelled here
  | .call t m x =>
    if s.st t != .running || !s.imported.contains m then none
    else if (viewOf s t).contains m then
      some ({ s with cnt := upd s.cnt m (s.cnt m + 1),
                     outs := upd s.outs t (s.outs t ++ [x * 1000 + s.cnt m + 1]),
                     calls := s.calls ++ [(t, m, x * 1000 + s.cnt m + 1)] }, .val (x * 1000 + s.cnt m + 1))
    else some ({ s with st := upd s.st t .panicked }, .panic)
  | .spawn p =>
    if s.st p != .running then none
    else
      match pooled, s.idle with
      | true, v :: rest =>
        some ({ s with nthreads := s.nthreads + 1, st := upd s.st s.nthreads .running,
                       vmOf := upd s.vmOf s.nthreads v, idle := rest }, .spawned s.nthreads)
      | _, _ =>
        some ({ s with nthreads := s.nthreads + 1, nvms := s.nvms + 1, st := upd s.st s.nthreads .running,
                       vmOf := upd s.vmOf s.nthreads s.nvms,
                       view := upd s.view s.nvms (viewOf s p) }, .spawned s.nthreads)
  | .fin t =>
    if t == 0 || s.st t != .running then none
    else some ({ s with st := upd s.st t .returned, idle := if pooled then s.vmOf t :: s.idle else s.idle }, .unit)
  | .wait w t =>
    if s.st w != .running then none
    else
      match s.st t with
      | .returned => some (s, .ret (s.outs t))
      | .panicked => some (s, .perr)
      | _ => none

/-- **Impl**: the code as it is -/
def mstep : Mods → MOp → Option (Mods × MObs) := mstepWith false

/-- **Spec**: a call into a module that exists in the evaluation returns that function's
    value, whichever thread makes it (everything else as the code does it). -/
def mspecStep (s : Mods) : MOp → Option (Mods × MObs)
  | .call t m x =>
    if s.st t != .running || !s.imported.contains m then none
    else
      some ({ s with cnt := upd s.cnt m (s.cnt m + 1),
                     outs := upd s.outs t (s.outs t ++ [x * 1000 + s.cnt m + 1]),
                     calls := s.calls ++ [(t, m, x * 1000 + s.cnt m + 1)] }, .val (x * 1000 + s.cnt m + 1))
  | o => mstep s o

def mrunWith (pooled : Bool) (s : Mods) : List MOp → Option Mods
  | [] => some s
  | o :: os =>
    match mstepWith pooled s o with
    | some (s', _) => mrunWith pooled s' os
    | none => none

def mrun : Mods → List MOp → Option Mods := mrunWith false

/-- observations of a schedule (`none` = not enabled, state unchanged) -/
def mtrace (stp : Mods → MOp → Option (Mods × MObs)) (s : Mods) : List MOp → List (Option MObs)
  | [] => []
  | o :: os =>
    match stp s o with
    | some (s', ob) => some ob :: mtrace stp s' os
    | none => none :: mtrace stp s os

/-- **Guard**: along the schedule (as the code runs it) every call is into a module the
    calling thread's VM knows — i.e. no thread calls into a module that was loaded after the
    thread was started. -/
def knownCalls (s : Mods) : List MOp → Bool
  | [] => true
  | o :: os =>
    (match o with
     | .call t m _ => (viewOf s t).contains m
     | _ => true) &&
    (match mstep s o with
     | some (s', _) => knownCalls s' os
     | none => knownCalls s os)

/-- per step: does the guard hold of this step (for the oracle) -/
def knownTrace (s : Mods) : List MOp → List Bool
  | [] => []
  | o :: os =>
    (match o with
     | .call t m _ => (viewOf s t).contains m
     | _ => true) ::
    (match mstep s o with
     | some (s', _) => knownTrace s' os
     | none => knownTrace s os)

end Risor.C10
