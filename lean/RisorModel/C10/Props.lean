import RisorModel.C10.Lemmas
/-!
C10 — property theorems.  Channels and spawned threads deliver every value exactly once,
in order.

Everything is stated for ALL schedules (`List Op` of any length, any number of threads,
any interleaving the machine admits), every buffer size `cap` and arbitrary message values.
"Reachable" means `run (init cap) ops = some c`: the schedule `ops` is executable from the
freshly made channel and ends in state `c`.  `c.sent` is what the channel accepted, `c.deq`
what was dequeued by whom, `c.deliv` what script code was handed by whom, `c.buf` what is
still queued, `c.pend` the threads that are between the two halves of a `range` step.
-/
namespace Risor.C10

/-! ### The property as laws over a channel state -/

/-- **The full statement** (channel part of C10): in every reachable state in which no
    thread is half-way through an iteration step, every accepted value was handed out
    exactly once or is still queued, and every receiver saw each sender's values in sending
    order — for every buffer size, every number of threads and every interleaving. -/
def C10_full : Prop :=
  ∀ (cap : Nat) (ops : List Op) (c : Chan), run (init cap) ops = some c → c.pend = [] →
    ExactlyOnce c ∧ ReceiverOrder c

/-! ### What holds of every schedule, defect or not -/

/-- **Arrival order** (all schedules, all buffer sizes, iteration included): the values
    dequeued so far followed by the queued ones are exactly the accepted values in
    acceptance order — nothing is dropped, duplicated or reordered *by the queue*. -/
theorem fifo_conservation (cap : Nat) (ops : List Op) (c : Chan) (h : run (init cap) ops = some c) :
    values c.deq ++ c.buf = c.sent :=
  run_fifo cap ops c h

/-- **Per-sender FIFO** (all schedules): restricted to any one sender `i`, the dequeue
    order (then the queue) is that sender's sending order. -/
theorem fifo_per_sender (cap : Nat) (ops : List Op) (c : Chan) (h : run (init cap) ops = some c)
    (i : Nat) : fromSender i (values c.deq ++ c.buf) = fromSender i c.sent := by
  rw [fifo_conservation cap ops c h]

/-- **Multiset conservation at the queue** (all schedules): `dequeued ⊎ buf = sent`. -/
theorem dequeued_once (cap : Nat) (ops : List Op) (c : Chan) (h : run (init cap) ops = some c) :
    (values c.deq ++ c.buf).Perm c.sent := by
  rw [fifo_conservation cap ops c h]

/-- **What the defect cannot do** (all schedules, any number of iterating threads): there
    are exactly as many hand-outs (plus half-finished iteration steps) as dequeues, and every
    value handed out is a value that was sent.  So a history of the code as it is has as many
    deliveries as sends and nothing alien; a duplicate is always paid for by a loss.  This is
    the pattern `defectPattern` recognises. -/
theorem impl_iteration_counts (cap : Nat) (ops : List Op) (c : Chan) (h : run (init cap) ops = some c) :
    c.deliv.length + c.pend.length = c.deq.length ∧ ∀ x ∈ c.deliv, x.2 ∈ c.sent := by
  obtain ⟨hl, hd, _, _⟩ := run_counts cap ops c h
  refine ⟨hl, fun x hx => ?_⟩
  rw [← fifo_conservation cap ops c h]
  exact List.mem_append_left _ (hd x hx)

/-! ### Explicit receives -/

/-- **Exactly once, explicit receives** (`<-c`, `c.receive()`): for any buffer size, any
    number of senders and receivers and any interleaving, in EVERY reachable state of a
    schedule without iteration steps `received ⊎ buf = sent` as multisets, and every receiver
    saw every sender's values in sending order. -/
theorem exactly_once_explicit (cap : Nat) (ops : List Op) (hg : iterThreads ops = []) (c : Chan)
    (h : run (init cap) ops = some c) : ExactlyOnce c ∧ ReceiverOrder c := by
  have hp := run_noiter_pend cap ops hg c h
  have hs := (run_single 0 cap ops (by simp [onlyIter, hg]) c h).1
  have hd : ∀ j, ofRcv j c.deliv = ofRcv j c.deq := by
    intro j
    have := hs j
    rw [hp] at this
    simpa [ofRcv] using this
  exact ⟨exactlyOnce_of_faithful c (run_fifo cap ops c h) hd, receiverOrder_of_faithful c (run_fifo cap ops c h) hd⟩

/-- explicit receives hand every receiver, in order, exactly the values it dequeued -/
theorem explicit_delivers_dequeued (cap : Nat) (ops : List Op) (hg : iterThreads ops = []) (c : Chan)
    (h : run (init cap) ops = some c) (j : Nat) : byReceiver j c.deliv = byReceiver j c.deq := by
  have hp := run_noiter_pend cap ops hg c h
  have := (run_single 0 cap ops (by simp [onlyIter, hg]) c h).1 j
  rw [hp] at this
  unfold byReceiver
  simp only [ofRcv, List.filter_nil, List.append_nil] at this
  rw [this]

/-! ### Closed and drained; end of iteration -/

/-- **Receiving from a closed and drained channel yields nil** and changes nothing, for any
    thread that is not half-way through an iteration step. -/
theorem closed_drained_nil (c : Chan) (t : Nat) (hc : c.closed = true) (hb : c.buf = [])
    (hp : isPend c t = false) : step c (.recv t) = some (c, .nil) := by
  simp [step, hp, hb, hc]

/-- … and only then: an explicit receive answers nil only on a closed and drained channel. -/
theorem nil_only_if_closed_drained (c c' : Chan) (t : Nat) (h : step c (.recv t) = some (c', .nil)) :
    c.closed = true ∧ c.buf = [] := by
  simp only [step] at h
  split at h
  · cases h
  · split at h
    · cases h
    · rename_i hb
      split at h
      · rename_i hc; exact ⟨hc, hb⟩
      · cases h

/-- a closed and drained channel stays closed and drained whatever anybody does -/
theorem closed_drained_stable (c c' : Chan) (o : Op) (ob : Obs) (hc : c.closed = true) (hb : c.buf = [])
    (h : step c o = some (c', ob)) : c'.closed = true ∧ c'.buf = [] := by
  have he := step_eff c c' o ob h
  cases he with
  | same => exact ⟨hc, hb⟩
  | send t v =>
    simp only [step] at h
    split at h
    · cases h
    · simp only [hc, Option.some.injEq, Prod.mk.injEq] at h
      have := congrArg Chan.buf h.1
      simp [hb] at this
  | close t => exact ⟨rfl, hb⟩
  | recv t v rest _ hb' => rw [hb] at hb'; cases hb'
  | next t v rest _ hb' => rw [hb] at hb'; cases hb'
  | entry t v _ _ => exact ⟨hc, hb⟩
  | entryNone t _ _ => exact ⟨hc, hb⟩
  | handRecv s r v _ _ =>
    simp only [step] at h
    split at h
    · cases h
    · rename_i hx; simp [hc] at hx
  | handNext s r v _ _ =>
    simp only [step] at h
    split at h
    · cases h
    · rename_i hx; simp [hc] at hx

/-- **Iteration ends at close**: `Chan.Next` reports the end exactly when the channel is
    closed and drained (never earlier, never while values are still queued). -/
theorem iteration_ends_at_close (c : Chan) (t : Nat) (hp : isPend c t = false) :
    (∃ c', step c (.next t) = some (c', .nextEnd)) ↔ (c.closed = true ∧ c.buf = []) := by
  constructor
  · intro ⟨c', h⟩
    simp only [step, hp, Bool.false_eq_true, ↓reduceIte] at h
    split at h
    · cases h
    · rename_i hb
      split at h
      · rename_i hc; exact ⟨hc, hb⟩
      · cases h
  · intro ⟨hc, hb⟩
    exact ⟨c, by simp [step, hp, hb, hc]⟩

/-- values queued before the close are still iterated over after it -/
theorem iteration_drains_after_close (c : Chan) (t : Nat) (v : Msg) (rest : List Msg)
    (hp : isPend c t = false) (hb : c.buf = v :: rest) :
    step c (.next t) = some (nextOf c t v rest, .nextOk v) := by
  simp [step, hp, hb]

/-! ### Iteration: the defect, the guard and the partial theorem -/

/-- the schedule of the counterexample: two values are queued, threads 1 and 2 both run the
    first half of their `range` step (`Next`), then both run the second half (`Entry`) -/
def twoIterators : List Op :=
  [.send 0 (0, 0), .send 0 (0, 1), .next 1, .next 2, .entry 1, .entry 2]

/-- the state it ends in: `(0,1)` was handed out twice, `(0,0)` to nobody -/
theorem twoIterators_run :
    (run (init 2) twoIterators).map (fun c => (c.deliv, c.sent, c.buf, c.pend))
      = some ([(1, (0, 1)), (2, (0, 1))], [(0, 0), (0, 1)], [], []) := by
  rfl

/-- **Counterexample** (the code as it is violates the full statement): with two threads
    iterating over one channel the interleaving Next₁ Next₂ Entry₁ Entry₂ hands the second
    value out twice and loses the first. -/
theorem C10_counterexample_two_iterators : ¬ C10_full := by
  intro hfull
  have hrun : ∃ c, run (init 2) twoIterators = some c ∧ c.pend = [] ∧
      c.deliv = [(1, (0, 1)), (2, (0, 1))] ∧ c.sent = [(0, 0), (0, 1)] ∧ c.buf = [] := by
    have h := twoIterators_run
    cases hr : run (init 2) twoIterators with
    | none => rw [hr] at h; cases h
    | some c =>
      rw [hr] at h
      simp only [Option.map_some, Option.some.injEq, Prod.mk.injEq] at h
      exact ⟨c, rfl, h.2.2.2, h.1, h.2.1, h.2.2.1⟩
  obtain ⟨c, hr, hp, hd, hs, hb⟩ := hrun
  have := (hfull 2 twoIterators c hr hp).1
  unfold ExactlyOnce at this
  rw [hd, hs, hb] at this
  have hm := this.mem_iff (a := ((0, 0) : Msg))
  simp [values] at hm

/-- the Spec machine on the same schedule hands each thread its own value -/
example : (specRun (init 2) twoIterators).map (fun c => c.deliv) = some [(1, (0, 0)), (2, (0, 1))] := by
  decide

/-- **Partial theorem** (what is true of the code as it is): if at most one thread iterates
    over the channel (`onlyIter t0 ops`: every Next/Entry of the schedule is by `t0`; any
    number of other threads may send, receive explicitly and close), then in every reachable
    state without a half-finished iteration step every accepted value was handed out exactly
    once or is still queued and every receiver saw each sender's values in sending order. -/
theorem C10_partial (cap : Nat) (ops : List Op) (t0 : Nat) (hg : onlyIter t0 ops = true) (c : Chan)
    (h : run (init cap) ops = some c) (hp : c.pend = []) : ExactlyOnce c ∧ ReceiverOrder c := by
  have hs := (run_single t0 cap ops hg c h).1
  have hd : ∀ j, ofRcv j c.deliv = ofRcv j c.deq := by
    intro j
    have := hs j
    rw [hp] at this
    simpa [ofRcv] using this
  exact ⟨exactlyOnce_of_faithful c (run_fifo cap ops c h) hd, receiverOrder_of_faithful c (run_fifo cap ops c h) hd⟩

/-- the same under the decidable guard `atMostOneIterator` -/
theorem C10_partial_guard (cap : Nat) (ops : List Op) (hg : atMostOneIterator ops = true) (c : Chan)
    (h : run (init cap) ops = some c) (hp : c.pend = []) : ExactlyOnce c ∧ ReceiverOrder c := by
  unfold atMostOneIterator at hg
  split at hg
  · rename_i hnil
    exact C10_partial cap ops 0 (by simp [onlyIter, hnil]) c h hp
  · rename_i t ts _
    exact C10_partial cap ops t hg c h hp

/-- with one iterating thread every step of the code is a step of the Spec machine: the
    second half of the iteration step hands the thread the value its own first half dequeued
    (at any moment, also while other threads receive in between) -/
theorem single_iterator_entry_is_own (cap : Nat) (ops : List Op) (t0 : Nat) (hg : onlyIter t0 ops = true)
    (c : Chan) (h : run (init cap) ops = some c) (hpe : isPend c t0 = true) :
    step c (.entry t0) = specStep c (.entry t0) := by
  obtain ⟨_, w, hw, hl⟩ := isPend_single c t0 t0 (run_single t0 cap ops hg c h).2 hpe
  simp [step, specStep, hpe, hl, pendVal, hw]

/-! non-vacuity: the guards are satisfiable by non-trivial schedules -/

/-- one iterating thread (1) next to an explicit receiver (2), two senders, a close -/
example : atMostOneIterator
    [.send 0 (0, 0), .send 3 (3, 0), .next 1, .recv 2, .entry 1, .send 0 (0, 1), .close 0, .next 1, .entry 1, .next 1]
      = true := by decide

example : (run (init 2)
    [.send 0 (0, 0), .send 3 (3, 0), .next 1, .recv 2, .entry 1, .send 0 (0, 1), .close 0, .next 1, .entry 1, .next 1]).map
      (fun c => (c.deliv, c.pend)) = some ([(2, (3, 0)), (1, (0, 0)), (1, (0, 1))], []) := by decide

example : atMostOneIterator twoIterators = false := by decide

/-- an unbuffered schedule: two rendezvous, one into an explicit receive, one into a range -/
example : (run (init 0) [.handoff 0 1 (0, 0) false, .handoff 0 2 (0, 1) true, .entry 2, .close 0, .recv 1]).map
    (fun c => c.deliv) = some [(1, (0, 0)), (2, (0, 1))] := by decide

/-! ### The judge of histories observed on the real code -/

/-- **Soundness of `validHistory`** (all sender counts, all logs, no bound): whenever the
    executable judge accepts the per-receiver logs of a finished run, an arrival order
    exists (`MergeP`): the logs can be consumed head by head so that every consumed message
    is the next not-yet-consumed message of its sender, all logs end empty and every sender's
    count is reached exactly — every sent value occurs exactly once and each sender's values
    occur in sending order. -/
theorem validHistory_sound (counts : List Nat) (recv : List (List Msg))
    (h : validHistory counts recv = true) : MergeP counts (counts.map fun _ => 0) recv :=
  mergeRun_sound counts _ _ recv h

/-- **Completeness of `validHistory`** (no false alarm from the judge): whenever an arrival
    order exists for the logs, the executable judge accepts them. -/
theorem validHistory_complete (counts : List Nat) (recv : List (List Msg))
    (h : MergeP counts (counts.map fun _ => 0) recv) : validHistory counts recv = true :=
  mergeRun_complete counts _ _ recv h (Nat.le_refl _)

/-- the judge decides exactly the existence of an arrival order -/
theorem validHistory_iff (counts : List Nat) (recv : List (List Msg)) :
    validHistory counts recv = true ↔ MergeP counts (counts.map fun _ => 0) recv :=
  ⟨validHistory_sound counts recv, validHistory_complete counts recv⟩

/-- the judge accepts an interleaved two-sender, two-receiver history … -/
example : validHistory [2, 1] [[(0, 1), (1, 0)], [(0, 0)]] = true := by decide
/-- … and rejects a duplicate with a loss, a loss alone, a reordering within one receiver
    and a cyclic reordering across two receivers (each receiver's log is increasing per
    sender, but no single arrival order explains both) -/
example : validHistory [2, 1] [[(0, 1), (1, 0)], [(0, 1)]] = false := by decide
example : validHistory [2, 1] [[(0, 1)], [(0, 0)]] = false := by decide
example : validHistory [2] [[(0, 1), (0, 0)]] = false := by decide
example : validHistory [2, 2] [[(0, 1), (1, 0)], [(1, 1), (0, 0)]] = false := by decide
/-- the defect pattern: nothing alien, one surplus delivery paid for by one loss -/
example : defectPattern [2, 1] [[(0, 1), (1, 0)], [(0, 1)]] = true := by decide
example : defectPattern [2, 1] [[(0, 1)], [(0, 0)]] = false := by decide

/-! ### Spawned threads -/

/-- **Arguments travel by value**: let a call be spawned in any state `s` with argument
    expressions `args` — variables, literals, nested calls with or without side effects, to
    any depth (the new thread is number `s.threads.length`).  Whatever happens
    afterwards — the spawner reassigns its variables, overwrites the slice it passed, writes
    shared variables, spawns, runs or waits for other threads, in any order and number — the
    arguments the spawned call reads are the values the expressions had at the spawn site,
    evaluated left to right by the spawner. -/
theorem spawn_args_by_value (s s1 : TState) (args : List Arg) (body : Body) (ob : TObs)
    (hsp : tstep s (.spawn args body) = some (s1, ob)) (rest : List TOp) (s2 : TState)
    (hrun : trun s1 rest = some s2) :
    threadArgs s2 s.threads.length = some (evalArgs s.vars args).1 := by
  -- right after the spawn
  have h1 : ∃ th, s1.threads[s.threads.length]? = some th ∧ s1.heap[th.slice]? = some ((evalArgs s.vars args).1, false) := by
    simp only [tstep, tstepWith, ↓reduceIte, Option.some.injEq, Prod.mk.injEq] at hsp
    rw [← hsp.1]
    refine ⟨{ slice := s.heap.length + 1, body := body }, by simp, ?_⟩
    simp
  -- preserved by every later step
  have key : ∀ (rest : List TOp) (a b : TState), trun a rest = some b →
      (∃ th, a.threads[s.threads.length]? = some th ∧ a.heap[th.slice]? = some ((evalArgs s.vars args).1, false)) →
      (∃ th, b.threads[s.threads.length]? = some th ∧ b.heap[th.slice]? = some ((evalArgs s.vars args).1, false)) := by
    intro rest
    induction rest with
    | nil => intro a b h hi; simp only [trun, Option.some.injEq] at h; subst h; exact hi
    | cons o os ih =>
      intro a b h hi
      simp only [trun] at h
      split at h
      · rename_i a' ob' hst
        obtain ⟨th, hth, hheap⟩ := hi
        obtain ⟨th', hth', hsl, _⟩ := tstep_thread_slice a a' o ob' hst _ th hth
        refine ih a' b h ⟨th', hth', ?_⟩
        rw [hsl]
        exact tstep_private_slice a a' o ob' hst _ _ hheap
      · cases h
  obtain ⟨th, hth, hheap⟩ := key rest s1 s2 hrun h1
  simp [threadArgs, hth, hheap]

/-- plain variables as arguments (the special case the earlier statement was about): the
    values are the variables' values and evaluating them changes nothing -/
theorem evalArgs_vars (vars : List Int) (argVars : List Nat) :
    evalArgs vars (argVars.map .var) = (argVals vars argVars, vars) := by
  induction argVars with
  | nil => rfl
  | cons i is ih => simp only [List.map_cons, evalArgs, evalArg, ih, argVals]

/-- **every argument position** receives exactly one value: the spawned call gets as many
    arguments as the spawn site has expressions, whatever their shape -/
theorem evalArgs_length (vars : List Int) (args : List Arg) :
    (evalArgs vars args).1.length = args.length := by
  induction args generalizing vars with
  | nil => rfl
  | cons a as ih => simp only [evalArgs, List.length_cons, ih]

/-- evaluating argument expressions never changes how many variables the spawner has -/
theorem evalArg_vars_length (vars : List Int) (a : Arg) : (evalArg vars a).2.length = vars.length := by
  induction a with
  | var i => rfl
  | lit k => rfl
  | tick i => simp only [evalArg, List.length_set]
  | dbl a ih => simpa only [evalArg] using ih

/-- **Nested calls run at the spawn site, once**: the spawn statement itself — before and
    whether or not the spawned call ever runs — leaves the spawner's variables exactly as
    the left-to-right evaluation of the argument expressions leaves them (every side effect
    of a nested call has taken place), and that is what the spawner observes next. -/
theorem spawn_evaluates_at_site (s s1 : TState) (args : List Arg) (body : Body) (ob : TObs)
    (hsp : tstep s (.spawn args body) = some (s1, ob)) :
    s1.vars = (evalArgs s.vars args).2 ∧ s1.shared = s.shared ∧
    ob = .spawned s.threads.length s.heap.length (evalArgs s.vars args).2 := by
  simp only [tstep, tstepWith, ↓reduceIte, Option.some.injEq, Prod.mk.injEq] at hsp
  rw [← hsp.1, ← hsp.2]
  exact ⟨rfl, rfl, rfl⟩

/-- … and **not again later**: a spawned call running, or somebody waiting for it, never
    touches the spawner's variables (the nested calls are not re-evaluated in the thread). -/
theorem run_wait_keep_vars (s s' : TState) (ob : TObs) (t : Nat)
    (h : tstep s (.runT t) = some (s', ob) ∨ tstep s (.wait t) = some (s', ob)) : s'.vars = s.vars := by
  cases h with
  | inl h =>
    simp only [tstep, tstepWith] at h
    split at h
    · split at h
      · simp only [Option.some.injEq, Prod.mk.injEq] at h; rw [← h.1]
      · cases h
    · cases h
  | inr h =>
    simp only [tstep, tstepWith] at h
    split at h
    · split at h
      · simp only [Option.some.injEq, Prod.mk.injEq] at h; rw [← h.1]
      · cases h
    · cases h

/-- … in particular the outcome of the call, when it runs, is its body applied to the
    spawn-site values (followed by the shared variables as they are when it runs) -/
theorem spawned_call_outcome (s s1 : TState) (args : List Arg) (body : Body) (ob : TObs)
    (hsp : tstep s (.spawn args body) = some (s1, ob)) (rest : List TOp) (s2 s3 : TState)
    (hrun : trun s1 rest = some s2) (r : Outcome)
    (hr : tstep s2 (.runT s.threads.length) = some (s3, .ran r)) :
    ∃ th, s2.threads[s.threads.length]? = some th ∧ r = th.body.eval ((evalArgs s.vars args).1 ++ s2.shared) := by
  have ha := spawn_args_by_value s s1 args body ob hsp rest s2 hrun
  simp only [tstep, tstepWith] at hr
  split at hr
  · rename_i th hth
    refine ⟨th, hth, ?_⟩
    simp only [threadArgs, hth] at ha
    split at hr
    · rename_i args flag hres hheap
      simp only [Option.some.injEq, Prod.mk.injEq, TObs.ran.injEq] at hr
      rw [hheap] at ha
      simp only [Option.map_some, Option.some.injEq] at ha
      rw [← hr.2, ha]
    · cases hr
  · cases hr

/-- without the copy in `object.Spawn` the statement is false: the spawner overwriting its
    slice changes what the call reads (this is why the copy is part of the model) -/
example : (ttrace (tstepWith false) { vars := [5] } [.spawn [.var 0] .echo, .poke 0 0 9, .runT 0]).getLast?
    = some (some (.ran (.ret [9]))) := by decide

example : (ttrace tstep { vars := [5] } [.spawn [.var 0] .echo, .assign 0 7, .poke 0 0 9, .runT 0, .wait 0]).getLast?
    = some (some (.waited (.ret [5]))) := by decide

/-- **wait() returns exactly the spawned call's result or error**: after any history from
    a state without threads, if `wait t` returns `r` then the call of thread `t` ended with `r`
    (a value, a raised error, or the error of a Go panic inside the call — `Outcome` has no
    "nothing" case), and it is the only outcome that call ever had — so every `wait` on
    the same thread returns the same `r`. -/
theorem wait_returns_result (vars shared : List Int) (ops : List TOp) (s s' : TState)
    (h : trun { vars := vars, shared := shared } ops = some s) (t : Nat) (r : Outcome)
    (hw : tstep s (.wait t) = some (s', .waited r)) :
    (t, r) ∈ s.finished ∧ (∀ r', (t, r') ∈ s.finished → r' = r) ∧ s' = s := by
  have hi : ResultInv s := trun_resultInv ops _ s h ⟨by simp, by simp⟩
  simp only [tstep, tstepWith] at hw
  split at hw
  · rename_i th hth
    split at hw
    · rename_i r0 hres
      simp only [Option.some.injEq, Prod.mk.injEq, TObs.waited.injEq] at hw
      obtain ⟨hs, hr⟩ := hw
      subst hr
      refine ⟨hi.1 t th r0 hth hres, ?_, hs.symm⟩
      intro r' hm
      obtain ⟨th', ht', hr'⟩ := hi.2 t r' hm
      rw [hth] at ht'; cases ht'
      rw [hres] at hr'; cases hr'; rfl
    · cases hw
  · cases hw

/-- wait blocks (is not enabled) until the call has returned -/
theorem wait_blocks_until_done (s : TState) (t : Nat) (th : Thread) (ht : s.threads[t]? = some th)
    (hr : th.result = none) : tstep s (.wait t) = none := by
  simp [tstep, tstepWith, ht, hr]

/-- non-vacuity: a history with a reassignment between spawn and run, an error outcome and two waits -/
example : ttrace tstep { vars := [1, 2], shared := [7] }
    [.spawn [.var 0, .var 1] .fail, .assign 0 9, .setShared 0 8, .wait 0, .runT 0, .wait 0, .wait 0]
    = [some (.spawned 0 0 [1, 2]), some .unit, some .unit, none, some (.ran (.err [1, 2, 8])),
       some (.waited (.err [1, 2, 8])), some (.waited (.err [1, 2, 8]))] := by decide

/-- non-vacuity: nested calls in the argument list (`go f(tick0(), dbl(v0), v0)`) are evaluated
    left to right at the spawn site — the spawner sees `v0 = 6` at once —, a later reassignment
    does not reach the call, and a call that panics hands its error to every `wait` -/
example : ttrace tstep { vars := [5] }
    [.spawn [.tick 0, .dbl (.var 0), .var 0] .panic, .assign 0 0, .runT 0, .wait 0, .wait 0]
    = [some (.spawned 0 0 [6]), some .unit, some (.ran (.panicked [6, 12, 6])),
       some (.waited (.panicked [6, 12, 6])), some (.waited (.panicked [6, 12, 6]))] := by decide

/-- **a call that ended — returned, raised, or panicked — can be waited for**: right after
    thread `t`'s call ended with `r`, `wait t` is enabled, changes nothing and returns `r` -/
theorem wait_after_run (s s1 : TState) (t : Nat) (r : Outcome)
    (hr : tstep s (.runT t) = some (s1, .ran r)) : tstep s1 (.wait t) = some (s1, .waited r) := by
  simp only [tstep, tstepWith] at hr
  split at hr
  · rename_i th hth
    split at hr
    · simp only [Option.some.injEq, Prod.mk.injEq, TObs.ran.injEq] at hr
      obtain ⟨hs, hr⟩ := hr
      have hlt : t < s.threads.length := (List.getElem?_eq_some_iff.1 hth).1
      subst hs
      simp only [tstep, tstepWith, List.getElem?_set_self hlt, hr]
    · cases hr
  · cases hr

/-! ### Thread trees: delivery does not depend on thread lifetimes

`Net` is the channel machine (any number of channels) together with the TREE of script
threads: `parent[t]` started `t`, `returned` are the threads whose call has ended, `ctx[t]`
are the cancel scopes thread `t`'s code runs under.  `nstep`/`nrun` is the code as it is (a
spawned thread's context lies in exactly the spawner's scopes, a return cancels nothing),
"reachable" means `nrun (ninit caps) ops = some s` for a schedule `ops` of any length over
any tree — any depth, any number of threads, spawns, returns, waits and channel operations
interleaved in any order the machine admits. -/

/-- **The spawned thread's context is the spawner's** (any state, the code as it is): the
    new thread lies in exactly the cancel scopes of the thread that started it, so its
    `ctx.Done()` is ready exactly when the spawner's is — now and after any later step that
    cancels something. -/
theorem child_ctx_is_spawners (s s1 : Net) (p t : Nat) (h : nstep s (.spawn p) = some (s1, .spawned t)) :
    t = s.ctx.length ∧ ctxOf s1 t = ctxOf s p ∧ s1.cancelled = s.cancelled ∧ s1.returned = s.returned := by
  simp only [nstep, nstepWith] at h
  split at h
  · simp only [Bool.false_eq_true, ↓reduceIte, Option.some.injEq, Prod.mk.injEq, NObs.spawned.injEq] at h
    obtain ⟨hs, ht⟩ := h
    subst hs
    subst ht
    refine ⟨rfl, ?_, rfl, rfl⟩
    simp [ctxOf, List.getD_eq_getElem?_getD]
  · cases h

/-- **Every thread of the tree runs under the run's context** (all schedules, all trees, the
    code as it is): in every reachable state every existing thread — at any depth, whoever
    of its ancestors has returned — lies in the run's cancel scope and in no other, and its
    `ctx.Done()` is ready iff the host has cancelled the run. -/
theorem thread_ctx_is_run_ctx (caps : List Nat) (ops : List NOp) (s : Net)
    (h : nrun (ninit caps) ops = some s) (t : Nat) (ht : t < s.ctx.length) :
    ctxOf s t = [0] ∧ ctxDone s t = runCancelled s := by
  have hi := nrun_ctxInv ops _ s h (ninit_ctxInv caps)
  have hc := ctxOf_of_inv s hi t ht
  exact ⟨hc, by simp [ctxDone, hc, runCancelled]⟩

/-- **Only the run's cancellation cuts a send/receive/range short** (all schedules, all
    trees, the code as it is): if in a reachable state some thread's pending channel
    operation can fail with its context's error (`abort t` is enabled) then the host has
    cancelled the run in that schedule.  Contrapositive: as long as the host does not cancel,
    no thread's send is ever refused and no `range` over a channel ends before the close —
    whichever threads have returned. -/
theorem abort_only_after_run_cancel (caps : List Nat) (ops : List NOp) (s : Net)
    (h : nrun (ninit caps) ops = some s) (t : Nat) (r : Net × NObs)
    (ha : nstep s (.abort t) = some r) : NOp.cancel ∈ ops := by
  apply Classical.byContradiction
  intro hn
  have hc : s.cancelled = [] := by
    rw [nrun_cancelled ops _ s h hn]; rfl
  simp only [nstep, nstepWith] at ha
  split at ha
  · rename_i hg
    simp [ctxDone, hc] at hg
  · cases ha

/-- **A parent's return changes nothing for anybody else** (any state, the code as it is):
    let thread `p` return.  Every action `o` that does not involve `p` itself — a channel
    operation of any other thread (its descendants included), a spawn, another return, a
    wait, an abort, the host's cancel — is enabled after the return exactly when it was
    enabled before it, yields the same observation and leaves the same channels (queues and
    delivery histories), contexts and cancelled scopes. -/
theorem parent_return_preserves_delivery (s s1 : Net) (p : Nat) (ob0 : NObs)
    (h : nstep s (.ret p) = some (s1, ob0)) (o : NOp) (hno : involves p o = false) :
    (nstep s1 o).map (fun r => (r.1.chans, r.1.ctx, r.1.cancelled, r.2))
      = (nstep s o).map (fun r => (r.1.chans, r.1.ctx, r.1.cancelled, r.2)) := by
  obtain ⟨_, _, hs1⟩ := nstep_ret_inv s s1 p ob0 h
  subst hs1
  cases o with
  | chan k op =>
    simp only [involves] at hno
    have hl := all_live_ret_other s p (actors op) hno
    simp only [nstep, nstepWith, hl]
    split
    · cases s.chans[k]? with
      | none => rfl
      | some c =>
        simp only
        cases step c op with
        | none => rfl
        | some r => rfl
    · rfl
  | spawn q =>
    simp only [involves, beq_eq_false_iff_ne, ne_eq] at hno
    simp only [nstep, nstepWith, live_ret_other s p q hno, Bool.false_eq_true, ↓reduceIte]
    split
    · simp [ctxOf]
    · rfl
  | ret t =>
    simp only [involves, beq_eq_false_iff_ne, ne_eq] at hno
    simp only [nstep, nstepWith, live_ret_other s p t hno, Bool.false_eq_true, ↓reduceIte]
    split <;> rfl
  | wait w t =>
    simp only [involves, Bool.or_eq_false_iff, beq_eq_false_iff_ne, ne_eq] at hno
    simp only [nstep, nstepWith, live_ret_other s p w hno.1, isReturned_ret_other s p t hno.2]
    split <;> rfl
  | abort t =>
    simp only [involves, beq_eq_false_iff_ne, ne_eq] at hno
    simp only [nstep, nstepWith, live_ret_other s p t hno]
    have : ctxDone { s with returned := s.returned ++ [p] } t = ctxDone s t := rfl
    rw [this]
    split <;> rfl
  | cancel => rfl

/-! #### Whole schedules: returns (and waits) can be erased -/

/-- a schedule without its returns and waits: every thread lives for ever -/
def dropRets : List NOp → List NOp
  | [] => []
  | .ret _ :: os => dropRets os
  | .wait _ _ :: os => dropRets os
  | o :: os => o :: dropRets os

/-- `s'` is `s` except that some threads that have returned in `s` are still alive in `s'` -/
def SameButAlive (s s' : Net) : Prop :=
  s'.chans = s.chans ∧ s'.parent = s.parent ∧ s'.ctx = s.ctx ∧ s'.cancelled = s.cancelled ∧
    s'.nscopes = s.nscopes ∧ ∀ t, t ∈ s'.returned → t ∈ s.returned

theorem live_of_sameButAlive (s s' : Net) (hr : SameButAlive s s') (t : Nat) (h : live s t = true) :
    live s' t = true := by
  obtain ⟨_, _, hc, _, _, hsub⟩ := hr
  simp only [live, isReturned, Bool.and_eq_true, decide_eq_true_eq, Bool.not_eq_true',
    List.contains_eq_mem, decide_eq_false_iff_not] at h ⊢
  rw [hc]
  exact ⟨h.1, fun hm => h.2 (hsub t hm)⟩

theorem nstep_sameButAlive (s s' s1 : Net) (o : NOp) (ob : NObs) (hr : SameButAlive s s')
    (h : nstep s o = some (s1, ob)) (hnr : ∀ t, o ≠ .ret t) (hnw : ∀ w t, o ≠ .wait w t) :
    ∃ s1', nstep s' o = some (s1', ob) ∧ SameButAlive s1 s1' := by
  have hlive := live_of_sameButAlive s s' hr
  obtain ⟨hch, hpa, hcx, hca, hns, hsub⟩ := hr
  cases o with
  | chan k op =>
    obtain ⟨c, c', ob', hc, hstep, hob, hs1, hl⟩ := nstepWith_chan_inv false s s1 k op ob h
    have hl' : (actors op).all (live s') = true := by
      simp only [List.all_eq_true] at hl ⊢
      exact fun t ht => hlive t (hl t ht)
    refine ⟨{ s' with chans := s'.chans.set k c' }, ?_, ?_⟩
    · simp only [nstep, nstepWith, hl', ↓reduceIte, hch, hc, hstep, hob]
    · rw [hs1]; exact ⟨by simp [hch], hpa, hcx, hca, hns, hsub⟩
  | spawn p =>
    simp only [nstep, nstepWith] at h
    split at h
    · rename_i hl
      simp only [Bool.false_eq_true, ↓reduceIte, Option.some.injEq, Prod.mk.injEq] at h
      refine ⟨{ s' with parent := s'.parent ++ [p], ctx := s'.ctx ++ [ctxOf s' p] }, ?_, ?_⟩
      · simp only [nstep, nstepWith, hlive p hl, ↓reduceIte, Bool.false_eq_true, hcx, ← h.2]
      · rw [← h.1]; exact ⟨hch, by simp [hpa], by simp [hcx, ctxOf], hca, hns, hsub⟩
    · cases h
  | ret t => exact absurd rfl (hnr t)
  | wait w t => exact absurd rfl (hnw w t)
  | abort t =>
    simp only [nstep, nstepWith] at h
    split at h
    · rename_i hg
      simp only [Option.some.injEq, Prod.mk.injEq] at h
      simp only [Bool.and_eq_true] at hg
      have hd : ctxDone s' t = true := by
        have : ctxDone s' t = ctxDone s t := by simp [ctxDone, ctxOf, hcx, hca]
        rw [this]; exact hg.2
      refine ⟨{ s' with returned := s'.returned ++ [t] }, ?_, ?_⟩
      · simp only [nstep, nstepWith, hlive t hg.1, hd, Bool.and_self, ↓reduceIte, ← h.2]
      · rw [← h.1]
        refine ⟨hch, hpa, hcx, hca, hns, ?_⟩
        intro u hu
        simp only [List.mem_append, List.mem_singleton] at hu ⊢
        cases hu with
        | inl hu => exact Or.inl (hsub u hu)
        | inr hu => exact Or.inr hu
    · cases h
  | cancel =>
    simp only [nstep, nstepWith, Option.some.injEq, Prod.mk.injEq] at h
    refine ⟨{ s' with cancelled := s'.cancelled ++ [0] }, ?_, ?_⟩
    · simp only [nstep, nstepWith, ← h.2]
    · rw [← h.1]; exact ⟨hch, hpa, hcx, by simp [hca], hns, hsub⟩

/-- **Delivery is independent of thread lifetimes** (all schedules, all trees, the code as it
    is): take any executable schedule and erase every return (and every wait) from it — so
    that no thread ever ends.  The erased schedule is executable too and ends with exactly the
    same channels: the same queues, the same values accepted, dequeued and handed out, to the
    same receivers in the same order, the same contexts and cancelled scopes.  Which threads
    have returned, and when, decides nothing about what is delivered. -/
theorem delivery_independent_of_returns (ops : List NOp) (s s' f : Net) (hr : SameButAlive s s')
    (h : nrun s ops = some f) : ∃ f', nrun s' (dropRets ops) = some f' ∧ SameButAlive f f' := by
  induction ops generalizing s s' with
  | nil =>
    simp only [nrun, nrunWith, Option.some.injEq] at h
    subst h
    exact ⟨s', rfl, hr⟩
  | cons o os ih =>
    simp only [nrun, nrunWith] at h
    split at h
    · rename_i s1 ob hst
      cases o with
      | ret t =>
        obtain ⟨_, _, hs1⟩ := nstep_ret_inv s s1 t ob hst
        have hr1 : SameButAlive s1 s' := by
          obtain ⟨a, b, c, d, e, g⟩ := hr
          rw [hs1]
          exact ⟨a, b, c, d, e, fun u hu => List.mem_append_left _ (g u hu)⟩
        simpa only [dropRets] using ih s1 s' hr1 h
      | wait w t =>
        have hs1 : s1 = s := by
          simp only [nstepWith] at hst
          split at hst
          · simp only [Option.some.injEq, Prod.mk.injEq] at hst; exact hst.1.symm
          · cases hst
        rw [hs1] at h
        simpa only [dropRets] using ih s s' hr h
      | chan k op =>
        obtain ⟨s1', hst', hr1⟩ := nstep_sameButAlive s s' s1 _ ob hr hst (by intro t; simp) (by intro w t; simp)
        obtain ⟨f', hf', hrf⟩ := ih s1 s1' hr1 h
        refine ⟨f', ?_, hrf⟩
        simp only [dropRets, nrun, nrunWith]
        simp only [nstep] at hst'
        rw [hst']
        exact hf'
      | spawn p =>
        obtain ⟨s1', hst', hr1⟩ := nstep_sameButAlive s s' s1 _ ob hr hst (by intro t; simp) (by intro w t; simp)
        obtain ⟨f', hf', hrf⟩ := ih s1 s1' hr1 h
        refine ⟨f', ?_, hrf⟩
        simp only [dropRets, nrun, nrunWith]
        simp only [nstep] at hst'
        rw [hst']
        exact hf'
      | abort t =>
        obtain ⟨s1', hst', hr1⟩ := nstep_sameButAlive s s' s1 _ ob hr hst (by intro t; simp) (by intro w t; simp)
        obtain ⟨f', hf', hrf⟩ := ih s1 s1' hr1 h
        refine ⟨f', ?_, hrf⟩
        simp only [dropRets, nrun, nrunWith]
        simp only [nstep] at hst'
        rw [hst']
        exact hf'
      | cancel =>
        obtain ⟨s1', hst', hr1⟩ := nstep_sameButAlive s s' s1 _ ob hr hst (by intro t; simp) (by intro w t; simp)
        obtain ⟨f', hf', hrf⟩ := ih s1 s1' hr1 h
        refine ⟨f', ?_, hrf⟩
        simp only [dropRets, nrun, nrunWith]
        simp only [nstep] at hst'
        rw [hst']
        exact hf'
    · cases h

/-- the same from the initial state: the run in which nobody ever returns delivers exactly
    what the given run delivers -/
theorem delivery_independent_of_returns_init (caps : List Nat) (ops : List NOp) (f : Net)
    (h : nrun (ninit caps) ops = some f) :
    ∃ f', nrun (ninit caps) (dropRets ops) = some f' ∧ f'.chans = f.chans ∧ f'.cancelled = f.cancelled := by
  obtain ⟨f', hf', hr⟩ := delivery_independent_of_returns ops (ninit caps) (ninit caps) f
    ⟨rfl, rfl, rfl, rfl, rfl, fun _ h => h⟩ h
  exact ⟨f', hf', hr.1, hr.2.2.2.1⟩

/-! #### Every channel of a thread tree is the channel machine -/

/-- **Projection** (all schedules, all trees, both variants of the context): the state of
    channel `k` after a schedule of the thread tree is the state the channel machine reaches
    from the fresh channel on the operations addressed to `k`, in schedule order.  So every
    theorem above about `run (init cap) ops` speaks about every channel of every tree. -/
theorem net_channel_is_channel_machine (b : Bool) (caps : List Nat) (ops : List NOp) (s : Net)
    (h : nrunWith b (ninit caps) ops = some s) (k cap : Nat) (hk : caps[k]? = some cap) :
    ∃ c, s.chans[k]? = some c ∧ run (init cap) (chanOpsOf k ops) = some c :=
  nrunWith_chan b ops (ninit caps) s h k (init cap) (by simp [ninit, hk])

/-- **Arrival order in a thread tree**: on every channel of every tree, whoever has returned,
    dequeued ++ queued = accepted, in order. -/
theorem net_fifo_conservation (caps : List Nat) (ops : List NOp) (s : Net)
    (h : nrun (ninit caps) ops = some s) (k : Nat) (c : Chan) (hc : s.chans[k]? = some c) :
    values c.deq ++ c.buf = c.sent := by
  have hlt : k < caps.length := by
    have := (List.getElem?_eq_some_iff.1 hc).1
    have hl : s.chans.length = caps.length := by
      have : ∀ (ops : List NOp) (a b : Net), nrun a ops = some b → b.chans.length = a.chans.length := by
        intro ops
        induction ops with
        | nil => intro a b h; simp only [nrun, nrunWith, Option.some.injEq] at h; subst h; rfl
        | cons o os ih =>
          intro a b h
          simp only [nrun, nrunWith] at h
          split at h
          · rename_i a1 ob hst
            rw [ih a1 b h]
            cases o with
            | chan k op =>
              obtain ⟨_, _, _, _, _, _, hs1, _⟩ := nstepWith_chan_inv false a a1 k op ob hst
              rw [hs1]; simp
            | spawn p => rw [nstepWith_not_chan_chans false a a1 _ ob hst (by intro k op; simp)]
            | ret t => rw [nstepWith_not_chan_chans false a a1 _ ob hst (by intro k op; simp)]
            | wait w t => rw [nstepWith_not_chan_chans false a a1 _ ob hst (by intro k op; simp)]
            | abort t => rw [nstepWith_not_chan_chans false a a1 _ ob hst (by intro k op; simp)]
            | cancel => rw [nstepWith_not_chan_chans false a a1 _ ob hst (by intro k op; simp)]
          · cases h
      rw [this ops _ s h]; simp [ninit]
    omega
  obtain ⟨c', hc', hrun⟩ := net_channel_is_channel_machine false caps ops s h k caps[k] (List.getElem?_eq_getElem hlt)
  rw [hc] at hc'
  cases hc'
  exact fifo_conservation _ _ c hrun

/-- **Exactly once, in order, in a thread tree** (the channel part of C10 for nested spawns):
    on every channel `k` of every tree — any depth, threads returning at any moment — on
    which at most one thread iterates (`atMostOneIterator`, the guard of the recorded
    finding), in every reachable state without a half-finished iteration step every accepted
    value was handed out exactly once or is still queued, and every receiver saw each
    sender's values in sending order. -/
theorem net_exactly_once (caps : List Nat) (ops : List NOp) (s : Net)
    (h : nrun (ninit caps) ops = some s) (k cap : Nat) (hk : caps[k]? = some cap)
    (hg : atMostOneIterator (chanOpsOf k ops) = true) (c : Chan) (hc : s.chans[k]? = some c)
    (hp : c.pend = []) : ExactlyOnce c ∧ ReceiverOrder c := by
  obtain ⟨c', hc', hrun⟩ := net_channel_is_channel_machine false caps ops s h k cap hk
  rw [hc] at hc'
  cases hc'
  exact C10_partial_guard cap _ hg c hrun hp

/-! #### Why the context is part of the model -/

/-- the smallest nested topology: the main program starts thread 1, thread 1 starts thread 2
    (a producer) and returns; thread 2 then sends and the main program receives -/
def nestedProducer : List NOp :=
  [.spawn 0, .spawn 1, .ret 1, .chan 0 (.send 2 (2, 0)), .chan 0 (.recv 0), .chan 0 (.send 2 (2, 1)),
   .chan 0 (.recv 0), .ret 2]

/-- the code as it is delivers both values, and thread 2 can never be cut short -/
example : (nrun (ninit [1]) nestedProducer).map (fun s => (s.chans.map (·.deliv), s.returned, ctxDone s 2))
    = some ([[(0, (2, 0)), (0, (2, 1))]], [1, 2], false) := by decide

/-- **With a cancel scope per spawned call the statement is false**: in the variant where a
    returning call cancels the scope its children were started in, a schedule in which the
    host never cancels reaches a state where a grandchild's pending send can fail with
    "context canceled" — the value is never delivered.  (This is why `ctx` is in the model:
    `abort_only_after_run_cancel` and `parent_return_preserves_delivery` are properties of
    the context plumbing, not of the channels.) -/
theorem own_scope_variant_cuts_descendants_short :
    ∃ (ops : List NOp) (s : Net) (t : Nat), nrunWith true (ninit [1]) ops = some s ∧ NOp.cancel ∉ ops ∧
      (nstepWith true s (.abort t)).isSome = true ∧ isReturned s t = false := by
  refine ⟨[.spawn 0, .spawn 1, .ret 1], ?_⟩
  cases hr : nrunWith true (ninit [1]) [.spawn 0, .spawn 1, .ret 1] with
  | none => exact absurd hr (by decide)
  | some s =>
    refine ⟨s, 2, rfl, by decide, ?_, ?_⟩
    · have : (nrunWith true (ninit [1]) [.spawn 0, .spawn 1, .ret 1]).map (fun s => (nstepWith true s (.abort 2)).isSome) = some true := by decide
      rw [hr] at this
      simpa using this
    · have : (nrunWith true (ninit [1]) [.spawn 0, .spawn 1, .ret 1]).map (fun s => isReturned s 2) = some false := by decide
      rw [hr] at this
      simpa using this


/-! ### "Closed" is reported only when drained (produce-then-close races)

A producer that sends its last values and closes at once, while consumers are waiting on the
momentarily empty channel: the consumer's receive must not answer "closed" while a value is
queued.  In the machine (= the code as it is) the answer rests on ONE atomic test. -/

/-- **A receive is "atomic test first"**: `<-c` answers nil exactly when the queue is empty
    AND the channel is closed at the moment of the step; otherwise it dequeues or is not
    enabled (for every state and thread). -/
theorem recv_is_atomic_test (c : Chan) (t : Nat) : step c (.recv t) = recvAtomic c t := by
  unfold recvAtomic closedAndDrained
  simp only [step]
  split
  · rfl
  · cases hb : c.buf with
    | nil => cases hc : c.closed <;> simp
    | cons v rest => simp

/-- the same for the first half of a `range` step -/
theorem next_is_atomic_test (c : Chan) (t : Nat) : step c (.next t) = nextAtomic c t := by
  unfold nextAtomic closedAndDrained
  simp only [step]
  split
  · rfl
  · cases hb : c.buf with
    | nil => cases hc : c.closed <;> simp
    | cons v rest => simp

/-- **"Closed" is reported only when drained** (every schedule — any length, any number of
    threads, every interleaving, every buffer size —, every action of every thread): if in a
    reachable state a step reports "closed" (a receive answers nil, a `range` step ends) then
    at that moment the queue is empty and the channel is closed, every value the channel ever
    accepted has been dequeued, and the step changes nothing.  In particular no receive
    reports "closed" while a value is still buffered. -/
theorem closed_reported_only_when_drained (cap : Nat) (ops : List Op) (c : Chan)
    (h : run (init cap) ops = some c) (o : Op) (c' : Chan) (ob : Obs)
    (hs : step c o = some (c', ob)) (hr : ob.reportsClosed = true) :
    c.buf = [] ∧ c.closed = true ∧ values c.deq = c.sent ∧ c' = c := by
  have hf := fifo_conservation cap ops c h
  have key : c.buf = [] ∧ c.closed = true ∧ c' = c := by
    cases o with
    | send t v =>
      simp only [step] at hs
      split at hs
      · cases hs
      · split at hs
        · simp only [Option.some.injEq, Prod.mk.injEq] at hs; rw [← hs.2] at hr; cases hr
        · split at hs
          · simp only [Option.some.injEq, Prod.mk.injEq] at hs; rw [← hs.2] at hr; cases hr
          · cases hs
    | recv t =>
      rw [recv_is_atomic_test] at hs
      unfold recvAtomic at hs
      split at hs
      · cases hs
      · split at hs
        · rename_i hcd
          simp only [Option.some.injEq, Prod.mk.injEq] at hs
          simp only [closedAndDrained, Bool.and_eq_true, List.isEmpty_iff] at hcd
          exact ⟨hcd.1, hcd.2, hs.1.symm⟩
        · split at hs
          · simp only [Option.some.injEq, Prod.mk.injEq] at hs; rw [← hs.2] at hr; cases hr
          · cases hs
    | close t =>
      simp only [step] at hs
      split at hs
      · cases hs
      · split at hs <;>
          (simp only [Option.some.injEq, Prod.mk.injEq] at hs; rw [← hs.2] at hr; cases hr)
    | next t =>
      rw [next_is_atomic_test] at hs
      unfold nextAtomic at hs
      split at hs
      · cases hs
      · split at hs
        · rename_i hcd
          simp only [Option.some.injEq, Prod.mk.injEq] at hs
          simp only [closedAndDrained, Bool.and_eq_true, List.isEmpty_iff] at hcd
          exact ⟨hcd.1, hcd.2, hs.1.symm⟩
        · split at hs
          · simp only [Option.some.injEq, Prod.mk.injEq] at hs; rw [← hs.2] at hr; cases hr
          · cases hs
    | entry t =>
      simp only [step] at hs
      split at hs
      · split at hs <;>
          (simp only [Option.some.injEq, Prod.mk.injEq] at hs; rw [← hs.2] at hr; cases hr)
      · cases hs
    | peek t =>
      simp only [step] at hs
      split at hs
      · cases hs
      · split at hs <;>
          (simp only [Option.some.injEq, Prod.mk.injEq] at hs; rw [← hs.2] at hr; cases hr)
    | handoff s r v iter =>
      simp only [step] at hs
      split at hs
      · cases hs
      · cases iter <;>
          (simp only [Bool.false_eq_true, ↓reduceIte, Option.some.injEq, Prod.mk.injEq] at hs
           rw [← hs.2] at hr; cases hr)
  obtain ⟨hb, hc, he⟩ := key
  refine ⟨hb, hc, ?_, he⟩
  rw [hb, List.append_nil] at hf
  exact hf

/-- in a closed and drained channel nothing is accepted or dequeued any more -/
theorem closed_drained_frozen (c c' : Chan) (o : Op) (ob : Obs) (hc : c.closed = true) (hb : c.buf = [])
    (h : step c o = some (c', ob)) : c'.sent = c.sent ∧ c'.deq = c.deq := by
  have he := step_eff c c' o ob h
  cases he with
  | same => exact ⟨rfl, rfl⟩
  | send t v =>
    simp only [step] at h
    split at h
    · cases h
    · simp only [hc, Option.some.injEq, Prod.mk.injEq] at h
      have := congrArg Chan.buf h.1
      simp [hb] at this
  | close t => exact ⟨rfl, rfl⟩
  | recv t v rest _ hb' => rw [hb] at hb'; cases hb'
  | next t v rest _ hb' => rw [hb] at hb'; cases hb'
  | entry t v _ _ => exact ⟨rfl, rfl⟩
  | entryNone t _ _ => exact ⟨rfl, rfl⟩
  | handRecv s r v _ _ =>
    simp only [step] at h
    split at h
    · cases h
    · rename_i hx; simp [hc] at hx
  | handNext s r v _ _ =>
    simp only [step] at h
    split at h
    · cases h
    · rename_i hx; simp [hc] at hx

/-- **A "closed" report is final** (every continuation of every schedule): once some step has
    reported "closed" in a reachable state `c`, whatever any thread does afterwards — in any
    order and number — nothing is accepted and nothing is dequeued any more and the queue stays
    empty: the values accepted up to the report are all the values there will ever be, and they
    had all been dequeued.  (So a consumer that stops at nil / at the end of its `range` has
    missed nothing.) -/
theorem closed_report_is_final (cap : Nat) (ops : List Op) (c : Chan)
    (h : run (init cap) ops = some c) (o : Op) (c' : Chan) (ob : Obs)
    (hs : step c o = some (c', ob)) (hr : ob.reportsClosed = true) (rest : List Op) (cf : Chan)
    (hrest : run c' rest = some cf) :
    cf.sent = c.sent ∧ cf.deq = c.deq ∧ cf.buf = [] ∧ values cf.deq = cf.sent := by
  obtain ⟨hb, hc, hall, he⟩ := closed_reported_only_when_drained cap ops c h o c' ob hs hr
  subst he
  have key : ∀ (rest : List Op) (a b : Chan), run a rest = some b → a.closed = true → a.buf = [] →
      b.sent = a.sent ∧ b.deq = a.deq ∧ b.buf = [] := by
    intro rest
    induction rest with
    | nil => intro a b hab _ hab2; simp only [run, Option.some.injEq] at hab; subst hab; exact ⟨rfl, rfl, hab2⟩
    | cons x xs ih =>
      intro a b hab hca hba
      simp only [run] at hab
      split at hab
      · rename_i a1 ob1 hst
        obtain ⟨hc1, hb1⟩ := closed_drained_stable a a1 x ob1 hca hba hst
        obtain ⟨hs1, hd1⟩ := closed_drained_frozen a a1 x ob1 hca hba hst
        obtain ⟨r1, r2, r3⟩ := ih a1 b hab hc1 hb1
        exact ⟨r1.trans hs1, r2.trans hd1, r3⟩
      · cases hab
  obtain ⟨r1, r2, r3⟩ := key rest c' cf hrest hc hb
  exact ⟨r1, r2, r3, by rw [r1, r2]; exact hall⟩

/-- **… so everything sent was handed out** when "closed" is reported (every schedule in which
    at most one thread iterates — the guard of the recorded finding — and no iteration step is
    half-finished): at that moment the values handed to script code are, as a multiset, exactly
    the values the channel accepted. -/
theorem closed_report_all_delivered (cap : Nat) (ops : List Op) (hg : atMostOneIterator ops = true)
    (c : Chan) (h : run (init cap) ops = some c) (hp : c.pend = []) (o : Op) (c' : Chan) (ob : Obs)
    (hs : step c o = some (c', ob)) (hr : ob.reportsClosed = true) : (values c.deliv).Perm c.sent := by
  obtain ⟨hb, _, _, _⟩ := closed_reported_only_when_drained cap ops c h o c' ob hs hr
  have := (C10_partial_guard cap ops hg c h hp).1
  unfold ExactlyOnce at this
  rw [hb, List.append_nil] at this
  exact this

/-- the race of the contrast machine: the consumer (thread 1) finds the queue empty; the
    producer (thread 0) sends its last value and closes; the consumer then reads the flag -/
def pollThenFlagRace : List Op2 :=
  [.poll 1 false, .base (.send 0 (0, 0)), .base (.close 0), .flag 1 false]

/-- **Reading "empty" and "closed" at two moments loses a value** (contrast; this is why the
    test must be one): in the two-step variant a schedule exists — buffer size 1, one producer,
    one consumer — after which the consumer has been told "closed" (nil) although the value the
    channel accepted is still queued and has been handed to nobody.  The machine of the code
    as it is admits no such state (`closed_reported_only_when_drained`). -/
theorem two_step_variant_loses_a_value :
    ∃ (ops : List Op2) (s : Chan2) (obs : List (Option Obs)),
      run2 { c := init 1 } ops = some (s, obs) ∧ obs.getLast? = some (some .nil) ∧
      s.c.sent = [(0, 0)] ∧ s.c.buf = [(0, 0)] ∧ s.c.deliv = [] := by
  refine ⟨pollThenFlagRace, ?_⟩
  cases hr : run2 { c := init 1 } pollThenFlagRace with
  | none => exact absurd hr (by decide)
  | some r =>
    have : (run2 { c := init 1 } pollThenFlagRace).map (fun r => (r.2.getLast?, r.1.c.sent, r.1.c.buf, r.1.c.deliv))
        = some (some (some .nil), [(0, 0)], [(0, 0)], []) := by rfl
    rw [hr] at this
    simp only [Option.map_some, Option.some.injEq, Prod.mk.injEq] at this
    exact ⟨r.1, r.2, rfl, this.1, this.2.1, this.2.2.1, this.2.2.2⟩

/-- the same race with a `range` loop: the iteration ends while a value is queued -/
example : (run2 { c := init 2 } [.poll 1 true, .base (.send 0 (0, 0)), .base (.send 0 (0, 1)), .base (.close 0), .flag 1 true]).map
    (fun r => (r.2.getLast?, r.1.c.buf)) = some (some (some .nextEnd), [(0, 0), (0, 1)]) := by decide

/-- the machine of the code on the same race: the consumer's receive is not enabled on the
    empty open channel, and after send and close it gets the value, then nil -/
example : (trace step (init 1) [.recv 1, .send 0 (0, 0), .close 0, .recv 1, .recv 1]).1
    = [none, some .sendOk, some .closeOk, some (.val (0, 0)), some .nil] := by decide

/-! ### Every spawned callable runs on a VM of its own -/

/-- invariant of the VM machine of the code as it is: thread `t` runs on VM `t`, there are as
    many VMs as threads, and each VM's register counts exactly its thread's steps -/
def VInv (s : VMs) : Prop := s.vmOf = List.range s.vmOf.length ∧ s.ip.length = s.vmOf.length ∧ s.ip = s.pos

theorem vstep_vinv (s s' : VMs) (o : VOp) (hi : VInv s) (h : vstep s o = some s') : VInv s' := by
  obtain ⟨hv, hl, hp⟩ := hi
  cases o with
  | spawn p k =>
    simp only [vstep, vstepWith, Bool.true_or, ↓reduceIte] at h
    split at h
    · simp only [Option.some.injEq] at h
      subst h
      refine ⟨?_, by simp [hl], by simp [hp]⟩
      simp only [List.length_append, List.length_cons, List.length_nil, Nat.zero_add, List.range_succ]
      rw [← hv, hl]
    · cases h
  | exec t =>
    simp only [vstep, vstepWith] at h
    split at h
    · rename_i ht
      simp only [Option.some.injEq] at h
      subst h
      have hvt : s.vmOf.getD t 0 = t := by
        rw [hv, List.getD_eq_getElem?_getD, List.getElem?_range (by simpa using ht)]
        rfl
      refine ⟨hv, by simp [hl], ?_⟩
      simp only [hvt, hp]
    · cases h

theorem vrun_vinv (ops : List VOp) (s s' : VMs) (hi : VInv s) (h : vrun s ops = some s') : VInv s' := by
  induction ops generalizing s with
  | nil => simp only [vrun, vrunWith, Option.some.injEq] at h; subst h; exact hi
  | cons o os ih =>
    simp only [vrun, vrunWith] at h
    split at h
    · rename_i s1 hst
      exact ih s1 (vstep_vinv s s1 o hi hst) h
    · cases h

/-- **No two threads share a VM** (every schedule of spawns — of compiled functions, builtins
    and bound methods alike, by any thread, through any spawn form — and script steps, the code
    as it is): in every reachable state two different threads run their script code on
    different VMs. -/
theorem threads_have_distinct_vms (ops : List VOp) (s : VMs) (h : vrun {} ops = some s)
    (t u : Nat) (ht : t < s.vmOf.length) (hu : u < s.vmOf.length) (hne : t ≠ u) :
    s.vmOf.getD t 0 ≠ s.vmOf.getD u 0 := by
  obtain ⟨hv, _, _⟩ := vrun_vinv ops {} s ⟨rfl, rfl, rfl⟩ h
  have e : ∀ x, x < s.vmOf.length → s.vmOf.getD x 0 = x := by
    intro x hx
    rw [hv, List.getD_eq_getElem?_getD, List.getElem?_range (by simpa using hx)]
    rfl
  rw [e t ht, e u hu]
  exact hne

/-- the same as the decidable Spec predicate the oracle evaluates -/
theorem threads_have_distinct_vms_nodup (ops : List VOp) (s : VMs) (h : vrun {} ops = some s) :
    distinctVMs s = true := by
  obtain ⟨hv, _, _⟩ := vrun_vinv ops {} s ⟨rfl, rfl, rfl⟩ h
  simp only [distinctVMs, decide_eq_true_eq]
  rw [hv]
  exact List.nodup_range

/-- **A thread's VM is moved by that thread only** (every schedule, the code as it is): in
    every reachable state the register of the VM thread `t` runs on counts exactly the script
    steps `t` itself has executed — no callback of any spawned builtin, bound method or function
    has pushed a frame on, or moved the registers of, another thread's VM (the spawner's own
    computation is unaffected by what it spawned). -/
theorem vm_moved_by_own_thread_only (ops : List VOp) (s : VMs) (h : vrun {} ops = some s)
    (t : Nat) (ht : t < s.vmOf.length) : s.ip.getD (s.vmOf.getD t 0) 0 = s.pos.getD t 0 := by
  obtain ⟨hv, _, hp⟩ := vrun_vinv ops {} s ⟨rfl, rfl, rfl⟩ h
  have e : s.vmOf.getD t 0 = t := by
    rw [hv, List.getD_eq_getElem?_getD, List.getElem?_range (by simpa using ht)]
    rfl
  rw [e, hp]

/-- **Without a clone for builtins the statement is false** (contrast; this is why the clone is
    in the model): in the variant where only compiled functions get a VM of their own, the main
    program spawns a bound method (`items.map.spawn(f)`) and the first callback of that thread
    runs on the main program's VM — two threads share VM 0, and its register has moved although
    the main program has not executed a step. -/
theorem shared_vm_variant_derails_spawner :
    ∃ (ops : List VOp) (s : VMs), vrunWith false {} ops = some s ∧ distinctVMs s = false ∧ ownProgress s = false ∧
      s.vmOf.getD 1 0 = s.vmOf.getD 0 0 ∧ s.ip.getD 0 0 = 1 ∧ s.pos.getD 0 0 = 0 := by
  refine ⟨[.spawn 0 .method, .exec 1], ?_⟩
  cases hr : vrunWith false {} [.spawn 0 .method, .exec 1] with
  | none => exact absurd hr (by decide)
  | some s =>
    have : (vrunWith false {} [.spawn 0 .method, .exec 1]).map
        (fun s => (distinctVMs s, ownProgress s, s.vmOf.getD 1 0, s.vmOf.getD 0 0, s.ip.getD 0 0, s.pos.getD 0 0))
        = some (false, false, 0, 0, 1, 0) := by decide
    rw [hr] at this
    simp only [Option.map_some, Option.some.injEq, Prod.mk.injEq] at this
    exact ⟨s, rfl, this.1, this.2.1, by rw [this.2.2.1, this.2.2.2.1], this.2.2.2.2.1, this.2.2.2.2.2⟩

/-- non-vacuity: a tree of spawns of every kind with steps interleaved — five threads, five VMs,
    every register equal to its thread's own step count -/
example : (vrun {} [.spawn 0 .method, .exec 1, .exec 0, .spawn 0 .builtin, .spawn 1 .fn, .exec 2, .exec 1, .spawn 3 .method, .exec 4, .exec 0]).map
    (fun s => (s.vmOf, s.ip, s.pos, distinctVMs s, ownProgress s))
      = some ([0, 1, 2, 3, 4], [2, 2, 1, 0, 1], [2, 2, 1, 0, 1], true, true) := by decide

end Risor.C10
