import RisorModel.C10.ModelWide
import RisorModel.C10.Props
/-!
C10, round 6: a spawned call receives EVERY argument of the spawn statement, however many
there are, and binds its parameters exactly as the same statement made as a direct call
(defaults only for the parameters the statement gave no argument for).
-/
namespace Risor.C10

/-- a call is made (no arity error) exactly when the number of arguments lies between the
    number of required parameters and the number of all parameters -/
theorem bind_some_iff (f : Fn) (vals : List Int) :
    (bindParams f vals).isSome = true ↔ f.req ≤ vals.length ∧ vals.length ≤ f.req + f.defs.length := by
  unfold bindParams
  by_cases h1 : vals.length < f.req
  · simp [h1] <;> omega
  · by_cases h2 : f.req + f.defs.length < vals.length
    · simp [h1, h2] <;> omega
    · simp [h1, h2] <;> omega

/-- the parameters of a call that is made start with ALL the arguments given (whatever their
    number), and every parameter has a value -/
theorem bind_takes_every_argument (f : Fn) (vals ps : List Int) (h : bindParams f vals = some ps) :
    ps.take vals.length = vals ∧ ps.length = f.req + f.defs.length := by
  unfold bindParams at h
  by_cases h1 : vals.length < f.req
  · simp [h1] at h
  · by_cases h2 : f.req + f.defs.length < vals.length
    · simp [h1, h2] at h
    · simp only [h1, h2, if_false, Option.some.injEq] at h
      subst h
      refine ⟨by simp, ?_⟩
      simp only [List.length_append, List.length_drop]
      omega

/-- a given argument always beats the default: parameter `i` of a call with more than `i`
    arguments is argument `i` -/
theorem bind_given_argument_beats_default (f : Fn) (vals ps : List Int) (h : bindParams f vals = some ps)
    (i : Nat) (hi : i < vals.length) : ps[i]? = vals[i]? := by
  have h1 := (bind_takes_every_argument f vals ps h).1
  have : (ps.take vals.length)[i]? = ps[i]? := by
    rw [List.getElem?_take]; simp [hi]
  rw [← this, h1]

/-- a default is used only for a parameter beyond the arguments given -/
theorem bind_default_only_beyond_arguments (f : Fn) (vals ps : List Int) (h : bindParams f vals = some ps) :
    ps.drop vals.length = f.defs.drop (vals.length - f.req) := by
  unfold bindParams at h
  by_cases h1 : vals.length < f.req
  · simp [h1] at h
  · by_cases h2 : f.req + f.defs.length < vals.length
    · simp [h1, h2] at h
    · simp only [h1, h2, if_false, Option.some.injEq] at h
      subst h
      simp

/-- **A spawned call binds its parameters as the direct call at the spawn site does.**
    For every function (any number of required parameters and defaults), every list of argument
    expressions OF ANY LENGTH, every history before the spawn (`s`) and every schedule after it
    (`rest`: the spawner reassigns the variables, overwrites its own slice, other threads are
    spawned, run and waited for): when the spawned call runs it binds exactly the parameters —
    or raises exactly the arity error — of the same statement made as a direct call at the
    spawn site. -/
theorem spawned_call_binds_spawn_site_values (f : Fn) (s s1 : TState) (args : List Arg) (body : Body)
    (ob : TObs) (hsp : tstep s (.spawn args body) = some (s1, ob)) (rest : List TOp) (s2 : TState)
    (hrun : trun s1 rest = some s2) :
    spawnedParams f s2 s.threads.length = some (directParams f s.vars args) := by
  simp only [spawnedParams, directParams, spawn_args_by_value s s1 args body ob hsp rest s2 hrun, Option.map_some]

/-- … in particular it receives every argument of the spawn statement: the first
    `args.length` parameters are the values of the argument expressions at the spawn site -/
theorem spawned_call_gets_every_argument (f : Fn) (s s1 : TState) (args : List Arg) (body : Body)
    (ob : TObs) (hsp : tstep s (.spawn args body) = some (s1, ob)) (rest : List TOp) (s2 : TState)
    (hrun : trun s1 rest = some s2) (ps : List Int)
    (hps : spawnedParams f s2 s.threads.length = some (some ps)) :
    ps.take args.length = (evalArgs s.vars args).1 ∧ ps.length = f.req + f.defs.length := by
  rw [spawned_call_binds_spawn_site_values f s s1 args body ob hsp rest s2 hrun] at hps
  simp only [Option.some.injEq, directParams] at hps
  have h := bind_takes_every_argument f _ ps hps
  rw [evalArgs_length] at h
  exact h

/-! ### The statement sequences the harness runs (`wideRun`) -/

/-- later statements of the spawner leave a started thread's private arguments alone -/
theorem wideRun_keeps (os : List WOp) : ∀ (s : TState) (t : Nat) (th : Thread) (x : List Int × Bool),
    s.threads[t]? = some th → s.heap[th.slice]? = some x →
    (wideRun s os).2.threads[t]? = some th ∧ (wideRun s os).2.heap[th.slice]? = some x := by
  induction os with
  | nil => intro s t th x h1 h2; exact ⟨h1, h2⟩
  | cons o os ih =>
    intro s t th x h1 h2
    cases o with
    | assign i v =>
      simp only [wideRun, tstep, tstepWith]
      exact ih _ t th x h1 h2
    | call sp f args =>
      cases sp with
      | false =>
        simp only [wideRun]
        exact ih _ t th x h1 h2
      | true =>
        simp only [wideRun, tstep, tstepWith, ↓reduceIte]
        apply ih
        · have ht : t < s.threads.length := by
            cases hlt : decide (t < s.threads.length) with
            | true => exact of_decide_eq_true hlt
            | false =>
              have := of_decide_eq_false hlt
              rw [List.getElem?_eq_none (by omega)] at h1
              cases h1
          simp only [List.getElem?_append_left ht]
          exact h1
        · have ht : th.slice < s.heap.length := by
            cases hlt : decide (th.slice < s.heap.length) with
            | true => exact of_decide_eq_true hlt
            | false =>
              have := of_decide_eq_false hlt
              rw [List.getElem?_eq_none (by omega)] at h2
              cases h2
          simp only [List.getElem?_append_left ht]
          exact h2

/-- the state right after `spawn args` (what `tstep` gives) -/
def afterSpawn (s : TState) (args : List Arg) : TState :=
  { vars := (evalArgs s.vars args).2, shared := s.shared,
    heap := s.heap ++ [((evalArgs s.vars args).1, true), ((evalArgs s.vars args).1, false)],
    threads := s.threads ++ [{ slice := s.heap.length + 1, body := .echo }], finished := s.finished }

theorem tstep_spawn_echo (s : TState) (args : List Arg) :
    tstep s (.spawn args .echo) = some (afterSpawn s args, .spawned s.threads.length s.heap.length (evalArgs s.vars args).2) := by
  simp [tstep, tstepWith, afterSpawn]

/-- a spawned call statement, run after everything else the spawner does, observes what the
    direct call at the statement observes -/
theorem wideRun_spawned_head (s : TState) (f : Fn) (args : List Arg) (os : List WOp) :
    (wideRun s (.call true f args :: os)).1 =
      directParams f s.vars args :: (wideRun (afterSpawn s args) os).1 := by
  simp only [wideRun, tstep_spawn_echo]
  congr 1
  have k := wideRun_keeps os (afterSpawn s args)
      s.threads.length { slice := s.heap.length + 1, body := .echo } ((evalArgs s.vars args).1, false)
      (by simp [afterSpawn]) (by simp [afterSpawn])
  simp only [spawnedParams, threadArgs, k.1, k.2, Option.map_some, Option.getD_some, directParams]

/-- the same statements with every spawn replaced by a direct call -/
def WOp.direct : WOp → WOp
  | .assign i v => .assign i v
  | .call _ f args => .call false f args

/-- **A spawned call is the direct call, for whole programs**: in every sequence of
    assignments and calls — any number of arguments, any functions, spawned calls running
    after all later reassignments — every call statement observes the parameters (or the arity
    error) it observes when all the spawns are replaced by direct calls. -/
theorem wide_spawned_is_direct (os : List WOp) : ∀ (s s' : TState), s.vars = s'.vars →
    (wideRun s os).1 = (wideRun s' (os.map WOp.direct)).1 := by
  induction os with
  | nil => intro s s' _; rfl
  | cons o os ih =>
    intro s s' hv
    cases o with
    | assign i v =>
      simp only [List.map_cons, WOp.direct, wideRun, tstep, tstepWith]
      exact ih _ _ (by simp [hv])
    | call sp f args =>
      cases sp with
      | false =>
        simp only [List.map_cons, WOp.direct, wideRun, hv]
        congr 1
        exact ih _ _ (by simp)
      | true =>
        rw [wideRun_spawned_head]
        simp only [List.map_cons, WOp.direct, wideRun, hv]
        congr 1
        exact ih _ _ (by simp [afterSpawn, hv])

/-! ### Non-vacuity and the contrast -/

/-- nine arguments for a function with two required parameters and eight defaults: the spawned
    call binds all nine, the tenth parameter keeps its default -/
example :
    let f : Fn := { req := 2, defs := [-1, -2, -3, -4, -5, -6, -7, -8] }
    let args := [Arg.var 0, .lit 2, .lit 3, .lit 4, .lit 5, .lit 6, .lit 7, .tick 0, .dbl (.var 0)]
    (wideRun { vars := [10] } [.call true f args, .assign 0 0]).1 = [some [10, 2, 3, 4, 5, 6, 7, 11, 22, -8]] := by
  decide

/-- CONTRAST: with the private copy held in 8 inline slots the ninth argument never arrives —
    the spawned call silently runs with the DEFAULT of its ninth parameter, or raises the arity
    error when that parameter is required, while the direct call binds the argument. -/
theorem inline_slots_variant_drops_arguments :
    let args := [Arg.lit 1, .lit 2, .lit 3, .lit 4, .lit 5, .lit 6, .lit 7, .lit 8, .lit 9]
    let s1 : TState := ((tstep {} (.spawn args .echo)).map (·.1)).getD {}
    spawnedParamsInline 8 { req := 8, defs := [-1] } s1 0 = some (some [1, 2, 3, 4, 5, 6, 7, 8, -1]) ∧
    spawnedParams { req := 8, defs := [-1] } s1 0 = some (some [1, 2, 3, 4, 5, 6, 7, 8, 9]) ∧
    spawnedParamsInline 8 { req := 9, defs := [] } s1 0 = some none ∧
    spawnedParams { req := 9, defs := [] } s1 0 = some (some [1, 2, 3, 4, 5, 6, 7, 8, 9]) := by
  decide

/-- up to the number of slots the variant and the code as it is agree -/
example :
    let args := [Arg.lit 1, .lit 2, .lit 3]
    let s1 : TState := ((tstep {} (.spawn args .echo)).map (·.1)).getD {}
    spawnedParamsInline 8 { req := 1, defs := [0, 0, 0] } s1 0 = spawnedParams { req := 1, defs := [0, 0, 0] } s1 0 := by
  decide

end Risor.C10
