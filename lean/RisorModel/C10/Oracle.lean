import RisorModel.Util
/-! Line-protocol front end of the C10 model (stub until the model exists). -/
namespace Risor.C10

def handle : List String → String
  | _ => "error\tnot-implemented"

end Risor.C10
