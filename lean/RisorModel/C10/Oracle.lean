import RisorModel.Util
import RisorModel.C10.Model
import RisorModel.C10.ModelExt
import RisorModel.C10.ModelCall
import RisorModel.C10.ModelWide
import RisorModel.C10.ModelCap
/-!
Line-protocol front end of the C10 model (requests after the leading `C10` field).

  chanops <cap> <op,op,…>             → <impl obs,…> TAB <spec obs,…> TAB <atMostOneIterator> TAB <buflen>:<closed>:<rx>
       op  := s:t:i:k | r:t | c:t | n:t | e:t | p:t | h:s:r:i:k:(0|1)
       obs := B | so | se | co | ce | v:i:k | nil | nv:i:k | end | ent:key:i:k | entnone
  hist <counts,…> <recv;recv;…>       → valid|invalid TAB pattern|nopattern TAB dups:lost:alien
       recv := i:k,i:k,… | -
  spawn <vars,…> <shared,…> <op,op,…> → <obs,…>
       op  := a:i:v | g:i:v | sp:(e|f|p|o):A.A.A | k:sl:i:v | run:t | w:t    (A.A.A = argument expressions, `-` if none)
       A   := i (variable v_i) | c<n> | cm<n> (literal n / -n) | t<i> (nested call tick_i()) | d<A> (nested call dbl(A))
       body: e = returns, f = raises, p = Go panic in a builtin it calls, o = Go panic by frame overflow (both `Body.panic`)
       obs := B | u | sp:t:slice:v.v.v | ran:R | w:R        R := (r|e|p) "." v.v.v     (sp: v.v.v = spawner's variables after the statement)
  net <cap,…> <nop,nop,…>             → <obs,…> TAB <thread;thread;…> TAB <chan;chan;…>        (thread tree, the code as it is)
       nop    := ch:k:<op> | sp:p | ret:t | w:w:t | ab:t | cancel          (<op> as in chanops, its own fields separated by `:`)
       obs    := B | <chanops obs> | sp:t | u | ab
       thread := t:parent:returned(0|1):ctxdone-now(0|1):abortable-at-some-point(0|1)
       chan   := buflen:closed:sent:dequeued:delivered:pending
  pclose <cap> <op,op,…>              → <impl obs,…> TAB <closedAndDrained before each step, 0|1,…> TAB sent:dequeued:delivered:buflen:closed TAB ok|violated
       (a produce-then-close round as one schedule; ok = every step that reports "closed" — nil / end — was taken in a closed and drained state)
  vms <vop,vop,…>                     → <vmOf,…> TAB distinct|shared TAB own|derailed TAB <ip,…> TAB <pos,…>
       vop := sp:p:(f|b|m) (thread p spawns a compiled function | builtin | bound method) | x:t (thread t executes a script step)
  loops <cap> <lop,lop,…>             → <impl obs,…> TAB <spec obs,…> TAB <atMostOneIterator of the channel steps> TAB <queue i:k;i:k;… | -> TAB closed:rx TAB sent:dequeued:delivered:pending:held:dropped:inloop
       lop := <op as in chanops> | en:t (thread t starts a range loop: Chan.Iter()) | lv:t (the loop ends: break / return / error / end of the channel)
       obs := as in chanops | u (an enabled step without an observation)
  mods <mop,mop,…>                    → <impl obs,…> TAB <spec obs,…> TAB <guard per step 0|1,…> TAB <thread;thread;…> TAB <cnt,…>
       mop    := im:t:m (thread t imports module m) | ca:t:m:x (thread t calls m.bump(x)) | sp:p | fin:t | w:w:t
       obs    := B | u | ran | v:r | P (the call faulted) | sp:t | r:v.v.v (wait: the results) | perr (wait: the thread's panic error)
       thread := t:(a|run|ret|pan):v.v.v         cnt = counter of modules 0..3
  callnet <cop,cop,…>                 → <thread;thread;…> TAB <wait obs,…>        (calls, frames and deferred calls of every thread; thread 0 = the main program's direct call)
       cop    := sp:p | w:w:t | o:t:S      S := c (call) | t (call under try) | de:k | df:k (defer an effect | an effect and a raised error) | e:k (effect) | r:v (return) | x:k (raise)
       thread := t:<effects k.k.k | ->:(run | v<n> | e<n>):reg:ran:<frames active>
       wait obs := B | v<n> | e<n>
  wide <vars,…> <wop,wop,…>           → <obs,…> TAB <final vars v.v.v>        (call statements with any number of arguments; spawned calls run after the last statement)
       wop := a:i:v | d:req:D.D.D:A.A.A (direct call) | s:req:D.D.D:A.A.A (spawned call)     D.D.D = the default values of the parameters after the `req` required ones (`-` if none), A as in spawn
       obs := p:v.v.v (the parameter values the call binds) | E (the arity error is raised)     one per call statement
  capseq <cap> <op,op,…>              → <impl obs,…> TAB <queue length after each step,…> TAB <sendBlocks after each step 0|1,…> TAB <recvBlocks after each step 0|1,…> TAB <final queue i:k;i:k;… | -> TAB <received i:k;… | -> TAB <accepted i:k;… | -> TAB ok|violated
       (capacity stream: op/obs as in chanops; ok = queue length <= cap after every step and received ++ queue = accepted, the statements of PropsCap evaluated on this schedule)
-/
namespace Risor.C10
open Risor.Util

def natOf (s : String) : Option Nat := s.toNat?

def intOf (s : String) : Option Int := s.toInt?

def listOf (sep : String) (s : String) : List String :=
  if s = "-" || s = "" then [] else s.splitOn sep

def parseOp (s : String) : Option Op :=
  match s.splitOn ":" with
  | ["s", t, i, k] => do pure (.send (← natOf t) (← natOf i, ← natOf k))
  | ["r", t] => do pure (.recv (← natOf t))
  | ["c", t] => do pure (.close (← natOf t))
  | ["n", t] => do pure (.next (← natOf t))
  | ["e", t] => do pure (.entry (← natOf t))
  | ["p", t] => do pure (.peek (← natOf t))
  | ["h", s, r, i, k, it] => do pure (.handoff (← natOf s) (← natOf r) (← natOf i, ← natOf k) (it == "1"))
  | _ => none

def showMsg (m : Msg) : String := toString m.1 ++ ":" ++ toString m.2

def showObs : Option Obs → String
  | none => "B"
  | some .sendOk => "so"
  | some .sendErr => "se"
  | some .closeOk => "co"
  | some .closeErr => "ce"
  | some (.val v) => "v:" ++ showMsg v
  | some .nil => "nil"
  | some (.nextOk v) => "nv:" ++ showMsg v
  | some .nextEnd => "end"
  | some (.ent k v) => "ent:" ++ toString k ++ ":" ++ showMsg v
  | some .entNone => "entnone"

def parseMsg (s : String) : Option Msg :=
  match s.splitOn ":" with
  | [i, k] => do pure (← natOf i, ← natOf k)
  | _ => none

def parseBody : String → Option Body
  | "e" => some .echo
  | "f" => some .fail
  | "p" => some .panic
  | "o" => some .panic
  | _ => none

def parseArgC : List Char → Option Arg
  | 'd' :: rest => (parseArgC rest).map .dbl
  | 't' :: rest => (natOf (String.ofList rest)).map .tick
  | 'c' :: 'm' :: rest => (natOf (String.ofList rest)).map fun n => .lit (-(n : Int))
  | 'c' :: rest => (natOf (String.ofList rest)).map fun n => .lit (n : Int)
  | cs => (natOf (String.ofList cs)).map .var

def parseArg (s : String) : Option Arg := parseArgC s.toList

def parseTOp (s : String) : Option TOp :=
  match s.splitOn ":" with
  | ["a", i, v] => do pure (.assign (← natOf i) (← intOf v))
  | ["g", i, v] => do pure (.setShared (← natOf i) (← intOf v))
  | ["sp", b, args] => do pure (.spawn (← (listOf "." args).mapM parseArg) (← parseBody b))
  | ["k", sl, i, v] => do pure (.poke (← natOf sl) (← natOf i) (← intOf v))
  | ["run", t] => do pure (.runT (← natOf t))
  | ["w", t] => do pure (.wait (← natOf t))
  | _ => none

def parseWOp (s : String) : Option WOp :=
  match s.splitOn ":" with
  | ["a", i, v] => do pure (.assign (← natOf i) (← intOf v))
  | [k, req, defs, args] =>
    if k == "d" || k == "s" then do
      pure (.call (k == "s") { req := ← natOf req, defs := ← (listOf "." defs).mapM intOf } (← (listOf "." args).mapM parseArg))
    else none
  | _ => none

def showInts (vs : List Int) : String :=
  if vs.isEmpty then "-" else ".".intercalate (vs.map toString)

def showOutcome : Outcome → String
  | .ret vs => "r." ++ showInts vs
  | .err vs => "e." ++ showInts vs
  | .panicked vs => "p." ++ showInts vs

def showTObs : Option TObs → String
  | none => "B"
  | some .unit => "u"
  | some (.spawned t sl vars) => "sp:" ++ toString t ++ ":" ++ toString sl ++ ":" ++ showInts vars
  | some (.ran r) => "ran:" ++ showOutcome r
  | some (.waited r) => "w:" ++ showOutcome r

def parseNOp (s : String) : Option NOp :=
  match s.splitOn ":" with
  | "ch" :: k :: rest => do pure (.chan (← natOf k) (← parseOp (":".intercalate rest)))
  | ["sp", p] => do pure (.spawn (← natOf p))
  | ["ret", t] => do pure (.ret (← natOf t))
  | ["w", w, t] => do pure (.wait (← natOf w) (← natOf t))
  | ["ab", t] => do pure (.abort (← natOf t))
  | ["cancel"] => some .cancel
  | _ => none

def showNObs : Option NObs → String
  | none => "B"
  | some (.chan ob) => showObs (some ob)
  | some (.spawned t) => "sp:" ++ toString t
  | some .unit => "u"
  | some .aborted => "ab"

/-- threads for which `abort` is enabled in `s` -/
def abortable (s : Net) : List Nat := (List.range s.ctx.length).filter fun t => live s t && ctxDone s t

/-- observations of a schedule of the thread tree (the code as it is), the final state, and
    every thread whose channel operations could have been cut short at some point -/
def netTrace (s : Net) (ab : List Nat) : List NOp → List (Option NObs) × Net × List Nat
  | [] => ([], s, ab ++ abortable s)
  | o :: os =>
    match nstep s o with
    | some (s', ob) => let (r, sf, abf) := netTrace s' (ab ++ abortable s) os; (some ob :: r, sf, abf)
    | none => let (r, sf, abf) := netTrace s ab os; (none :: r, sf, abf)

def parseVOp (s : String) : Option VOp :=
  match s.splitOn ":" with
  | ["sp", p, "f"] => do pure (.spawn (← natOf p) .fn)
  | ["sp", p, "b"] => do pure (.spawn (← natOf p) .builtin)
  | ["sp", p, "m"] => do pure (.spawn (← natOf p) .method)
  | ["x", t] => do pure (.exec (← natOf t))
  | _ => none

/-- per step: was the channel closed and drained before it; and: did every "closed" report
    happen in such a state -/
def closedTrace (c : Chan) : List Op → List Bool × Bool
  | [] => ([], true)
  | o :: os =>
    let cd := closedAndDrained c
    match step c o with
    | some (c', ob) =>
      let (r, ok) := closedTrace c' os
      (cd :: r, ok && (!ob.reportsClosed || cd))
    | none => let (r, ok) := closedTrace c os; (cd :: r, ok)

def b01 (b : Bool) : String := if b then "1" else "0"

def joinC (xs : List String) : String := if xs.isEmpty then "-" else ",".intercalate xs

def parseLOp (s : String) : Option LOp :=
  match s.splitOn ":" with
  | ["en", t] => do pure (.enter (← natOf t))
  | ["lv", t] => do pure (.leave (← natOf t))
  | _ => (parseOp s).map .base

def showLObs : Option (Option Obs) → String
  | none => "B"
  | some none => "u"
  | some (some ob) => showObs (some ob)

def parseMOp (s : String) : Option MOp :=
  match s.splitOn ":" with
  | ["im", t, m] => do pure (.imp (← natOf t) (← natOf m))
  | ["ca", t, m, x] => do pure (.call (← natOf t) (← natOf m) (← natOf x))
  | ["sp", p] => do pure (.spawn (← natOf p))
  | ["fin", t] => do pure (.fin (← natOf t))
  | ["w", w, t] => do pure (.wait (← natOf w) (← natOf t))
  | _ => none

def showNats (vs : List Nat) : String :=
  if vs.isEmpty then "-" else ".".intercalate (vs.map toString)

def showMObs : Option MObs → String
  | none => "B"
  | some .unit => "u"
  | some .ran => "ran"
  | some (.val r) => "v:" ++ toString r
  | some .panic => "P"
  | some (.spawned t) => "sp:" ++ toString t
  | some (.ret vs) => "r:" ++ showNats vs
  | some .perr => "perr"

def showTSt : TSt → String
  | .absent => "a"
  | .running => "run"
  | .returned => "ret"
  | .panicked => "pan"

/-- final state of a schedule of the module machine (the code as it is; steps that are not enabled are skipped) -/
def mfinal (s : Mods) : List MOp → Mods
  | [] => s
  | o :: os =>
    match mstep s o with
    | some (s', _) => mfinal s' os
    | none => mfinal s os

def parseCNOp (s : String) : Option CNOp :=
  match s.splitOn ":" with
  | ["sp", p] => do pure (.sp (← natOf p))
  | ["w", w, t] => do pure (.wait (← natOf w) (← natOf t))
  | ["o", t, "c"] => do pure (.op (← natOf t) .call)
  | ["o", t, "t"] => do pure (.op (← natOf t) .tcall)
  | ["o", t, "de", k] => do pure (.op (← natOf t) (.defer (.emit (← natOf k))))
  | ["o", t, "df", k] => do pure (.op (← natOf t) (.defer (.fail (← natOf k))))
  | ["o", t, "e", k] => do pure (.op (← natOf t) (.emit (← natOf k)))
  | ["o", t, "r", v] => do pure (.op (← natOf t) (.ret (← natOf v)))
  | ["o", t, "x", k] => do pure (.op (← natOf t) (.raise (← natOf k)))
  | _ => none

def showCOut : Option COutcome → String
  | none => "run"
  | some (.val v) => "v" ++ toString v
  | some (.err k) => "e" ++ toString k

def cnWaits (s : CNet) : List CNOp → List String
  | [] => []
  | o :: rest =>
    let s' := cnstep s o
    match o with
    | .wait w t =>
      (if w < s.n then (match waitObs s t with | none => "B" | some r => showCOut (some r)) else "B") :: cnWaits s' rest
    | _ => cnWaits s' rest

def handle : List String → String
  | ["chanops", cap, ops] =>
    match natOf cap, (listOf "," ops).mapM parseOp with
    | some cap, some ops =>
      let (impl, cf) := trace step (init cap) ops
      let (spec, _) := trace specStep (init cap) ops
      joinC (impl.map showObs) ++ "\t" ++ joinC (spec.map showObs) ++ "\t" ++ toString (atMostOneIterator ops)
        ++ "\t" ++ toString cf.buf.length ++ ":" ++ toString cf.closed ++ ":" ++ toString cf.rx
    | _, _ => "error\tbad-request"
  | ["capseq", cap, ops] =>
    match natOf cap, (listOf "," ops).mapM parseOp with
    | some cap, some ops =>
      let (tr, cf) := capTrace (init cap) ops
      let obs := tr.map (·.1)
      -- the enabled steps with their observations, for `received` / `accepted`
      let en := (ops.zip obs).filterMap fun (o, ob) => ob.map fun x => (o, x)
      let rcv := received (en.map (·.2))
      let acc := accepted (en.map (·.1)) (en.map (·.2))
      let showQ := fun (q : List Msg) => if q.isEmpty then "-" else ";".intercalate (q.map showMsg)
      let ok := tr.all (fun x => decide (x.2.1 ≤ cap)) && decide (rcv ++ cf.buf = acc)
      joinC (obs.map showObs) ++ "\t" ++ joinC (tr.map fun x => toString x.2.1) ++ "\t" ++ joinC (tr.map fun x => b01 x.2.2.1)
        ++ "\t" ++ joinC (tr.map fun x => b01 x.2.2.2) ++ "\t" ++ showQ cf.buf ++ "\t" ++ showQ rcv ++ "\t" ++ showQ acc
        ++ "\t" ++ (if ok then "ok" else "violated")
    | _, _ => "error\tbad-request"
  | ["hist", counts, recv] =>
    match (listOf "," counts).mapM natOf, ((if recv = "" then [] else recv.splitOn ";").mapM fun r => (listOf "," r).mapM parseMsg) with
    | some counts, some recv =>
      let d := dupLoss counts recv
      (if validHistory counts recv then "valid" else "invalid") ++ "\t"
        ++ (if defectPattern counts recv then "pattern" else "nopattern") ++ "\t"
        ++ toString d.dups ++ ":" ++ toString d.lost ++ ":" ++ toString d.alien
    | _, _ => "error\tbad-request"
  | ["spawn", vars, shared, ops] =>
    match (listOf "," vars).mapM intOf, (listOf "," shared).mapM intOf, (listOf "," ops).mapM parseTOp with
    | some vars, some shared, some ops =>
      joinC ((ttrace tstep { vars := vars, shared := shared } ops).map showTObs)
    | _, _, _ => "error\tbad-request"
  | ["net", caps, ops] =>
    match (listOf "," caps).mapM natOf, (listOf "," ops).mapM parseNOp with
    | some caps, some ops =>
      let (obs, sf, ab) := netTrace (ninit caps) [] ops
      let threads := (List.range sf.ctx.length).map fun t =>
        toString t ++ ":" ++ toString (sf.parent.getD t 0) ++ ":" ++ b01 (isReturned sf t) ++ ":" ++ b01 (ctxDone sf t)
          ++ ":" ++ b01 (ab.contains t)
      let chans := sf.chans.map fun c =>
        toString c.buf.length ++ ":" ++ toString c.closed ++ ":" ++ toString c.sent.length ++ ":" ++ toString c.deq.length
          ++ ":" ++ toString c.deliv.length ++ ":" ++ toString c.pend.length
      joinC (obs.map showNObs) ++ "\t" ++ (if threads.isEmpty then "-" else ";".intercalate threads) ++ "\t"
        ++ (if chans.isEmpty then "-" else ";".intercalate chans)
    | _, _ => "error\tbad-request"
  | ["pclose", cap, ops] =>
    match natOf cap, (listOf "," ops).mapM parseOp with
    | some cap, some ops =>
      let (impl, cf) := trace step (init cap) ops
      let (cds, ok) := closedTrace (init cap) ops
      joinC (impl.map showObs) ++ "\t" ++ joinC (cds.map b01) ++ "\t"
        ++ toString cf.sent.length ++ ":" ++ toString cf.deq.length ++ ":" ++ toString cf.deliv.length ++ ":"
        ++ toString cf.buf.length ++ ":" ++ toString cf.closed ++ "\t" ++ (if ok then "ok" else "violated")
    | _, _ => "error\tbad-request"
  | ["vms", ops] =>
    match (listOf "," ops).mapM parseVOp with
    | some ops =>
      let s := vtrace true {} ops
      joinC (s.vmOf.map toString) ++ "\t" ++ (if distinctVMs s then "distinct" else "shared") ++ "\t"
        ++ (if ownProgress s then "own" else "derailed") ++ "\t" ++ joinC (s.ip.map toString) ++ "\t" ++ joinC (s.pos.map toString)
    | none => "error\tbad-request"
  | ["loops", cap, ops] =>
    match natOf cap, (listOf "," ops).mapM parseLOp with
    | some cap, some ops =>
      let (impl, sf) := ltraceWith lstep (linit cap) ops
      let (spec, _) := ltraceWith lspecStep (linit cap) ops
      joinC (impl.map showLObs) ++ "\t" ++ joinC (spec.map showLObs) ++ "\t" ++ toString (atMostOneIterator (baseOps ops))
        ++ "\t" ++ (if sf.c.buf.isEmpty then "-" else ";".intercalate (sf.c.buf.map showMsg))
        ++ "\t" ++ toString sf.c.closed ++ ":" ++ toString sf.c.rx
        ++ "\t" ++ toString sf.c.sent.length ++ ":" ++ toString sf.c.deq.length ++ ":" ++ toString sf.c.deliv.length ++ ":"
        ++ toString sf.c.pend.length ++ ":" ++ toString sf.held.length ++ ":" ++ toString sf.dropped.length ++ ":" ++ toString sf.inLoop.length
    | _, _ => "error\tbad-request"
  | ["mods", ops] =>
    match (listOf "," ops).mapM parseMOp with
    | some ops =>
      let sf := mfinal {} ops
      let threads := (List.range sf.nthreads).map fun t =>
        toString t ++ ":" ++ showTSt (sf.st t) ++ ":" ++ showNats (sf.outs t)
      joinC ((mtrace mstep {} ops).map showMObs) ++ "\t" ++ joinC ((mtrace mspecStep {} ops).map showMObs) ++ "\t"
        ++ joinC ((knownTrace {} ops).map b01) ++ "\t" ++ ";".intercalate threads ++ "\t"
        ++ joinC ((List.range 4).map fun m => toString (sf.cnt m))
    | none => "error\tbad-request"
  | ["callnet", ops] =>
    match (listOf "," ops).mapM parseCNOp with
    | some ops =>
      let sf := cnrun {} ops
      let threads := (List.range sf.n).map fun t =>
        let c := sf.th t
        toString t ++ ":" ++ (if c.log.isEmpty then "-" else ".".intercalate (c.log.map toString)) ++ ":" ++ showCOut c.out ++ ":"
          ++ toString c.reg ++ ":" ++ toString c.ran ++ ":" ++ toString c.frames.length
      ";".intercalate threads ++ "\t" ++ joinC (cnWaits {} ops)
    | none => "error\tbad-request"
  | ["wide", vars, ops] =>
    match (listOf "," vars).mapM intOf, (listOf "," ops).mapM parseWOp with
    | some vars, some ops =>
      let (obs, sf) := wideRun { vars := vars } ops
      joinC (obs.map fun o => match o with | some ps => "p:" ++ showInts ps | none => "E") ++ "\t" ++ showInts sf.vars
    | _, _ => "error\tbad-request"
  | _ => "error\tunknown-request"

end Risor.C10
