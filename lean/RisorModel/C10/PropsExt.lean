import RisorModel.C10.ModelExt
import RisorModel.C10.Lemmas
import RisorModel.C10.Props
/-!
C10 — theorems about (§1) range loops that are left early and (§2) what a thread's VM knows
of the modules (`ModelExt.lean`).  All statements are universally quantified over schedules.
-/
namespace Risor.C10

/-! ### §1 A range loop that ends early loses nothing -/

theorem heldOf_nil (s : LChan) (t : Nat) (h : s.held = []) : heldOf s t = none := by
  simp [heldOf, h]

/-- one step of the code as it is, from a state in which no iterator holds anything: a
    `base` step is exactly a step of the channel machine, every other step leaves the channel
    alone; afterwards no iterator holds anything and nothing has been dropped -/
theorem lstep_project (s s' : LChan) (o : LOp) (ob : Option Obs) (hh : s.held = []) (hd : s.dropped = [])
    (h : lstep s o = some (s', ob)) :
    s'.held = [] ∧ s'.dropped = [] ∧
      (match o with
       | .base b => ∃ ob', ob = some ob' ∧ step s.c b = some (s'.c, ob')
       | _ => s'.c = s.c) := by
  cases o with
  | enter t =>
    simp only [lstep, lstepWith] at h
    split at h
    · cases h
    · cases h; exact ⟨hh, hd, rfl⟩
  | leave t =>
    simp only [lstep, lstepWith] at h
    split at h
    · cases h; simp [hh, hd]
    · cases h
  | grab t =>
    simp [lstep, lstepWith] at h
  | base b =>
    have hn : ∀ t, heldOf s t = none := fun t => heldOf_nil s t hh
    simp only [lstep, lstepWith] at h
    split at h
    · rename_i t _
      split at h
      · cases h
      · rw [hn t] at h
        cases b <;> simp only at h <;>
          (split at h
           · rename_i c' ob' hst
             cases h
             exact ⟨hh, hd, ob', rfl, hst⟩
           · cases h)
    · split at h
      · rename_i c' ob' hst
        cases h
        exact ⟨hh, hd, ob', rfl, hst⟩
      · cases h

/-- **A loop schedule is a channel schedule** (every schedule of the code as it is, loops
    entered and left at any moment): no iterator ever holds a value, nothing is ever dropped
    with an iterator, and the channel is in the state the channel machine reaches on the
    channel steps of the schedule. -/
theorem lrun_project (ops : List LOp) (s s' : LChan) (hh : s.held = []) (hd : s.dropped = [])
    (h : lrun s ops = some s') :
    s'.held = [] ∧ s'.dropped = [] ∧ run s.c (baseOps ops) = some s'.c := by
  induction ops generalizing s with
  | nil =>
    simp only [lrun, lrunWith] at h
    cases h
    exact ⟨hh, hd, rfl⟩
  | cons o os ih =>
    simp only [lrun, lrunWith] at h
    split at h
    · rename_i s1 ob hst
      obtain ⟨hh1, hd1, hc⟩ := lstep_project s s1 o ob hh hd hst
      obtain ⟨a, b, c⟩ := ih s1 hh1 hd1 h
      refine ⟨a, b, ?_⟩
      cases o with
      | base bo =>
        obtain ⟨ob', _, hs⟩ := hc
        simp only [baseOps, run, hs]
        exact c
      | enter t => simp only [baseOps]; rw [← hc]; exact c
      | leave t => simp only [baseOps]; rw [← hc]; exact c
      | grab t => simp only [baseOps]; rw [← hc]; exact c
    · cases h

/-- **An iterator holds nothing** (every schedule, any number of loops entered and left —
    by `break`, `return`, a raised error or at the end of the channel — by any number of
    threads): in every reachable state nothing has been taken out of the channel that was not
    handed to script code in the same instruction, and nothing went away with an iterator. -/
theorem iterator_holds_nothing (cap : Nat) (ops : List LOp) (s : LChan) (h : lrun (linit cap) ops = some s) :
    nothingWithheld s = true := by
  obtain ⟨a, b, _⟩ := lrun_project ops (linit cap) s rfl rfl h
  simp [nothingWithheld, a, b]

/-- every channel of a loop schedule is the channel machine (so every theorem of `Props`
    about `run` speaks about loop schedules too) -/
theorem lchan_is_channel_machine (cap : Nat) (ops : List LOp) (s : LChan) (h : lrun (linit cap) ops = some s) :
    run (init cap) (baseOps ops) = some s.c :=
  (lrun_project ops (linit cap) s rfl rfl h).2.2

/-- **Leaving a loop takes nothing along** (every state): the exit of a loop changes neither
    the queue nor what was delivered; the thread is not half-way through an iteration step. -/
theorem leave_takes_nothing (s s' : LChan) (t : Nat) (ob : Option Obs) (hh : s.held = [])
    (h : lstep s (.leave t) = some (s', ob)) :
    s'.c = s.c ∧ s'.held = [] ∧ s'.dropped = s.dropped ∧ isPend s'.c t = false := by
  simp only [lstep, lstepWith] at h
  split at h
  · rename_i hc
    cases h
    simp only [Bool.and_eq_true, Bool.not_eq_true'] at hc
    simp [hh, hc.2]
  · cases h

/-- **Early exit, exactly once** (every schedule in which the loops over the channel are all
    by one thread `t0`, which may enter and leave loops any number of times at any moment;
    any number of other threads send, receive explicitly and close): in every reachable state
    without a half-finished iteration step every accepted value was handed to script code
    exactly once or is STILL QUEUED — for the next receive of whichever thread — and every
    receiver saw each sender's values in sending order. -/
theorem early_exit_exactly_once (cap : Nat) (ops : List LOp) (t0 : Nat) (hg : onlyIter t0 (baseOps ops) = true)
    (s : LChan) (h : lrun (linit cap) ops = some s) (hp : s.c.pend = []) :
    ExactlyOnce s.c ∧ ReceiverOrder s.c ∧ nothingWithheld s = true :=
  have hc := lchan_is_channel_machine cap ops s h
  ⟨(C10_partial cap (baseOps ops) t0 hg s.c hc hp).1, (C10_partial cap (baseOps ops) t0 hg s.c hc hp).2,
    iterator_holds_nothing cap ops s h⟩

theorem baseOps_append (a b : List LOp) : baseOps (a ++ b) = baseOps a ++ baseOps b := by
  induction a with
  | nil => rfl
  | cons o os ih => cases o <;> simp [baseOps, ih]

/-- a schedule that ends in a step: the state before it and the step -/
theorem lrun_snoc (ops : List LOp) (o : LOp) (a s : LChan) (h : lrun a (ops ++ [o]) = some s) :
    ∃ s1, lrun a ops = some s1 ∧ ∃ ob, lstep s1 o = some (s, ob) := by
  induction ops generalizing a with
  | nil =>
    simp only [List.nil_append, lrun, lrunWith] at h
    split at h
    · rename_i s1 ob hst
      cases h
      exact ⟨a, rfl, ob, hst⟩
    · cases h
  | cons o' os ih =>
    simp only [List.cons_append, lrun, lrunWith] at h
    split at h
    · rename_i s1 ob hst
      obtain ⟨s2, h2, hob⟩ := ih s1 h
      refine ⟨s2, ?_, hob⟩
      simp only [lrun, lrunWith, hst]
      exact h2
    · cases h

/-- … and right after that thread has left a loop — by `break`, `return`, a raised error or
    at the end of the channel — no iteration step is half-finished: the statement holds at
    EVERY loop exit, whatever was ready in the channel at that moment. -/
theorem at_loop_exit_exactly_once (cap : Nat) (ops : List LOp) (t0 : Nat)
    (hg : onlyIter t0 (baseOps ops) = true) (s : LChan)
    (h : lrun (linit cap) (ops ++ [.leave t0]) = some s) :
    ExactlyOnce s.c ∧ ReceiverOrder s.c ∧ nothingWithheld s = true := by
  have hg' : onlyIter t0 (baseOps (ops ++ [.leave t0])) = true := by
    rw [baseOps_append]; simpa [baseOps] using hg
  have hc := lchan_is_channel_machine cap _ s h
  have hsingle := run_single t0 cap _ hg' s.c hc
  -- the last step is the exit: t0 is not between Next and Entry
  have hnp : isPend s.c t0 = false := by
    obtain ⟨s1, h1, ob, hl⟩ := lrun_snoc ops (.leave t0) (linit cap) s h
    have hh1 := (lrun_project ops (linit cap) s1 rfl rfl h1).1
    exact (leave_takes_nothing s1 s t0 ob hh1 hl).2.2.2
  have hp : s.c.pend = [] := by
    rcases hsingle.2 with hp | ⟨v, hp, _⟩
    · exact hp
    · simp [isPend, hp] at hnp
  exact early_exit_exactly_once cap _ t0 hg' s h hp

/-- every thread that is between its Next and its Entry is inside a loop -/
def PendInLoop (s : LChan) : Prop := ∀ p ∈ s.c.pend, s.inLoop.contains p.1 = true

theorem mem_dropPend (c : Chan) (t : Nat) (p : Nat × Msg) (h : p ∈ dropPend c t) : p ∈ c.pend :=
  (List.eraseP_sublist).subset h

theorem eff_pend (c c' : Chan) (o : Op) (h : Eff c o c') (p : Nat × Msg) (hp : p ∈ c'.pend) :
    p ∈ c.pend ∨ iterActor o = some p.1 := by
  cases h with
  | same => exact .inl hp
  | send => exact .inl hp
  | close => exact .inl hp
  | recv t v rest => exact .inl hp
  | next t v rest =>
    simp only [nextOf, List.mem_append, List.mem_singleton] at hp
    rcases hp with hp | hp
    · exact .inl hp
    · right; simp [iterActor, hp]
  | entry t v => exact .inl (mem_dropPend c t p hp)
  | entryNone t => exact .inl (mem_dropPend c t p hp)
  | handRecv s r v => exact .inl hp
  | handNext s r v =>
    simp only [nextOf, List.mem_append, List.mem_singleton] at hp
    rcases hp with hp | hp
    · exact .inl hp
    · right; simp [iterActor, hp]

theorem lstep_pendInLoop (s s' : LChan) (o : LOp) (ob : Option Obs) (hh : s.held = []) (hi : PendInLoop s)
    (h : lstep s o = some (s', ob)) : PendInLoop s' := by
  cases o with
  | enter t =>
    simp only [lstep, lstepWith] at h
    split at h
    · cases h
    · cases h
      intro p hp
      have := hi p hp
      simp only [List.contains_eq_mem, List.mem_append, decide_eq_true_eq] at this ⊢
      exact .inl this
  | leave t =>
    simp only [lstep, lstepWith] at h
    split at h
    · rename_i hc
      cases h
      simp only [Bool.and_eq_true, Bool.not_eq_true'] at hc
      intro p hp
      have hin := hi p hp
      have hne : p.1 ≠ t := by
        intro he
        have := List.any_eq_false.1 hc.2 p hp
        simp [he] at this
      simp only [List.contains_eq_mem, decide_eq_true_eq] at hin ⊢
      exact (List.mem_erase_of_ne hne).2 hin
    · cases h
  | grab t => simp [lstep, lstepWith] at h
  | base b =>
    have hn : ∀ t, heldOf s t = none := fun t => heldOf_nil s t hh
    simp only [lstep, lstepWith] at h
    split at h
    · rename_i t hit
      split at h
      · cases h
      · rename_i hin
        rw [hn t] at h
        have key : ∀ c' ob', step s.c b = some (c', ob') → s' = { s with c := c' } → PendInLoop s' := by
          intro c' ob' hst he
          subst he
          intro p hp
          rcases eff_pend s.c c' b (step_eff s.c c' b ob' hst) p hp with h1 | h1
          · exact hi p h1
          · rw [hit] at h1
            cases h1
            simpa using hin
        cases b <;> simp only at h <;>
          (split at h
           · rename_i c' ob' hst
             cases h
             exact key c' ob' hst rfl
           · cases h)
    · rename_i hit
      split at h
      · rename_i c' ob' hst
        cases h
        intro p hp
        rcases eff_pend s.c c' b (step_eff s.c c' b ob' hst) p hp with h1 | h1
        · exact hi p h1
        · rw [hit] at h1; cases h1
      · cases h

theorem lrun_pendInLoop (ops : List LOp) (s s' : LChan) (hh : s.held = []) (hd : s.dropped = [])
    (hi : PendInLoop s) (h : lrun s ops = some s') : PendInLoop s' := by
  induction ops generalizing s with
  | nil => simp only [lrun, lrunWith] at h; cases h; exact hi
  | cons o os ih =>
    simp only [lrun, lrunWith] at h
    split at h
    · rename_i s1 ob hst
      obtain ⟨hh1, hd1, _⟩ := lstep_project s s1 o ob hh hd hst
      exact ih s1 hh1 hd1 (lstep_pendInLoop s s1 o ob hh hi hst) h
    · cases h

/-- **When no loop is running, everything taken out of the channel has been handed over**
    (every schedule, ANY number of iterating threads — the shared-`lastReceived` defect
    included): in a reachable state in which every loop has been left there are exactly as
    many hand-outs as dequeues, so `handed out + still queued = accepted` in number: an early
    exit never makes a value disappear. -/
theorem loops_left_counts (cap : Nat) (ops : List LOp) (s : LChan) (h : lrun (linit cap) ops = some s)
    (hl : s.inLoop = []) :
    s.c.pend = [] ∧ s.c.deliv.length = s.c.deq.length ∧ s.c.deliv.length + s.c.buf.length = s.c.sent.length := by
  have hi : PendInLoop s := lrun_pendInLoop ops (linit cap) s rfl rfl (by intro p hp; simp [linit, init] at hp) h
  have hp : s.c.pend = [] := by
    cases hpe : s.c.pend with
    | nil => rfl
    | cons p ps =>
      have := hi p (by rw [hpe]; exact List.mem_cons_self)
      simp [hl] at this
  have hc := lchan_is_channel_machine cap ops s h
  have hcnt := (impl_iteration_counts cap _ s.c hc).1
  have hf := fifo_conservation cap _ s.c hc
  rw [hp] at hcnt
  simp only [List.length_nil, Nat.add_zero] at hcnt
  refine ⟨hp, hcnt, ?_⟩
  have := congrArg List.length hf
  simp only [List.length_append, values, List.length_map] at this
  omega

/-! #### Why "an iterator holds nothing" is part of the statement -/

/-- CONTRAST (not the code): an iterator that reads ahead.  Two values are queued; thread 1
    ranges, its iterator takes both into its batch and serves the loop from it; the body
    sees the first value and the loop is left (`break`); the channel is closed and thread 2
    receives: it is told "closed and drained" although the second value was handed to
    nobody. -/
def readAheadBreak : List LOp :=
  [.base (.send 0 (0, 0)), .base (.send 0 (0, 1)), .enter 1, .grab 1, .grab 1, .base (.next 1), .base (.entry 1),
   .leave 1, .base (.close 0), .base (.recv 2)]

theorem read_ahead_variant_loses_a_value_on_break :
    ∃ s, lrunWith true (linit 2) readAheadBreak = some s ∧ s.c.sent = [(0, 0), (0, 1)] ∧
      values s.c.deliv = [(0, 0)] ∧ s.c.buf = [] ∧ s.c.closed = true ∧ s.dropped = [(1, (0, 1))] ∧
      nothingWithheld s = false ∧ ¬ ExactlyOnce s.c := by
  cases hr : lrunWith true (linit 2) readAheadBreak with
  | none => exact absurd hr (by decide)
  | some s =>
    have : (lrunWith true (linit 2) readAheadBreak).map
        (fun s => (s.c.sent, values s.c.deliv, s.c.buf, s.c.closed, s.dropped, nothingWithheld s))
        = some ([(0, 0), (0, 1)], [(0, 0)], [], true, [(1, (0, 1))], false) := by rfl
    rw [hr] at this
    simp only [Option.map_some, Option.some.injEq, Prod.mk.injEq] at this
    refine ⟨s, rfl, this.1, this.2.1, this.2.2.1, this.2.2.2.1, this.2.2.2.2.1, this.2.2.2.2.2, ?_⟩
    intro hp
    have hl := hp.length_eq
    rw [this.1, this.2.1, this.2.2.1] at hl
    simp at hl

/-- the same schedule is not even executable on the code as it is (`grab` does not exist) … -/
example : lrun (linit 2) readAheadBreak = none := by decide

/-- … and without the read-ahead the value left by the loop goes to the next receiver -/
example : (ltrace (linit 2)
    [.base (.send 0 (0, 0)), .base (.send 0 (0, 1)), .enter 1, .base (.next 1), .base (.entry 1), .leave 1,
     .base (.close 0), .base (.recv 2), .base (.recv 2)]).1.getLast? = some (some (some .nil))
    ∧ (ltrace (linit 2)
    [.base (.send 0 (0, 0)), .base (.send 0 (0, 1)), .enter 1, .base (.next 1), .base (.entry 1), .leave 1,
     .base (.close 0), .base (.recv 2)]).1.getLast? = some (some (some (.val (0, 1)))) := by decide

/-- non-vacuity of `at_loop_exit_exactly_once`: a schedule with two loops of thread 1, the
    first left early with two values ready, satisfies its hypotheses -/
example : onlyIter 1 (baseOps
    [.base (.send 0 (0, 0)), .base (.send 0 (0, 1)), .base (.send 0 (0, 2)), .enter 1, .base (.next 1), .base (.entry 1),
     .leave 1, .base (.recv 2), .enter 1, .base (.next 1), .base (.entry 1)]) = true
    ∧ (lrun (linit 3)
    ([.base (.send 0 (0, 0)), .base (.send 0 (0, 1)), .base (.send 0 (0, 2)), .enter 1, .base (.next 1), .base (.entry 1),
     .leave 1, .base (.recv 2), .enter 1, .base (.next 1), .base (.entry 1)] ++ [.leave 1])).isSome = true := by decide

/-! ### §2 A thread can call into every module its spawner knew when it started the thread -/

/-- invariant of the thread/VM/module machine as the code runs it -/
structure MInv (s : Mods) : Prop where
  vm_lt : ∀ t, s.vmOf t < s.nvms
  absent : ∀ t, s.nthreads ≤ t → s.st t = .absent
  view_imported : ∀ v m, m ∈ s.view v → m ∈ s.imported
  cnt_calls : ∀ m, s.cnt m = (s.calls.filter (fun c => c.2.1 == m)).length
  outs_calls : ∀ t, s.outs t = (s.calls.filter (fun c => c.1 == t)).map (·.2.2)

theorem minv_init : MInv {} := by
  refine ⟨fun _ => Nat.zero_lt_one, ?_, ?_, ?_, ?_⟩
  · intro t ht
    have : t ≠ 0 := by dsimp only at ht; omega
    simp [this]
  · intro v m hm; simp at hm
  · intro m; simp
  · intro t; simp

theorem mstep_inv (s s' : Mods) (o : MOp) (ob : MObs) (hi : MInv s) (h : mstep s o = some (s', ob)) : MInv s' := by
  cases o with
  | imp t m =>
    simp only [mstep, mstepWith] at h
    split at h
    · cases h
    · split at h
      · cases h; exact hi
      · split at h
        · cases h
          refine ⟨hi.vm_lt, hi.absent, ?_, hi.cnt_calls, hi.outs_calls⟩
          intro v m' hm'
          simp only [upd] at hm'
          split at hm'
          · simp only [viewOf, List.mem_append, List.mem_singleton] at hm' ⊢
            rcases hm' with h1 | h1
            · exact .inl (hi.view_imported _ _ h1)
            · exact .inr h1
          · exact List.mem_append_left _ (hi.view_imported _ _ hm')
        · cases h
  | call t m x =>
    simp only [mstep, mstepWith] at h
    split at h
    · cases h
    · split at h
      · cases h
        refine ⟨hi.vm_lt, hi.absent, hi.view_imported, ?_, ?_⟩
        · intro m'
          simp only [upd, List.filter_append, List.length_append]
          by_cases hm : m' = m
          · subst hm; simp [hi.cnt_calls m']
          · have : (m == m') = false := by simp; exact fun e => hm e.symm
            simp [hm, this, hi.cnt_calls m']
        · intro t'
          simp only [upd, List.filter_append, List.map_append]
          by_cases ht : t' = t
          · subst ht; simp [hi.outs_calls t']
          · have : (t == t') = false := by simp; exact fun e => ht e.symm
            simp [ht, this, hi.outs_calls t']
      · cases h
        refine ⟨hi.vm_lt, ?_, hi.view_imported, hi.cnt_calls, hi.outs_calls⟩
        intro t' ht'
        simp only [upd]
        split
        · rename_i he
          subst he
          rename_i hrun _
          simp only [Bool.or_eq_true, bne_iff_ne, ne_eq, not_or, Decidable.not_not] at hrun
          have := hi.absent t' ht'
          rw [this] at hrun
          exact absurd hrun.1 (by decide)
        · exact hi.absent t' ht'
  | spawn p =>
    simp only [mstep, mstepWith] at h
    split at h
    · cases h
    · cases h
      refine ⟨?_, ?_, ?_, hi.cnt_calls, hi.outs_calls⟩
      · intro t
        dsimp only [upd]
        split
        · omega
        · have := hi.vm_lt t; omega
      · intro t ht
        dsimp only at ht
        dsimp only [upd]
        split
        · omega
        · exact hi.absent t (by omega)
      · intro v m hm
        simp only [upd] at hm
        split at hm
        · exact hi.view_imported _ _ hm
        · exact hi.view_imported _ _ hm
  | fin t =>
    simp only [mstep, mstepWith] at h
    split at h
    · cases h
    · rename_i hc
      cases h
      refine ⟨hi.vm_lt, ?_, hi.view_imported, hi.cnt_calls, hi.outs_calls⟩
      intro t' ht'
      simp only [upd]
      split
      · rename_i he
        subst he
        simp only [Bool.or_eq_true, beq_iff_eq, bne_iff_ne, ne_eq, not_or, Decidable.not_not] at hc
        have := hi.absent t' ht'
        rw [this] at hc
        exact absurd hc.2 (by decide)
      · exact hi.absent t' ht'
  | wait w t =>
    simp only [mstep, mstepWith] at h
    split at h
    · cases h
    · split at h <;> first | (cases h; exact hi) | cases h

theorem mrun_inv (ops : List MOp) (s s' : Mods) (hi : MInv s) (h : mrun s ops = some s') : MInv s' := by
  induction ops generalizing s with
  | nil => simp only [mrun, mrunWith] at h; cases h; exact hi
  | cons o os ih =>
    simp only [mrun, mrunWith] at h
    split at h
    · rename_i s1 ob hst
      exact ih s1 (mstep_inv s s1 o ob hi hst) h
    · cases h

/-- **The snapshot is taken at this spawn** (every state): the new thread's VM knows exactly
    what its spawner's VM knows at the moment of the spawn — not what some VM knew at an
    earlier spawn. -/
theorem spawn_view_is_spawners_now (s s' : Mods) (p t : Nat) (h : mstep s (.spawn p) = some (s', .spawned t)) :
    t = s.nthreads ∧ s'.st t = .running ∧ viewOf s' t = viewOf s p := by
  simp only [mstep, mstepWith] at h
  split at h
  · cases h
  · cases h
    simp [viewOf, upd]

/-- a thread that exists keeps existing; what a thread's VM knows only grows (one step) -/
theorem mstep_knows_mono (s s' : Mods) (o : MOp) (ob : MObs) (hi : MInv s) (h : mstep s o = some (s', ob))
    (t m : Nat) (ht : s.st t ≠ .absent) (hm : m ∈ viewOf s t) : s'.st t ≠ .absent ∧ m ∈ viewOf s' t := by
  have hlt : t < s.nthreads := by
    false_or_by_contra
    rename_i hge
    exact ht (hi.absent t (by omega))
  cases o with
  | imp t' m' =>
    simp only [mstep, mstepWith] at h
    split at h
    · cases h
    · split at h
      · cases h; exact ⟨ht, hm⟩
      · split at h
        · cases h
          refine ⟨ht, ?_⟩
          simp only [viewOf, upd] at hm ⊢
          split
          · rename_i he
            rw [← he]
            exact List.mem_append_left _ hm
          · exact hm
        · cases h
  | call t' m' x =>
    simp only [mstep, mstepWith] at h
    split at h
    · cases h
    · split at h
      · cases h; exact ⟨ht, hm⟩
      · cases h
        refine ⟨?_, hm⟩
        simp only [upd]
        split
        · decide
        · exact ht
  | spawn p =>
    simp only [mstep, mstepWith] at h
    split at h
    · cases h
    · cases h
      have hne : t ≠ s.nthreads := by omega
      have hv : s.vmOf t ≠ s.nvms := by have := hi.vm_lt t; omega
      simp only [viewOf, upd, hne, if_false, hv] at hm ⊢
      exact ⟨ht, hm⟩
  | fin t' =>
    simp only [mstep, mstepWith] at h
    split at h
    · cases h
    · cases h
      refine ⟨?_, hm⟩
      simp only [upd]
      split
      · decide
      · exact ht
  | wait w t' =>
    simp only [mstep, mstepWith] at h
    split at h
    · cases h
    · split at h <;> first | (cases h; exact ⟨ht, hm⟩) | cases h

theorem mrun_knows_mono (ops : List MOp) (s s' : Mods) (hi : MInv s) (h : mrun s ops = some s')
    (t m : Nat) (ht : s.st t ≠ .absent) (hm : m ∈ viewOf s t) : m ∈ viewOf s' t := by
  induction ops generalizing s with
  | nil => simp only [mrun, mrunWith] at h; cases h; exact hm
  | cons o os ih =>
    simp only [mrun, mrunWith] at h
    split at h
    · rename_i s1 ob hst
      obtain ⟨a, b⟩ := mstep_knows_mono s s1 o ob hi hst t m ht hm
      exact ih s1 (mstep_inv s s1 o ob hi hst) h a b
    · cases h

/-- **A thread can call into every module its spawner knew when it started the thread**
    (every schedule before the spawn — any number of threads started, run and finished, any
    imports —, every thread `p` that spawns, every schedule after the spawn): if `p`'s VM
    knows module `m` at the spawn, the new thread's call of `m.bump(x)` — made at any later
    moment at which that thread is still running — RETURNS, and it returns `x*1000 + c + 1`
    for the current value `c` of the module's ONE counter.  It never faults. -/
theorem thread_can_call_what_its_spawner_knew (ops0 ops2 : List MOp) (s s1 s2 : Mods) (p t m x : Nat)
    (h0 : mrun {} ops0 = some s) (hm : m ∈ viewOf s p)
    (hsp : mstep s (.spawn p) = some (s1, .spawned t))
    (h2 : mrun s1 ops2 = some s2) (hr : s2.st t = .running) :
    ∃ s3, mstep s2 (.call t m x) = some (s3, .val (x * 1000 + s2.cnt m + 1)) := by
  have hi := mrun_inv ops0 {} s minv_init h0
  have hi1 := mstep_inv s s1 _ _ hi hsp
  obtain ⟨_, hrun, hv⟩ := spawn_view_is_spawners_now s s1 p t hsp
  have hm1 : m ∈ viewOf s1 t := by rw [hv]; exact hm
  have hm2 := mrun_knows_mono ops2 s1 s2 hi1 h2 t m (by rw [hrun]; decide) hm1
  have hi2 := mrun_inv ops2 s1 s2 hi1 h2
  have himp : m ∈ s2.imported := hi2.view_imported _ _ hm2
  simp only [mstep, mstepWith, hr, bne_self_eq_false, Bool.false_or, List.contains_eq_mem, himp,
    decide_true, Bool.not_true, hm2, if_true]
  exact ⟨_, rfl⟩

/-- **Module state is shared, not copied** (every schedule): a module has ONE counter in the
    whole evaluation — it equals the number of calls into the module that have returned, by
    whichever threads —, and what a thread's function returns (what `wait()` hands out) is
    exactly the list of values its own calls returned, in order. -/
theorem module_state_is_shared (ops : List MOp) (s : Mods) (h : mrun {} ops = some s) :
    (∀ m, s.cnt m = (s.calls.filter (fun c => c.2.1 == m)).length) ∧
    (∀ t, s.outs t = (s.calls.filter (fun c => c.1 == t)).map (·.2.2)) :=
  have hi := mrun_inv ops {} s minv_init h
  ⟨hi.cnt_calls, hi.outs_calls⟩

/-- **wait() returns exactly the call's results** (every state): a wait hands out the list
    the thread's function returned, and only once the function has returned. -/
theorem wait_returns_thread_results (s s' : Mods) (w t : Nat) (vs : List Nat)
    (h : mstep s (.wait w t) = some (s', .ret vs)) : s.st t = .returned ∧ vs = s.outs t := by
  simp only [mstep, mstepWith] at h
  split at h
  · cases h
  · split at h
    · rename_i hst
      cases h
      exact ⟨hst, rfl⟩
    · cases h
    · cases h

/-! #### The full statement, the defect of the code as it is, the guard -/

/-- **The full statement** (module part): whatever the schedule, every step of the code is
    the step the property demands — in particular every call into a module that exists in
    the evaluation returns that function's value. -/
def C10_modules_full : Prop := ∀ ops : List MOp, mtrace mstep {} ops = mtrace mspecStep {} ops

/-- **Counterexample** (the code as it is violates the full statement): the main program
    starts a thread, THEN imports a module; the thread calls a function of that module (it
    reaches it through a shared global, a channel, a closure): its VM's snapshot does not
    have the module's root code, `loadCode` dereferences nil, the thread ends with a
    recovered Go panic instead of the call's result. -/
theorem C10_counterexample_thread_older_than_import : ¬ C10_modules_full := by
  intro h
  have := h [.spawn 0, .imp 0 0, .call 1 0 5, .wait 0 1]
  revert this
  decide

example : mtrace mstep {} [.spawn 0, .imp 0 0, .call 1 0 5, .wait 0 1]
    = [some (.spawned 1), some .ran, some .panic, some .perr] := by decide
example : mtrace mspecStep {} [.spawn 0, .imp 0 0, .call 1 0 5, .fin 1, .wait 0 1]
    = [some (.spawned 1), some .ran, some (.val 5001), some .unit, some (.ret [5001])] := by decide

/-- one step under the guard: the code does what the property demands -/
theorem C10_modules_partial_step (s : Mods) (o : MOp)
    (hg : ∀ t m x, o = .call t m x → (viewOf s t).contains m = true) : mstep s o = mspecStep s o := by
  cases o with
  | call t m x =>
    have := hg t m x rfl
    simp only [mstep, mstepWith, mspecStep, this, if_true]
  | imp t m => rfl
  | spawn p => rfl
  | fin t => rfl
  | wait w t => rfl

/-- **Partial theorem** (every schedule in which no thread calls into a module that was
    loaded after the thread was started — `knownCalls`): every observation of the code as it
    is — every call's value, every `wait()` — is the one the property demands. -/
theorem C10_modules_partial (ops : List MOp) (s : Mods) (hg : knownCalls s ops = true) :
    mtrace mstep s ops = mtrace mspecStep s ops := by
  induction ops generalizing s with
  | nil => rfl
  | cons o os ih =>
    simp only [knownCalls, Bool.and_eq_true] at hg
    have hstep : mstep s o = mspecStep s o := by
      apply C10_modules_partial_step
      intro t m x he
      subst he
      exact hg.1
    simp only [mtrace, ← hstep]
    cases hst : mstep s o with
    | none =>
      simp only [hst] at hg
      simp only [ih s hg.2]
    | some r =>
      obtain ⟨s1, ob⟩ := r
      simp only [hst] at hg
      simp only [ih s1 hg.2]

/-- the guard is satisfiable by schedules with late imports, finished threads and threads that
    import themselves -/
example : knownCalls {} [.spawn 0, .fin 1, .imp 0 0, .spawn 0, .call 2 0 7, .imp 2 0, .call 0 0 3, .call 2 0 4,
    .fin 2, .wait 0 2] = true := by decide
example : mtrace mstep {} [.spawn 0, .fin 1, .imp 0 0, .spawn 0, .call 2 0 7, .imp 2 0, .call 0 0 3, .call 2 0 4, .fin 2, .wait 0 2]
    = [some (.spawned 1), some .unit, some .ran, some (.spawned 2), some (.val 7001), some .unit, some (.val 3002),
       some (.val 4003), some .unit, some (.ret [7001, 4003])] := by decide
example : knownCalls {} [.spawn 0, .imp 0 0, .call 1 0 5] = false := by decide

/-! #### Why the moment of the snapshot is part of the statement -/

/-- CONTRAST (not the code): clones of returned calls are kept and handed to later spawns
    with the snapshot they were made with.  A thread is started and returns; the main program
    imports module 0; the next thread gets the first thread's clone: its VM does not know the
    module its spawner knows at this spawn, and its call faults —
    `thread_can_call_what_its_spawner_knew` fails for the variant. -/
theorem pooled_clone_variant_misses_late_import :
    (mrunWith true {} [.spawn 0, .fin 1, .imp 0 0, .spawn 0]).map
      (fun s => ((viewOf s 0).contains 0, s.st 2, (viewOf s 2).contains 0, (mstepWith true s (.call 2 0 7)).map (·.2)))
      = some (true, .running, false, some .panic) := by decide

/-- the code as it is on the same schedule -/
example : (mrun {} [.spawn 0, .fin 1, .imp 0 0, .spawn 0]).map
      (fun s => ((viewOf s 0).contains 0, s.st 2, (viewOf s 2).contains 0, (mstep s (.call 2 0 7)).map (·.2)))
      = some (true, .running, true, some (.val 7001)) := by decide

end Risor.C10
