import RisorModel.C10.Model
/-!
C10, extension "regenerated ties + capacity".

BUFFER CAPACITY is a first-class parameter of the channel machine (`Chan.cap`, set once by
`init cap`, the argument of `make(chan Object, cap)` in `object.NewChan`).  This module adds

* the vocabulary the capacity theorems are stated over — `isFull`, `sendBlocks`,
  `recvBlocks`, and a run that KEEPS THE OBSERVATIONS (`runObs`) together with what can be
  read off them: `received` (the values handed out by dequeues, in schedule order) and
  `accepted` (the values the channel took in, in schedule order).  Nothing here reads the
  history ("ghost") fields of `Chan`;
* `capTrace`, what the oracle answers for the capacity stream of the harness;
* the constants (`expect…`) that `Ties.lean` compares with the facts the extractor
  regenerates from object/chan.go, object/spawn.go, object/thread.go, builtins/builtins.go
  and vm/vm.go on every run.

Core Lean only.
-/
namespace Risor.C10

/-! ### Capacity vocabulary -/

/-- the queue holds as many values as the channel has room for -/
def isFull (c : Chan) : Bool := c.buf.length == c.cap

/-- **Spec** of blocking: a send by a thread with no receiver waiting for it blocks iff the
    channel is open and full (for `cap = 0`: always, while open) -/
def sendBlocks (c : Chan) : Bool := !c.closed && isFull c

/-- a receive blocks iff the channel is open and empty -/
def recvBlocks (c : Chan) : Bool := !c.closed && c.buf.isEmpty

/-- run a schedule and keep what every step observed; `none` when some step is not enabled -/
def runObs (c : Chan) : List Op → Option (Chan × List Obs)
  | [] => some (c, [])
  | o :: os =>
    match step c o with
    | some (c', ob) =>
      match runObs c' os with
      | some (cf, obs) => some (cf, ob :: obs)
      | none => none
    | none => none

/-- the value a step took in, read off the operation and its observation: an accepted
    `send`, or the value of a rendezvous -/
def acc1 : Op → Obs → List Msg
  | .send _ v, .sendOk => [v]
  | .handoff _ _ v _, _ => [v]
  | _, _ => []

/-- the value a step dequeued, read off its observation: a receive that returned a value or
    a `Chan.Next` that returned one -/
def rec1 : Obs → List Msg
  | .val v => [v]
  | .nextOk v => [v]
  | _ => []

/-- every value the channel accepted, in schedule order -/
def accepted : List Op → List Obs → List Msg
  | o :: os, ob :: obs => acc1 o ob ++ accepted os obs
  | _, _ => []

/-- every value dequeued from the channel, in schedule order -/
def received : List Obs → List Msg
  | [] => []
  | ob :: obs => rec1 ob ++ received obs

/-- for the oracle: observation of every step (a blocked step leaves the state unchanged)
    and, AFTER every step, the queue length and whether a send / a receive would block -/
def capTrace (c : Chan) : List Op → List (Option Obs × Nat × Bool × Bool) × Chan
  | [] => ([], c)
  | o :: os =>
    match step c o with
    | some (c', ob) =>
      let (r, cf) := capTrace c' os
      ((some ob, c'.buf.length, sendBlocks c', recvBlocks c') :: r, cf)
    | none =>
      let (r, cf) := capTrace c os
      ((none, c.buf.length, sendBlocks c, recvBlocks c) :: r, cf)

/-! ### What the model assumes of the source text (compared with `Generated.C10` in `Ties.lean`)

Each constant is written next to the part of the model that rests on it. -/

/-- `Chan.Send`: before its ONE `select` only the deferred recover that turns the Go panic of a send on a closed channel into an error — there is NO test of closedness before the select (`step (.send …)`: `sendErr` once closed) -/
def expectSendPrelude : List String := [
  "defer func() { if r := recover(); r != nil { err = fmt.Errorf(\"exec error: %v\", r) } }()"]

/-- the select of `Send`: ctx.Done / the send, no `default` arm (`step (.send …)`: enqueue when there is room, otherwise NOT ENABLED — the thread stays in the select) -/
def expectSendArms : List String := [
  "<-ctx.Done() => return ctx.Err()",
  "c.value <- value => return nil"]

/-- nothing after the select -/
def expectSendAfter : List String := []

/-- `Send` assigns no field of the channel object -/
def expectSendWrites : List String := []

/-- `Chan.Receive`: nothing before its one `select` -/
def expectReceivePrelude : List String := []

/-- the receive arm reads value and ok TOGETHER (`closedAndDrained` is one test) and returns `Nil` when `!ok` (`Obs.nil`); no `default` arm (`step (.recv …)`: not enabled when open and empty) -/
def expectReceiveArms : List String := [
  "<-ctx.Done() => return nil, ctx.Err()",
  "value, ok := <-c.value => if !ok { return Nil, nil }; return value, nil"]

/-- nothing after the select -/
def expectReceiveAfter : List String := []

/-- `Receive` assigns no field -/
def expectReceiveWrites : List String := []

/-- `Chan.Next`: nothing before its one `select` -/
def expectNextPrelude : List String := []

/-- the same two arms; on a value `Next` writes the SHARED fields (`nextOf`: `last := some v`, `rx := rx + 1`) — the first half of the two-step iteration the known finding is about; `!ok` ends the iteration (`Obs.nextEnd`) -/
def expectNextArms : List String := [
  "<-ctx.Done() => return nil, false",
  "value, ok := <-c.value => if !ok { return nil, false }; c.lastReceived = value; c.rxCount++; return value, true"]

/-- nothing after the select -/
def expectNextAfter : List String := []

/-- the fields `Next` assigns: `lastReceived`, `rxCount` and nothing else -/
def expectNextWrites : List String := [
  "lastReceived",
  "rxCount"]

/-- `Chan.Entry` reads those two fields back (`step (.entry …)`: hands out `c.last` with key `c.rx - 1`) … -/
def expectEntryReads : List String := [
  "lastReceived",
  "rxCount"]

/-- … and assigns none -/
def expectEntryWrites : List String := []

/-- the key of the entry -/
def expectEntryKey : String := "NewInt(c.rxCount - 1)"

/-- the value of the entry: whatever the LAST `Next` by anybody stored -/
def expectEntryValue : String := "c.lastReceived"

/-- the whole of `Entry`: no channel operation, no lock -/
def expectEntryBody : List String := [
  "if c.lastReceived != nil { return &Entry{ key: NewInt(c.rxCount - 1), value: c.lastReceived, primary: c.lastReceived, }, true }",
  "return nil, false"]

/-- `Chan.Close`: `close(c.value)` under a deferred recover that turns the panic of a second close into an error (`closeErr`); closing twice is an error, not a no-op -/
def expectCloseBody : List String := [
  "defer func() { if r := recover(); r != nil { err = fmt.Errorf(\"exec error: %v\", r) } }()",
  "close(c.value)",
  "return nil"]

/-- `Close` assigns no field (closedness lives in the Go channel: `closed`) -/
def expectCloseWrites : List String := []

/-- `Chan.Iter` returns the channel itself: every iterator of a channel shares its fields (`ModelExt`: an iterator holds nothing) -/
def expectIterReturns : List String := [
  "c"]

/-- `object.NewChan(size int)` -/
def expectNewChanParams : List String := [
  "size int"]

/-- the capacity reaches `make` unchanged (`init cap`) -/
def expectNewChanMake : String := "make(chan Object, size)"

/-- and is what `Capacity()` reports -/
def expectNewChanCapacityField : String := "size"

/-- the methods through which the raw Go channel leaves the object (the harness's probes use `Value()`; operations on the raw channel by other packages bypass the model: trusted) -/
def expectRawChanAccessors : List String := [
  "Interface",
  "Value"]

/-- the only callers of `NewChan` in object/, vm/, builtins/: the two builtins below -/
def expectNewChanCallers : List String := [
  "builtins/builtins.go:Chan:object.NewChan(size)",
  "builtins/builtins.go:Make:object.NewChan(size)"]

/-- builtin `chan(n)`: at most one argument -/
def expectChanBuiltinArity : String := "arg.RequireRange(\"chan\", 0, 1, args)"

/-- `size` is 0 or `int(arg.Value())` … -/
def expectChanBuiltinSizes : List String := [
  "0",
  "int(arg.Value())"]

/-- … there is NO test of `size` in `chan` (a negative size is a Go panic of `make(chan)`, not a channel: outside the model, whose capacities are `Nat`) … -/
def expectChanBuiltinBounds : List String := []

/-- … and it reaches `object.NewChan` unchanged -/
def expectChanBuiltinResult : String := "object.NewChan(size)"

/-- builtin `make(chan, n)`: the same two sources of `size` -/
def expectMakeSizes : List String := [
  "0",
  "int(arg.Value())"]

/-- `make` refuses `size < 0` -/
def expectMakeBounds : List String := [
  "size < 0"]

/-- and hands `size` to `object.NewChan` unchanged -/
def expectMakeChanResult : List String := [
  "return object.NewChan(size)"]

/-- vm/vm.go, `case op.ForIter:` — pops the iterator, calls `Next`; exhausted → jump to the loop's end; otherwise `Entry`, push the iterator back, then the loop variables (key; value, key; value).  The model's `next t` then `entry t`: two separate calls, nothing of the channel in between and no lock -/
def expectForIterArm : List String := [
  "base := vm.ip - 1",
  "jumpAmount := vm.fetch()",
  "nameCount := vm.fetch()",
  "iter := vm.pop().(object.Iterator)",
  "if _, ok := iter.Next(ctx); !ok { vm.ip = base + int(jumpAmount) } else { obj, _ := iter.Entry() vm.push(iter) if nameCount == 1 { vm.push(obj.Key()) } else if nameCount == 2 { vm.push(obj.Value()) vm.push(obj.Key()) } else if nameCount == 3 { vm.push(obj.Value()) } else if nameCount != 0 { return errz.EvalErrorf(\"eval error: invalid iteration\") } }"]

/-- `case op.Go:` — the popped `*object.Partial`'s function and ALREADY EVALUATED arguments go to `object.Spawn` (`tstep (.spawn …)`: the values are computed by the spawner) -/
def expectGoArm : List String := [
  "obj := vm.pop()",
  "partial, ok := obj.(*object.Partial)",
  "if !ok { return errz.TypeErrorf(\"type error: object is not a partial (got %s)\", obj.Type()) }",
  "if _, err := object.Spawn(ctx, partial.Function(), partial.Args()); err != nil { return err }"]

/-- `case op.Send:` calls `Chan.Send(ctx, value)` with the thread's context -/
def expectSendOpArm : List String := [
  "value := vm.pop()",
  "channel := vm.pop()",
  "ch, ok := channel.(*object.Chan)",
  "if !ok { return errz.TypeErrorf(\"type error: object is not a channel (got %s)\", channel.Type()) }",
  "if err := ch.Send(ctx, value); err != nil { return err }"]

/-- `case op.Receive:` calls `Chan.Receive(ctx)` and pushes the value -/
def expectReceiveOpArm : List String := [
  "channel := vm.pop()",
  "ch, ok := channel.(*object.Chan)",
  "if !ok { return errz.TypeErrorf(\"type error: object is not a channel (got %s)\", channel.Type()) }",
  "value, err := ch.Receive(ctx)",
  "if err != nil { return err }",
  "vm.push(value)"]

/-- `vm.cloneCallAsync`: clone, then `object.NewThread(clone.initContext(ctx), fn, args)` (`Net`: the child's context is derived from the spawner's; `VMs`: every callable gets a clone) -/
def expectCloneCallAsync : List String := [
  "clone, err := vm.Clone()",
  "if err != nil { return nil, err }",
  "return object.NewThread(clone.initContext(ctx), fn, args), nil"]

/-- `object.Spawn` makes a private copy of the argument slice (`tstepWith true`) … -/
def expectSpawnCopy : List String := [
  "argsCopy := make([]Object, len(args))",
  "copy(argsCopy, args)"]

/-- … BEFORE the spawn function is called … -/
def expectSpawnCopyBeforeCalls : Bool := true

/-- … and it is the copy that is handed on in every branch … -/
def expectSpawnCalls : List String := [
  "spawnFunc(ctx, adapter, argsCopy)",
  "spawnFunc(ctx, fn, argsCopy)"]

/-- … `args` itself is mentioned only in `len(args)` and `copy(argsCopy, args)` -/
def expectSpawnArgsUses : Nat := 2

/-- `callFuncAdapter.Call` hands its arguments on unchanged -/
def expectAdapterCall : List String := [
  "callFunc(ctx, c.funcObj, args)"]

/-- `object.NewThread` starts ONE goroutine -/
def expectThreadGoStmts : Nat := 1

/-- the thread keeps the argument slice it was given; `done` is an unbuffered channel that is only ever closed -/
def expectThreadLit : List String := [
  "callable: callable",
  "args: args",
  "done: make(chan bool)"]

/-- the goroutine assigns `t.result` once, from the call (`tstep (.runT …)`) -/
def expectThreadBody : List String := [
  "t.result = callable.Call(ctx, args...)"]

/-- its deferred function stores a recovered panic as the thread's error and ALWAYS closes `done` (`Outcome.panicked`) -/
def expectThreadDeferred : List String := [
  "if r := recover(); r != nil { t.result = NewError(fmt.Errorf(\"panic: %v\", r)) }",
  "close(t.done)"]

/-- `Thread.Wait` returns `t.result` after `<-t.done` (`tstep (.wait …)`: not enabled before the call returned) -/
def expectWaitArms : List String := [
  "<-ctx.Done() => return Errorf(\"wait error: %s\", ctx.Err())",
  "<-t.done => return t.result"]

/-- INVENTORY — the directories searched (modules/thread does not exist in this tree) -/
def expectChanSiteDirs : List String := [
  "object",
  "vm",
  "builtins"]

/-- struct fields of channel type declared there -/
def expectChanFields : List String := [
  "Chan.value",
  "File.closed",
  "Thread.done"]

/-- every Go channel operation (send statement, receive expression incl. select arms, `close`, `make(chan …)`, `range` over a channel field or ctx.Done()) in the non-test files, as file:function:kind:expression, sorted.  Those of object/chan.go are the channel machine, those of object/thread.go the thread machine's `done`, object/file.go's are the file object's close notification and vm.start's is the halt watcher (C07); a NEW site breaks the tie -/
def expectChanSites : List String := [
  "object/chan.go:Close:close:c.value",
  "object/chan.go:NewChan:make:chan Object, size",
  "object/chan.go:Next:recv:c.value",
  "object/chan.go:Next:recv:ctx.Done()",
  "object/chan.go:Receive:recv:c.value",
  "object/chan.go:Receive:recv:ctx.Done()",
  "object/chan.go:Send:recv:ctx.Done()",
  "object/chan.go:Send:send:c.value",
  "object/file.go:Close:close:f.closed",
  "object/file.go:NewFile:make:chan bool",
  "object/file.go:waitToClose:recv:f.closed",
  "object/file.go:waitToClose:recv:f.ctx.Done()",
  "object/thread.go:NewThread:close:t.done",
  "object/thread.go:NewThread:make:chan bool",
  "object/thread.go:Wait:recv:ctx.Done()",
  "object/thread.go:Wait:recv:t.done",
  "vm/vm.go:start:recv:doneChan"]

end Risor.C10
