/-
C10 — §3 (round 5)  A SPAWNED CALL IS THE CALL: frames, nested calls and deferred calls on a
thread's own VM.

`go f(…)`, `spawn(f, …)` and `f.spawn(…)` run `f` through `vm.Clone().callFunction`.  Whatever
`f` does while it runs — calls that nest (each script call is one `callFunction` activation on
the Go stack and one entry of the VM's frame array), `defer` statements (registered on the
ACTIVE frame, `frame.Defer` prepends), calls made under `try`, errors raised at any depth, errors
raised by a deferred call — must have the result, the error and the effects that the same call
has when it is made directly, and `wait()` must hand out exactly that result or error.

`CallSt` is one such call as the code IS: the chain of frames of one VM (innermost first; every
VM — made by New or by Clone — owns a full frame array, so a frame, once activated, stays where
the `callFunction` activation that runs its deferred calls looks for it), the effects so far, the
outcome once the outermost frame was left.  `CNet` is the set of threads, each with its own
`CallSt` (its own VM), thread 0 being the main program making the call directly.

CONTRAST ONLY: `gstep`, a VM whose frame array starts small and is REPLACED by a larger copy when
a call nests deeper, while the activations already running keep looking at the old copy.

Core Lean only.
-/
namespace Risor.C10

/-- What a deferred call does when it runs: an effect, or an effect and then a raised error. -/
inductive DAct where
  | emit (k : Nat)
  | fail (k : Nat)
  deriving Repr, DecidableEq

/-- How a call ends. -/
inductive COutcome where
  | val (v : Nat)
  | err (k : Nat)
  deriving Repr, DecidableEq

structure CFrame where
  isTry : Bool            -- the frame's function was called by `try(…)`: an error leaving it is caught
  defers : List DAct      -- latest first (`frame.Defer` prepends)
  deriving Repr, DecidableEq

structure CallSt where
  frames : List CFrame          -- innermost first
  log : List Nat := []          -- the effects of the call, in order
  out : Option COutcome := none -- set when the outermost frame was left
  reg : Nat := 0                -- history: `defer` statements executed
  ran : Nat := 0                -- history: deferred calls run
  deriving Repr, DecidableEq

/-- A call that has just been entered (the spawned function's own frame / the directly called
function's frame). -/
def cfresh : CallSt := { frames := [⟨false, []⟩] }

inductive COp where
  | call              -- a script call: a new frame
  | tcall             -- a script call made by `try(func() {…})`
  | defer (a : DAct)  -- `defer …` in the active frame
  | emit (k : Nat)    -- an effect
  | ret (v : Nat)     -- `return v` from the active frame
  | raise (k : Nat)   -- an error raised in the active frame
  deriving Repr, DecidableEq

/-- The deferred calls of a frame that is being left, latest first.  An error raised by one
replaces the result; the remaining ones still run (the loop in `callFunction`'s exit code). -/
def runDefers : List DAct → List Nat × COutcome → List Nat × COutcome
  | [], s => s
  | .emit k :: ds, (l, r) => runDefers ds (l ++ [k], r)
  | .fail k :: ds, (l, _) => runDefers ds (l ++ [k], .err k)

/-- Leave the innermost frame with result/error `r`: run its deferred calls; a value goes to the
caller (which continues), an error leaves the caller's frame as well — up to and including the
nearest frame called by `try`.  Result: the frames that remain, the effects, the outcome if the
outermost frame was left, the number of deferred calls run. -/
def leaveFrames : List CFrame → List Nat → COutcome → Nat → List CFrame × List Nat × Option COutcome × Nat
  | [], l, r, n => ([], l, some r, n)
  | f :: fs, l, r, n =>
    let s := runDefers f.defers (l, r)
    let n' := n + f.defers.length
    match s.2 with
    | .val v => if fs.isEmpty then ([], s.1, some (.val v), n') else (fs, s.1, none, n')
    | .err k => if f.isTry && !fs.isEmpty then (fs, s.1, none, n') else leaveFrames fs s.1 (.err k) n'

def leaveWith (c : CallSt) (r : COutcome) : CallSt :=
  let x := leaveFrames c.frames c.log r c.ran
  { c with frames := x.1, log := x.2.1, out := x.2.2.1, ran := x.2.2.2 }

/-- One statement of the call, the code as it is.  A finished call does nothing more. -/
def cstep (c : CallSt) (o : COp) : CallSt :=
  if c.out.isSome then c else
  match c.frames with
  | [] => c
  | f :: fs =>
    match o with
    | .call => { c with frames := ⟨false, []⟩ :: f :: fs }
    | .tcall => { c with frames := ⟨true, []⟩ :: f :: fs }
    | .defer a => { c with frames := { f with defers := a :: f.defers } :: fs, reg := c.reg + 1 }
    | .emit k => { c with log := c.log ++ [k] }
    | .ret v => leaveWith c (.val v)
    | .raise k => leaveWith c (.err k)

def crun (c : CallSt) (ops : List COp) : CallSt := ops.foldl cstep c

/-- Deferred calls registered and not yet run. -/
def pendingDefers : List CFrame → Nat
  | [] => 0
  | f :: fs => f.defers.length + pendingDefers fs

/-! ### The threads: every spawned call on its own VM -/

structure CNet where
  n : Nat := 1                       -- thread 0 = the main program (the call made directly)
  th : Nat → CallSt := fun _ => cfresh

inductive CNOp where
  | sp (p : Nat)              -- running thread `p` spawns a call (any spawn form, at any depth of its own calls)
  | op (t : Nat) (o : COp)    -- thread `t` executes a statement of its call
  | wait (w t : Nat)          -- `w` waits for `t` (an observation only)
  deriving Repr, DecidableEq

def cnstep (s : CNet) : CNOp → CNet
  | .sp p =>
    if p < s.n ∧ (s.th p).out = none then
      { n := s.n + 1, th := fun i => if i = s.n then cfresh else s.th i }
    else s
  | .op t o =>
    if t < s.n then { s with th := fun i => if i = t then cstep (s.th t) o else s.th i } else s
  | .wait _ _ => s

def cnrun (s : CNet) (ops : List CNOp) : CNet := ops.foldl cnstep s

/-- The statements of thread `t` in a schedule. -/
def cproj (t : Nat) : List CNOp → List COp
  | [] => []
  | .op t' o :: rest => if t' = t then o :: cproj t rest else cproj t rest
  | _ :: rest => cproj t rest

/-- What `wait()` on thread `t` hands out: nothing while the call runs, then its outcome. -/
def waitObs (s : CNet) (t : Nat) : Option COutcome := if t < s.n then (s.th t).out else none

/-! ### Contrast only: a frame array that is replaced while calls are running -/

structure GFrame where
  defers : List DAct
  frozen : Option (List DAct) := none  -- the deferred calls as seen by the activation that runs them, once the array it points into was replaced
  deriving Repr, DecidableEq

structure GCall where
  frames : List GFrame
  cap : Nat
  log : List Nat := []
  out : Option COutcome := none
  deriving Repr, DecidableEq

def gfresh (cap : Nat) : GCall := { frames := [{ defers := [] }], cap := cap }

def gfreeze (f : GFrame) : GFrame := { f with frozen := some (f.frozen.getD f.defers) }

def gleave (c : GCall) (r : COutcome) : GCall :=
  let x := leaveFrames (c.frames.map fun f => ⟨false, f.frozen.getD f.defers⟩) c.log r 0
  { c with frames := c.frames.drop (c.frames.length - x.1.length), log := x.2.1, out := x.2.2.1 }

/-- The variant: a call that needs a frame beyond the capacity replaces the array by a copy of
twice the size; the activations of the frames that existed keep the old copy (`gfreeze`), a
`defer` executed later writes to the new one. -/
def gstep (c : GCall) (o : COp) : GCall :=
  if c.out.isSome then c else
  match c.frames with
  | [] => c
  | f :: fs =>
    match o with
    | .call | .tcall =>
      if c.frames.length + 1 > c.cap then
        { c with frames := { defers := [] } :: c.frames.map gfreeze, cap := 2 * c.cap }
      else { c with frames := { defers := [] } :: c.frames }
    | .defer a => { c with frames := { f with defers := a :: f.defers } :: fs }
    | .emit k => { c with log := c.log ++ [k] }
    | .ret v => gleave c (.val v)
    | .raise k => gleave c (.err k)

def grun (c : GCall) (ops : List COp) : GCall := ops.foldl gstep c

end Risor.C10
