import RisorModel.C10.Model
/-! Helper lemmas for C10: the effect of one step, and step-wise invariants. -/
namespace Risor.C10

theorem values_append (a b : List (Nat × Msg)) : values (a ++ b) = values a ++ values b := by
  simp [values]

/-- the possible effects of one enabled step on the state -/
inductive Eff (c : Chan) : Op → Chan → Prop
  | same (o : Op) (h : ∀ t, o ≠ .entry t) : Eff c o c
  | send (t : Nat) (v : Msg) : Eff c (.send t v) { c with buf := c.buf ++ [v], sent := c.sent ++ [v] }
  | close (t : Nat) : Eff c (.close t) { c with closed := true }
  | recv (t : Nat) (v : Msg) (rest : List Msg) : isPend c t = false → c.buf = v :: rest →
      Eff c (.recv t) (recvOf c t v rest)
  | next (t : Nat) (v : Msg) (rest : List Msg) : isPend c t = false → c.buf = v :: rest →
      Eff c (.next t) (nextOf c t v rest)
  | entry (t : Nat) (v : Msg) : isPend c t = true → c.last = some v →
      Eff c (.entry t) { c with pend := dropPend c t, deliv := c.deliv ++ [(t, v)] }
  | entryNone (t : Nat) : isPend c t = true → c.last = none →
      Eff c (.entry t) { c with pend := dropPend c t }
  | handRecv (s r : Nat) (v : Msg) : isPend c r = false → c.buf = [] →
      Eff c (.handoff s r v false) (recvOf { c with sent := c.sent ++ [v] } r v [])
  | handNext (s r : Nat) (v : Msg) : isPend c r = false → c.buf = [] →
      Eff c (.handoff s r v true) (nextOf { c with sent := c.sent ++ [v] } r v [])

theorem step_eff (c c' : Chan) (o : Op) (ob : Obs) (h : step c o = some (c', ob)) : Eff c o c' := by
  cases o with
  | send t v =>
    simp only [step] at h
    split at h
    · cases h
    · split at h
      · cases h; exact .same _ (by simp)
      · split at h
        · cases h; exact .send t v
        · cases h
  | recv t =>
    simp only [step] at h
    split at h
    · cases h
    · rename_i hp
      split at h
      · rename_i v rest hb
        cases h; exact .recv t v rest (by simpa using hp) hb
      · split at h
        · cases h; exact .same _ (by simp)
        · cases h
  | close t =>
    simp only [step] at h
    split at h
    · cases h
    · split at h
      · cases h; exact .same _ (by simp)
      · cases h; exact .close t
  | next t =>
    simp only [step] at h
    split at h
    · cases h
    · rename_i hp
      split at h
      · rename_i v rest hb
        cases h; exact .next t v rest (by simpa using hp) hb
      · split at h
        · cases h; exact .same _ (by simp)
        · cases h
  | entry t =>
    simp only [step] at h
    split at h
    · rename_i hp
      split at h
      · rename_i v hl
        cases h; exact .entry t v hp hl
      · rename_i hl
        cases h; exact .entryNone t hp hl
    · cases h
  | peek t =>
    simp only [step] at h
    split at h
    · cases h
    · split at h <;> cases h <;> exact .same _ (by simp)
  | handoff s r v iter =>
    simp only [step] at h
    split at h
    · cases h
    · rename_i hc
      simp only [Bool.or_eq_true, not_or, Bool.not_eq_true, Bool.not_eq_eq_eq_not, Bool.not_true] at hc
      have hb : c.buf = [] := by
        have := hc.2
        cases hcb : c.buf with
        | nil => rfl
        | cons _ _ => simp [hcb] at this
      have hr : isPend c r = false := hc.1.1.1.1.2
      cases iter with
      | true => simp only [↓reduceIte] at h; cases h; exact .handNext s r v hr hb
      | false => simp only [Bool.false_eq_true, ↓reduceIte] at h; cases h; exact .handRecv s r v hr hb

/-- a general induction principle for schedules -/
theorem run_induct (P : Chan → Prop) (c0 : Chan) (h0 : P c0)
    (hstep : ∀ c o c', P c → Eff c o c' → P c') :
    ∀ ops c, run c0 ops = some c → P c := by
  intro ops
  induction ops generalizing c0 with
  | nil => intro c h; simp only [run, Option.some.injEq] at h; subst h; exact h0
  | cons o os ih =>
    intro c h
    simp only [run] at h
    split at h
    · rename_i c1 ob hs
      exact ih c1 (hstep c0 o c1 h0 (step_eff _ _ _ _ hs)) c h
    · cases h

/-- global FIFO conservation: what was dequeued followed by what is queued is what was accepted -/
def Fifo (c : Chan) : Prop := values c.deq ++ c.buf = c.sent

theorem eff_fifo (c c' : Chan) (o : Op) (h : Eff c o c') (hf : Fifo c) : Fifo c' := by
  unfold Fifo at *
  cases h with
  | same => exact hf
  | send t v => simp [← hf]
  | close t => exact hf
  | recv t v rest hp hb => simp [recvOf, values, ← hf, hb]
  | next t v rest hp hb => simp [nextOf, values, ← hf, hb]
  | entry t v hp hl => exact hf
  | entryNone t hp hl => exact hf
  | handRecv s r v hp hb => simp [recvOf, values, ← hf, hb]
  | handNext s r v hp hb => simp [nextOf, values, ← hf, hb]

theorem init_fifo (cap : Nat) : Fifo (init cap) := by simp [Fifo, init, values]

theorem run_fifo (cap : Nat) (ops : List Op) (c : Chan) (h : run (init cap) ops = some c) : Fifo c :=
  run_induct Fifo (init cap) (init_fifo cap) (fun c o c' hp he => eff_fifo c c' o he hp) ops c h


theorem run_induct_mem (P : Chan → Prop) (ops : List Op)
    (hstep : ∀ c o c', o ∈ ops → P c → Eff c o c' → P c') :
    ∀ c0 c, P c0 → run c0 ops = some c → P c := by
  induction ops with
  | nil => intro c0 c h0 h; simp only [run, Option.some.injEq] at h; subst h; exact h0
  | cons o os ih =>
    intro c0 c h0 h
    simp only [run] at h
    split at h
    · rename_i c1 ob hs
      exact ih (fun c o' c' hm => hstep c o' c' (List.mem_cons_of_mem _ hm)) c1 c
        (hstep c0 o c1 (List.mem_cons_self) h0 (step_eff _ _ _ _ hs)) h
    · cases h

theorem iterThreads_cons (o : Op) (os : List Op) :
    iterThreads (o :: os) = iterThreads [o] ++ iterThreads os := by
  cases o with
  | handoff s r v iter => cases iter <;> simp [iterThreads]
  | _ => simp [iterThreads]

theorem onlyIter_mem (t0 : Nat) (ops : List Op) (h : onlyIter t0 ops = true) (o : Op) (ho : o ∈ ops) :
    ∀ t ∈ iterThreads [o], t = t0 := by
  induction ops with
  | nil => cases ho
  | cons a as ih =>
    unfold onlyIter at h ih
    rw [iterThreads_cons, List.all_append, Bool.and_eq_true] at h
    cases ho with
    | head => intro t ht; have := List.all_eq_true.1 h.1 t ht; simpa using this
    | tail _ hm => exact ih h.2 hm

/-- filter of a receiver's entries -/
def ofRcv (j : Nat) (l : List (Nat × Msg)) : List (Nat × Msg) := l.filter (fun p => p.1 == j)

theorem ofRcv_append (j : Nat) (a b : List (Nat × Msg)) : ofRcv j (a ++ b) = ofRcv j a ++ ofRcv j b := by
  simp [ofRcv]

theorem ofRcv_pend_nil (c : Chan) (t : Nat) (h : isPend c t = false) : ofRcv t c.pend = [] := by
  unfold isPend at h
  unfold ofRcv
  rw [List.filter_eq_nil_iff]
  intro a ha
  have := List.any_eq_false.1 h a ha
  simpa using this

/-- **Faithful delivery**: every receiver was handed, in order, exactly the values it
    dequeued (a value it dequeued but has not been handed yet is pending) -/
def Faithful (c : Chan) : Prop := ∀ j, ofRcv j c.deliv ++ ofRcv j c.pend = ofRcv j c.deq

/-- invariant of schedules in which only thread `t0` iterates -/
def Single (t0 : Nat) (c : Chan) : Prop :=
  Faithful c ∧ (c.pend = [] ∨ ∃ v, c.pend = [(t0, v)] ∧ c.last = some v)

theorem isPend_single (c : Chan) (t0 t : Nat) (hs : c.pend = [] ∨ ∃ v, c.pend = [(t0, v)] ∧ c.last = some v)
    (hp : isPend c t = true) : t = t0 ∧ ∃ v, c.pend = [(t0, v)] ∧ c.last = some v := by
  cases hs with
  | inl h => simp [isPend, h] at hp
  | inr h =>
    obtain ⟨v, hv, hl⟩ := h
    simp only [isPend, hv, List.any_cons, List.any_nil, Bool.or_false, beq_iff_eq] at hp
    exact ⟨hp.symm, v, hv, hl⟩

theorem eff_single (t0 : Nat) (c c' : Chan) (o : Op) (hg : ∀ t ∈ iterThreads [o], t = t0)
    (hs : Single t0 c) (h : Eff c o c') : Single t0 c' := by
  obtain ⟨hf, hp⟩ := hs
  cases h with
  | same => exact ⟨hf, hp⟩
  | send t v => exact ⟨hf, hp⟩
  | close t => exact ⟨hf, hp⟩
  | recv t v rest hpt hb =>
    refine ⟨?_, hp⟩
    intro j
    have := hf j
    simp only [recvOf, ofRcv_append]
    by_cases hj : j = t
    · subst hj
      have hn := ofRcv_pend_nil c j hpt
      rw [hn, List.append_nil] at this ⊢
      rw [this]
    · have : ofRcv j [(t, v)] = [] := by simp [ofRcv]; exact fun h => hj h.symm
      rw [this, List.append_nil, List.append_nil]; exact hf j
  | next t v rest hpt hb =>
    have ht : t = t0 := hg t (by simp [iterThreads])
    subst ht
    have hpn : c.pend = [] := by
      cases hp with
      | inl h => exact h
      | inr h => obtain ⟨w, hw, _⟩ := h; simp [isPend, hw] at hpt
    refine ⟨?_, Or.inr ⟨v, by simp [nextOf, hpn], rfl⟩⟩
    intro j
    simp only [nextOf, ofRcv_append, ← List.append_assoc, hf j]
  | entry t v hpt hl =>
    obtain ⟨ht, w, hw, hlw⟩ := isPend_single c t0 t hp hpt
    subst ht
    have hvw : v = w := by rw [hl] at hlw; exact Option.some.inj hlw
    subst hvw
    refine ⟨?_, Or.inl (by simp [dropPend, hw])⟩
    intro j
    have := hf j
    simp only [dropPend, hw, ofRcv_append] at this ⊢
    simpa [ofRcv] using this
  | entryNone t hpt hl =>
    obtain ⟨_, w, _, hlw⟩ := isPend_single c t0 t hp hpt
    rw [hl] at hlw; cases hlw
  | handRecv s r v hpt hb =>
    refine ⟨?_, hp⟩
    intro j
    have := hf j
    simp only [recvOf, ofRcv_append]
    by_cases hj : j = r
    · subst hj
      have hn := ofRcv_pend_nil c j hpt
      rw [hn, List.append_nil] at this ⊢
      rw [this]
    · have : ofRcv j [(r, v)] = [] := by simp [ofRcv]; exact fun h => hj h.symm
      rw [this, List.append_nil, List.append_nil]; exact hf j
  | handNext s r v hpt hb =>
    have ht : r = t0 := hg r (by simp [iterThreads])
    subst ht
    have hpn : c.pend = [] := by
      cases hp with
      | inl h => exact h
      | inr h => obtain ⟨w, hw, _⟩ := h; simp [isPend, hw] at hpt
    refine ⟨?_, Or.inr ⟨v, by simp [nextOf, hpn], rfl⟩⟩
    intro j
    simp only [nextOf, ofRcv_append, ← List.append_assoc, hf j]

theorem init_single (t0 cap : Nat) : Single t0 (init cap) := by
  refine ⟨fun j => by simp [init, ofRcv], Or.inl rfl⟩

theorem run_single (t0 cap : Nat) (ops : List Op) (hg : onlyIter t0 ops = true) (c : Chan)
    (h : run (init cap) ops = some c) : Single t0 c :=
  run_induct_mem (Single t0) ops
    (fun c o c' hm hp he => eff_single t0 c c' o (onlyIter_mem t0 ops hg o hm) hp he)
    (init cap) c (init_single t0 cap) h

/-- what holds of every schedule, defect included: as many hand-outs (plus pending ones) as
    dequeues, and everything handed out was dequeued -/
def Counts (c : Chan) : Prop :=
  c.deliv.length + c.pend.length = c.deq.length ∧ (∀ x ∈ c.deliv, x.2 ∈ values c.deq)
    ∧ (∀ v, c.last = some v → v ∈ values c.deq) ∧ (c.pend ≠ [] → c.last ≠ none)

theorem isPend_exists (c : Chan) (t : Nat) (h : isPend c t = true) :
    ∃ a, a ∈ c.pend ∧ (a.1 == t) = true := by
  unfold isPend at h
  exact List.any_eq_true.1 h

theorem eff_counts (c c' : Chan) (o : Op) (hs : Counts c) (h : Eff c o c') : Counts c' := by
  obtain ⟨hl, hd, hv, hn⟩ := hs
  cases h with
  | same => exact ⟨hl, hd, hv, hn⟩
  | send t v => exact ⟨hl, hd, hv, hn⟩
  | close t => exact ⟨hl, hd, hv, hn⟩
  | recv t v rest hpt hb =>
    refine ⟨by simp [recvOf]; omega, ?_, ?_, hn⟩
    · intro x hx
      simp only [recvOf, List.mem_append, List.mem_singleton] at hx
      simp only [recvOf, values_append, List.mem_append]
      cases hx with
      | inl h => exact Or.inl (hd x h)
      | inr h => subst h; exact Or.inr (by simp [values])
    · intro w hw
      simp only [recvOf, values_append, List.mem_append]
      exact Or.inl (hv w hw)
  | next t v rest hpt hb =>
    refine ⟨by simp [nextOf]; omega, ?_, ?_, by simp [nextOf]⟩
    · intro x hx
      simp only [nextOf, values_append, List.mem_append]
      exact Or.inl (hd x hx)
    · intro w hw
      simp only [nextOf, Option.some.injEq] at hw
      subst hw
      simp [nextOf, values]
  | entry t v hpt hlast =>
    obtain ⟨a, ha, hat⟩ := isPend_exists c t hpt
    have hlen := List.length_eraseP_of_mem (p := fun p => p.1 == t) ha hat
    refine ⟨?_, ?_, hv, by simp [hlast]⟩
    · simp only [dropPend, List.length_append, List.length_cons, List.length_nil, hlen]
      have : c.pend.length ≥ 1 := by
        cases hp : c.pend with
        | nil => rw [hp] at ha; cases ha
        | cons _ _ => simp
      omega
    · intro x hx
      simp only [List.mem_append, List.mem_singleton] at hx
      cases hx with
      | inl h => exact hd x h
      | inr h => subst h; exact hv v hlast
  | entryNone t hpt hlast =>
    obtain ⟨a, ha, _⟩ := isPend_exists c t hpt
    exact absurd hlast (hn (by intro h; rw [h] at ha; cases ha))
  | handRecv s r v hpt hb =>
    refine ⟨by simp [recvOf]; omega, ?_, ?_, hn⟩
    · intro x hx
      simp only [recvOf, List.mem_append, List.mem_singleton] at hx
      simp only [recvOf, values_append, List.mem_append]
      cases hx with
      | inl h => exact Or.inl (hd x h)
      | inr h => subst h; exact Or.inr (by simp [values])
    · intro w hw
      simp only [recvOf, values_append, List.mem_append]
      exact Or.inl (hv w hw)
  | handNext s r v hpt hb =>
    refine ⟨by simp [nextOf]; omega, ?_, ?_, by simp [nextOf]⟩
    · intro x hx
      simp only [nextOf, values_append, List.mem_append]
      exact Or.inl (hd x hx)
    · intro w hw
      simp only [nextOf, Option.some.injEq] at hw
      subst hw
      simp [nextOf, values]

theorem run_counts (cap : Nat) (ops : List Op) (c : Chan) (h : run (init cap) ops = some c) : Counts c :=
  run_induct Counts (init cap) (by simp [Counts, init, values])
    (fun c o c' hp he => eff_counts c c' o hp he) ops c h

theorem iterThreads_nil_mem (ops : List Op) (hg : iterThreads ops = []) (o : Op) (hm : o ∈ ops) :
    iterThreads [o] = [] := by
  induction ops with
  | nil => cases hm
  | cons a as ih =>
    rw [iterThreads_cons] at hg
    have hg' := List.append_eq_nil_iff.1 hg
    cases hm with
    | head => exact hg'.1
    | tail _ hm' => exact ih hg'.2 hm'

/-- schedules without iteration never have a pending thread -/
theorem run_noiter_pend (cap : Nat) (ops : List Op) (hg : iterThreads ops = []) (c : Chan)
    (h : run (init cap) ops = some c) : c.pend = [] := by
  refine run_induct_mem (fun c => c.pend = []) ops ?_ (init cap) c rfl h
  intro c o c' hm hp he
  have hno : iterThreads [o] = [] := iterThreads_nil_mem ops hg o hm
  cases he with
  | same => exact hp
  | send t v => exact hp
  | close t => exact hp
  | recv t v rest _ _ => exact hp
  | next t v rest _ _ => simp [iterThreads] at hno
  | entry t v hpt _ => simp [isPend, hp] at hpt
  | entryNone t hpt _ => simp [isPend, hp] at hpt
  | handRecv s r v _ _ => exact hp
  | handNext s r v _ _ => simp [iterThreads] at hno

/-- equal per-receiver projections make two logs permutations of each other -/
theorem perm_of_ofRcv (a b : List (Nat × Msg)) (h : ∀ j, ofRcv j a = ofRcv j b) : a.Perm b := by
  rw [List.perm_iff_count]
  intro x
  have h1 : List.count x (ofRcv x.1 a) = List.count x a := by
    unfold ofRcv; exact List.count_filter (by simp)
  have h2 : List.count x (ofRcv x.1 b) = List.count x b := by
    unfold ofRcv; exact List.count_filter (by simp)
  rw [← h1, ← h2, h x.1]

/-! ### The judge of observed histories -/

/-- **An arrival order exists**: the receivers' logs `recv` can be consumed head by head, each
    consumed message being the next unsent-so-far message of its sender (`next`), until all
    logs are empty and every sender's count is reached.  This is exactly "some schedule of
    dequeues of the FIFO channel produces these per-receiver logs". -/
inductive MergeP (counts : List Nat) : List Nat → List (List Msg) → Prop
  | done (next : List Nat) (recv : List (List Msg)) :
      recv.all List.isEmpty = true → next = counts → MergeP counts next recv
  | step (next : List Nat) (recv : List (List Msg)) (j : Nat) (m : Msg) (rest : List Msg) :
      recv[j]? = some (m :: rest) → next[m.1]? = some m.2 →
      MergeP counts (next.set m.1 (m.2 + 1)) (recv.set j rest) → MergeP counts next recv

theorem findEnabled_some (next : List Nat) (recv : List (List Msg)) (k j : Nat)
    (h : findEnabled next recv k = some j) :
    ∃ r, k ≤ j ∧ recv[j - k]? = some r ∧ headEnabled next r = true := by
  induction recv generalizing k with
  | nil => simp [findEnabled] at h
  | cons r rs ih =>
    simp only [findEnabled] at h
    split at h
    · rename_i he
      simp only [Option.some.injEq] at h
      subst h
      exact ⟨r, Nat.le_refl _, by simp, he⟩
    · obtain ⟨r', hle, hr', he'⟩ := ih (k + 1) h
      refine ⟨r', by omega, ?_, he'⟩
      have : j - k = (j - (k + 1)) + 1 := by omega
      rw [this, List.getElem?_cons_succ]
      exact hr'

theorem mergeStep_some (next next' : List Nat) (recv recv' : List (List Msg))
    (h : mergeStep next recv = some (next', recv')) :
    ∃ j m rest, recv[j]? = some (m :: rest) ∧ next[m.1]? = some m.2 ∧
      next' = next.set m.1 (m.2 + 1) ∧ recv' = recv.set j rest := by
  unfold mergeStep at h
  split at h
  · cases h
  · rename_i j hj
    obtain ⟨r, _, hr, he⟩ := findEnabled_some next recv 0 j hj
    simp only [Nat.sub_zero] at hr
    rw [hr] at h
    cases r with
    | nil => simp [headEnabled] at he
    | cons m rest =>
      simp only [Option.some.injEq, Prod.mk.injEq] at h
      refine ⟨j, m, rest, hr, ?_, h.1.symm, h.2.symm⟩
      simpa [headEnabled] using he

/-- soundness of the executable judge: whenever it accepts, an arrival order exists -/
theorem mergeRun_sound (counts : List Nat) (fuel : Nat) (next : List Nat) (recv : List (List Msg))
    (h : mergeRun counts fuel next recv = true) : MergeP counts next recv := by
  induction fuel generalizing next recv with
  | zero =>
    simp only [mergeRun, Bool.and_eq_true, beq_iff_eq] at h
    exact .done next recv h.1 h.2
  | succ n ih =>
    simp only [mergeRun] at h
    split at h
    · simp only [Bool.and_eq_true, beq_iff_eq] at h
      exact .done next recv h.1 h.2
    · rename_i next' recv' hs
      obtain ⟨j, m, rest, hr, hn, hn', hr'⟩ := mergeStep_some next next' recv recv' hs
      subst hn'; subst hr'
      exact .step next recv j m rest hr hn (ih _ _ h)

theorem all_empty_no_head (recv : List (List Msg)) (h : recv.all List.isEmpty = true) (j : Nat) (m : Msg)
    (rest : List Msg) (hj : recv[j]? = some (m :: rest)) : False := by
  have hm : (m :: rest) ∈ recv := List.mem_of_getElem? hj
  have := List.all_eq_true.1 h _ hm
  simp at this

/-- heads of the logs are never in a sender's past -/
theorem mergeP_head_ge (counts next : List Nat) (recv : List (List Msg)) (h : MergeP counts next recv) :
    ∀ (j : Nat) (m : Msg) (rest : List Msg), recv[j]? = some (m :: rest) → ∃ n, next[m.1]? = some n ∧ n ≤ m.2 := by
  induction h with
  | done next recv he _ => intro j m rest hj; exact (all_empty_no_head recv he j m rest hj).elim
  | step next recv j0 m0 rest0 h0 hn0 _ ih =>
    intro j m rest hj
    by_cases hjj : j0 = j
    · subst hjj
      rw [h0] at hj
      simp only [Option.some.injEq, List.cons.injEq] at hj
      rw [← hj.1]
      exact ⟨m0.2, hn0, Nat.le_refl _⟩
    · have hj' : (recv.set j0 rest0)[j]? = some (m :: rest) := by
        rw [List.getElem?_set_ne hjj]; exact hj
      obtain ⟨n', hn', hle⟩ := ih j m rest hj'
      by_cases hs : m0.1 = m.1
      · have hlt : m0.1 < next.length := (List.getElem?_eq_some_iff.1 hn0).1
        rw [← hs, List.getElem?_set_self hlt] at hn'
        simp only [Option.some.injEq] at hn'
        exact ⟨m0.2, by rw [← hs]; exact hn0, by omega⟩
      · rw [List.getElem?_set_ne hs] at hn'
        exact ⟨n', hn', hle⟩

/-- consuming any enabled head keeps an arrival order possible (enabled heads commute) -/
theorem mergeP_diamond (counts next : List Nat) (recv : List (List Msg)) (h : MergeP counts next recv) :
    ∀ (j : Nat) (m : Msg) (rest : List Msg), recv[j]? = some (m :: rest) → next[m.1]? = some m.2 →
      MergeP counts (next.set m.1 (m.2 + 1)) (recv.set j rest) := by
  induction h with
  | done next recv he _ => intro j m rest hj; exact (all_empty_no_head recv he j m rest hj).elim
  | step next recv j0 m0 rest0 h0 hn0 hsucc ih =>
    intro j m rest hj hn
    by_cases hjj : j0 = j
    · subst hjj
      rw [h0] at hj
      simp only [Option.some.injEq, List.cons.injEq] at hj
      rw [← hj.1, ← hj.2]
      exact hsucc
    · have hj' : (recv.set j0 rest0)[j]? = some (m :: rest) := by
        rw [List.getElem?_set_ne hjj]; exact hj
      have hs : m0.1 ≠ m.1 := by
        intro hs
        obtain ⟨n', hn', hle⟩ := mergeP_head_ge counts _ _ hsucc j m rest hj'
        have hlt : m0.1 < next.length := (List.getElem?_eq_some_iff.1 hn0).1
        rw [← hs, List.getElem?_set_self hlt] at hn'
        simp only [Option.some.injEq] at hn'
        rw [← hs, hn0] at hn
        simp only [Option.some.injEq] at hn
        omega
      have hn' : (next.set m0.1 (m0.2 + 1))[m.1]? = some m.2 := by
        rw [List.getElem?_set_ne hs]; exact hn
      have := ih j m rest hj' hn'
      rw [List.set_comm _ _ hs, List.set_comm _ _ hjj] at this
      refine .step _ _ j0 m0 rest0 ?_ ?_ this
      · rw [List.getElem?_set_ne (Ne.symm hjj)]; exact h0
      · rw [List.getElem?_set_ne (Ne.symm hs)]; exact hn0

theorem totalLen_set (recv : List (List Msg)) (j : Nat) (m : Msg) (rest : List Msg)
    (hj : recv[j]? = some (m :: rest)) : totalLen (recv.set j rest) + 1 = totalLen recv := by
  induction recv generalizing j with
  | nil => simp at hj
  | cons r rs ih =>
    cases j with
    | zero =>
      simp only [List.getElem?_cons_zero, Option.some.injEq] at hj
      subst hj
      simp [totalLen]; omega
    | succ k =>
      simp only [List.getElem?_cons_succ] at hj
      have := ih k hj
      simp only [totalLen, List.set_cons_succ, List.map_cons, List.sum_cons] at this ⊢
      omega

theorem findEnabled_none (next : List Nat) (recv : List (List Msg)) (k : Nat)
    (h : findEnabled next recv k = none) : ∀ (j : Nat) (r : List Msg), recv[j]? = some r → headEnabled next r = false := by
  induction recv generalizing k with
  | nil => intro j r hj; simp at hj
  | cons r0 rs ih =>
    simp only [findEnabled] at h
    split at h
    · cases h
    · rename_i he
      intro j r hj
      cases j with
      | zero => simp only [List.getElem?_cons_zero, Option.some.injEq] at hj; subst hj; simpa using he
      | succ n => simp only [List.getElem?_cons_succ] at hj; exact ih (k + 1) h n r hj

theorem mergeStep_none (next : List Nat) (recv : List (List Msg)) (h : mergeStep next recv = none) :
    ∀ (j : Nat) (m : Msg) (rest : List Msg), recv[j]? = some (m :: rest) → next[m.1]? ≠ some m.2 := by
  intro j m rest hj hn
  unfold mergeStep at h
  split at h
  · rename_i hf
    have := findEnabled_none next recv 0 hf j _ hj
    simp [headEnabled, hn] at this
  · rename_i j' hf
    obtain ⟨r, _, hr, he⟩ := findEnabled_some next recv 0 j' hf
    simp only [Nat.sub_zero] at hr
    rw [hr] at h
    cases r with
    | nil => simp [headEnabled] at he
    | cons _ _ => simp at h

/-- completeness of the executable judge: with enough fuel it accepts whenever an arrival order exists -/
theorem mergeRun_complete (counts : List Nat) (fuel : Nat) (next : List Nat) (recv : List (List Msg))
    (h : MergeP counts next recv) (hf : totalLen recv ≤ fuel) : mergeRun counts fuel next recv = true := by
  induction fuel generalizing next recv with
  | zero =>
    simp only [mergeRun, Bool.and_eq_true, beq_iff_eq]
    cases h with
    | done _ _ he hc => exact ⟨he, hc⟩
    | step _ _ j m rest hj _ _ =>
      have := totalLen_set recv j m rest hj
      omega
  | succ n ih =>
    simp only [mergeRun]
    split
    · rename_i hs
      simp only [Bool.and_eq_true, beq_iff_eq]
      cases h with
      | done _ _ he hc => exact ⟨he, hc⟩
      | step _ _ j m rest hj hn _ => exact absurd hn (mergeStep_none next recv hs j m rest hj)
    · rename_i next' recv' hs
      obtain ⟨j, m, rest, hr, hn, hn', hr'⟩ := mergeStep_some next next' recv recv' hs
      subst hn'; subst hr'
      have := totalLen_set recv j m rest hr
      exact ih _ _ (mergeP_diamond counts next recv h j m rest hr hn) (by omega)

/-! ### From faithful delivery to the property's wording -/

theorem exactlyOnce_of_faithful (c : Chan) (hf : Fifo c) (hd : ∀ j, ofRcv j c.deliv = ofRcv j c.deq) :
    ExactlyOnce c := by
  unfold ExactlyOnce
  unfold Fifo at hf
  rw [← hf]
  exact List.Perm.append_right _ ((perm_of_ofRcv _ _ hd).map _)

theorem receiverOrder_of_faithful (c : Chan) (hf : Fifo c) (hd : ∀ j, ofRcv j c.deliv = ofRcv j c.deq) :
    ReceiverOrder c := by
  intro i j
  unfold byReceiver fromSender
  have h1 : (values (c.deliv.filter fun p => p.1 == j)).Sublist (values c.deq) := by
    have := hd j
    unfold ofRcv at this
    rw [this]
    exact List.Sublist.map _ List.filter_sublist
  have h2 : (values c.deq).Sublist c.sent := by
    rw [← hf]; exact List.sublist_append_left _ _
  exact (h1.trans h2).filter _


/-- one step of the thread machine leaves every slice that is private to a spawned call
    (flag `false`) untouched -/
theorem tstep_private_slice (s s' : TState) (o : TOp) (ob : TObs) (h : tstep s o = some (s', ob))
    (k : Nat) (xs : List Int) (hk : s.heap[k]? = some (xs, false)) : s'.heap[k]? = some (xs, false) := by
  unfold tstep at h
  cases o with
  | assign i v => simp only [tstepWith, Option.some.injEq, Prod.mk.injEq] at h; rw [← h.1]; exact hk
  | setShared i v => simp only [tstepWith, Option.some.injEq, Prod.mk.injEq] at h; rw [← h.1]; exact hk
  | spawn args body =>
    simp only [tstepWith, ↓reduceIte, Option.some.injEq, Prod.mk.injEq] at h
    rw [← h.1]
    have hlt : k < s.heap.length := by
      have := List.getElem?_eq_some_iff.1 hk
      exact this.1
    simp only [List.getElem?_append_left hlt]
    exact hk
  | poke sl i v =>
    simp only [tstepWith] at h
    split at h
    · rename_i ys hsl
      simp only [Option.some.injEq, Prod.mk.injEq] at h
      rw [← h.1]
      by_cases hks : sl = k
      · subst hks; rw [hk] at hsl; cases hsl
      · simp only [List.getElem?_set_ne hks]; exact hk
    · cases h
  | runT t =>
    simp only [tstepWith] at h
    split at h
    · split at h
      · simp only [Option.some.injEq, Prod.mk.injEq] at h; rw [← h.1]; exact hk
      · cases h
    · cases h
  | wait t =>
    simp only [tstepWith] at h
    split at h
    · split at h
      · simp only [Option.some.injEq, Prod.mk.injEq] at h; rw [← h.1]; exact hk
      · cases h
    · cases h

/-- one step never changes which slice an existing thread reads, nor its body -/
theorem tstep_thread_slice (s s' : TState) (o : TOp) (ob : TObs) (h : tstep s o = some (s', ob))
    (t : Nat) (th : Thread) (ht : s.threads[t]? = some th) :
    ∃ th', s'.threads[t]? = some th' ∧ th'.slice = th.slice ∧ th'.body = th.body := by
  unfold tstep at h
  cases o with
  | assign i v => simp only [tstepWith, Option.some.injEq, Prod.mk.injEq] at h; rw [← h.1]; exact ⟨th, ht, rfl, rfl⟩
  | setShared i v => simp only [tstepWith, Option.some.injEq, Prod.mk.injEq] at h; rw [← h.1]; exact ⟨th, ht, rfl, rfl⟩
  | spawn args body =>
    simp only [tstepWith, ↓reduceIte, Option.some.injEq, Prod.mk.injEq] at h
    rw [← h.1]
    have hlt : t < s.threads.length := (List.getElem?_eq_some_iff.1 ht).1
    exact ⟨th, by simp only [List.getElem?_append_left hlt]; exact ht, rfl, rfl⟩
  | poke sl i v =>
    simp only [tstepWith] at h
    split at h
    · simp only [Option.some.injEq, Prod.mk.injEq] at h; rw [← h.1]; exact ⟨th, ht, rfl, rfl⟩
    · cases h
  | runT u =>
    simp only [tstepWith] at h
    split at h
    · rename_i thu hu
      split at h
      · simp only [Option.some.injEq, Prod.mk.injEq] at h
        rw [← h.1]
        by_cases hut : u = t
        · subst hut
          rw [ht] at hu; cases hu
          have hlt : u < s.threads.length := (List.getElem?_eq_some_iff.1 ht).1
          exact ⟨_, List.getElem?_set_self hlt, rfl, rfl⟩
        · exact ⟨th, by simp only [List.getElem?_set_ne hut]; exact ht, rfl, rfl⟩
      · cases h
    · cases h
  | wait u =>
    simp only [tstepWith] at h
    split at h
    · split at h
      · simp only [Option.some.injEq, Prod.mk.injEq] at h; rw [← h.1]; exact ⟨th, ht, rfl, rfl⟩
      · cases h
    · cases h


/-- invariant tying `Thread.result` to the history of returned calls -/
def ResultInv (s : TState) : Prop :=
  (∀ t th r, s.threads[t]? = some th → th.result = some r → (t, r) ∈ s.finished) ∧
  (∀ t r, (t, r) ∈ s.finished → ∃ th, s.threads[t]? = some th ∧ th.result = some r)

theorem tstep_resultInv (s s' : TState) (o : TOp) (ob : TObs) (h : tstep s o = some (s', ob))
    (hi : ResultInv s) : ResultInv s' := by
  obtain ⟨h1, h2⟩ := hi
  unfold tstep at h
  cases o with
  | assign i v => simp only [tstepWith, Option.some.injEq, Prod.mk.injEq] at h; rw [← h.1]; exact ⟨h1, h2⟩
  | setShared i v => simp only [tstepWith, Option.some.injEq, Prod.mk.injEq] at h; rw [← h.1]; exact ⟨h1, h2⟩
  | spawn args body =>
    simp only [tstepWith, ↓reduceIte, Option.some.injEq, Prod.mk.injEq] at h
    rw [← h.1]
    constructor
    · intro t th r ht hr
      by_cases hlt : t < s.threads.length
      · simp only [List.getElem?_append_left hlt] at ht
        exact h1 t th r ht hr
      · have hge : s.threads.length ≤ t := Nat.le_of_not_lt hlt
        simp only [List.getElem?_append_right hge] at ht
        cases hd : t - s.threads.length with
        | zero => rw [hd] at ht; simp only [List.getElem?_cons_zero, Option.some.injEq] at ht; subst ht; cases hr
        | succ n => rw [hd] at ht; simp at ht
    · intro t r hm
      obtain ⟨th, ht, hr⟩ := h2 t r hm
      have hlt : t < s.threads.length := (List.getElem?_eq_some_iff.1 ht).1
      exact ⟨th, by simp only [List.getElem?_append_left hlt]; exact ht, hr⟩
  | poke sl i v =>
    simp only [tstepWith] at h
    split at h
    · simp only [Option.some.injEq, Prod.mk.injEq] at h; rw [← h.1]; exact ⟨h1, h2⟩
    · cases h
  | runT u =>
    simp only [tstepWith] at h
    split at h
    · rename_i thu hu
      split at h
      · rename_i args flag hres hheap
        simp only [Option.some.injEq, Prod.mk.injEq] at h
        rw [← h.1]
        have hlt : u < s.threads.length := (List.getElem?_eq_some_iff.1 hu).1
        constructor
        · intro t th r ht hr
          by_cases hut : u = t
          · subst hut
            simp only [List.getElem?_set_self hlt, Option.some.injEq] at ht
            subst ht
            simp only [Option.some.injEq] at hr
            subst hr
            simp
          · simp only [List.getElem?_set_ne hut] at ht
            exact List.mem_append_left _ (h1 t th r ht hr)
        · intro t r hm
          simp only [List.mem_append, List.mem_singleton, Prod.mk.injEq] at hm
          cases hm with
          | inl hm =>
            obtain ⟨th, ht, hr⟩ := h2 t r hm
            by_cases hut : u = t
            · subst hut; rw [hu] at ht; cases ht; rw [hres] at hr; cases hr
            · exact ⟨th, by simp only [List.getElem?_set_ne hut]; exact ht, hr⟩
          | inr hm =>
            obtain ⟨ht, hr⟩ := hm
            subst ht; subst hr
            exact ⟨_, List.getElem?_set_self hlt, rfl⟩
      · cases h
    · cases h
  | wait u =>
    simp only [tstepWith] at h
    split at h
    · split at h
      · simp only [Option.some.injEq, Prod.mk.injEq] at h; rw [← h.1]; exact ⟨h1, h2⟩
      · cases h
    · cases h

theorem trun_resultInv (ops : List TOp) (a b : TState) (h : trun a ops = some b) (hi : ResultInv a) :
    ResultInv b := by
  induction ops generalizing a with
  | nil => simp only [trun, Option.some.injEq] at h; subst h; exact hi
  | cons o os ih =>
    simp only [trun] at h
    split at h
    · rename_i a' ob hst; exact ih a' h (tstep_resultInv a a' o ob hst hi)
    · cases h

/-! ### Thread trees -/

/-- what one enabled step of the thread tree does, both variants -/
theorem nstepWith_not_chan_chans (b : Bool) (s s1 : Net) (o : NOp) (ob : NObs)
    (h : nstepWith b s o = some (s1, ob)) (hn : ∀ k op, o ≠ .chan k op) : s1.chans = s.chans := by
  cases o with
  | chan k op => exact absurd rfl (hn k op)
  | spawn p =>
    simp only [nstepWith] at h
    split at h
    · split at h <;> (simp only [Option.some.injEq, Prod.mk.injEq] at h; rw [← h.1])
    · cases h
  | ret t =>
    simp only [nstepWith] at h
    split at h
    · split at h <;> (simp only [Option.some.injEq, Prod.mk.injEq] at h; rw [← h.1])
    · cases h
  | wait w t =>
    simp only [nstepWith] at h
    split at h
    · simp only [Option.some.injEq, Prod.mk.injEq] at h; rw [← h.1]
    · cases h
  | abort t =>
    simp only [nstepWith] at h
    split at h
    · simp only [Option.some.injEq, Prod.mk.injEq] at h; rw [← h.1]
    · cases h
  | cancel =>
    simp only [nstepWith, Option.some.injEq, Prod.mk.injEq] at h; rw [← h.1]

theorem nstepWith_chan_inv (b : Bool) (s s1 : Net) (k : Nat) (op : Op) (ob : NObs)
    (h : nstepWith b s (.chan k op) = some (s1, ob)) :
    ∃ c c' ob', s.chans[k]? = some c ∧ step c op = some (c', ob') ∧ ob = .chan ob' ∧
      s1 = { s with chans := s.chans.set k c' } ∧ (actors op).all (live s) = true := by
  simp only [nstepWith] at h
  split at h
  · rename_i hl
    split at h
    · rename_i c hc
      split at h
      · rename_i c' ob' hst
        simp only [Option.some.injEq, Prod.mk.injEq] at h
        exact ⟨c, c', ob', hc, hst, h.2.symm, h.1.symm, hl⟩
      · cases h
    · cases h
  · cases h

theorem run_cons (c : Chan) (o : Op) (os : List Op) :
    run c (o :: os) = match step c o with
      | some (c', _) => run c' os
      | none => none := rfl

/-- projection: along any schedule of the thread tree each channel makes exactly the steps of
    the channel machine on the operations addressed to it -/
theorem nrunWith_chan (b : Bool) (ops : List NOp) (s s' : Net) (h : nrunWith b s ops = some s')
    (k : Nat) (c0 : Chan) (hk : s.chans[k]? = some c0) :
    ∃ c, s'.chans[k]? = some c ∧ run c0 (chanOpsOf k ops) = some c := by
  induction ops generalizing s c0 with
  | nil =>
    simp only [nrunWith, Option.some.injEq] at h
    subst h
    exact ⟨c0, hk, rfl⟩
  | cons o os ih =>
    simp only [nrunWith] at h
    split at h
    · rename_i s1 ob hst
      cases o with
      | chan k' op =>
        obtain ⟨c, c', ob', hc, hstep, _, hs1, _⟩ := nstepWith_chan_inv b s s1 k' op ob hst
        by_cases hkk : k' = k
        · subst hkk
          rw [hk] at hc
          cases hc
          have hlt : k' < s.chans.length := (List.getElem?_eq_some_iff.1 hk).1
          have hk1 : s1.chans[k']? = some c' := by
            rw [hs1]
            simp [List.getElem?_set_self hlt]
          obtain ⟨cf, hcf, hr⟩ := ih s1 h c' hk1
          refine ⟨cf, hcf, ?_⟩
          simp only [chanOpsOf, ↓reduceIte, run_cons, hstep]
          exact hr
        · have hk1 : s1.chans[k]? = some c0 := by
            rw [hs1]
            simp [List.getElem?_set_ne hkk, hk]
          obtain ⟨cf, hcf, hr⟩ := ih s1 h c0 hk1
          refine ⟨cf, hcf, ?_⟩
          simp only [chanOpsOf, hkk, ↓reduceIte]
          exact hr
      | spawn p =>
        have hc := nstepWith_not_chan_chans b s s1 _ ob hst (by intro k op; simp)
        obtain ⟨cf, hcf, hr⟩ := ih s1 h c0 (by rw [hc]; exact hk)
        exact ⟨cf, hcf, by simpa only [chanOpsOf] using hr⟩
      | ret t =>
        have hc := nstepWith_not_chan_chans b s s1 _ ob hst (by intro k op; simp)
        obtain ⟨cf, hcf, hr⟩ := ih s1 h c0 (by rw [hc]; exact hk)
        exact ⟨cf, hcf, by simpa only [chanOpsOf] using hr⟩
      | wait w t =>
        have hc := nstepWith_not_chan_chans b s s1 _ ob hst (by intro k op; simp)
        obtain ⟨cf, hcf, hr⟩ := ih s1 h c0 (by rw [hc]; exact hk)
        exact ⟨cf, hcf, by simpa only [chanOpsOf] using hr⟩
      | abort t =>
        have hc := nstepWith_not_chan_chans b s s1 _ ob hst (by intro k op; simp)
        obtain ⟨cf, hcf, hr⟩ := ih s1 h c0 (by rw [hc]; exact hk)
        exact ⟨cf, hcf, by simpa only [chanOpsOf] using hr⟩
      | cancel =>
        have hc := nstepWith_not_chan_chans b s s1 _ ob hst (by intro k op; simp)
        obtain ⟨cf, hcf, hr⟩ := ih s1 h c0 (by rw [hc]; exact hk)
        exact ⟨cf, hcf, by simpa only [chanOpsOf] using hr⟩
    · cases h

/-- what an enabled return does in the code as it is -/
theorem nstep_ret_inv (s s1 : Net) (p : Nat) (ob : NObs) (h : nstep s (.ret p) = some (s1, ob)) :
    p ≠ 0 ∧ live s p = true ∧ s1 = { s with returned := s.returned ++ [p] } := by
  simp only [nstep, nstepWith] at h
  split at h
  · rename_i hg
    simp only [Bool.false_eq_true, ↓reduceIte, Option.some.injEq, Prod.mk.injEq] at h
    simp only [Bool.and_eq_true, bne_iff_ne, ne_eq] at hg
    exact ⟨hg.1, hg.2, h.1.symm⟩
  · cases h

theorem live_ret_other (s : Net) (p t : Nat) (h : t ≠ p) :
    live { s with returned := s.returned ++ [p] } t = live s t := by
  simp [live, isReturned, h]

theorem all_live_ret_other (s : Net) (p : Nat) (l : List Nat) (h : l.contains p = false) :
    l.all (live { s with returned := s.returned ++ [p] }) = l.all (live s) := by
  induction l with
  | nil => rfl
  | cons a as ih =>
    simp only [List.contains_cons, Bool.or_eq_false_iff, beq_eq_false_iff_ne, ne_eq] at h
    simp only [List.all_cons, ih h.2, live_ret_other s p a (fun he => h.1 he.symm)]

theorem isReturned_ret_other (s : Net) (p t : Nat) (h : t ≠ p) :
    isReturned { s with returned := s.returned ++ [p] } t = isReturned s t := by
  simp [isReturned, h]

/-- the invariant of the code as it is: every thread's context lies in the run's scope only,
    and nothing but the run's scope is ever cancelled -/
def CtxInv (s : Net) : Prop := (∀ c ∈ s.ctx, c = [0]) ∧ (∀ x ∈ s.cancelled, x = 0)

theorem ctxOf_of_inv (s : Net) (hi : CtxInv s) (t : Nat) (ht : t < s.ctx.length) : ctxOf s t = [0] := by
  unfold ctxOf
  rw [List.getD_eq_getElem?_getD, List.getElem?_eq_getElem ht]
  exact hi.1 _ (List.getElem_mem ht)

theorem nstep_ctxInv (s s1 : Net) (o : NOp) (ob : NObs) (h : nstep s o = some (s1, ob)) (hi : CtxInv s) :
    CtxInv s1 := by
  cases o with
  | chan k op =>
    obtain ⟨_, _, _, _, _, _, hs1, _⟩ := nstepWith_chan_inv false s s1 k op ob h
    rw [hs1]; exact hi
  | spawn p =>
    simp only [nstep, nstepWith] at h
    split at h
    · rename_i hl
      simp only [Bool.false_eq_true, ↓reduceIte, Option.some.injEq, Prod.mk.injEq] at h
      rw [← h.1]
      simp only [live, Bool.and_eq_true, decide_eq_true_eq] at hl
      refine ⟨?_, hi.2⟩
      intro c hc
      simp only [List.mem_append, List.mem_singleton] at hc
      cases hc with
      | inl hc => exact hi.1 c hc
      | inr hc => rw [hc]; exact ctxOf_of_inv s hi p hl.1
    · cases h
  | ret t =>
    obtain ⟨_, _, hs1⟩ := nstep_ret_inv s s1 t ob h
    rw [hs1]; exact hi
  | wait w t =>
    simp only [nstep, nstepWith] at h
    split at h
    · simp only [Option.some.injEq, Prod.mk.injEq] at h; rw [← h.1]; exact hi
    · cases h
  | abort t =>
    simp only [nstep, nstepWith] at h
    split at h
    · simp only [Option.some.injEq, Prod.mk.injEq] at h; rw [← h.1]; exact hi
    · cases h
  | cancel =>
    simp only [nstep, nstepWith, Option.some.injEq, Prod.mk.injEq] at h
    rw [← h.1]
    refine ⟨hi.1, ?_⟩
    intro x hx
    simp only [List.mem_append, List.mem_singleton] at hx
    cases hx with
    | inl hx => exact hi.2 x hx
    | inr hx => exact hx

theorem nrun_ctxInv (ops : List NOp) (s s' : Net) (h : nrun s ops = some s') (hi : CtxInv s) : CtxInv s' := by
  induction ops generalizing s with
  | nil => simp only [nrun, nrunWith, Option.some.injEq] at h; subst h; exact hi
  | cons o os ih =>
    simp only [nrun, nrunWith] at h
    split at h
    · rename_i s1 ob hst; exact ih s1 h (nstep_ctxInv s s1 o ob hst hi)
    · cases h

theorem ninit_ctxInv (caps : List Nat) : CtxInv (ninit caps) := by
  simp [CtxInv, ninit]

/-- in the code as it is only the host's `cancel` ever cancels anything -/
theorem nstep_cancelled (s s1 : Net) (o : NOp) (ob : NObs) (h : nstep s o = some (s1, ob)) (hn : o ≠ .cancel) :
    s1.cancelled = s.cancelled := by
  cases o with
  | chan k op =>
    obtain ⟨_, _, _, _, _, _, hs1, _⟩ := nstepWith_chan_inv false s s1 k op ob h
    rw [hs1]
  | spawn p =>
    simp only [nstep, nstepWith] at h
    split at h
    · simp only [Bool.false_eq_true, ↓reduceIte, Option.some.injEq, Prod.mk.injEq] at h; rw [← h.1]
    · cases h
  | ret t =>
    obtain ⟨_, _, hs1⟩ := nstep_ret_inv s s1 t ob h
    rw [hs1]
  | wait w t =>
    simp only [nstep, nstepWith] at h
    split at h
    · simp only [Option.some.injEq, Prod.mk.injEq] at h; rw [← h.1]
    · cases h
  | abort t =>
    simp only [nstep, nstepWith] at h
    split at h
    · simp only [Option.some.injEq, Prod.mk.injEq] at h; rw [← h.1]
    · cases h
  | cancel => exact absurd rfl hn

theorem nrun_cancelled (ops : List NOp) (s s' : Net) (h : nrun s ops = some s') (hn : NOp.cancel ∉ ops) :
    s'.cancelled = s.cancelled := by
  induction ops generalizing s with
  | nil => simp only [nrun, nrunWith, Option.some.injEq] at h; subst h; rfl
  | cons o os ih =>
    simp only [nrun, nrunWith] at h
    simp only [List.mem_cons, not_or] at hn
    split at h
    · rename_i s1 ob hst
      rw [ih s1 h hn.2]
      exact nstep_cancelled s s1 o ob hst (fun he => hn.1 he.symm)
    · cases h

end Risor.C10
