import RisorModel.C10.ModelCap
import RisorModel.C10.Lemmas
/-!
C10, capacity theorems: for EVERY capacity (0 included) and EVERY schedule of the channel
machine.  Stated over `step`/`run`/`runObs` of `Model.lean`/`ModelCap.lean`; the only state
fields mentioned are `cap`, `buf`, `closed` (what the code has) — the history fields are not
used, the values accepted and handed out are read off the observations.
-/
namespace Risor.C10

/-- what one enabled step does to capacity, queue length, queue contents and closedness
    (helper: one case analysis of `step` serves all capacity theorems) -/
theorem step_cap_facts (c c' : Chan) (o : Op) (ob : Obs) (h : step c o = some (c', ob)) :
    c'.cap = c.cap ∧ (c.buf.length ≤ c.cap → c'.buf.length ≤ c.cap) ∧
    c.buf ++ acc1 o ob = rec1 ob ++ c'.buf ∧
    (c.closed = true → c'.closed = true ∧ acc1 o ob = []) := by
  cases o with
  | send t v =>
    simp only [step] at h
    split at h
    · cases h
    · split at h
      · rename_i hc
        cases h
        exact ⟨rfl, fun hl => hl, by simp [acc1, rec1], fun hc => ⟨hc, by simp [acc1]⟩⟩
      · split at h
        · rename_i hnc hlt
          cases h
          refine ⟨rfl, ?_, ?_, ?_⟩
          · intro _; simp only [List.length_append, List.length_singleton]; omega
          · simp [acc1, rec1]
          · intro hc; exact absurd hc hnc
        · cases h
  | recv t =>
    simp only [step] at h
    split at h
    · cases h
    · split at h
      · rename_i v rest hb
        cases h
        refine ⟨rfl, ?_, ?_, ?_⟩
        · intro hl; simp only [recvOf]; rw [hb] at hl; simp only [List.length_cons] at hl; omega
        · simp [acc1, rec1, recvOf, hb]
        · intro hc; exact ⟨hc, by simp [acc1]⟩
      · split at h
        · cases h
          exact ⟨rfl, fun hl => hl, by simp [acc1, rec1], fun hc => ⟨hc, by simp [acc1]⟩⟩
        · cases h
  | close t =>
    simp only [step] at h
    split at h
    · cases h
    · split at h
      · cases h
        exact ⟨rfl, fun hl => hl, by simp [acc1, rec1], fun hc => ⟨hc, by simp [acc1]⟩⟩
      · cases h
        exact ⟨rfl, fun hl => hl, by simp [acc1, rec1], fun _ => ⟨rfl, by simp [acc1]⟩⟩
  | next t =>
    simp only [step] at h
    split at h
    · cases h
    · split at h
      · rename_i v rest hb
        cases h
        refine ⟨rfl, ?_, ?_, ?_⟩
        · intro hl; simp only [nextOf]; rw [hb] at hl; simp only [List.length_cons] at hl; omega
        · simp [acc1, rec1, nextOf, hb]
        · intro hc; exact ⟨hc, by simp [acc1]⟩
      · split at h
        · cases h
          exact ⟨rfl, fun hl => hl, by simp [acc1, rec1], fun hc => ⟨hc, by simp [acc1]⟩⟩
        · cases h
  | entry t =>
    simp only [step] at h
    split at h
    · split at h <;> cases h <;>
        exact ⟨rfl, fun hl => hl, by simp [acc1, rec1], fun hc => ⟨hc, by simp [acc1]⟩⟩
    · cases h
  | peek t =>
    simp only [step] at h
    split at h
    · cases h
    · split at h <;> cases h <;>
        exact ⟨rfl, fun hl => hl, by simp [acc1, rec1], fun hc => ⟨hc, by simp [acc1]⟩⟩
  | handoff s r v iter =>
    simp only [step] at h
    split at h
    · cases h
    · rename_i hc
      simp only [Bool.or_eq_true, not_or, Bool.not_eq_true, Bool.not_eq_eq_eq_not, Bool.not_true] at hc
      have hb : c.buf = [] := by
        have := hc.2
        cases hcb : c.buf with
        | nil => rfl
        | cons _ _ => simp [hcb] at this
      have hcl : c.closed = false := hc.1.1.2
      cases iter with
      | true =>
        simp only [↓reduceIte] at h; cases h
        refine ⟨rfl, ?_, ?_, ?_⟩
        · intro _; simp [nextOf]
        · simp [acc1, rec1, nextOf, hb]
        · intro hc'; rw [hcl] at hc'; cases hc'
      | false =>
        simp only [Bool.false_eq_true, ↓reduceIte] at h; cases h
        refine ⟨rfl, ?_, ?_, ?_⟩
        · intro _; simp [recvOf]
        · simp [acc1, rec1, recvOf, hb]
        · intro hc'; rw [hcl] at hc'; cases hc'

/-- `runObs` is `run` with the observations kept -/
theorem runObs_run (ops : List Op) (c c' : Chan) (obs : List Obs) (h : runObs c ops = some (c', obs)) :
    run c ops = some c' := by
  induction ops generalizing c obs with
  | nil => simp only [runObs, Option.some.injEq, Prod.mk.injEq] at h; simp [run, h.1]
  | cons o os ih =>
    simp only [runObs] at h
    split at h
    · rename_i c1 ob hs
      split at h
      · rename_i cf obs' hr
        simp only [Option.some.injEq, Prod.mk.injEq] at h
        obtain ⟨h1, h2⟩ := h; subst h1; subst h2
        simp only [run, hs]
        exact ih c1 obs' hr
      · cases h
    · cases h

/-- every executable schedule has its observations -/
theorem run_runObs (ops : List Op) (c c' : Chan) (h : run c ops = some c') :
    ∃ obs, runObs c ops = some (c', obs) := by
  induction ops generalizing c with
  | nil => simp only [run, Option.some.injEq] at h; exact ⟨[], by simp [runObs, h]⟩
  | cons o os ih =>
    simp only [run] at h
    split at h
    · rename_i c1 ob hs
      obtain ⟨obs, ho⟩ := ih c1 h
      exact ⟨ob :: obs, by simp [runObs, hs, ho]⟩
    · cases h

/-- the capacity never changes and a queue within its capacity stays within it, along any schedule -/
theorem runObs_cap (ops : List Op) (c c' : Chan) (obs : List Obs) (h : runObs c ops = some (c', obs))
    (hl : c.buf.length ≤ c.cap) : c'.cap = c.cap ∧ c'.buf.length ≤ c.cap := by
  induction ops generalizing c obs with
  | nil => simp only [runObs, Option.some.injEq, Prod.mk.injEq] at h; rw [← h.1]; exact ⟨rfl, hl⟩
  | cons o os ih =>
    simp only [runObs] at h
    split at h
    · rename_i c1 ob hs
      split at h
      · rename_i cf obs' hr
        simp only [Option.some.injEq, Prod.mk.injEq] at h
        obtain ⟨h1, h2⟩ := h; subst h1; subst h2
        have hf := step_cap_facts c c1 o ob hs
        have := ih c1 obs' hr (by rw [hf.1]; exact hf.2.1 hl)
        rw [← hf.1]; exact this
      · cases h
    · cases h

/-- **buffer_never_exceeds_cap.**  For every capacity `cap` (0 included) and every schedule
    `ops` of sends, receives, closes, iteration steps and hand-offs by any threads, in the
    state reached (hence in EVERY reachable state: every prefix of a schedule is a schedule)
    the channel still has the capacity it was made with and its queue holds at most `cap`
    values. -/
theorem buffer_never_exceeds_cap (cap : Nat) (ops : List Op) (c : Chan) (h : run (init cap) ops = some c) :
    c.cap = cap ∧ c.buf.length ≤ cap := by
  obtain ⟨obs, ho⟩ := run_runObs ops _ _ h
  exact runObs_cap ops (init cap) c obs ho (by simp [init])

/-- in ANY state a send by a thread that is not inside an iteration step is refused
    (blocks) exactly when the channel is open and has no room -/
theorem send_blocks_iff_no_room (c : Chan) (t : Nat) (v : Msg) (hp : isPend c t = false) :
    step c (.send t v) = none ↔ (c.closed = false ∧ c.cap ≤ c.buf.length) := by
  simp only [step, hp, Bool.false_eq_true, ↓reduceIte]
  cases hc : c.closed with
  | true => simp
  | false =>
    simp only [Bool.false_eq_true, ↓reduceIte, true_and]
    by_cases hlt : c.buf.length < c.cap
    · simp [hlt]
    · simp [hlt]; omega

/-- **send_blocks_iff_full.**  For every capacity and every schedule: in the state reached, a
    send on the OPEN channel by a thread `t` (not between its `Next` and `Entry`) with no
    receiver waiting for it — the `send` step; a waiting receiver is the separate `handoff`
    step — blocks iff the queue holds exactly `cap` values, i.e. iff `sendBlocks`.  With
    `cap = 0` that is always (`unbuffered_send_needs_receiver`). -/
theorem send_blocks_iff_full (cap : Nat) (ops : List Op) (c : Chan) (h : run (init cap) ops = some c)
    (t : Nat) (v : Msg) (hp : isPend c t = false) (hc : c.closed = false) :
    (step c (.send t v) = none ↔ c.buf.length = cap) ∧ (step c (.send t v) = none ↔ sendBlocks c = true) := by
  have hi := buffer_never_exceeds_cap cap ops c h
  have hb := send_blocks_iff_no_room c t v hp
  constructor
  · rw [hb]; constructor
    · intro ⟨_, hge⟩; omega
    · intro he; exact ⟨hc, by omega⟩
  · rw [hb]; simp only [sendBlocks, isFull, hc, Bool.not_false, Bool.true_and, beq_iff_eq, true_and]
    omega

/-- a send that is not refused on an open channel is accepted, and the queue grows by exactly
    that value at its tail -/
theorem send_with_room_enqueues (c : Chan) (t : Nat) (v : Msg) (hp : isPend c t = false)
    (hc : c.closed = false) (hr : c.buf.length < c.cap) :
    ∃ c', step c (.send t v) = some (c', .sendOk) ∧ c'.buf = c.buf ++ [v] ∧ c'.closed = false := by
  simp [step, hp, hc, hr]

/-- with capacity 0 a `send` step is never enabled while the channel is open, in any
    reachable state: a value passes an unbuffered channel only by a hand-off to a receiver
    that is waiting -/
theorem unbuffered_send_needs_receiver (ops : List Op) (c : Chan) (h : run (init 0) ops = some c)
    (t : Nat) (v : Msg) (hp : isPend c t = false) (hc : c.closed = false) :
    step c (.send t v) = none ∧ c.buf = [] := by
  have hi := buffer_never_exceeds_cap 0 ops c h
  have hl : c.buf.length = 0 := by omega
  exact ⟨((send_blocks_iff_full 0 ops c h t v hp hc).1).2 hl, List.length_eq_zero_iff.mp hl⟩

/-- the queue bookkeeping of any schedule from any state: what was queued followed by what
    was accepted = what was dequeued followed by what is queued -/
theorem runObs_fifo (ops : List Op) (c c' : Chan) (obs : List Obs) (h : runObs c ops = some (c', obs)) :
    c.buf ++ accepted ops obs = received obs ++ c'.buf := by
  induction ops generalizing c obs with
  | nil =>
    simp only [runObs, Option.some.injEq, Prod.mk.injEq] at h
    rw [← h.1, ← h.2]; simp [accepted, received]
  | cons o os ih =>
    simp only [runObs] at h
    split at h
    · rename_i c1 ob hs
      split at h
      · rename_i cf obs' hr
        simp only [Option.some.injEq, Prod.mk.injEq] at h
        obtain ⟨h1, h2⟩ := h; subst h1; subst h2
        have hf := (step_cap_facts c c1 o ob hs).2.2.1
        have hi := ih c1 obs' hr
        simp only [accepted, received]
        rw [← List.append_assoc, hf, List.append_assoc, hi, List.append_assoc]
      · cases h
    · cases h

/-- **fifo_any_capacity.**  For every capacity — buffered or 0 — and every schedule (any
    number of senders and receivers, explicit receives, iteration steps, hand-offs, closes, in
    any interleaving): the values handed out by the channel, in the order the dequeues
    happened, followed by what is still queued, are exactly the values the channel accepted,
    in the order it accepted them.  Delivery order = send order; nothing is lost, duplicated or
    overtaken inside the channel, whatever its capacity.  (Both sides are read off the
    observations of the run, not off history fields.) -/
theorem fifo_any_capacity (cap : Nat) (ops : List Op) (c : Chan) (obs : List Obs)
    (h : runObs (init cap) ops = some (c, obs)) :
    received obs ++ c.buf = accepted ops obs := by
  have := runObs_fifo ops (init cap) c obs h
  simpa [init] using this.symm

/-- the observation-level reading agrees with the history fields the older theorems use:
    `sent` is what was accepted and `deq` what was received -/
theorem fifo_any_capacity_prefix (cap : Nat) (ops : List Op) (c : Chan) (obs : List Obs)
    (h : runObs (init cap) ops = some (c, obs)) :
    received obs <+: accepted ops obs ∧ (received obs).length + c.buf.length = (accepted ops obs).length ∧
    (received obs).length + cap ≥ (accepted ops obs).length := by
  have hf := fifo_any_capacity cap ops c obs h
  have hc := buffer_never_exceeds_cap cap ops c (runObs_run ops _ _ _ h)
  refine ⟨⟨c.buf, hf⟩, ?_, ?_⟩
  · rw [← hf]; simp
  · rw [← hf]; simp only [List.length_append]; omega

/-- once closed, a channel stays closed and accepts nothing, along any schedule -/
theorem runObs_closed (ops : List Op) (c c' : Chan) (obs : List Obs) (h : runObs c ops = some (c', obs))
    (hc : c.closed = true) : c'.closed = true ∧ accepted ops obs = [] := by
  induction ops generalizing c obs with
  | nil =>
    simp only [runObs, Option.some.injEq, Prod.mk.injEq] at h
    rw [← h.1, ← h.2]; exact ⟨hc, rfl⟩
  | cons o os ih =>
    simp only [runObs] at h
    split at h
    · rename_i c1 ob hs
      split at h
      · rename_i cf obs' hr
        simp only [Option.some.injEq, Prod.mk.injEq] at h
        obtain ⟨h1, h2⟩ := h; subst h1; subst h2
        have hf := (step_cap_facts c c1 o ob hs).2.2.2 hc
        have hi := ih c1 obs' hr hf.1
        exact ⟨hi.1, by simp [accepted, hf.2, hi.2]⟩
      · cases h
    · cases h

/-- **close_with_buffered_values_drains_in_order.**  For every capacity, every schedule `ops`
    leading to an open state `c` with any values buffered, every thread `t` closing the
    channel there and EVERY continuation `rest` (receives and iteration steps by any threads,
    further sends — all refused with an error —, further closes, in any interleaving): the
    values handed out after the close, in the order they are handed out, followed by what is
    still queued, are exactly the values that were buffered at the close, in buffer order.
    The close drops nothing, nothing enters afterwards, the channel stays closed. -/
theorem close_with_buffered_values_drains_in_order (cap : Nat) (ops : List Op) (c : Chan)
    (_h : run (init cap) ops = some c) (t : Nat) (rest : List Op) (c' : Chan) (obs : List Obs)
    (hr : runObs c (.close t :: rest) = some (c', obs)) (hc : c.closed = false) :
    received obs ++ c'.buf = c.buf ∧ c'.closed = true ∧ accepted (.close t :: rest) obs = [] := by
  have hf := runObs_fifo _ c c' obs hr
  -- the first step is the close
  simp only [runObs] at hr
  split at hr
  · rename_i c1 ob hs
    split at hr
    · rename_i cf obs' hro
      simp only [Option.some.injEq, Prod.mk.injEq] at hr
      have h1 : c1.closed = true ∧ acc1 (.close t) ob = [] := by
        simp only [step] at hs
        split at hs
        · cases hs
        · simp only [hc, Bool.false_eq_true, ↓reduceIte, Option.some.injEq, Prod.mk.injEq] at hs
          rw [← hs.1]; exact ⟨rfl, by simp [acc1]⟩
      have h2 := runObs_closed rest c1 cf obs' hro h1.1
      have ha : accepted (.close t :: rest) obs = [] := by
        rw [← hr.2]; simp [accepted, h1.2, h2.2]
      rw [ha, List.append_nil] at hf
      exact ⟨hf.symm, by rw [← hr.1]; exact h2.1, ha⟩
    · cases hr
  · cases hr

/-- the constructive half: in ANY closed state with values `c.buf` queued, `c.buf.length`
    receives by any threads `ts` (none of them between its `Next` and `Entry`) are all
    enabled and return exactly the queued values in queue order; the channel is then closed
    and drained, and the next receive by such a thread returns nil -/
theorem closed_drains_by_receives (c : Chan) (ts : List Nat) (hc : c.closed = true)
    (hl : ts.length = c.buf.length) (hp : ∀ t ∈ ts, isPend c t = false) :
    ∃ c', runObs c (ts.map .recv) = some (c', c.buf.map .val) ∧ c'.buf = [] ∧ c'.closed = true ∧
      (∀ t, isPend c t = false → step c' (.recv t) = some (c', .nil)) := by
  induction ts generalizing c with
  | nil =>
    have hb : c.buf = [] := List.length_eq_zero_iff.mp (by simpa using hl.symm)
    refine ⟨c, by simp [runObs, hb], hb, hc, ?_⟩
    intro t ht
    simp [step, ht, hb, hc]
  | cons t ts ih =>
    cases hb : c.buf with
    | nil => rw [hb] at hl; simp at hl
    | cons v rest =>
      have hpt : isPend c t = false := hp t (by simp)
      have hs : step c (.recv t) = some (recvOf c t v rest, .val v) := by
        simp [step, hpt, hb]
      have hpe : ∀ t', isPend (recvOf c t v rest) t' = isPend c t' := by
        intro t'; simp [isPend, recvOf]
      obtain ⟨c', hr, hb', hc', hn⟩ := ih (recvOf c t v rest) (by simp [recvOf, hc])
        (by rw [hb] at hl; simp only [List.length_cons] at hl; simp [recvOf]; omega)
        (by intro t' ht'; rw [hpe]; exact hp t' (by simp [ht']))
      refine ⟨c', ?_, hb', hc', ?_⟩
      · simp only [List.map_cons, runObs, hs]
        have : (recvOf c t v rest).buf = rest := by simp [recvOf]
        rw [this] at hr
        simp [hr]
      · intro t' ht'; exact hn t' (by rw [hpe]; exact ht')

/-! ### The hypotheses are satisfiable -/

/-- a capacity-2 channel: two sends fill it, the third blocks; a receive makes room -/
example : run (init 2) [.send 0 (0, 0), .send 1 (1, 0)] =
    some { cap := 2, buf := [(0, 0), (1, 0)], sent := [(0, 0), (1, 0)] } := by decide
example : step { cap := 2, buf := [(0, 0), (1, 0)], sent := [(0, 0), (1, 0)] } (.send 0 (0, 1)) = none := by decide
example : sendBlocks { cap := 2, buf := [(0, 0), (1, 0)] } = true := by decide
/-- capacity 0: a send alone blocks, a hand-off delivers -/
example : step (init 0) (.send 0 (0, 0)) = none := by decide
example : (runObs (init 0) [.handoff 0 1 (0, 0) false, .handoff 0 1 (0, 1) false]).map (·.2) =
    some [.val (0, 0), .val (0, 1)] := by decide
/-- close with two values buffered: both come out, in order, then nil -/
example : (runObs (init 3) [.send 0 (0, 0), .send 0 (0, 1), .close 0, .recv 1, .send 0 (0, 2), .recv 2, .recv 1]).map (·.2) =
    some [.sendOk, .sendOk, .closeOk, .val (0, 0), .sendErr, .val (0, 1), .nil] := by decide
example : received [.sendOk, .sendOk, .closeOk, .val (0, 0), .sendErr, .val (0, 1), .nil] = [(0, 0), (0, 1)] := by decide

end Risor.C10
