import RisorModel.C10.Model
/-!
C10, round 6: HOW MANY ARGUMENTS A SPAWNED CALL RECEIVES.

The thread machine of `Model.lean` says which *values* a spawned call reads.  This file adds
what the called function does with them: a function has `req` required parameters followed by
parameters with default values `defs`; a call with `n` arguments binds the first `n`
parameters to the arguments and the remaining ones to their defaults, or raises the arity
error when `n < req` or `n > req + defs.length` (`vm.callFunction` / `object.Function`).
A *direct* call binds the values of the argument expressions; a *spawned* call
(`go f(e…)`, `spawn(f, e…)`, `f.spawn(e…)`, `object.Spawn`) binds what its thread's private
argument slice holds when it runs.  The number of arguments is unbounded (a `List`).

`Impl` = `spawnedParams` (the thread machine of the code as it is: `object.Spawn` copies the
whole slice), `Spec` = `directParams` (the same statement as a direct call at the spawn site).
The contrast `spawnedParamsInline k` stores the private copy in an array of `k` slots
(`copy` stops silently at `k`).
-/
namespace Risor.C10

/-- a function's parameter list: `req` required parameters, then one per default value -/
structure Fn where
  req : Nat
  defs : List Int
  deriving Repr, DecidableEq

/-- parameter values of a call of `f` with the argument values `vals`;
    `none` = the arity error is raised instead of running the body -/
def bindParams (f : Fn) (vals : List Int) : Option (List Int) :=
  if vals.length < f.req then none
  else if f.req + f.defs.length < vals.length then none
  else some (vals ++ f.defs.drop (vals.length - f.req))

/-- **Spec**: the statement as a direct call — the parameters are bound to the values the
    argument expressions have at the call site (left to right, by the caller) -/
def directParams (f : Fn) (vars : List Int) (args : List Arg) : Option (List Int) :=
  bindParams f (evalArgs vars args).1

/-- **Impl**: what thread `t`'s call binds when it runs in state `s` (`none` also when there is
    no such thread) -/
def spawnedParams (f : Fn) (s : TState) (t : Nat) : Option (Option (List Int)) :=
  (threadArgs s t).map (bindParams f)

/-- CONTRAST: the private copy lives in `k` inline slots; `copy` stops at `k` -/
def spawnedParamsInline (k : Nat) (f : Fn) (s : TState) (t : Nat) : Option (Option (List Int)) :=
  (threadArgs s t).map (fun vals => bindParams f (vals.take k))

/-- a sequence of call statements of one spawner, for the oracle: each is a call of a function
    with argument expressions, direct or spawned; the spawner's variables move on through the
    side effects of the argument expressions and through assignments -/
inductive WOp where
  | assign (i : Nat) (v : Int)
  | call (spawned : Bool) (f : Fn) (args : List Arg)
  deriving Repr, DecidableEq

/-- observations of a `WOp` sequence run on the thread machine: every spawned call is a `spawn`
    step at the statement and a `runT` step at the END of the sequence (after all later
    assignments); a direct call is evaluated in place.  Result: per call statement the bound
    parameters (`none` = arity error), the final variables. -/
def wideRun (s : TState) : List WOp → List (Option (List Int)) × TState
  | [] => ([], s)
  | .assign i v :: os =>
    match tstep s (.assign i v) with
    | some (s', _) => wideRun s' os
    | none => wideRun s os
  | .call false f args :: os =>
    let r := directParams f s.vars args
    let s' := { s with vars := (evalArgs s.vars args).2 }
    ((r :: (wideRun s' os).1), (wideRun s' os).2)
  | .call true f args :: os =>
    match tstep s (.spawn args .echo) with
    | some (s', _) =>
      let t := s.threads.length
      let fin := (wideRun s' os).2
      -- the call runs after everything else the spawner does
      (((spawnedParams f fin t).getD none) :: (wideRun s' os).1, fin)
    | none => wideRun s os

end Risor.C10
