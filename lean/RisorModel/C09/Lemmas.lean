import RisorModel.C09.Model
/-!
C09 — helper lemmas: mutex invariants along a trace, the "release then acquire" lemma, and
transparency of the caches in the VM model.
-/
namespace Risor.C09

/-! ### lock state -/

/-- an exclusively held mutex has no shared holders -/
def Inv (s : LS) : Prop := ∀ l t, s.w l = some t → s.r l = []

theorem inv_init : Inv LS.init := by
  intro l t h; simp [LS.init] at h

theorem upd_same {α : Type} (f : Lock → α) (l : Lock) (v : α) : upd f l v l = v := by
  simp [upd]

theorem upd_other {α : Type} (f : Lock → α) (l k : Lock) (v : α) (h : k ≠ l) : upd f l v k = f k := by
  simp [upd, h]

theorem holds_true_iff (s : LS) (t : Tid) (l : Lock) : holds s t l true = true ↔ s.w l = some t := by
  simp [holds]

theorem holds_false_iff (s : LS) (t : Tid) (l : Lock) : holds s t l false = true ↔ t ∈ s.r l := by
  simp [holds]

theorem step_inv (s s' : LS) (e : Ev) (hi : Inv s) (h : step s e = some s') : Inv s' := by
  cases e with
  | acq t l x =>
    cases x with
    | true =>
      simp only [step] at h
      split at h
      · rename_i hc
        cases h
        intro k u hk
        by_cases hkl : k = l
        · subst hkl; exact hc.2
        · simp only [upd_other _ _ _ _ hkl] at hk
          exact hi k u hk
      · cases h
    | false =>
      simp only [step] at h
      split at h
      · rename_i hc
        cases h
        intro k u hk
        by_cases hkl : k = l
        · subst hkl; simp only at hk; rw [hc] at hk; cases hk
        · simp only [upd_other _ _ _ _ hkl]
          exact hi k u hk
      · cases h
  | rel t l x =>
    cases x with
    | true =>
      simp only [step] at h
      split at h
      · cases h
        intro k u hk
        by_cases hkl : k = l
        · subst hkl; simp [upd_same] at hk
        · simp only [upd_other _ _ _ _ hkl] at hk
          exact hi k u hk
      · cases h
    | false =>
      simp only [step] at h
      split at h
      · rename_i hc
        cases h
        intro k u hk
        by_cases hkl : k = l
        · subst hkl
          simp only at hk
          have := hi k u hk
          rw [this] at hc
          cases hc
        · simp only [upd_other _ _ _ _ hkl]
          exact hi k u hk
      · cases h
  | acc t i site =>
    simp only [step] at h
    split at h
    · cases h; exact hi
    · cases h

theorem run_inv (es : List Ev) (s s' : LS) (hi : Inv s) (h : run s es = some s') : Inv s' := by
  induction es generalizing s with
  | nil => simp only [run] at h; cases h; exact hi
  | cons e es ih =>
    simp only [run] at h
    split at h
    · cases h
    · rename_i s1 hs
      exact ih s1 (step_inv s s1 e hi hs) h

theorem run_append (a b : List Ev) (s : LS) :
    run s (a ++ b) = (run s a).bind (fun s' => run s' b) := by
  induction a generalizing s with
  | nil => simp [run]
  | cons e es ih =>
    simp only [List.cons_append, run]
    split
    · simp
    · rename_i s1 _; exact ih s1

/-- two different threads cannot hold one mutex when at least one of them holds it exclusively -/
theorem excl_holds (s : LS) (hi : Inv s) (t1 t2 : Tid) (l : Lock) (x1 x2 : Bool)
    (h1 : holds s t1 l x1 = true) (h2 : holds s t2 l x2 = true) (hx : (x1 || x2) = true) : t1 = t2 := by
  cases x1 <;> cases x2
  · simp at hx
  · rw [holds_false_iff] at h1; rw [holds_true_iff] at h2
    have := hi l t2 h2; rw [this] at h1; cases h1
  · rw [holds_true_iff] at h1; rw [holds_false_iff] at h2
    have := hi l t1 h1; rw [this] at h2; cases h2
  · rw [holds_true_iff] at h1 h2
    rw [h1] at h2; cases h2; rfl

/-- a thread that does not hold `l` in mode `x` can come to hold it only by its own acquire -/
theorem step_holds_false (s s' : LS) (e : Ev) (t : Tid) (l : Lock) (x : Bool)
    (h : step s e = some s') (hne : e ≠ Ev.acq t l x) (hf : holds s t l x = false) :
    holds s' t l x = false := by
  cases e with
  | acq u k y =>
    cases y with
    | true =>
      simp only [step] at h
      split at h
      · cases h
        cases x with
        | false => simpa [holds] using hf
        | true =>
          by_cases hkl : l = k
          · subst hkl
            by_cases hu : u = t
            · subst hu; exact absurd rfl hne
            · simp [holds, upd_same, hu]
          · simp only [holds, ↓reduceIte, upd_other _ _ _ _ hkl]
            simpa [holds] using hf
      · cases h
    | false =>
      simp only [step] at h
      split at h
      · cases h
        cases x with
        | true => simpa [holds] using hf
        | false =>
          by_cases hkl : l = k
          · subst hkl
            by_cases hu : u = t
            · subst hu; exact absurd rfl hne
            · have hf' : t ∉ s.r l := by simpa [holds] using hf
              have hu' : ¬ t = u := fun e => hu e.symm
              simp [holds, upd_same, hu', hf']
          · simp only [holds, Bool.false_eq_true, ↓reduceIte, upd_other _ _ _ _ hkl]
            simpa [holds] using hf
      · cases h
  | rel u k y =>
    cases y with
    | true =>
      simp only [step] at h
      split at h
      · cases h
        cases x with
        | false => simpa [holds] using hf
        | true =>
          by_cases hkl : l = k
          · subst hkl; simp [holds, upd_same]
          · simp only [holds, ↓reduceIte, upd_other _ _ _ _ hkl]
            simpa [holds] using hf
      · cases h
    | false =>
      simp only [step] at h
      split at h
      · cases h
        cases x with
        | true => simpa [holds] using hf
        | false =>
          by_cases hkl : l = k
          · subst hkl
            have hf' : t ∉ s.r l := by simpa [holds] using hf
            have : t ∉ (s.r l).erase u := fun hm => hf' (List.mem_of_mem_erase hm)
            simp [holds, upd_same, this]
          · simp only [holds, Bool.false_eq_true, ↓reduceIte, upd_other _ _ _ _ hkl]
            simpa [holds] using hf
      · cases h
  | acc u i site =>
    simp only [step] at h
    split at h
    · cases h; exact hf
    · cases h

/-- a thread keeps holding `l` in mode `x` until its own release -/
theorem step_holds_true (s s' : LS) (e : Ev) (t : Tid) (l : Lock) (x : Bool)
    (h : step s e = some s') (hne : e ≠ Ev.rel t l x) (_hi : Inv s) (ht : holds s t l x = true) :
    holds s' t l x = true := by
  cases e with
  | acq u k y =>
    cases y with
    | true =>
      simp only [step] at h
      split at h
      · rename_i hc
        cases h
        by_cases hkl : l = k
        · subst hkl
          cases x with
          | true => rw [holds_true_iff] at ht; rw [hc.1] at ht; cases ht
          | false => rw [holds_false_iff] at ht; rw [hc.2] at ht; cases ht
        · cases x with
          | true =>
            simp only [holds, ↓reduceIte, upd_other _ _ _ _ hkl]
            simpa [holds] using ht
          | false => simpa [holds] using ht
      · cases h
    | false =>
      simp only [step] at h
      split at h
      · rename_i hc
        cases h
        cases x with
        | true => simpa [holds] using ht
        | false =>
          have ht' : t ∈ s.r l := by simpa [holds] using ht
          by_cases hkl : l = k
          · subst hkl; simp [holds, upd_same, ht']
          · simp only [holds, Bool.false_eq_true, ↓reduceIte, upd_other _ _ _ _ hkl]
            simpa using ht'
      · cases h
  | rel u k y =>
    cases y with
    | true =>
      simp only [step] at h
      split at h
      · rename_i hc
        cases h
        cases x with
        | false => simpa [holds] using ht
        | true =>
          by_cases hkl : l = k
          · subst hkl
            rw [holds_true_iff] at ht
            rw [hc] at ht
            cases ht
            exact absurd rfl hne
          · simp only [holds, ↓reduceIte, upd_other _ _ _ _ hkl]
            simpa [holds] using ht
      · cases h
    | false =>
      simp only [step] at h
      split at h
      · cases h
        cases x with
        | true => simpa [holds] using ht
        | false =>
          have ht' : t ∈ s.r l := by simpa [holds] using ht
          by_cases hkl : l = k
          · subst hkl
            by_cases hu : u = t
            · subst hu; exact absurd rfl hne
            · have : t ∈ (s.r l).erase u := (List.mem_erase_of_ne (fun e => hu e.symm)).2 ht'
              simp [holds, upd_same, this]
          · simp only [holds, Bool.false_eq_true, ↓reduceIte, upd_other _ _ _ _ hkl]
            simpa using ht'
      · cases h
  | acc u i site =>
    simp only [step] at h
    split at h
    · cases h; exact ht
    · cases h

/-- right after `t1` releases `l` (mode `x1`), another thread `t2` does not hold it in a
    mode `x2` that conflicts with `x1` -/
theorem after_release (s s' : LS) (t1 t2 : Tid) (l : Lock) (x1 x2 : Bool) (hi : Inv s)
    (h : step s (Ev.rel t1 l x1) = some s') (_hne : t1 ≠ t2) (hx : (x1 || x2) = true) :
    holds s' t2 l x2 = false := by
  cases x1 with
  | true =>
    simp only [step] at h
    split at h
    · rename_i hc
      cases h
      cases x2 with
      | true => simp [holds, upd_same]
      | false =>
        have := hi l t1 hc
        simp [holds, this]
    · cases h
  | false =>
    have hx2 : x2 = true := by simpa using hx
    subst hx2
    simp only [step] at h
    split at h
    · rename_i hc
      cases h
      cases hw : s.w l with
      | none => simp [holds, hw]
      | some u =>
        have := hi l u hw
        rw [this] at hc
        cases hc
    · cases h

theorem acquire_needed (mid : List Ev) (s s' : LS) (t : Tid) (l : Lock) (x : Bool)
    (h : run s mid = some s') (hf : holds s t l x = false) (ht : holds s' t l x = true) :
    ∃ b c, mid = b ++ Ev.acq t l x :: c := by
  induction mid generalizing s with
  | nil =>
    simp only [run] at h; cases h
    rw [hf] at ht; cases ht
  | cons e es ih =>
    simp only [run] at h
    split at h
    · cases h
    · rename_i s1 hs
      by_cases he : e = Ev.acq t l x
      · exact ⟨[], es, by simp [he]⟩
      · obtain ⟨b, c, hbc⟩ := ih s1 h (step_holds_false s s1 e t l x hs he hf)
        exact ⟨e :: b, c, by simp [hbc]⟩

/-- **release → acquire**: if `t1` holds `l` before `mid` and a different thread `t2` holds it
    after `mid`, at least one of them exclusively, then inside `mid` `t1` releases `l` and
    later `t2` acquires it. -/
theorem release_then_acquire (mid : List Ev) (s s' : LS) (t1 t2 : Tid) (l : Lock) (x1 x2 : Bool)
    (h : run s mid = some s') (hi : Inv s) (h1 : holds s t1 l x1 = true)
    (h2 : holds s' t2 l x2 = true) (hne : t1 ≠ t2) (hx : (x1 || x2) = true) :
    ∃ a b c, mid = a ++ Ev.rel t1 l x1 :: (b ++ Ev.acq t2 l x2 :: c) := by
  induction mid generalizing s with
  | nil =>
    simp only [run] at h; cases h
    exact absurd (excl_holds _ hi t1 t2 l x1 x2 h1 h2 hx) hne
  | cons e es ih =>
    simp only [run] at h
    split at h
    · cases h
    · rename_i s1 hs
      by_cases he : e = Ev.rel t1 l x1
      · subst he
        have hf := after_release s s1 t1 t2 l x1 x2 hi hs hne hx
        obtain ⟨b, c, hbc⟩ := acquire_needed es s1 s' t2 l x2 h hf h2
        exact ⟨[], b, c, by simp [hbc]⟩
      · have h1' := step_holds_true s s1 e t1 l x1 hs he hi h1
        obtain ⟨a, b, c, habc⟩ := ih s1 h (step_inv s s1 e hi hs) h1'
        exact ⟨e :: a, b, c, by simp [habc]⟩

/-- an enabled access holds every lock its site claims -/
theorem acc_holds (s s' : LS) (t : Tid) (i : Nat) (site : Site) (q : LockReq)
    (h : step s (Ev.acc t i site) = some s') (hq : q ∈ site.locks) :
    s' = s ∧ holds s t (lockOf q i) q.excl = true := by
  simp only [step] at h
  split at h
  · rename_i hc
    cases h
    simp only [Bool.and_eq_true, List.all_eq_true] at hc
    exact ⟨rfl, hc.2 q hq⟩
  · cases h

/-! ### caches -/

theorem lookup_mem (c : Cache) (k v : Nat) (h : c.lookup k = some v) : (k, v) ∈ c := by
  induction c with
  | nil => simp [List.lookup] at h
  | cons p ps ih =>
    obtain ⟨a, b⟩ := p
    simp only [List.lookup] at h
    split at h
    · rename_i heq
      have : k = a := by simpa using heq
      cases h; subst this; simp
    · exact List.mem_cons_of_mem _ (ih h)

theorem lookupOr_ok (c : Cache) (k : Nat) (mk : Nat → Nat) (h : CacheOK c mk) :
    (lookupOr c k mk).1 = mk k ∧ CacheOK (lookupOr c k mk).2 mk := by
  unfold lookupOr
  cases hl : c.lookup k with
  | none =>
    refine ⟨rfl, ?_⟩
    intro a b hab
    simp only [List.mem_cons, Prod.mk.injEq] at hab
    rcases hab with ⟨ha, hb⟩ | hab
    · subst ha; exact hb
    · exact h a b hab
  | some v =>
    exact ⟨h k v (lookup_mem c k v hl), h⟩

/-- the value of an expression does not depend on what the (transparent) caches hold, and
    evaluation keeps them transparent -/
theorem evalE_ok (g : List Nat) (e : Expr) (cs cs' : Cache × Cache)
    (h1 : CacheOK cs.1 mkConv) (h2 : CacheOK cs.2 modFn)
    (h1' : CacheOK cs'.1 mkConv) (h2' : CacheOK cs'.2 modFn) :
    (evalE g e cs).1 = (evalE g e cs').1
      ∧ CacheOK (evalE g e cs).2.1 mkConv ∧ CacheOK (evalE g e cs).2.2 modFn := by
  induction e generalizing cs cs' with
  | lit n => exact ⟨rfl, h1, h2⟩
  | glob i => exact ⟨rfl, h1, h2⟩
  | add a b iha ihb =>
    obtain ⟨ea, ca1, ca2⟩ := iha cs cs' h1 h2 h1' h2'
    obtain ⟨_, ca1', ca2'⟩ := iha cs' cs h1' h2' h1 h2
    obtain ⟨eb, cb1, cb2⟩ := ihb (evalE g a cs).2 (evalE g a cs').2 ca1 ca2 ca1' ca2'
    simp only [evalE]
    exact ⟨by rw [ea, eb], cb1, cb2⟩
  | conv ty e ih =>
    obtain ⟨ee, c1, c2⟩ := ih cs cs' h1 h2 h1' h2'
    obtain ⟨_, c1', _⟩ := ih cs' cs h1' h2' h1 h2
    have l1 := lookupOr_ok (evalE g e cs).2.1 ty mkConv c1
    have l2 := lookupOr_ok (evalE g e cs').2.1 ty mkConv c1'
    simp only [evalE]
    exact ⟨by rw [l1.1, l2.1, ee], l1.2, c2⟩
  | imp m =>
    have l1 := lookupOr_ok cs.2 m modFn h2
    have l2 := lookupOr_ok cs'.2 m modFn h2'
    simp only [evalE]
    exact ⟨by rw [l1.1, l2.1], h1, l1.2⟩

theorem vmStep_ok (sh sh' : Shared) (vm : VM) (h : SharedOK sh) (h' : SharedOK sh') :
    (vmStep sh vm).2 = (vmStep sh' vm).2 ∧ SharedOK (vmStep sh vm).1 := by
  unfold vmStep
  cases hw : vm.wrapped[vm.ip]? with
  | none => exact ⟨rfl, h⟩
  | some st =>
    obtain ⟨e, c1, c2⟩ := evalE_ok vm.globals st.rhs (sh.convCache, sh.modCache)
      (sh'.convCache, sh'.modCache) h.1 h.2 h'.1 h'.2
    simp only
    exact ⟨by rw [e], c1, c2⟩

theorem vmStep_code (sh : Shared) (vm : VM) : (vmStep sh vm).1.code = sh.code := by
  unfold vmStep
  cases vm.wrapped[vm.ip]? <;> rfl

theorem runAlone_ok (k : Nat) (sh sh' : Shared) (vm : VM) (h : SharedOK sh) (h' : SharedOK sh') :
    (runAlone sh vm k).2 = (runAlone sh' vm k).2 ∧ SharedOK (runAlone sh vm k).1 := by
  induction k generalizing sh sh' vm with
  | zero => exact ⟨rfl, h⟩
  | succ k ih =>
    have s1 := vmStep_ok sh sh' vm h h'
    have s2 := vmStep_ok sh' sh vm h' h
    simp only [runAlone]
    rw [s1.1]
    exact ih (vmStep sh vm).1 (vmStep sh' vm).1 (vmStep sh' vm).2 s1.2 s2.2

/-- running `k` more steps after one step = running `k+1` steps (alone, any transparent caches) -/
theorem runAlone_snoc (k : Nat) (sh sh' : Shared) (vm : VM) (h : SharedOK sh) (h' : SharedOK sh') :
    (vmStep sh' (runAlone sh vm k).2).2 = (runAlone sh vm (k + 1)).2 := by
  induction k generalizing sh sh' vm with
  | zero =>
    simp only [runAlone]
    exact (vmStep_ok sh' sh vm h' h).1
  | succ k ih =>
    have s1 := vmStep_ok sh sh vm h h
    have := ih (vmStep sh vm).1 sh' (vmStep sh vm).2 s1.2 h'
    simp only [runAlone] at this ⊢
    exact this

/-- empty caches are transparent -/
theorem sharedOK_empty (code : List Stmt) :
    SharedOK { code := code, convCache := [], modCache := [] } := by
  constructor <;> (intro k v hm; cases hm)


/-! ### resources handed out by a process-wide allocator (Model §4) -/

/-- every reference points at an existing resource, and no resource is referenced by two agents -/
def RInv (s : RState) : Prop :=
  (∀ u i, s.held u = some i → i < s.cells.length) ∧
  (∀ u v i, s.held u = some i → s.held v = some i → u = v)

/-- agent `t` is in the same situation in `s` (the full run) and `s'` (its stand-alone run):
    same observations so far, and the resources it holds (if any) have the same content -/
def RRel (t : Nat) (s s' : RState) : Prop :=
  s.log t = s'.log t ∧
  ((s.held t = none ∧ s'.held t = none) ∨
   (∃ i j, s.held t = some i ∧ s'.held t = some j ∧ s.cells.getD i 0 = s'.cells.getD j 0
      ∧ i < s.cells.length ∧ j < s'.cells.length))

theorem rinv_empty : RInv RState.empty := by
  constructor
  · intro u i h; simp [RState.empty] at h
  · intro u v i h; simp [RState.empty] at h

theorem rrel_empty (t : Nat) : RRel t RState.empty RState.empty :=
  ⟨rfl, Or.inl ⟨rfl, rfl⟩⟩

theorem rstep_fresh_acq (s : RState) (t : Nat) :
    rstep .fresh s (.acq t) =
      { s with cells := s.cells ++ [0], held := fun k => if k = t then some s.cells.length else s.held k } := rfl

theorem rstep_fresh_rel (s : RState) (t : Nat) : rstep .fresh s (.rel t) = s := by
  simp only [rstep]

theorem getD_set_self (l : List Nat) (i v : Nat) (h : i < l.length) : (l.set i v).getD i 0 = v := by
  simp [List.getD, h]

theorem getD_set_other (l : List Nat) (i k v : Nat) (h : k ≠ i) : (l.set k v).getD i 0 = l.getD i 0 := by
  simp [List.getD, h]

theorem getD_append_lt (l : List Nat) (i : Nat) (h : i < l.length) : (l ++ [0]).getD i 0 = l.getD i 0 := by
  simp [List.getD, List.getElem?_append_left h]

theorem getD_append_len (l : List Nat) : (l ++ [0]).getD l.length 0 = 0 := by
  simp [List.getD]

theorem rstep_inv (s : RState) (e : REv) (h : RInv s) : RInv (rstep .fresh s e) := by
  obtain ⟨hb, hi⟩ := h
  cases e with
  | acq t =>
    rw [rstep_fresh_acq]
    constructor
    · intro u i hu
      simp only at hu
      simp only [List.length_append, List.length_cons, List.length_nil]
      split at hu
      · cases hu; omega
      · have := hb u i hu; omega
    · intro u v i hu hv
      simp only at hu hv
      split at hu <;> split at hv
      · subst_vars; rfl
      · cases hu; have := hb v _ hv; omega
      · cases hv; have := hb u _ hu; omega
      · exact hi u v i hu hv
  | wr t v =>
    simp only [rstep]
    split
    · constructor
      · intro u i hu; simp only [List.length_set]; exact hb u i hu
      · exact hi
    · exact ⟨hb, hi⟩
  | wrUnless t bad v =>
    simp only [rstep]
    split
    · split
      · exact ⟨hb, hi⟩
      · constructor
        · intro u i hu; simp only [List.length_set]; exact hb u i hu
        · exact hi
    · exact ⟨hb, hi⟩
  | rd t =>
    simp only [rstep]
    split
    · exact ⟨hb, hi⟩
    · exact ⟨hb, hi⟩
  | rel t => rw [rstep_fresh_rel]; exact ⟨hb, hi⟩

/-- an event of another agent leaves `t`'s situation unchanged (fresh allocation) -/
theorem rstep_other (t : Nat) (s s' : RState) (e : REv) (h : RInv s) (hr : RRel t s s')
    (hne : e.agent ≠ t) : RRel t (rstep .fresh s e) s' := by
  obtain ⟨hb, hi⟩ := h
  obtain ⟨hlog, hheld⟩ := hr
  cases e with
  | acq u =>
    have hut : ¬ t = u := fun e => hne e.symm
    rw [rstep_fresh_acq]
    refine ⟨hlog, ?_⟩
    simp only [hut, ↓reduceIte]
    rcases hheld with hn | ⟨i, j, h1, h2, h3, h4, h5⟩
    · exact Or.inl hn
    · refine Or.inr ⟨i, j, h1, h2, ?_, ?_, h5⟩
      · rw [getD_append_lt _ _ h4]; exact h3
      · simp only [List.length_append, List.length_cons, List.length_nil]; omega
  | wr u v =>
    simp only [REv.agent] at hne
    simp only [rstep]
    split
    · rename_i r hur
      refine ⟨hlog, ?_⟩
      rcases hheld with hn | ⟨i, j, h1, h2, h3, h4, h5⟩
      · exact Or.inl hn
      · have hri : r ≠ i := by
          intro e; subst e
          exact hne (hi u t r hur h1)
        refine Or.inr ⟨i, j, h1, h2, ?_, ?_, h5⟩
        · simp only; rw [getD_set_other _ _ _ _ hri]; exact h3
        · simp only [List.length_set]; exact h4
    · exact ⟨hlog, hheld⟩
  | wrUnless u bad v =>
    simp only [REv.agent] at hne
    simp only [rstep]
    split
    · rename_i r hur
      split
      · exact ⟨hlog, hheld⟩
      · refine ⟨hlog, ?_⟩
        rcases hheld with hn | ⟨i, j, h1, h2, h3, h4, h5⟩
        · exact Or.inl hn
        · have hri : r ≠ i := by
            intro e; subst e
            exact hne (hi u t r hur h1)
          refine Or.inr ⟨i, j, h1, h2, ?_, ?_, h5⟩
          · simp only; rw [getD_set_other _ _ _ _ hri]; exact h3
          · simp only [List.length_set]; exact h4
    · exact ⟨hlog, hheld⟩
  | rd u =>
    simp only [REv.agent] at hne
    have hut : ¬ t = u := fun e => hne e.symm
    simp only [rstep]
    split
    · refine ⟨?_, hheld⟩
      simp only [hut, ↓reduceIte]; exact hlog
    · exact ⟨hlog, hheld⟩
  | rel u => rw [rstep_fresh_rel]; exact ⟨hlog, hheld⟩

/-- `t`'s own event does the same to `t` in the full run and in its stand-alone run -/
theorem rstep_same (t : Nat) (s s' : RState) (e : REv) (hr : RRel t s s')
    (he : e.agent = t) : RRel t (rstep .fresh s e) (rstep .fresh s' e) := by
  obtain ⟨hlog, hheld⟩ := hr
  cases e with
  | acq u =>
    simp only [REv.agent] at he; subst he
    rw [rstep_fresh_acq, rstep_fresh_acq]
    refine ⟨hlog, Or.inr ⟨s.cells.length, s'.cells.length, by simp, by simp, ?_, ?_, ?_⟩⟩
    · simp only; rw [getD_append_len, getD_append_len]
    · simp
    · simp
  | wr u v =>
    simp only [REv.agent] at he; subst he
    rcases hheld with ⟨h1, h2⟩ | ⟨i, j, h1, h2, h3, h4, h5⟩
    · simp only [rstep, h1, h2]
      exact ⟨hlog, Or.inl ⟨h1, h2⟩⟩
    · simp only [rstep, h1, h2]
      refine ⟨hlog, Or.inr ⟨i, j, h1, h2, ?_, ?_, ?_⟩⟩
      · simp only; rw [getD_set_self _ _ _ h4, getD_set_self _ _ _ h5]
      · simp only [List.length_set]; exact h4
      · simp only [List.length_set]; exact h5
  | wrUnless u bad v =>
    simp only [REv.agent] at he; subst he
    rcases hheld with ⟨h1, h2⟩ | ⟨i, j, h1, h2, h3, h4, h5⟩
    · simp only [rstep, h1, h2]
      exact ⟨hlog, Or.inl ⟨h1, h2⟩⟩
    · simp only [rstep, h1, h2, h3]
      split
      · exact ⟨hlog, Or.inr ⟨i, j, h1, h2, h3, h4, h5⟩⟩
      · refine ⟨hlog, Or.inr ⟨i, j, h1, h2, ?_, ?_, ?_⟩⟩
        · simp only; rw [getD_set_self _ _ _ h4, getD_set_self _ _ _ h5]
        · simp only [List.length_set]; exact h4
        · simp only [List.length_set]; exact h5
  | rd u =>
    simp only [REv.agent] at he; subst he
    rcases hheld with ⟨h1, h2⟩ | ⟨i, j, h1, h2, h3, h4, h5⟩
    · simp only [rstep, h1, h2]
      exact ⟨hlog, Or.inl ⟨h1, h2⟩⟩
    · simp only [rstep, h1, h2]
      refine ⟨?_, Or.inr ⟨i, j, h1, h2, h3, h4, h5⟩⟩
      simp only [↓reduceIte]; rw [hlog, h3]
  | rel u => rw [rstep_fresh_rel, rstep_fresh_rel]; exact ⟨hlog, hheld⟩

theorem rrun_sim (t : Nat) (evs : List REv) (s s' : RState) (h : RInv s) (hr : RRel t s s') :
    RRel t (rrun .fresh s evs) (rrun .fresh s' (evs.filter fun e => e.agent == t)) := by
  induction evs generalizing s s' with
  | nil => exact hr
  | cons e es ih =>
    by_cases he : e.agent = t
    · have : (e.agent == t) = true := by simpa using he
      simp only [List.filter_cons, this, ↓reduceIte, rrun]
      exact ih _ _ (rstep_inv s e h) (rstep_same t s s' e hr he)
    · have : (e.agent == t) = false := by simpa using he
      simp only [List.filter_cons, this, rrun]
      exact ih _ _ (rstep_inv s e h) (rstep_other t s s' e h hr he)

/-! ### immutable resources may be shared under any policy -/

def AllZero (s : RState) : Prop := ∀ i, s.cells.getD i 0 = 0

def REv.isWr : REv → Bool
  | .wr _ _ => true
  | .wrUnless _ _ _ => true
  | _ => false

theorem allZero_empty : AllZero RState.empty := by
  intro i; simp [RState.empty, List.getD]

theorem alloc_log (p : Policy) (s : RState) : (alloc p s).2.log = s.log := by
  cases p <;> simp only [alloc] <;> split <;> rfl

theorem alloc_held (p : Policy) (s : RState) : (alloc p s).2.held = s.held := by
  cases p <;> simp only [alloc] <;> split <;> rfl

theorem alloc_allZero (p : Policy) (s : RState) (h : AllZero s) : AllZero (alloc p s).2 := by
  intro i
  cases p with
  | fresh =>
    simp only [alloc]
    by_cases hi : i < s.cells.length
    · rw [getD_append_lt _ _ hi]; exact h i
    · simp only [List.getD]
      cases hg : (s.cells ++ [0])[i]? with
      | none => rfl
      | some v =>
        have hm := List.mem_of_getElem? hg
        simp only [List.mem_append, List.mem_singleton] at hm
        rcases hm with hm | hm
        · obtain ⟨k, hk, hkv⟩ := List.getElem_of_mem hm
          have := h k
          simp only [List.getD, List.getElem?_eq_getElem hk, hkv, Option.getD_some] at this
          simp [this]
        · simp [hm]
  | pooled =>
    simp only [alloc]
    split
    · rename_i r fr _
      by_cases hri : r = i
      · subst hri
        simp only [List.getD, List.getElem?_set, ↓reduceIte]
        split <;> rfl
      · simp only; rw [getD_set_other _ _ _ _ hri]; exact h i
    · by_cases hi : i < s.cells.length
      · simp only; rw [getD_append_lt _ _ hi]; exact h i
      · simp only [List.getD]
        cases hg : (s.cells ++ [0])[i]? with
        | none => rfl
        | some v =>
          have hm := List.mem_of_getElem? hg
          simp only [List.mem_append, List.mem_singleton] at hm
          rcases hm with hm | hm
          · obtain ⟨k, hk, hkv⟩ := List.getElem_of_mem hm
            have := h k
            simp only [List.getD, List.getElem?_eq_getElem hk, hkv, Option.getD_some] at this
            simp [this]
          · simp [hm]
  | cached =>
    simp only [alloc]
    split
    · simp only [List.getD]
      cases i <;> simp
    · exact h i

theorem rstep_allZero (p : Policy) (s : RState) (e : REv) (h : AllZero s) (hw : e.isWr = false) :
    AllZero (rstep p s e) := by
  cases e with
  | acq t =>
    intro i
    have := alloc_allZero p s h i
    simpa [rstep] using this
  | wr t v => simp [REv.isWr] at hw
  | wrUnless t bad v => simp [REv.isWr] at hw
  | rd t =>
    simp only [rstep]
    split
    · exact h
    · exact h
  | rel t =>
    simp only [rstep]
    split
    · exact h
    · exact h

/-- same observations so far, and a reference in the one run iff in the other -/
def ZRel (t : Nat) (s s' : RState) : Prop :=
  s.log t = s'.log t ∧ (s.held t).isSome = (s'.held t).isSome

theorem rstep_log_held_rel (p : Policy) (s : RState) (u : Nat) :
    (rstep p s (.rel u)).log = s.log ∧ (rstep p s (.rel u)).held = s.held := by
  simp only [rstep]
  split <;> exact ⟨rfl, rfl⟩

theorem zstep_other (p : Policy) (t : Nat) (s s' : RState) (e : REv) (hr : ZRel t s s')
    (hne : e.agent ≠ t) : ZRel t (rstep p s e) s' := by
  obtain ⟨hlog, hh⟩ := hr
  cases e with
  | acq u =>
    have hut : ¬ t = u := fun e => hne e.symm
    simp only [rstep, alloc_log, alloc_held, ZRel, hut, ↓reduceIte]
    exact ⟨hlog, hh⟩
  | wr u v =>
    simp only [rstep]
    split
    · exact ⟨hlog, hh⟩
    · exact ⟨hlog, hh⟩
  | wrUnless u bad v =>
    simp only [rstep]
    split
    · split
      · exact ⟨hlog, hh⟩
      · exact ⟨hlog, hh⟩
    · exact ⟨hlog, hh⟩
  | rd u =>
    simp only [REv.agent] at hne
    have hut : ¬ t = u := fun e => hne e.symm
    simp only [rstep]
    split
    · simp only [ZRel, hut, ↓reduceIte]; exact ⟨hlog, hh⟩
    · exact ⟨hlog, hh⟩
  | rel u =>
    obtain ⟨h1, h2⟩ := rstep_log_held_rel p s u
    simp only [ZRel, h1, h2]; exact ⟨hlog, hh⟩

theorem zstep_same (p : Policy) (t : Nat) (s s' : RState) (e : REv) (hz : AllZero s) (hz' : AllZero s')
    (hr : ZRel t s s') (he : e.agent = t) (hw : e.isWr = false) :
    ZRel t (rstep p s e) (rstep p s' e) := by
  obtain ⟨hlog, hh⟩ := hr
  cases e with
  | acq u =>
    simp only [REv.agent] at he; subst he
    simp only [rstep, alloc_log, ZRel, ↓reduceIte, Option.isSome_some]
    exact ⟨hlog, trivial⟩
  | wr u v => simp [REv.isWr] at hw
  | wrUnless u bad v => simp [REv.isWr] at hw
  | rd u =>
    simp only [REv.agent] at he; subst he
    cases h1 : s.held u <;> cases h2 : s'.held u <;> simp only [h1, h2, Option.isSome_some, Option.isSome_none] at hh
    · simp only [rstep, h1, h2]; exact ⟨hlog, by simp [h1, h2]⟩
    · cases hh
    · cases hh
    · rename_i r r'
      simp only [rstep, h1, h2, ZRel, ↓reduceIte, Option.isSome_some]
      rw [hlog, hz r, hz' r']
      exact ⟨rfl, trivial⟩
  | rel u =>
    obtain ⟨h1, h2⟩ := rstep_log_held_rel p s u
    obtain ⟨h1', h2'⟩ := rstep_log_held_rel p s' u
    simp only [ZRel, h1, h2, h1', h2']; exact ⟨hlog, hh⟩

theorem zrun_sim (p : Policy) (t : Nat) (evs : List REv) (s s' : RState) (hz : AllZero s) (hz' : AllZero s')
    (hr : ZRel t s s') (hw : ∀ e ∈ evs, e.isWr = false) :
    ZRel t (rrun p s evs) (rrun p s' (evs.filter fun e => e.agent == t)) := by
  induction evs generalizing s s' with
  | nil => exact hr
  | cons e es ih =>
    have hwe : e.isWr = false := hw e (List.mem_cons_self ..)
    have hws : ∀ x ∈ es, x.isWr = false := fun x hx => hw x (List.mem_cons_of_mem _ hx)
    by_cases he : e.agent = t
    · have : (e.agent == t) = true := by simpa using he
      simp only [List.filter_cons, this, ↓reduceIte, rrun]
      exact ih _ _ (rstep_allZero p s e hz hwe) (rstep_allZero p s' e hz' hwe) (zstep_same p t s s' e hz hz' hr he hwe) hws
    · have : (e.agent == t) = false := by simpa using he
      simp only [List.filter_cons, this, rrun]
      exact ih _ _ (rstep_allZero p s e hz hwe) hz' (zstep_other p t s s' e hr he) hws

/-! ### contexts shared by evaluations (Model §5) -/

theorem crun_append (p : WatchPolicy) (s : CState) (xs ys : List CEv) :
    crun p s (xs ++ ys) = crun p (crun p s xs) ys := by
  induction xs generalizing s with
  | nil => rfl
  | cons x xs ih => simp only [List.cons_append, crun]; exact ih _

/-- the events kept for evaluation `e` when `C` says which contexts' ends are kept -/
def keepFor (C : Nat → Bool) (e : Nat) : CEv → Bool
  | .start e' _ => e' == e
  | .instr e' => e' == e
  | .finish e' => e' == e
  | .cancel c => C c

/-- evaluation `e` is in the same situation in the full run `s` and in its own run `s'`: same
    context, same flag, same loads so far; the contexts in `C` are done in the one iff in the other;
    and `e`'s context is one of `C` -/
def CRel (C : Nat → Bool) (e : Nat) (s s' : CState) : Prop :=
  s.ctxOf e = s'.ctxOf e ∧ s.halt e = s'.halt e ∧ s.log e = s'.log e
    ∧ (∀ c, C c = true → s.done c = s'.done c) ∧ (∀ c, s.ctxOf e = some c → C c = true)

theorem cstep_keep (C : Nat → Bool) (e : Nat) (s s' : CState) (ev : CEv) (hr : CRel C e s s')
    (hk : keepFor C e ev = true) (hst : ∀ c, ev = .start e c → C c = true) :
    CRel C e (cstep .perRun s ev) (cstep .perRun s' ev) := by
  obtain ⟨hc, hh, hl, hd, hin⟩ := hr
  cases ev with
  | start e' c =>
    have he : e' = e := by simpa [keepFor] using hk
    subst he
    have hC : C c = true := hst c rfl
    refine ⟨?_, ?_, hl, hd, ?_⟩
    · simp only [cstep, ↓reduceIte]
    · simp only [cstep, ↓reduceIte, hd c hC]
    · intro c' h
      simp only [cstep, ↓reduceIte, Option.some.injEq] at h
      subst h; exact hC
  | instr e' =>
    have he : e' = e := by simpa [keepFor] using hk
    subst he
    refine ⟨hc, hh, ?_, hd, hin⟩
    simp only [cstep, ↓reduceIte, hl, hh]
  | finish e' => exact ⟨hc, hh, hl, hd, hin⟩
  | cancel c =>
    refine ⟨hc, ?_, hl, ?_, hin⟩
    · simp only [cstep, hc, hh]
    · intro c' hc'
      simp only [cstep]
      rw [hd c' hc']

theorem cstep_drop (C : Nat → Bool) (e : Nat) (s s' : CState) (ev : CEv) (hr : CRel C e s s')
    (hk : keepFor C e ev = false) : CRel C e (cstep .perRun s ev) s' := by
  obtain ⟨hc, hh, hl, hd, hin⟩ := hr
  cases ev with
  | start e' c =>
    have he : ¬ e = e' := by
      intro h; subst h; simp [keepFor] at hk
    refine ⟨?_, ?_, hl, hd, ?_⟩
    · simp only [cstep, he, ↓reduceIte]; exact hc
    · simp only [cstep, he, ↓reduceIte]; exact hh
    · intro c' h
      simp only [cstep, he, ↓reduceIte] at h
      exact hin c' h
  | instr e' =>
    have he : ¬ e = e' := by
      intro h; subst h; simp [keepFor] at hk
    refine ⟨hc, hh, ?_, hd, hin⟩
    simp only [cstep, he, ↓reduceIte]; exact hl
  | finish e' => exact ⟨hc, hh, hl, hd, hin⟩
  | cancel c =>
    have hCc : C c = false := by simpa [keepFor] using hk
    have hne : ¬ s.ctxOf e = some c := by
      intro h
      have := hin c h
      rw [hCc] at this; cases this
    refine ⟨hc, ?_, hl, ?_, hin⟩
    · simp only [cstep, hne, ↓reduceIte]; exact hh
    · intro c' hc'
      have : ¬ c' = c := by
        intro h; subst h; rw [hCc] at hc'; cases hc'
      simp only [cstep, this, ↓reduceIte]
      exact hd c' hc'

theorem crun_sim (C : Nat → Bool) (e : Nat) (evs : List CEv) (s s' : CState) (hr : CRel C e s s')
    (hst : ∀ c, CEv.start e c ∈ evs → C c = true) :
    CRel C e (crun .perRun s evs) (crun .perRun s' (evs.filter (keepFor C e))) := by
  induction evs generalizing s s' with
  | nil => exact hr
  | cons ev es ih =>
    have hst' : ∀ c, CEv.start e c ∈ es → C c = true := fun c h => hst c (List.mem_cons_of_mem _ h)
    cases hk : keepFor C e ev with
    | true =>
      simp only [List.filter_cons, hk, ↓reduceIte, crun]
      exact ih _ _ (cstep_keep C e s s' ev hr hk (fun c h => hst c (h ▸ List.mem_cons_self ..))) hst'
    | false =>
      simp only [List.filter_cons, hk, crun]
      exact ih _ _ (cstep_drop C e s s' ev hr hk) hst'

theorem crel_empty (C : Nat → Bool) (e : Nat) : CRel C e CState.empty CState.empty :=
  ⟨rfl, rfl, rfl, fun _ _ => rfl, fun c h => by simp [CState.empty] at h⟩

/-- a set flag stays set until the evaluation is started again -/
theorem halt_sticks (mid : List CEv) (s : CState) (e : Nat) (h : s.halt e = 1)
    (hns : ∀ c, CEv.start e c ∉ mid) : (crun .perRun s mid).halt e = 1 := by
  induction mid generalizing s with
  | nil => exact h
  | cons ev es ih =>
    simp only [crun]
    apply ih
    · cases ev with
      | start e' c =>
        have he : ¬ e = e' := by
          intro hh; subst hh; exact hns c (List.mem_cons_self ..)
        simp only [cstep, he, ↓reduceIte]; exact h
      | instr e' => exact h
      | finish e' => exact h
      | cancel c =>
        simp only [cstep]
        split
        · rfl
        · exact h
    · intro c hc; exact hns c (List.mem_cons_of_mem _ hc)

/-- the context an evaluation runs under changes only when it is started again -/
theorem ctxOf_sticks (mid : List CEv) (s : CState) (e : Nat)
    (hns : ∀ c, CEv.start e c ∉ mid) : (crun .perRun s mid).ctxOf e = s.ctxOf e := by
  induction mid generalizing s with
  | nil => rfl
  | cons ev es ih =>
    simp only [crun]
    rw [ih _ (fun c hc => hns c (List.mem_cons_of_mem _ hc))]
    cases ev with
    | start e' c =>
      have he : ¬ e = e' := by
        intro hh; subst hh; exact hns c (List.mem_cons_self ..)
      simp only [cstep, he, ↓reduceIte]
    | instr e' => rfl
    | finish e' => rfl
    | cancel c => rfl

/-! ### configurations and the standard library (Model §6) -/

theorem toR_agent (m a : Nat) (ev : GEv) (r : REv) (h : GEv.toR m a ev = some r) : r.agent = ev.agent := by
  cases ev with
  | build e => simp only [GEv.toR, Option.some.injEq] at h; subst h; rfl
  | deny e m' a' =>
    simp only [GEv.toR] at h
    split at h
    · simp only [Option.some.injEq] at h; subst h; rfl
    · cases h
  | override e m' a' v =>
    simp only [GEv.toR] at h
    split at h
    · simp only [Option.some.injEq] at h; subst h; rfl
    · cases h
  | use e m' a' =>
    simp only [GEv.toR] at h
    split at h
    · simp only [Option.some.injEq] at h; subst h; rfl
    · cases h

/-- projecting onto a cell commutes with restricting to one evaluation -/
theorem filterMap_toR_filter (m a e : Nat) (evs : List GEv) :
    (evs.filter fun ev => ev.agent == e).filterMap (GEv.toR m a)
      = (evs.filterMap (GEv.toR m a)).filter fun r => r.agent == e := by
  induction evs with
  | nil => rfl
  | cons ev es ih =>
    cases hr : GEv.toR m a ev with
    | none =>
      by_cases he : (ev.agent == e) = true
      · simp only [List.filter_cons, he, ↓reduceIte, List.filterMap_cons, hr]; exact ih
      · simp only [List.filter_cons, he, List.filterMap_cons, hr]; exact ih
    | some r =>
      have ha := toR_agent m a ev r hr
      by_cases he : (ev.agent == e) = true
      · have hre : (r.agent == e) = true := by rw [ha]; exact he
        simp only [List.filter_cons, he, ↓reduceIte, List.filterMap_cons, hr, hre, ih]
      · have hre : ¬ (r.agent == e) = true := by rw [ha]; exact he
        simp only [List.filter_cons, he, List.filterMap_cons, hr, hre]; exact ih

theorem toR_isWr (m a : Nat) (ev : GEv) (r : REv) (h : GEv.toR m a ev = some r) (hne : ev.isEdit = false) :
    r.isWr = false := by
  cases ev with
  | build e => simp only [GEv.toR, Option.some.injEq] at h; subst h; rfl
  | deny e m' a' => simp [GEv.isEdit] at hne
  | override e m' a' v => simp [GEv.isEdit] at hne
  | use e m' a' =>
    simp only [GEv.toR] at h
    split at h
    · simp only [Option.some.injEq] at h; subst h; rfl
    · cases h

end Risor.C09
