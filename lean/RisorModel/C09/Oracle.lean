import RisorModel.Util
import RisorModel.C09.Model
/-!
Line-protocol front end of the C09 model (requests after the leading `C09` field).

  table                                   → every reviewed site: loc|fn|w|init|lock,x,po+…  joined by `;`
  pair  locA fnA wA locB fnB wB           → ordered | racy <finding or -> | unknown-site
  vm    nGlobals nThreads prog sched      → ok <alone globals> <t:globals|…>   (Impl VM model)
        prog  = stmt;stmt;…   stmt = target=tokens   tokens (prefix): L<n> G<i> A e e  C<ty> e  I<m>
        sched = t,t,t,…
  res   policy nAgents events             → ok <t:log|…> <t:alone log|…>      (Model §4; policy = fresh|pooled|cached)
        events = a<t> (acquire) w<t>:<v> (write) r<t> (observe) x<t> (release), comma separated
  mach  policy nEvals events              → ok <e:loads:halted|…> <e:loads:halted|…> (full schedule, then each evaluation alone)
        events = s<e> (start) i<e> (eval-loop trip) f<e> (finish) c<e> (cancel e's own context); halted = - or the trip
  regrows                                 → every reviewed registry row: method|kind|detail|type|ok  joined by `;`
  machsrc fn                              → fresh | not-fresh   (does fn of package vm allocate its machine per request)
  ctxs  policy nEvals events              → ok <e:loads:halted|…> <e:loads:halted|…> (Model §5: full schedule, then what concerns each evaluation only;
        policy = perRun|registry)
        events = s<e>:<c> (start e under context c) i<e> (eval-loop trip) f<e> (finish) c<c> (context c ends)
  cfg   policy nEvals events              → ok <e:m.a=o,o;m.a=o|…> <the same, each evaluation alone>   (Model §6; policy as for res)
        events = b<e> (DefaultGlobals) d<e>:<m>:<a> (WithoutGlobal) o<e>:<m>:<a>:<v> (WithGlobalOverride) u<e>:<m>:<a> (script reads m.a);
        per evaluation the cells it reads, in order of first read, with what it finds (0 as built, 1 removed, v+2 replaced by v)
-/
namespace Risor.C09
open Risor.Util

def b2s (b : Bool) : String := if b then "1" else "0"

def showSite (s : Site) : String :=
  s.loc ++ "|" ++ s.fn ++ "|" ++ b2s s.write ++ "|" ++ b2s s.init ++ "|" ++ b2s (concurrent s) ++ "|"
    ++ (if s.locks.isEmpty then "-" else "+".intercalate (s.locks.map fun q => q.name ++ "," ++ b2s q.excl ++ "," ++ b2s q.perObj))

def findSite (loc fn : String) (w : Bool) : Option Site :=
  match implSites.find? (fun s => s.loc == loc && s.fn == fn && s.write == w) with
  | some s => some s
  | none =>
    -- a function that only reads a location never written after initialisation
    if w then none else implSites.find? (fun s => s.loc == loc && s.fn == "<readers>")

def parseE : Nat → List String → Option (Expr × List String)
  | 0, _ => none
  | _ + 1, [] => none
  | fuel + 1, tok :: rest =>
    match tok.toList with
    | 'L' :: ds => (String.ofList ds).toNat?.map fun n => (Expr.lit n, rest)
    | 'G' :: ds => (String.ofList ds).toNat?.map fun n => (Expr.glob n, rest)
    | 'I' :: ds => (String.ofList ds).toNat?.map fun n => (Expr.imp n, rest)
    | 'C' :: ds =>
      match (String.ofList ds).toNat?, parseE fuel rest with
      | some ty, some (e, r) => some (Expr.conv ty e, r)
      | _, _ => none
    | ['A'] =>
      match parseE fuel rest with
      | some (a, r1) =>
        match parseE fuel r1 with
        | some (b, r2) => some (Expr.add a b, r2)
        | none => none
      | none => none
    | _ => none

def parseStmt (s : String) : Option Stmt :=
  match s.splitOn "=" with
  | [t, e] =>
    let toks := (e.splitOn " ").filter (· ≠ "")
    match t.toNat?, parseE (toks.length + 1) toks with
    | some t, some (ex, []) => some ⟨t, ex⟩
    | _, _ => none
  | _ => none

def showNats (xs : List Nat) : String :=
  if xs.isEmpty then "-" else ",".intercalate (xs.map toString)


def parsePolicy : String → Option Policy
  | "fresh" => some .fresh
  | "pooled" => some .pooled
  | "cached" => some .cached
  | _ => none

def parseREv (tok : String) : Option REv :=
  match tok.toList with
  | 'a' :: ds => (String.ofList ds).toNat?.map REv.acq
  | 'r' :: ds => (String.ofList ds).toNat?.map REv.rd
  | 'x' :: ds => (String.ofList ds).toNat?.map REv.rel
  | 'w' :: ds =>
    match (String.ofList ds).splitOn ":" with
    | [t, v] =>
      match t.toNat?, v.toNat? with
      | some t, some v => some (REv.wr t v)
      | _, _ => none
    | _ => none
  | _ => none

def parseMEv (tok : String) : Option MEv :=
  match tok.toList with
  | 's' :: ds => (String.ofList ds).toNat?.map MEv.start
  | 'i' :: ds => (String.ofList ds).toNat?.map MEv.instr
  | 'f' :: ds => (String.ofList ds).toNat?.map MEv.finish
  | 'c' :: ds => (String.ofList ds).toNat?.map MEv.cancel
  | _ => none

def parseWatchPolicy : String → Option WatchPolicy
  | "perRun" => some .perRun
  | "registry" => some .registry
  | _ => none

def parseCEv (tok : String) : Option CEv :=
  match tok.toList with
  | 's' :: ds =>
    match (String.ofList ds).splitOn ":" with
    | [e, c] =>
      match e.toNat?, c.toNat? with
      | some e, some c => some (CEv.start e c)
      | _, _ => none
    | _ => none
  | 'i' :: ds => (String.ofList ds).toNat?.map CEv.instr
  | 'f' :: ds => (String.ofList ds).toNat?.map CEv.finish
  | 'c' :: ds => (String.ofList ds).toNat?.map CEv.cancel
  | _ => none

def parseGEv (tok : String) : Option GEv :=
  match tok.toList with
  | 'b' :: ds => (String.ofList ds).toNat?.map GEv.build
  | k :: ds =>
    match k, ((String.ofList ds).splitOn ":").mapM (·.toNat?) with
    | 'd', some [e, m, a] => some (GEv.deny e m a)
    | 'o', some [e, m, a, v] => some (GEv.override e m a v)
    | 'u', some [e, m, a] => some (GEv.use e m a)
    | _, _ => none
  | _ => none

def parseImpPolicy : String → Option ImpPolicy
  | "codeOnly" => some .codeOnly
  | "negative" => some .negative
  | _ => none

/-- `e:m:l` — evaluation `e` imports module `m`, its context live (`l = 1`) or ending during the load -/
def parseIEv (tok : String) : Option IEv :=
  match (tok.splitOn ":").mapM (·.toNat?) with
  | some [e, m, l] => some ⟨e, m, l == 1⟩
  | _ => none

def parseFsEntry (t : String) : Option (Nat × Nat) :=
  match (t.splitOn "=").mapM (·.toNat?) with
  | some [m, k] => some (m, k)
  | _ => none

/-- `m=k;m=k`: the source tree (modules not listed are missing) -/
def parseFs (s : String) : Option (Nat → Nat) :=
  ((if s == "-" then [] else s.splitOn ";").mapM parseFsEntry).map fun tbl m => (ilook tbl m).getD 0

/-- the cells evaluation `e` reads, in order of first read -/
def cellsUsed (evs : List GEv) (e : Nat) : List (Nat × Nat) :=
  (evs.filterMap fun ev => match ev with
    | .use e' m a => if e' == e then some (m, a) else none
    | _ => none).eraseDups

def showCells (f : Nat → Nat → List Nat) (cells : List (Nat × Nat)) : String :=
  if cells.isEmpty then "-" else
    ";".intercalate (cells.map fun c => toString c.1 ++ "." ++ toString c.2 ++ "=" ++ showNats (f c.1 c.2))

def showOutcome (o : MOutcome) : String :=
  toString o.loads ++ ":" ++ (match o.halted with | some i => toString i | none => "-")

def splitEvents (s : String) : List String := if s == "-" then [] else s.splitOn ","

def handle : List String → String
  | ["table"] => ";".intercalate (implSites.map showSite)
  | ["pair", la, fa, wa, lb, fb, wb] =>
    match findSite la fa (wa == "1"), findSite lb fb (wb == "1") with
    | some a, some b =>
      if pairOK a b then "ordered"
      else "racy\t" ++ (let f := findingOf a b; if f == "" then "-" else f)
    | _, _ => "unknown-site"
  | ["vm", ng, nt, prog, sched] =>
    match ng.toNat?, nt.toNat?, (prog.splitOn ";").mapM parseStmt,
        (if sched == "-" then some [] else (sched.splitOn ",").mapM (·.toNat?)) with
    | some ng, some nt, some code, some sched =>
      let sh : Shared := { code := code, convCache := [], modCache := [] }
      let pool : Nat → VM := fun _ => load sh ng
      let fin := (runSched sh pool sched).2
      "ok\t" ++ showNats (aloneResult code ng) ++ "\t"
        ++ "|".intercalate ((List.range nt).map fun t => toString t ++ ":" ++ showNats (fin t).globals)
    | _, _, _, _ => "error\tbad-vm-request"
  | ["res", pol, na, evs] =>
    match parsePolicy pol, na.toNat?, (splitEvents evs).mapM parseREv with
    | some p, some n, some evs =>
      "ok\t" ++ "|".intercalate ((List.range n).map fun t => toString t ++ ":" ++ showNats (observed p evs t))
        ++ "\t" ++ "|".intercalate ((List.range n).map fun t => toString t ++ ":" ++ showNats (observedAlone p evs t))
    | _, _, _ => "error\tbad-res-request"
  | ["mach", pol, ne, evs] =>
    match parsePolicy pol, ne.toNat?, (splitEvents evs).mapM parseMEv with
    | some p, some n, some evs =>
      "ok\t" ++ "|".intercalate ((List.range n).map fun e => toString e ++ ":" ++ showOutcome (machineOutcome p evs e))
        ++ "\t" ++ "|".intercalate ((List.range n).map fun e => toString e ++ ":" ++ showOutcome (machineOutcomeAlone p evs e))
    | _, _, _ => "error\tbad-mach-request"
  | ["ctxs", pol, ne, evs] =>
    match parseWatchPolicy pol, ne.toNat?, (splitEvents evs).mapM parseCEv with
    | some p, some n, some evs =>
      "ok\t" ++ "|".intercalate ((List.range n).map fun e => toString e ++ ":" ++ showOutcome (ctxOutcome p evs e))
        ++ "\t" ++ "|".intercalate ((List.range n).map fun e => toString e ++ ":" ++ showOutcome (ctxOutcomeAlone p evs e))
    | _, _, _ => "error\tbad-ctxs-request"
  | ["cfg", pol, ne, evs] =>
    match parsePolicy pol, ne.toNat?, (splitEvents evs).mapM parseGEv with
    | some p, some n, some evs =>
      "ok\t" ++ "|".intercalate ((List.range n).map fun e =>
          toString e ++ ":" ++ showCells (fun m a => attrSeen p evs e m a) (cellsUsed evs e))
        ++ "\t" ++ "|".intercalate ((List.range n).map fun e =>
          toString e ++ ":" ++ showCells (fun m a => attrSeenAlone p evs e m a) (cellsUsed evs e))
    | _, _, _ => "error\tbad-cfg-request"
  | ["imps", pol, ne, fs, evs] =>
    match parseImpPolicy pol, ne.toNat?, parseFs fs, (splitEvents evs).mapM parseIEv with
    | some p, some n, some fs, some evs =>
      "ok\t" ++ "|".intercalate ((List.range n).map fun e => toString e ++ ":" ++ showNats (importsSeen p fs evs e))
        ++ "\t" ++ "|".intercalate ((List.range n).map fun e => toString e ++ ":" ++ showNats (importsSeenAlone p fs evs e))
    | _, _, _, _ => "error\tbad-imps-request"
  | ["regrows"] =>
    ";".intercalate (registryRows.map fun r =>
      r.1 ++ "|" ++ r.2.1 ++ "|" ++ (if r.2.2.1 == "" then "-" else r.2.2.1) ++ "|" ++ r.2.2.2 ++ "|" ++ b2s (regRowOK r))
  | ["machsrc", fn] => if machineFresh machineSourceRows 6 fn then "fresh" else "not-fresh"
  | _ => "error\tunknown-request"

end Risor.C09
