import RisorModel.Util
/-! Line-protocol front end of the C09 model (stub until the model exists). -/
namespace Risor.C09

def handle : List String → String
  | _ => "error\tnot-implemented"

end Risor.C09
