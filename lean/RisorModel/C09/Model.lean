/-
C09 — evaluations on separate VMs are safe to run concurrently.

Six executable models, core Lean only.

1. A trace model of threads acquiring/releasing mutexes (exclusive or shared mode, as Go's
   `sync.Mutex` / `sync.RWMutex`) and accessing shared locations.  An access event carries
   the *site* it is an instance of; a site claims the locks that are syntactically held
   around it (the extractor's E8 table), and `step` rejects an access whose claimed locks
   are not in fact held.  `Ordered` is the release→acquire edge between two accesses.

2. The lockset discipline over a table of sites (`pairOK`, `locksetOK`) and the reviewed
   table `implSites` of the code AS IT IS (frozen from the extractor's output at the pinned
   tree, compared with the regenerated one in `Ties.lean`).  At the pinned commit
   `GoType.GetConverter` took no lock, so the sites below it had an empty lockset
   (`preFixRows`); that defect was repaired in /repo and the table follows the repaired code.
   What remains is `Clone` against a re-run of the same VM.

3. A small VM model for `isolated_results`: each evaluation owns its globals and its wrapped
   copy of the compiled code; the compiled code, the converter cache and the importer cache
   are shared.  One step = one statement.

4. State handed out to evaluations by process-wide allocators (§4): the machine behind `vm.Run`
   and the objects that come out of registries (`GoType.GetAttr` …), as resources that agents
   acquire, write through, observe and release under an allocation policy (`fresh` = the code as
   it is; `pooled`, `cached` = contrast variants); reviewed twins of the regenerated tables
   `machineSources`, `registryReturns`, `registryTypes`.

5. Contexts shared by evaluations (§5): evaluations start, make trips round the eval loop and finish
   under contexts that end; `perRun` = the code as it is (one watcher goroutine per run), `registry` =
   the contrast (a process-wide table of watches released by the first run that ends); reviewed
   twin of `haltWrites`.

6. Configurations (§6): `DefaultGlobals` calls, in-place edits of standard-library modules by
   configuration options and attribute reads, as the resource model of §4 once per module attribute;
   reviewed twin of `libVars`.
-/
namespace Risor.C09

/-! ## 1. Locks and traces -/

abbrev Tid := Nat
/-- a mutex: (class name, object instance); instance 0 for package-level mutexes -/
abbrev Lock := String × Nat

structure LockReq where
  name : String
  excl : Bool      -- held by `Lock()` (true) or `RLock()` (false)
  perObj : Bool    -- a field of the object the location belongs to
  deriving DecidableEq, Repr

structure Site where
  loc : String     -- package-level variable `pkg.name` or per-object field `pkg.Type.field`
  perObj : Bool
  fn : String      -- function containing the access
  write : Bool
  locks : List LockReq   -- must-hold lockset (interprocedural intersection over static callers)
  init : Bool      -- executed only during package initialisation
  deriving DecidableEq, Repr

inductive Ev where
  | acq (t : Tid) (l : Lock) (x : Bool)
  | rel (t : Tid) (l : Lock) (x : Bool)
  | acc (t : Tid) (inst : Nat) (s : Site)
  deriving DecidableEq, Repr

/-- lock state: exclusive holder and shared holders of every mutex -/
structure LS where
  w : Lock → Option Tid
  r : Lock → List Tid

def LS.init : LS := { w := fun _ => none, r := fun _ => [] }

def upd {α : Type} (f : Lock → α) (l : Lock) (v : α) : Lock → α :=
  fun k => if k = l then v else f k

/-- thread `t` holds `l` exclusively (`x = true`) resp. in shared mode -/
def holds (s : LS) (t : Tid) (l : Lock) (x : Bool) : Bool :=
  if x then s.w l == some t else (s.r l).contains t

def lockOf (q : LockReq) (inst : Nat) : Lock := (q.name, if q.perObj then inst else 0)

/-- one event; `none` when the event is not enabled (mutex semantics) or when an access
    claims a lock its thread does not hold -/
def step (s : LS) : Ev → Option LS
  | .acq t l true => if s.w l = none ∧ s.r l = [] then some { s with w := upd s.w l (some t) } else none
  | .acq t l false => if s.w l = none then some { s with r := upd s.r l (t :: s.r l) } else none
  | .rel t l true => if s.w l = some t then some { s with w := upd s.w l none } else none
  | .rel t l false => if t ∈ s.r l then some { s with r := upd s.r l ((s.r l).erase t) } else none
  | .acc t inst site =>
    if (site.perObj || inst == 0) && site.locks.all (fun q => holds s t (lockOf q inst) q.excl)
    then some s else none

def run : LS → List Ev → Option LS
  | s, [] => some s
  | s, e :: es => match step s e with
    | none => none
    | some s' => run s' es

/-- `t1` releases a mutex and later `t2` acquires the same mutex inside `mid`:
    the synchronisation edge that orders what `t1` did before `mid` before what `t2` does after -/
def Ordered (t1 t2 : Tid) (mid : List Ev) : Prop :=
  ∃ l x1 x2 a b c, mid = a ++ Ev.rel t1 l x1 :: (b ++ Ev.acq t2 l x2 :: c)

/-! ## 2. The lockset discipline over a table of sites -/

/-- host-configuration API: not called by any evaluation nor by the library itself
    (`Generated.unlockedWriters` shows who mentions them: nobody / cmd only) -/
def hostConfig : List String := ["errz.SetTypeErrorsAreFatal", "os.SetScriptArgs"]

/-- per-VM state: every function but `Clone` runs on the goroutine that owns the VM
    (serialised by `runMutex`/`running`) -/
def vmLocs : List String :=
  ["vm.VirtualMachine.globals", "vm.VirtualMachine.inputGlobals",
   "vm.VirtualMachine.loadedCode", "vm.VirtualMachine.modules"]

def ownerOnly (s : Site) : Bool := vmLocs.contains s.loc && s.fn != "vm.VirtualMachine.Clone"

/-- may run while another evaluation runs -/
def concurrent (s : Site) : Bool := !s.init && !hostConfig.contains s.fn

def commonLock (a b : Site) : Bool :=
  a.locks.any fun la => b.locks.any fun lb =>
    la.name == lb.name && la.perObj == lb.perObj && (la.excl || lb.excl)

def conflicting (a b : Site) : Bool :=
  a.loc == b.loc && (a.write || b.write) && concurrent a && concurrent b
    && !(ownerOnly a && ownerOnly b)

def pairOK (a b : Site) : Bool := !conflicting a b || commonLock a b

def locksetOK (T : List Site) : Bool := T.all fun a => T.all fun b => pairOK a b

def violations (T : List Site) : List (Site × Site) :=
  T.flatMap fun a => (T.filter fun b => !pairOK a b).map fun b => (a, b)

/-- row shape written by the extractor -/
abbrev Row := String × Bool × String × Bool × List (String × Bool × Bool) × Bool

def ofRow : Row → Site
  | (loc, po, fn, w, ls, i) =>
    { loc := loc, perObj := po, fn := fn, write := w,
      locks := ls.map (fun q => { name := q.1, excl := q.2.1, perObj := q.2.2 }), init := i }

private def gm : List (String × Bool × Bool) := [("object.goTypeMutex", true, false)]
private def cm : List (String × Bool × Bool) := [("vm.VirtualMachine.cloneMutex", true, true)]
private def rm : List (String × Bool × Bool) := [("vm.VirtualMachine.runMutex", true, true)]

/-- The reviewed inventory.  Read with the source next to it: `createTypeConverter`,
    `getTypeConverter`, `newGoType` say "the caller must hold goTypeMutex", and
    `NewTypeConverter`/`NewGoType`/`SetTypeConverter` take it.  At the pinned commit
    `GoType.GetConverter` (called by `Proxy.call` for every argument and result of a Go method)
    called `getTypeConverter` WITHOUT it, so the must-hold lockset of those rows was empty
    (`preFixRows`, finding C09-getconverter-unlocked); since the repair in /repo ("fix: take
    goTypeMutex in GoType.GetConverter") `GetConverter` locks and delegates to `getConverter`,
    and every path to these rows holds `goTypeMutex`. -/
def implRows : List Row := [
  ("builtins.codecs", false, "builtins.<pkg-init>", true, [], true),
  ("builtins.codecs", false, "builtins.GetCodec", false, [("builtins.mutex", false, false)], false),
  ("builtins.codecs", false, "builtins.RegisterCodec", false, [("builtins.mutex", true, false)], false),
  ("builtins.codecs", false, "builtins.RegisterCodec", true, [("builtins.mutex", true, false)], false),
  ("errz.typeErrorsAreFatal", false, "errz.<pkg-init>", true, [], true),
  ("errz.typeErrorsAreFatal", false, "errz.AreTypeErrorsFatal", false, [], false),
  ("errz.typeErrorsAreFatal", false, "errz.NewTypeError", false, [], false),
  ("errz.typeErrorsAreFatal", false, "errz.SetTypeErrorsAreFatal", true, [], false),
  ("importer.FSImporter.codeCache", true, "importer.FSImporter.Import", false, [("importer.FSImporter.mutex", true, true)], false),
  ("importer.FSImporter.codeCache", true, "importer.FSImporter.Import", true, [("importer.FSImporter.mutex", true, true)], false),
  ("importer.LocalImporter.codeCache", true, "importer.LocalImporter.Import", false, [("importer.LocalImporter.mutex", true, true)], false),
  ("importer.LocalImporter.codeCache", true, "importer.LocalImporter.Import", true, [("importer.LocalImporter.mutex", true, true)], false),
  ("importer.defaultExtensions", false, "importer.<pkg-init>", true, [], true),
  ("importer.defaultExtensions", false, "<readers>", false, [], false),
  ("object.False", false, "<readers>", false, [], false),
  ("object.False", false, "object.<pkg-init>", true, [], true),
  ("object.GoType.converter", true, "object.GoType.getConverter", false, gm, false),
  ("object.GoType.converter", true, "object.GoType.getConverter", true, gm, false),
  ("object.Nil", false, "<readers>", false, [], false),
  ("object.Nil", false, "object.<pkg-init>", true, [], true),
  ("object.True", false, "<readers>", false, [], false),
  ("object.True", false, "object.<pkg-init>", true, [], true),
  ("object.basicTypes", false, "object.<pkg-init>", true, [], true),
  ("object.basicTypes", false, "<readers>", false, [], false),
  ("object.byteCache", false, "object.<pkg-init>", true, [], true),
  ("object.byteCache", false, "<readers>", false, [], false),
  ("object.byteCache", false, "object.init", true, [], true),
  ("object.contextInterface", false, "object.<pkg-init>", true, [], true),
  ("object.contextInterface", false, "<readers>", false, [], false),
  ("object.errorInterface", false, "object.<pkg-init>", true, [], true),
  ("object.errorInterface", false, "<readers>", false, [], false),
  ("object.goTypeRegistry", false, "object.<pkg-init>", true, [], true),
  ("object.goTypeRegistry", false, "object.newGoType", false, gm, false),
  ("object.goTypeRegistry", false, "object.newGoType", true, gm, false),
  ("object.intCache", false, "object.<pkg-init>", true, [], true),
  ("object.intCache", false, "<readers>", false, [], false),
  ("object.intCache", false, "object.init", true, [], true),
  ("object.kindConverters", false, "object.<pkg-init>", true, [], true),
  ("object.kindConverters", false, "<readers>", false, [], false),
  ("object.typeConverters", false, "object.<pkg-init>", true, [], true),
  ("object.typeConverters", false, "object.SetTypeConverter", true, gm, false),
  ("object.typeConverters", false, "object.createTypeConverter", false, gm, false),
  ("object.typeConverters", false, "object.createTypeConverter", true, gm, false),
  ("object.typeConverters", false, "object.getTypeConverter", false, gm, false),
  ("op.infos", false, "op.<pkg-init>", true, [], true),
  ("op.infos", false, "<readers>", false, [], false),
  ("op.infos", false, "op.init", true, [], true),
  ("os.globalScriptargs", false, "os.<pkg-init>", true, [], true),
  ("os.globalScriptargs", false, "os.GetScriptArgs", false, [], false),
  ("os.globalScriptargs", false, "os.NewSimpleOS", false, [], false),
  ("os.globalScriptargs", false, "os.SetScriptArgs", true, [], false),
  ("vm.VirtualMachine.globals", true, "vm.VirtualMachine.Clone", false, cm, false),
  ("vm.VirtualMachine.globals", true, "vm.VirtualMachine.applyOptions", false, rm, false),
  ("vm.VirtualMachine.globals", true, "vm.VirtualMachine.applyOptions", true, rm, false),
  ("vm.VirtualMachine.globals", true, "vm.VirtualMachine.loadCode", false, [], false),
  ("vm.VirtualMachine.inputGlobals", true, "vm.VirtualMachine.Clone", false, cm, false),
  ("vm.VirtualMachine.inputGlobals", true, "vm.VirtualMachine.applyOptions", false, rm, false),
  ("vm.VirtualMachine.inputGlobals", true, "vm.WithGlobals", true, [], false),
  ("vm.VirtualMachine.loadedCode", true, "vm.VirtualMachine.Clone", false, cm, false),
  ("vm.VirtualMachine.loadedCode", true, "vm.VirtualMachine.loadCode", false, [], false),
  ("vm.VirtualMachine.loadedCode", true, "vm.VirtualMachine.loadCode", true, cm, false),
  ("vm.VirtualMachine.loadedCode", true, "vm.VirtualMachine.reloadCode", false, [], false),
  ("vm.VirtualMachine.loadedCode", true, "vm.VirtualMachine.reloadCode", true, cm, false),
  ("vm.VirtualMachine.loadedCode", true, "vm.VirtualMachine.resetForNewCode", true, [], false),
  ("vm.VirtualMachine.loadedCode", true, "vm.VirtualMachine.runCodeInternal", false, [], false),
  ("vm.VirtualMachine.modules", true, "vm.VirtualMachine.Clone", false, cm, false),
  ("vm.VirtualMachine.modules", true, "vm.VirtualMachine.applyOptions", true, rm, false),
  ("vm.VirtualMachine.modules", true, "vm.VirtualMachine.importModule", false, [], false),
  ("vm.VirtualMachine.modules", true, "vm.VirtualMachine.importModule", true, cm, false),
  ("vm.VirtualMachine.modules", true, "vm.VirtualMachine.resetForNewCode", true, [], false)
]

def implSites : List Site := implRows.map ofRow

/-- the rows of the converter registries as they were BEFORE the repair of `GetConverter`
    (empty must-hold locksets): kept so that the defect stays a checked statement -/
def preFixRows : List Row := [
  ("object.GoType.converter", true, "object.GoType.GetConverter", false, [], false),
  ("object.GoType.converter", true, "object.GoType.GetConverter", true, [], false),
  ("object.goTypeRegistry", false, "object.<pkg-init>", true, [], true),
  ("object.goTypeRegistry", false, "object.newGoType", false, [], false),
  ("object.goTypeRegistry", false, "object.newGoType", true, [], false),
  ("object.typeConverters", false, "object.<pkg-init>", true, [], true),
  ("object.typeConverters", false, "object.SetTypeConverter", true, gm, false),
  ("object.typeConverters", false, "object.createTypeConverter", false, [], false),
  ("object.typeConverters", false, "object.createTypeConverter", true, [], false),
  ("object.typeConverters", false, "object.getTypeConverter", false, [], false)
]

/-- the three locations reached through `GoType.GetConverter` (finding C09-getconverter-unlocked,
    repaired: they are now covered by the discipline like every other location) -/
def getConverterLocs : List String :=
  ["object.typeConverters", "object.goTypeRegistry", "object.GoType.converter"]

/-- guard of finding C09-clone-during-rerun: per-VM maps read by `Clone` under `cloneMutex`
    but replaced/modified by a re-run of the same VM without it -/
def cloneRerunLocs : List String := vmLocs

def knownRacyLoc (loc : String) : Bool := cloneRerunLocs.contains loc

/-- which known finding (if any) a racy pair of sites falls under -/
def findingOf (a b : Site) : String :=
  if a.loc != b.loc then ""
  else if cloneRerunLocs.contains a.loc
      && (a.fn == "vm.VirtualMachine.Clone" || b.fn == "vm.VirtualMachine.Clone") then "C09-clone-during-rerun"
  else ""

/-- the table after the obvious repairs: (historical, for `preFixRows`) `GetConverter` takes
    `goTypeMutex`; the re-run paths take `cloneMutex` around their writes -/
def repair (s : Site) : Site :=
  if getConverterLocs.contains s.loc && s.locks.isEmpty && concurrent s then
    { s with locks := [{ name := "object.goTypeMutex", excl := true, perObj := false }] }
  else if cloneRerunLocs.contains s.loc && s.write && s.fn != "vm.VirtualMachine.Clone" then
    { s with locks := [{ name := "vm.VirtualMachine.cloneMutex", excl := true, perObj := true }] }
  else s

/-- facts about shared compiled code (reviewed twins of the generated lists) -/
def codeCallsReviewed : List String :=
  ["Code.Constant", "Code.ConstantsCount", "Code.Global", "Code.GlobalNames", "Code.GlobalsCount",
   "Code.Instruction", "Code.InstructionCount", "Code.IsNamed", "Code.LocalsCount", "Code.Name",
   "Code.NameCount", "Code.Root", "Code.Source", "Function.Code", "Function.Default",
   "Function.DefaultsCount", "Function.Name", "Function.Parameter", "Function.ParametersCount"]

def disjoint (xs ys : List String) : Bool := xs.all fun x => !ys.contains x

/-! ## 3. VM model for result isolation -/

inductive Expr where
  | lit (n : Nat)
  | glob (i : Nat)
  | add (a b : Expr)
  | conv (ty : Nat) (e : Expr)     -- call a Go method whose parameter type is `ty` (first use fills the cache)
  | imp (m : Nat)                  -- import module `m` through the shared importer (cached compiled code)
  deriving Repr, DecidableEq

/-- `set i e` is the risor statement `g<i> = e` -/
structure Stmt where
  target : Nat
  rhs : Expr
  deriving Repr, DecidableEq

/-- what the converter for type `ty` computes (the Go methods used by the harness) -/
def convFn (ty v : Nat) : Nat := v % 1000 + ty + 1
/-- the value a module exports (the harness's module files) -/
def modFn (m : Nat) : Nat := 100 + m

abbrev Cache := List (Nat × Nat)

/-- package-level / importer state shared by all evaluations -/
structure Shared where
  code : List Stmt          -- the compiled code, shared read-only
  convCache : Cache         -- typeConverters / GoType.converter: type ↦ converter (its tag)
  modCache : Cache          -- importer codeCache: module ↦ compiled module (its export)
  deriving Repr

/-- one evaluation's own state -/
structure VM where
  ip : Nat
  globals : List Nat
  wrapped : List Stmt       -- `wrapCode`'s private copy of the shared code
  deriving Repr, DecidableEq

def lookupOr (c : Cache) (k : Nat) (mk : Nat → Nat) : Nat × Cache :=
  match c.lookup k with
  | some v => (v, c)
  | none => (mk k, (k, mk k) :: c)

/-- converter tag of a type: its own number (a converter is determined by its type) -/
def mkConv (ty : Nat) : Nat := ty

def evalE (g : List Nat) : Expr → Cache × Cache → Nat × (Cache × Cache)
  | .lit n, cs => (n, cs)
  | .glob i, cs => (g.getD i 0, cs)
  | .add a b, cs =>
    let (x, cs1) := evalE g a cs
    let (y, cs2) := evalE g b cs1
    (x + y, cs2)
  | .conv ty e, cs =>
    let (v, cs1) := evalE g e cs
    let (tag, cc) := lookupOr cs1.1 ty mkConv
    (convFn tag v, (cc, cs1.2))
  | .imp m, cs =>
    let (v, mc) := lookupOr cs.2 m modFn
    (v, (cs.1, mc))

/-- `wrapCode`/`loadCode`: the VM's own copy of the shared compiled code -/
def load (sh : Shared) (nGlobals : Nat) : VM :=
  { ip := 0, globals := List.replicate nGlobals 0, wrapped := sh.code.map id }

/-- one statement of one evaluation -/
def vmStep (sh : Shared) (vm : VM) : Shared × VM :=
  match vm.wrapped[vm.ip]? with
  | none => (sh, vm)
  | some st =>
    let (v, cs) := evalE vm.globals st.rhs (sh.convCache, sh.modCache)
    ({ sh with convCache := cs.1, modCache := cs.2 },
     { vm with ip := vm.ip + 1, globals := vm.globals.set st.target v })

/-- an evaluation run alone for `k` steps on its own shared state -/
def runAlone (sh : Shared) (vm : VM) : Nat → Shared × VM
  | 0 => (sh, vm)
  | k + 1 => let (sh', vm') := vmStep sh vm; runAlone sh' vm' k

/-- any interleaving: `sched` names the evaluation that takes the next step -/
def runSched (sh : Shared) (pool : Nat → VM) : List Nat → Shared × (Nat → VM)
  | [] => (sh, pool)
  | t :: ts =>
    let (sh', vm') := vmStep sh (pool t)
    runSched sh' (fun k => if k = t then vm' else pool k) ts

/-- caches are transparent: whatever they hold is what would be computed -/
def CacheOK (c : Cache) (mk : Nat → Nat) : Prop := ∀ k v, (k, v) ∈ c → v = mk k

def SharedOK (sh : Shared) : Prop := CacheOK sh.convCache mkConv ∧ CacheOK sh.modCache modFn

/-- final result of an evaluation of `code` with `n` globals, run alone from empty caches -/
def aloneResult (code : List Stmt) (n : Nat) : List Nat :=
  (runAlone { code := code, convCache := [], modCache := [] }
    (load { code := code, convCache := [], modCache := [] } n) code.length).2.globals

/-! ## 4. State handed out to evaluations by process-wide allocators

Two things an evaluation receives from state that OUTLIVES it:

* its machine: `vm.Run` (behind `risor.Eval` / `EvalCode`) obtains a `*VirtualMachine`.  The
  code as it is allocates one per call (`New` → `createVM` → `&VirtualMachine{}`).  A context
  watcher goroutine (`start`: `<-ctx.Done(); atomic.StoreInt32(&vm.halt, 1)`) keeps a
  reference to the machine after the evaluation has returned;
* objects from process-wide registries: `GoType.GetAttr("attributes")` and friends hand a
  script an object that comes out of `goTypeRegistry`.  The script keeps it and may edit it.

Both are instances of one machine: agents (`t`) obtain a resource (`acq`), write through the
reference they hold (`wr`: a script edits the map; the watcher of a finished evaluation stores
`halt`), observe it (`rd`: the eval loop loads `halt` before every instruction; a script prints
the map) and end (`rel`: the resource goes back to the allocator — the agent KEEPS its
reference, that is the point).  The allocator's policy is the only difference between the code
as it is (`fresh`) and the two contrast variants (`pooled`: a recycled machine, reset on reuse;
`cached`: one object for everybody, built on first use). -/

inductive Policy where
  | fresh     -- a new resource per request (the code as it is: `New(...)`, `NewMap(t.attrMap())`)
  | pooled    -- released resources are reset and handed out again (a `sync.Pool` of machines)
  | cached    -- the first resource ever built is handed to every request (a cache field in the registry)
  deriving DecidableEq, Repr

inductive REv where
  | acq (t : Nat)
  | wr (t : Nat) (v : Nat)
  | wrUnless (t : Nat) (bad v : Nat)   -- write `v` unless the resource holds `bad` (a refused edit: §6)
  | rd (t : Nat)
  | rel (t : Nat)
  deriving DecidableEq, Repr

def REv.agent : REv → Nat
  | .acq t => t
  | .wr t _ => t
  | .wrUnless t _ _ => t
  | .rd t => t
  | .rel t => t

structure RState where
  cells : List Nat             -- resource `i` currently holds `cells[i]`
  free : List Nat              -- released resources (used by `pooled` only)
  held : Nat → Option Nat      -- the reference agent `t` holds (kept after `rel`)
  log : Nat → List Nat         -- what agent `t` has observed so far

def RState.empty : RState := { cells := [], free := [], held := fun _ => none, log := fun _ => [] }

/-- the allocator: which resource a request gets, and the state afterwards -/
def alloc (p : Policy) (s : RState) : Nat × RState :=
  match p with
  | .fresh => (s.cells.length, { s with cells := s.cells ++ [0] })
  | .pooled =>
    match s.free with
    | r :: fr => (r, { s with cells := s.cells.set r 0, free := fr })   -- `reset()`
    | [] => (s.cells.length, { s with cells := s.cells ++ [0] })
  | .cached =>
    if s.cells.isEmpty then (0, { s with cells := [0] }) else (0, s)

def rstep (p : Policy) (s : RState) : REv → RState
  | .acq t =>
    let (r, s') := alloc p s
    { s' with held := fun k => if k = t then some r else s'.held k }
  | .wr t v =>
    match s.held t with
    | some r => { s with cells := s.cells.set r v }
    | none => s
  | .wrUnless t bad v =>
    match s.held t with
    | some r => if s.cells.getD r 0 = bad then s else { s with cells := s.cells.set r v }
    | none => s
  | .rd t =>
    match s.held t with
    | some r => { s with log := fun k => if k = t then s.log t ++ [s.cells.getD r 0] else s.log k }
    | none => s
  | .rel t =>
    match p, s.held t with
    | .pooled, some r => { s with free := r :: s.free }
    | _, _ => s

def rrun (p : Policy) (s : RState) : List REv → RState
  | [] => s
  | e :: es => rrun p (rstep p s e) es

/-- what agent `t` observes in a schedule, from the empty state -/
def observed (p : Policy) (evs : List REv) (t : Nat) : List Nat := (rrun p RState.empty evs).log t

/-- … and what it observes when only its own events happen (the stand-alone run) -/
def observedAlone (p : Policy) (evs : List REv) (t : Nat) : List Nat :=
  observed p (evs.filter fun e => e.agent == t) t

/-! ### 4a. machines: the events of evaluations through `vm.Run` -/

inductive MEv where
  | start (e : Nat)     -- `vm.Run`: obtain a machine, `start()` (halt := 0, spawn the watcher of e's context)
  | instr (e : Nat)     -- one trip round the eval loop: load `halt`, then dispatch
  | finish (e : Nat)    -- the evaluation returns; the machine is dropped / put back
  | cancel (e : Nat)    -- e's OWN context is cancelled (at any time: during, right after, long after its run)
  deriving DecidableEq, Repr

def MEv.toR : MEv → REv
  | .start e => .acq e
  | .instr e => .rd e
  | .finish e => .rel e
  | .cancel e => .wr e 1

def MEv.eval : MEv → Nat
  | .start e => e
  | .instr e => e
  | .finish e => e
  | .cancel e => e

/-- outcome of evaluation `e`: how many instructions it dispatched before it saw `halt = 1`
    (`none`: it never saw it) -/
def haltedAt (log : List Nat) : Option Nat := log.idxOf? 1

structure MOutcome where
  loads : Nat               -- trips round the eval loop
  halted : Option Nat       -- the trip at which `halt` was seen set
  deriving DecidableEq, Repr

def machineOutcome (p : Policy) (evs : List MEv) (e : Nat) : MOutcome :=
  let log := observed p (evs.map MEv.toR) e
  { loads := log.length, halted := haltedAt log }

def machineOutcomeAlone (p : Policy) (evs : List MEv) (e : Nat) : MOutcome :=
  machineOutcome p (evs.filter fun ev => ev.eval == e) e

/-! ### 4b. the table of what registry-resident objects hand out

`Generated.C09.registryReturns` lists, for every method (and every builtin closure built in a
method) of the Risor object types that live in process-wide registries and that returns an
`object.Object`, where each returned object comes from: `fresh` (constructed in the method body
or by a constructor all of whose returns are fresh), `field` / `elem` (read from the resident
object), `global`, `self`, `param`.  `registryTypes` lists those types with the receiver fields
that any method of theirs assigns. -/

/-- (method, source kind, detail, Go type of the returned expression) -/
abbrev RegRow := String × String × String × String

/-- Go types whose values a script cannot change: no method assigns a receiver field
    (`registryTypes`), `SetAttr` is `base`'s (always an error), and the only lazily written
    field (`GoType.converter`) is written under `goTypeMutex` and is not visible to scripts -/
def immutableObjTypes : List String :=
  ["*object.String", "*object.Int", "*object.Bool", "*object.NilType", "*object.Byte",
   "*object.GoType", "*object.GoField", "*object.GoMethod"]

def regRowOK (r : RegRow) : Bool :=
  r.2.1 == "fresh" || immutableObjTypes.contains r.2.2.2

/-- internal, lock-protected caches that are not reachable from scripts -/
def internalCacheFields : List (String × String) := [("object.GoType", "converter")]

def regTypeOK (t : String × List String) : Bool :=
  t.2.all fun f => internalCacheFields.contains (t.1, f)

/-- reviewed twin of `Generated.C09.registryTypes`: the Risor object types reachable from package-level
    state, with the receiver fields their methods assign.  (A `*object.Map`, `*object.List`, … here
    would mean a mutable container is kept in a registry.) -/
def registryTypeRows : List (String × List String) := [
  ("object.Bool", []),
  ("object.Byte", []),
  ("object.GoField", []),
  ("object.GoMethod", []),
  ("object.GoType", ["converter"]),
  ("object.Int", []),
  ("object.NilType", []),
  ("object.String", [])
]

/-- reviewed twin of `Generated.C09.registryReturns` (read with go_type.go / go_field.go /
    go_method.go next to it): `GoType.GetAttr("attributes")` builds a NEW map per request
    (`NewMap(t.attrMap())`), `GoMethod.GetAttr("error_indices")` a new list, `in_type` / `out_type`
    new builtins that hand out `*GoType` elements; everything read from a field is a `*String`,
    `*Int` or `*GoType`. -/
def registryRows : List RegRow := [
  ("object.Bool.Equals", "global", "object.False", "*object.Bool"),
  ("object.Bool.Equals", "global", "object.True", "*object.Bool"),
  ("object.Byte.Equals", "global", "object.False", "*object.Bool"),
  ("object.Byte.Equals", "global", "object.True", "*object.Bool"),
  ("object.Byte.RunOperation", "global", "object.byteCache[…]", "*object.Byte"),
  ("object.Byte.RunOperation", "global", "object.intCache[…]", "*object.Int"),
  ("object.Byte.runOperationByte", "global", "object.byteCache[…]", "*object.Byte"),
  ("object.Byte.runOperationInt", "global", "object.intCache[…]", "*object.Int"),
  ("object.GoField.Equals", "global", "object.False", "*object.Bool"),
  ("object.GoField.Equals", "global", "object.True", "*object.Bool"),
  ("object.GoField.GetAttr", "field", "fieldType", "*object.GoType"),
  ("object.GoField.GetAttr", "field", "name", "*object.String"),
  ("object.GoField.GetAttr", "field", "tag", "*object.String"),
  ("object.GoField.RunOperation", "fresh", "", "*object.Error"),
  ("object.GoMethod.Equals", "global", "object.False", "*object.Bool"),
  ("object.GoMethod.Equals", "global", "object.True", "*object.Bool"),
  ("object.GoMethod.GetAttr", "field", "name", "*object.String"),
  ("object.GoMethod.GetAttr", "field", "numIn", "*object.Int"),
  ("object.GoMethod.GetAttr", "field", "numOut", "*object.Int"),
  ("object.GoMethod.GetAttr", "fresh", "", "*object.Builtin"),
  ("object.GoMethod.GetAttr", "fresh", "", "*object.List"),
  ("object.GoMethod.GetAttr$func", "elem", "inputTypes", "*object.GoType"),
  ("object.GoMethod.GetAttr$func", "elem", "outputTypes", "*object.GoType"),
  ("object.GoMethod.GetAttr$func", "fresh", "", "*object.Error"),
  ("object.GoMethod.RunOperation", "fresh", "", "*object.Error"),
  ("object.GoType.Equals", "global", "object.False", "*object.Bool"),
  ("object.GoType.Equals", "global", "object.True", "*object.Bool"),
  ("object.GoType.GetAttr", "field", "name", "*object.String"),
  ("object.GoType.GetAttr", "field", "packagePath", "*object.String"),
  ("object.GoType.GetAttr", "fresh", "", "*object.Map"),
  ("object.GoType.GetAttr", "global", "object.False", "*object.Bool"),
  ("object.GoType.GetAttr", "global", "object.True", "*object.Bool"),
  ("object.GoType.RunOperation", "fresh", "", "*object.Error"),
  ("object.Int.Equals", "global", "object.False", "*object.Bool"),
  ("object.Int.Equals", "global", "object.True", "*object.Bool"),
  ("object.Int.RunOperation", "global", "object.intCache[…]", "*object.Int"),
  ("object.Int.runOperationFloat", "global", "object.intCache[…]", "*object.Int"),
  ("object.Int.runOperationInt", "global", "object.intCache[…]", "*object.Int"),
  ("object.NilType.Equals", "global", "object.False", "*object.Bool"),
  ("object.NilType.Equals", "global", "object.True", "*object.Bool"),
  ("object.String.Count", "global", "object.intCache[…]", "*object.Int"),
  ("object.String.Equals", "global", "object.False", "*object.Bool"),
  ("object.String.Equals", "global", "object.True", "*object.Bool"),
  ("object.String.GetAttr$func", "global", "object.False", "*object.Bool"),
  ("object.String.GetAttr$func", "global", "object.True", "*object.Bool"),
  ("object.String.GetAttr$func", "global", "object.intCache[…]", "*object.Int"),
  ("object.String.HasPrefix", "global", "object.False", "*object.Bool"),
  ("object.String.HasPrefix", "global", "object.True", "*object.Bool"),
  ("object.String.HasSuffix", "global", "object.False", "*object.Bool"),
  ("object.String.HasSuffix", "global", "object.True", "*object.Bool"),
  ("object.String.Index", "global", "object.intCache[…]", "*object.Int"),
  ("object.String.LastIndex", "global", "object.intCache[…]", "*object.Int")
]

/-- reviewed twin of `Generated.C09.machineSources`: `vm.Run` → `New` → `createVM` → `&VirtualMachine{}` -/
def machineSourceRows : List (String × String) := [
  ("vm.New", "call:vm.createVM"),
  ("vm.NewEmpty", "call:vm.createVM"),
  ("vm.Run", "call:vm.createVM"),
  ("vm.VirtualMachine.Clone", "new"),
  ("vm.VirtualMachine.cloneCallAsync", "call:vm.VirtualMachine.Clone"),
  ("vm.VirtualMachine.cloneCallSync", "call:vm.VirtualMachine.Clone"),
  ("vm.createVM", "new"),
  ("vm.newVM", "call:vm.New"),
  ("vm.run", "call:vm.newVM")
]

/-- a function of package vm hands out only machines that were allocated for this request:
    `new`, or the result of a function for which the same holds (fuel bounds the call depth) -/
def machineFresh (tbl : List (String × String)) : Nat → String → Bool
  | 0, _ => false
  | fuel + 1, fn =>
    let srcs := (tbl.filter fun r => r.1 == fn).map (·.2)
    !srcs.isEmpty && srcs.all fun src =>
      src == "new" || tbl.any fun r => src == "call:" ++ r.1 && machineFresh tbl fuel r.1

/-- reviewed list of package-level variables that are mutable in effect (name, kind): assigned
    outside initialisation, or of map/slice/pointer/chan type, or a non-`error` interface value, or a
    struct/array stored in the variable itself that carries references or is of a `sync` type
    (`sync.Pool`, `sync.Map`, `bytes.Buffer`, …), or whose storage is written / escapes (`v.f = …`,
    `v[i] = …`, `&v`, `v[:]`, a pointer-receiver method call).  A scratch buffer, pool or cache
    added at package level therefore shows up here and breaks the tie until it is reviewed.
    `object.contextInterface` / `object.errorInterface` are `reflect.Type` values that are only read. -/
def reviewedVars : List (String × String) := [
  ("builtins.codecs", "state"), ("builtins.mutex", "lock"), ("errz.typeErrorsAreFatal", "state"),
  ("importer.defaultExtensions", "state"), ("object.False", "state"), ("object.Nil", "state"),
  ("object.True", "state"), ("object.basicTypes", "state"), ("object.byteCache", "state"), ("object.contextInterface", "state"),
  ("object.errorInterface", "state"), ("object.goTypeMutex", "lock"),
  ("object.goTypeRegistry", "state"), ("object.intCache", "state"), ("object.kindConverters", "state"),
  ("object.typeConverters", "state"), ("op.infos", "state"), ("os.globalScriptargs", "state")]

/-- reviewed: the only unlocked writers of package-level variables outside initialisation, and
    who in the repository calls them (top-level directories, non-test files) -/
def reviewedUnlockedWriters : List (String × String × List String) := [
  ("errz.typeErrorsAreFatal", "errz.SetTypeErrorsAreFatal", []),
  ("os.globalScriptargs", "os.SetScriptArgs", ["cmd"])]

/-! ## 5. Contexts: several evaluations under ONE context

`vm.start` makes the machine's `halt` flag follow the context of the run: the code as it is parks one
goroutine PER RUN on `ctx.Done()` (`<-doneChan; atomic.StoreInt32(&vm.halt, 1)`).  A request context
is routinely shared: two scripts of one request, a worker pool under one deadline.  The property
demands that cancelling context `c` stops every evaluation running under `c` — exactly as it stops
that evaluation when it runs under `c` alone — and nobody else, whatever the other evaluations
under `c` do (start, finish, start again) in the meantime.

Machines are per evaluation (§4a, `fresh`), so the flag is indexed by the evaluation.  The contrast
policy `registry` is a package-level table context ↦ watched flags with ONE callback per context that
is torn down when a run under the context ends. -/

inductive WatchPolicy where
  | perRun     -- the code as it is: each run has its own watcher goroutine
  | registry   -- contrast: one callback per context in a process-wide table, released by the first `stop()`
  deriving DecidableEq, Repr

inductive CEv where
  | start (e c : Nat)   -- evaluation `e` starts a run under context `c`
  | instr (e : Nat)     -- one trip round `e`'s eval loop: load `halt`, then dispatch
  | finish (e : Nat)    -- `e`'s run returns (`stop()`)
  | cancel (c : Nat)    -- context `c` is cancelled / its deadline passes
  deriving DecidableEq, Repr

structure CState where
  ctxOf : Nat → Option Nat     -- the context `e`'s current (or last) run was started under
  done : Nat → Bool            -- context `c` is done
  halt : Nat → Nat             -- the halt flag of `e`'s machine
  log : Nat → List Nat         -- what `e`'s eval loop has loaded so far
  watch : Nat → List Nat       -- `registry` only: context ↦ evaluations whose flag its callback sets

def CState.empty : CState :=
  { ctxOf := fun _ => none, done := fun _ => false, halt := fun _ => 0, log := fun _ => [], watch := fun _ => [] }

def cstep : WatchPolicy → CState → CEv → CState
  | .perRun, s, .start e c =>
    { s with ctxOf := fun k => if k = e then some c else s.ctxOf k,
             halt := fun k => if k = e then (if s.done c then 1 else 0) else s.halt k }
  | .perRun, s, .instr e => { s with log := fun k => if k = e then s.log e ++ [s.halt e] else s.log k }
  | .perRun, s, .finish _ => s      -- the watcher stays parked: it refers to this run's machine only
  | .perRun, s, .cancel c =>
    { s with done := fun k => if k = c then true else s.done k,
             halt := fun k => if s.ctxOf k = some c then 1 else s.halt k }
  | .registry, s, .start e c =>
    { s with ctxOf := fun k => if k = e then some c else s.ctxOf k,
             halt := fun k => if k = e then (if s.done c then 1 else 0) else s.halt k,
             watch := fun k => if k = c then (if s.done c then s.watch c else s.watch c ++ [e]) else s.watch k }
  | .registry, s, .instr e => { s with log := fun k => if k = e then s.log e ++ [s.halt e] else s.log k }
  | .registry, s, .finish e =>
    match s.ctxOf e with
    | some c => { s with watch := fun k => if k = c then [] else s.watch k }   -- `unwatchContext`: the whole entry
    | none => s
  | .registry, s, .cancel c =>
    { s with done := fun k => if k = c then true else s.done k,
             halt := fun k => if (s.watch c).contains k then 1 else s.halt k,
             watch := fun k => if k = c then [] else s.watch k }

def crun (p : WatchPolicy) (s : CState) : List CEv → CState
  | [] => s
  | ev :: evs => crun p (cstep p s ev) evs

/-- does the event concern evaluation `e` in the schedule `evs`: its own events, and the end of
    every context it is ever started under in `evs` -/
def CEv.concerns (evs : List CEv) (e : Nat) : CEv → Bool
  | .start e' _ => e' == e
  | .instr e' => e' == e
  | .finish e' => e' == e
  | .cancel c => evs.contains (.start e c)

def ctxOutcome (p : WatchPolicy) (evs : List CEv) (e : Nat) : MOutcome :=
  let log := (crun p CState.empty evs).log e
  { loads := log.length, halted := haltedAt log }

/-- … and in the schedule that contains only what concerns `e`: `e` under its context(s), alone -/
def ctxOutcomeAlone (p : WatchPolicy) (evs : List CEv) (e : Nat) : MOutcome :=
  ctxOutcome p (evs.filter (CEv.concerns evs e)) e

/-- reviewed twin of `Generated.C09.haltWrites`: every place in package vm that writes the `halt`
    field of a machine or lets its address out of an atomic load/store: (function, how, what).
    `start` clears it and starts the goroutine literal that stores 1 after `<-doneChan`;
    `resetForNewCode` clears it.  Nothing else holds a reference to the flag. -/
def haltWriteRows : List (String × String × String) := [
  ("vm.VirtualMachine.resetForNewCode", "assign", "0"),
  ("vm.VirtualMachine.start", "assign", "0"),
  ("vm.VirtualMachine.start", "go-literal:atomic.StoreInt32", "1")
]

/-- every writer is a method of the machine itself, the only store of 1 sits in a goroutine started by
    `start`, and the flag's address is handed to nothing but `sync/atomic` -/
def haltRowOK (r : String × String × String) : Bool :=
  "vm.VirtualMachine.".toList.isPrefixOf r.1.toList && (r.2.1 == "assign" && r.2.2 == "0"
    || r.1 == "vm.VirtualMachine.start" && r.2.1 == "go-literal:atomic.StoreInt32")

/-! ## 6. Configurations: what an evaluation's options do to the standard library it is given

`risor.NewConfig` calls `DefaultGlobals()` (`build`), which constructs every module of the standard
library; `WithoutGlobal("m.a")` then removes attribute `a` from the module the Config holds
(`deny`: `Module.Override(a, nil)` — an IN-PLACE edit of the module object),
`WithGlobalOverride("m.a", v)` replaces it (`override`: refused when the attribute is not there), and
the script reads `m.a` (`use`).  Attributes are independent cells, so the library is the resource
model of §4 once per cell `(m, a)`: content 0 = as built, 1 = removed, `v + 2` = replaced by `v`.
`fresh` = the code as it is (a library per `DefaultGlobals` call); `cached` = the contrast (module
objects built once and handed to every Config). -/

inductive GEv where
  | build (e : Nat)
  | deny (e m a : Nat)
  | override (e m a v : Nat)
  | use (e m a : Nat)
  deriving DecidableEq, Repr

def GEv.agent : GEv → Nat
  | .build e => e
  | .deny e _ _ => e
  | .override e _ _ _ => e
  | .use e _ _ => e

/-- an in-place edit of a module -/
def GEv.isEdit : GEv → Bool
  | .deny .. => true
  | .override .. => true
  | _ => false

/-- the event as seen by the cell `(m, a)` -/
def GEv.toR (m a : Nat) : GEv → Option REv
  | .build e => some (.acq e)
  | .deny e m' a' => if m' = m ∧ a' = a then some (.wr e 1) else none
  | .override e m' a' v => if m' = m ∧ a' = a then some (.wrUnless e 1 (v + 2)) else none
  | .use e m' a' => if m' = m ∧ a' = a then some (.rd e) else none

/-- what evaluation `e` finds in attribute `a` of module `m`, use after use -/
def attrSeen (p : Policy) (evs : List GEv) (e m a : Nat) : List Nat :=
  observed p (evs.filterMap (GEv.toR m a)) e

/-- … when only its own configuration and uses happen -/
def attrSeenAlone (p : Policy) (evs : List GEv) (e m a : Nat) : List Nat :=
  attrSeen p (evs.filter fun ev => ev.agent == e) e m a

/-- reviewed twin of `Generated.C09.libVars`: the package-level variables of the root package and of
    the module packages `DefaultGlobals` builds the standard library from, with the functions that
    write them.  There is ONE, a literal map of option names that is only read: the root package
    and the standard-library modules have no place to keep an object between two calls, so what
    `DefaultGlobals` hands out is constructed by that call (the state of `object` and `builtins`
    is in the inventory of §2). -/
def libVarRows : List (String × String × List String) := [
  ("modules/exec.allowedKeys", "map[string]bool", [])
]

/-! ## 7. One importer, several evaluations, contexts that end during a first load

`LocalImporter` / `FSImporter` keep ONE piece of state between `Import` calls: the compiled code of
the modules loaded so far (`codeCache`, under the importer's mutex).  An import statement of
evaluation `e` for module `m` reaches `Importer.Import` (`IEv`); `live = false` says that `e`'s own
context ends between that call and the end of the parser's run over the module (the parser polls
`ctx.Done()` before every top-level statement).  A first load searches the source directory
(`fs m`: 0 = no such file, 1 = a file that does not compile, `v + 2` = a module exporting `v`),
parses and compiles under the CALLER's context; the outcome (`0` not found, `1` compile error,
`2` the caller's context ended, `v + 3` the module) belongs to that call.  `codeOnly` = the code as
it is (only compiled code is kept); `negative` = the contrast (a failure is kept as well, whatever
its cause). -/

inductive ImpPolicy where
  | codeOnly
  | negative
  deriving DecidableEq, Repr

structure IEv where
  e : Nat
  m : Nat
  live : Bool
  deriving DecidableEq, Repr

structure IState where
  code : List (Nat × Nat)
  errs : List (Nat × Nat)
  log : Nat → List (IEv × Nat)

def IState.empty : IState := { code := [], errs := [], log := fun _ => [] }

def ilook : List (Nat × Nat) → Nat → Option Nat
  | [], _ => none
  | (k, v) :: c, m => if m = k then some v else ilook c m

/-- a first load of `m` by a caller whose context is (not) live until the parser is done -/
def loadRes (fs : Nat → Nat) (m : Nat) (live : Bool) : Nat :=
  match fs m with
  | 0 => 0
  | k + 1 => if live = false then 2 else if k = 0 then 1 else k + 2

def ilog (s : IState) (ev : IEv) (r : Nat) : IState :=
  { s with log := fun t => if t = ev.e then s.log t ++ [(ev, r)] else s.log t }

def istep (p : ImpPolicy) (fs : Nat → Nat) (s : IState) (ev : IEv) : IState :=
  match ilook s.code ev.m with
  | some v => ilog s ev (v + 3)
  | none =>
    match (if p = .negative then ilook s.errs ev.m else none) with
    | some r => ilog s ev r
    | none =>
      let r := loadRes fs ev.m ev.live
      if 3 ≤ r then ilog { s with code := (ev.m, r - 3) :: s.code } ev r
      else if p = .negative then ilog { s with errs := (ev.m, r) :: s.errs } ev r
      else ilog s ev r

def irun (p : ImpPolicy) (fs : Nat → Nat) (s : IState) : List IEv → IState
  | [] => s
  | ev :: rest => irun p fs (istep p fs s ev) rest

/-- what evaluation `e`'s import statements get, import after import -/
def importsSeen (p : ImpPolicy) (fs : Nat → Nat) (evs : List IEv) (e : Nat) : List Nat :=
  ((irun p fs IState.empty evs).log e).map (·.2)

/-- … when `e` is the only evaluation that uses the importer -/
def importsSeenAlone (p : ImpPolicy) (fs : Nat → Nat) (evs : List IEv) (e : Nat) : List Nat :=
  importsSeen p fs (evs.filter fun ev => ev.e == e) e

/-- Spec: what the property demands of ONE import: under a context that stays live it gets what a
    first load under that context gets (the module, or the module's own, permanent failure),
    whatever other evaluations did to the importer before; only an import whose OWN context ended
    may report that (and may as well get a module somebody else finished loading). -/
def ImpOK (fs : Nat → Nat) (ev : IEv) (r : Nat) : Prop :=
  r = loadRes fs ev.m true ∨ (ev.live = false ∧ r = loadRes fs ev.m false)

end Risor.C09
