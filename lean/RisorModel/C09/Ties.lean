import RisorModel.C09.Model
import RisorModel.Generated.C09
/-!
C09 ties: the tables regenerated from /repo's working tree by the extractor (E8) on this run
equal the reviewed tables the theorems in `Props.lean` are stated over.
-/
namespace Risor.C09

/-- the package-level variables that are mutable in effect are exactly the reviewed ones -/
theorem shared_state_inventory_matches :
    Risor.Generated.C09.vars.map (fun v => (v.1, v.2.1)) = reviewedVars := by decide

/-- every access site (location, function, read/write, must-hold lockset, init phase) found in
    the source is the reviewed one, and vice versa -/
theorem access_sites_match : Risor.Generated.C09.sites = implRows := by rfl

/-- package vm/object call only methods of compiler.Code / compiler.Function that do not assign
    to their receiver; none of the methods hands out an internal slice or map; package vm never
    assigns to Instructions/Constants/Names of an existing wrapped code object -/
theorem compiled_code_shared_readonly :
    disjoint Risor.Generated.C09.codeCalls Risor.Generated.C09.codeMut = true
      ∧ Risor.Generated.C09.codeLeak = []
      ∧ Risor.Generated.C09.vmCodeFieldWrites = []
      ∧ Risor.Generated.C09.codeCalls = codeCallsReviewed := by decide

/-- the unlocked writers of package-level variables are the reviewed ones: two setters nobody
    in the library calls (host configuration) and the two functions of the known finding -/
theorem unlocked_writers_match :
    Risor.Generated.C09.unlockedWriters = reviewedUnlockedWriters := by decide

/-- the Risor object types that live in process-wide registries / caches, and the fields their
    methods assign, are the reviewed ones (a mutable container type appearing here breaks the tie) -/
theorem registry_types_match : Risor.Generated.C09.registryTypes = registryTypeRows := by decide

/-- every object a method of a registry-resident type hands out comes from where the reviewed
    table says: constructed per request, or read from a field / global of an immutable type -/
theorem registry_returns_match : Risor.Generated.C09.registryReturns = registryRows := by decide

/-- stated directly on the regenerated tables (so that a cached mutable object is named here, too) -/
theorem registry_generated_fresh_or_immutable :
    Risor.Generated.C09.registryReturns.all regRowOK = true
      ∧ Risor.Generated.C09.registryTypes.all regTypeOK = true := by decide

/-- where package vm gets its machines from is what was reviewed, and `vm.Run` (behind
    `risor.Eval` / `EvalCode`), `vm.New`, `vm.NewEmpty` and `Clone` allocate theirs per request -/
theorem machine_sources_match :
    Risor.Generated.C09.machineSources = machineSourceRows
      ∧ ["vm.Run", "vm.New", "vm.NewEmpty", "vm.VirtualMachine.Clone"].all
          (machineFresh Risor.Generated.C09.machineSources 6) = true := by decide

/-- who writes a machine's `halt` flag and where its address goes is what was reviewed: the machine's own
    methods, with the only store of 1 in the goroutine `start` parks on the run's context (the hypothesis
    `perRun` of `isolated_results_shared_contexts`; a flag handed to a process-wide table of watches
    shows up as an `escapes:` row) -/
theorem halt_writes_match :
    Risor.Generated.C09.haltWrites = haltWriteRows
      ∧ Risor.Generated.C09.haltWrites.all haltRowOK = true := by decide

/-- the root package and the module packages `DefaultGlobals` builds the standard library from have no
    package-level variable that is ever written: nowhere to keep a module between two calls (the
    hypothesis `fresh` of `config_isolated`; a cache of built modules shows up here) -/
theorem lib_vars_match :
    Risor.Generated.C09.libVars = libVarRows
      ∧ Risor.Generated.C09.libVars.all (fun r => r.2.2.isEmpty) = true := by decide

end Risor.C09
