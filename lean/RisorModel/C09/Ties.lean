import RisorModel.C09.Model
import RisorModel.Generated.C09
/-!
C09 ties: the tables regenerated from /repo's working tree by the extractor (E8) on this run
equal the reviewed tables the theorems in `Props.lean` are stated over.
-/
namespace Risor.C09

/-- the package-level variables that are mutable in effect are exactly the reviewed ones -/
theorem shared_state_inventory_matches :
    Risor.Generated.C09.vars.map (fun v => (v.1, v.2.1)) = reviewedVars := by decide

/-- every access site (location, function, read/write, must-hold lockset, init phase) found in
    the source is the reviewed one, and vice versa -/
theorem access_sites_match : Risor.Generated.C09.sites = implRows := by rfl

/-- package vm/object call only methods of compiler.Code / compiler.Function that do not assign
    to their receiver; none of the methods hands out an internal slice or map; package vm never
    assigns to Instructions/Constants/Names of an existing wrapped code object -/
theorem compiled_code_shared_readonly :
    disjoint Risor.Generated.C09.codeCalls Risor.Generated.C09.codeMut = true
      ∧ Risor.Generated.C09.codeLeak = []
      ∧ Risor.Generated.C09.vmCodeFieldWrites = []
      ∧ Risor.Generated.C09.codeCalls = codeCallsReviewed := by decide

/-- the unlocked writers of package-level variables are the reviewed ones: two setters nobody
    in the library calls (host configuration) and the two functions of the known finding -/
theorem unlocked_writers_match :
    Risor.Generated.C09.unlockedWriters = reviewedUnlockedWriters := by decide

end Risor.C09
