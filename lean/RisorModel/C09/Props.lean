import RisorModel.C09.Lemmas
/-!
C09 — property theorems.  Evaluations on separate VMs are safe to run concurrently.

* `lockset_sound`: for ANY table of access sites that passes the lockset check, ANY number of
  threads, ANY mutex-respecting interleaving (trace) of any length: two conflicting accesses
  by different threads are ordered by a release→acquire edge on a common mutex – no data race.
* the code as it is does NOT pass the check (`C09_counterexample_*`): a re-run of a VM replaces
  `loadedCode`/`modules` without the `cloneMutex` that `Clone` reads them under.  Everything
  else passes (`lockset_ok_except_known`, `C09_partial_no_race`) — including, since the repair
  of `GoType.GetConverter` in /repo, the converter registries (`C09_fixed_getconverter_*`,
  `C09_converter_registries_locked`).
* `vm_never_writes_code`, `isolated_results`: on the VM model, under sequentially consistent
  (i.e. race-free) execution, every interleaving of any number of evaluations gives each
  evaluation exactly the state it reaches alone, and never changes the shared compiled code.
* `isolated_results_machines`, `registry_isolated`, `shared_immutable_isolated`: what an evaluation
  gets from state that outlives it — its machine (`vm.Run`), objects out of process-wide registries
  (`x.__type__.attributes`, …) — is allocated for it or immutable, so writers that outlive other
  evaluations (context watchers, scripts editing what they were given) never reach it; the pooled /
  cached variants are kept as contrast definitions with counterexamples
  (`C09_contrast_pooled_machines`, `C09_contrast_cached_registry`);
  `registry_hands_out_fresh_or_immutable` checks the hypothesis on the regenerated table.
* `isolated_results_shared_contexts`, `cancel_reaches_every_run`: several evaluations under ONE context —
  whether and when a cancellation reaches an evaluation does not depend on what the other evaluations
  under that context (or any other) do; contrast `C09_contrast_watch_registry` (a process-wide table of
  watches released by the first run that ends).
* `config_isolated`, `config_readonly_may_share`: configuration options that edit modules in place
  (`WithoutGlobal("m.a")`, `WithGlobalOverride("m.a", v)`) reach only the evaluation they configure, because
  every `DefaultGlobals` call constructs its modules; contrast `C09_contrast_cached_modules`.
* `import_isolated`, `import_isolated_live`: evaluations sharing ONE importer, any of their contexts ending
  during any load — an import under a live context gets what it gets when its evaluation is the importer's
  only user, because the importer keeps compiled code only; contrast `C09_contrast_negative_import_cache`
  (an importer that remembers failures hands one evaluation's cancellation to the others).
-/
namespace Risor.C09

/-! ### the discipline is sound -/

/-- **Lockset soundness.**  Let `T` be any table of access sites with `locksetOK T`.  Take any
    trace (any number of threads, any length) that respects mutex semantics from a lock state
    satisfying the mutex invariant, in which two accesses `s1` by thread `t1` and, later, `s2`
    by a different thread `t2` touch the same object (`i`) of the same location, at least one
    writing, both sites from `T`, both able to run during evaluations, and not both confined
    to the owner goroutine of the object.  Then between them `t1` releases a mutex that `t2`
    afterwards acquires: the two accesses are ordered by synchronisation, they do not race. -/
theorem lockset_sound (T : List Site) (hT : locksetOK T = true)
    (s0 sN : LS) (hinv : Inv s0) (pre mid post : List Ev) (t1 t2 : Tid) (i : Nat) (s1 s2 : Site)
    (hrun : run s0 (pre ++ Ev.acc t1 i s1 :: (mid ++ Ev.acc t2 i s2 :: post)) = some sN)
    (h1 : s1 ∈ T) (h2 : s2 ∈ T) (hconf : conflicting s1 s2 = true) (hne : t1 ≠ t2) :
    Ordered t1 t2 mid := by
  -- a common lock, by the static check
  have hp : pairOK s1 s2 = true := by
    simp only [locksetOK, List.all_eq_true] at hT
    exact hT s1 h1 s2 h2
  have hcl : commonLock s1 s2 = true := by
    simp only [pairOK, hconf, Bool.not_true, Bool.false_or] at hp
    exact hp
  simp only [commonLock, List.any_eq_true, Bool.and_eq_true, beq_iff_eq] at hcl
  obtain ⟨la, hla, lb, hlb, ⟨hname, hpo⟩, hx⟩ := hcl
  -- split the run
  rw [run_append] at hrun
  cases hA : run s0 pre with
  | none => rw [hA] at hrun; simp at hrun
  | some sA =>
    rw [hA] at hrun
    simp only [Option.bind_some, run] at hrun
    split at hrun
    · cases hrun
    · rename_i sA' hstep1
      obtain ⟨hsame, hold1⟩ := acc_holds sA sA' t1 i s1 la hstep1 hla
      subst hsame
      rw [run_append] at hrun
      cases hB : run sA' mid with
      | none => rw [hB] at hrun; simp at hrun
      | some sB =>
        rw [hB] at hrun
        simp only [Option.bind_some, run] at hrun
        split at hrun
        · cases hrun
        · rename_i sB' hstep2
          obtain ⟨_, hold2⟩ := acc_holds sB sB' t2 i s2 lb hstep2 hlb
          have hlock : lockOf lb i = lockOf la i := by simp [lockOf, hname, hpo]
          rw [hlock] at hold2
          have hinvA : Inv sA' := run_inv pre s0 sA' hinv hA
          obtain ⟨a, b, c, habc⟩ := release_then_acquire mid sA' sB t1 t2 (lockOf la i) la.excl lb.excl
            hB hinvA hold1 hold2 hne hx
          exact ⟨lockOf la i, la.excl, lb.excl, a, b, c, habc⟩

/-- the same from the initial lock state (no mutex held) -/
theorem lockset_sound_from_init (T : List Site) (hT : locksetOK T = true)
    (sN : LS) (pre mid post : List Ev) (t1 t2 : Tid) (i : Nat) (s1 s2 : Site)
    (hrun : run LS.init (pre ++ Ev.acc t1 i s1 :: (mid ++ Ev.acc t2 i s2 :: post)) = some sN)
    (h1 : s1 ∈ T) (h2 : s2 ∈ T) (hconf : conflicting s1 s2 = true) (hne : t1 ≠ t2) :
    Ordered t1 t2 mid :=
  lockset_sound T hT LS.init sN inv_init pre mid post t1 t2 i s1 s2 hrun h1 h2 hconf hne

/-! ### the code as it is -/

/-- the full demand on the inventory of the code as it is: every conflicting pair of access
    sites that can run during evaluations holds a common mutex -/
def C09_full_lockset : Prop := locksetOK implSites = true

/-- it does not hold: `Clone` reads `loadedCode` / `modules` / `globals` under `cloneMutex` while
    a re-run of the same VM (`resetForNewCode`, `reloadCode`, `applyOptions`) replaces them
    without it -/
theorem C09_counterexample_lockset : ¬ C09_full_lockset := by
  unfold C09_full_lockset; decide

def cloneRead : Site := ofRow ("vm.VirtualMachine.loadedCode", true, "vm.VirtualMachine.Clone", false,
  [("vm.VirtualMachine.cloneMutex", true, true)], false)
def rerunWrite : Site := ofRow ("vm.VirtualMachine.loadedCode", true, "vm.VirtualMachine.resetForNewCode", true, [], false)
def cmLock1 : Lock := ("vm.VirtualMachine.cloneMutex", 1)

/-- the racy interleaving on VM object 1: thread 1 is inside `Clone` (holding that VM's
    `cloneMutex`) and reads `loadedCode`; thread 2, re-running the same VM, replaces the map in
    `resetForNewCode` without any lock -/
def racyTrace : List Ev :=
  [Ev.acq 1 cmLock1 true, Ev.acc 1 1 cloneRead, Ev.acc 2 1 rerunWrite, Ev.rel 1 cmLock1 true]

/-- a concrete, mutex-respecting trace over sites of the code as it is in which a read and a
    write of one VM's `loadedCode` by different threads are adjacent: no synchronisation orders
    them (a data race) -/
theorem C09_counterexample_trace :
    (run LS.init racyTrace).isSome = true ∧ cloneRead ∈ implSites ∧ rerunWrite ∈ implSites
      ∧ conflicting cloneRead rerunWrite = true ∧ ¬ Ordered 1 2 [] := by
  refine ⟨by decide, by decide, by decide, by decide, ?_⟩
  rintro ⟨l, x1, x2, a, b, c, h⟩
  cases a <;> simp at h

/-! ### the repaired defect, kept as checked statements -/

/-- BEFORE the repair ("fix: take goTypeMutex in GoType.GetConverter") the rows of the converter
    registries violated the discipline: `createTypeConverter`'s map write and
    `getTypeConverter`'s map read had an empty must-hold lockset -/
theorem C09_fixed_getconverter_was_racy : locksetOK (preFixRows.map ofRow) = false := by decide

/-- the repair that was made is the one the model predicted: adding `goTypeMutex` to exactly
    the unlocked concurrent rows of `preFixRows` gives the rows of the code as it is now, up to
    the renaming of the function that holds the accesses (`GetConverter` → `getConverter`) -/
theorem C09_fixed_getconverter_repair_predicted :
    ((preFixRows.map ofRow).map repair).map (fun s => (s.loc, s.write, s.locks, s.init))
      = ((implSites.filter fun s => getConverterLocs.contains s.loc).map fun s => (s.loc, s.write, s.locks, s.init)) := by
  decide

/-- AFTER it: the converter registries satisfy the discipline, so `C09_partial_no_race` below
    covers them (their locations are outside `guardKnown`) -/
theorem C09_converter_registries_locked :
    locksetOK (implSites.filter fun s => getConverterLocs.contains s.loc) = true
      ∧ getConverterLocs.all (fun l => !knownRacyLoc l) = true := by
  constructor <;> decide

/-- decidable guard: the locations of the recorded finding (Clone during a re-run) -/
def guardKnown (s : Site) : Bool := knownRacyLoc s.loc

/-- all other sites satisfy the discipline (tie: `implRows` is regenerated on every run) -/
theorem lockset_ok_except_known :
    locksetOK (implSites.filter fun s => !guardKnown s) = true := by decide

/-- every failing pair of the inventory falls under the finding's guard -/
theorem violations_are_known :
    (violations implSites).all (fun p => findingOf p.1 p.2 != "") = true := by decide

/-- with `cloneMutex` taken around the re-run's writes the whole inventory satisfies the
    discipline -/
theorem lockset_ok_after_repair : locksetOK (implSites.map repair) = true := by decide

/-- **No data race outside the known findings.**  In every mutex-respecting trace of any
    number of threads over the sites of the code as it is, two conflicting accesses by
    different threads to a location outside the guards are ordered by a release→acquire edge. -/
theorem C09_partial_no_race
    (sN : LS) (pre mid post : List Ev) (t1 t2 : Tid) (i : Nat) (s1 s2 : Site)
    (hrun : run LS.init (pre ++ Ev.acc t1 i s1 :: (mid ++ Ev.acc t2 i s2 :: post)) = some sN)
    (h1 : s1 ∈ implSites) (h2 : s2 ∈ implSites) (hg : guardKnown s1 = false)
    (hconf : conflicting s1 s2 = true) (hne : t1 ≠ t2) :
    Ordered t1 t2 mid := by
  have hloc : s1.loc = s2.loc := by
    simp only [conflicting, Bool.and_eq_true, beq_iff_eq] at hconf
    exact hconf.1.1.1.1
  have hg2 : guardKnown s2 = false := by simpa [guardKnown, ← hloc] using hg
  refine lockset_sound_from_init _ lockset_ok_except_known sN pre mid post t1 t2 i s1 s2 hrun ?_ ?_ hconf hne
  · exact List.mem_filter.2 ⟨h1, by simp [hg]⟩
  · exact List.mem_filter.2 ⟨h2, by simp [hg2]⟩

/-! ### compiled code is shared read-only; results are isolated -/

/-- no interleaving of any number of evaluations ever changes the shared compiled code -/
theorem vm_never_writes_code (sh : Shared) (pool : Nat → VM) (sched : List Nat) :
    (runSched sh pool sched).1.code = sh.code := by
  induction sched generalizing sh pool with
  | nil => rfl
  | cons t ts ih =>
    simp only [runSched]
    rw [ih]
    exact vmStep_code sh (pool t)

/-- **Isolated results.**  For every schedule (every interleaving, any number of evaluations),
    starting from any transparent shared caches: the state of evaluation `t` afterwards is
    exactly the state it reaches when it runs alone, for as many steps as the schedule gave
    it, on any (other) transparent shared state `sh0`. -/
theorem isolated_results (sched : List Nat) (sh sh0 : Shared) (pool : Nat → VM)
    (h : SharedOK sh) (h0 : SharedOK sh0) (t : Nat) :
    (runSched sh pool sched).2 t = (runAlone sh0 (pool t) (sched.count t)).2 := by
  induction sched generalizing sh pool with
  | nil => rfl
  | cons u ts ih =>
    have st := vmStep_ok sh sh0 (pool u) h h0
    simp only [runSched]
    rw [ih (vmStep sh (pool u)).1 _ st.2]
    by_cases hut : u = t
    · subst hut
      have st0 := vmStep_ok sh0 sh (pool u) h0 h
      simp only [↓reduceIte, List.count_cons_self, runAlone]
      rw [st.1]
      exact (runAlone_ok _ sh0 (vmStep sh0 (pool u)).1 _ h0 st0.2).1
    · have : (u == t) = false := by simpa using hut
      have htu : ¬ t = u := fun e => hut e.symm
      simp [List.count_cons, this, htu]

/-- the final globals of an evaluation that got exactly its `code.length` steps in an arbitrary
    interleaving with arbitrarily many others equal its result when run alone from empty caches -/
theorem isolated_results_final (sched : List Nat) (sh : Shared) (pool : Nat → VM) (n t : Nat)
    (h : SharedOK sh) (hload : pool t = load sh n) (hcount : sched.count t = sh.code.length) :
    ((runSched sh pool sched).2 t).globals = aloneResult sh.code n := by
  have h0 : SharedOK { code := sh.code, convCache := [], modCache := [] } := sharedOK_empty _
  rw [isolated_results sched sh _ pool h h0 t, hload, hcount]
  rfl

/-! ### state handed out by process-wide allocators: machines and registry objects -/

/-- **Isolated results for resources handed out per request.**  Under `fresh` allocation, for EVERY
    schedule of acquire / write / observe / release events of any number of agents — including
    writes by agents whose evaluation has long ended and who kept their reference (a context
    watcher) — what agent `t` observes is exactly what it observes when only its own events
    happen. -/
theorem isolated_results_resources (evs : List REv) (t : Nat) :
    observed .fresh evs t = observedAlone .fresh evs t :=
  (rrun_sim t evs RState.empty RState.empty rinv_empty (rrel_empty t)).1

/-- **Isolated results, machines.**  Evaluations started through `vm.Run` (`risor.Eval`,
    `risor.EvalCode`): every schedule of start / eval-loop trip / finish / cancel events of any number
    of evaluations, each under its own context that may be cancelled at any time (during its run,
    right after it returned, much later while other evaluations run).  Hypothesis `hfresh`: the
    allocator hands every evaluation a machine of its own (the code as it is, tie
    `machine_sources_match`).  Then the outcome of evaluation `e` — how many trips it made, and the
    trip at which it saw `halt` set — is its outcome in the schedule that contains only its own
    events: nothing that outlives another evaluation reaches `e`'s machine. -/
theorem isolated_results_machines (p : Policy) (hfresh : p = .fresh) (evs : List MEv) (e : Nat) :
    machineOutcome p evs e = machineOutcomeAlone p evs e := by
  subst hfresh
  have hcomm : (evs.filter fun ev => ev.eval == e).map MEv.toR
      = (evs.map MEv.toR).filter fun r => r.agent == e := by
    rw [List.filter_map]
    congr 1
    apply List.filter_congr
    intro ev _
    cases ev <;> rfl
  have h := isolated_results_resources (evs.map MEv.toR) e
  simp only [machineOutcomeAlone, machineOutcome, hcomm]
  unfold observedAlone at h
  rw [h]

/-- the full demand on a POOLED allocator (released machines are reset and handed out again) -/
def C09_full_pooled_machines : Prop :=
  ∀ (evs : List MEv) (e : Nat), machineOutcome .pooled evs e = machineOutcomeAlone .pooled evs e

/-- evaluation 0 runs and finishes; its machine is recycled for evaluation 1; then 0's context is
    cancelled (the server pattern `Eval(ctx, …); cancel()`): its watcher halts evaluation 1 -/
def pooledWitness : List MEv :=
  [.start 0, .instr 0, .finish 0, .start 1, .instr 1, .cancel 0, .instr 1, .finish 1]

/-- **Contrast: a pool of machines breaks it**, however thorough the reset: the watcher goroutine of a
    finished evaluation still refers to the machine.  Evaluation 1, whose own context is never
    cancelled, sees `halt` at its second trip. -/
theorem C09_contrast_pooled_machines : ¬ C09_full_pooled_machines := by
  intro h
  have := h pooledWitness 1
  revert this
  decide

/-- with fresh machines the same schedule leaves evaluation 1 alone (and the model is not trivial:
    evaluation 0 cancelled DURING its own run does see it) -/
example : machineOutcome .fresh pooledWitness 1 = { loads := 2, halted := none }
    ∧ machineOutcome .fresh [.start 0, .instr 0, .cancel 0, .instr 0] 0 = { loads := 2, halted := some 1 } := by
  constructor <;> decide

/-- **Objects from registries.**  Scripts obtain an object from a process-wide registry
    (`x.__type__.attributes`, `m.error_indices`, …), keep it, edit it (`wr`) and print it (`rd`) in any
    interleaving: when every request is answered with a newly built object, each evaluation
    observes what it observes alone. -/
theorem registry_isolated (evs : List REv) (t : Nat) :
    observed .fresh evs t = observedAlone .fresh evs t := isolated_results_resources evs t

/-- objects nobody can write to may be shared under ANY policy (cached in the registry, pooled,
    or fresh): schedules without write events -/
theorem shared_immutable_isolated (p : Policy) (evs : List REv) (t : Nat)
    (him : ∀ e ∈ evs, e.isWr = false) : observed p evs t = observedAlone p evs t :=
  (zrun_sim p t evs RState.empty RState.empty allZero_empty allZero_empty ⟨rfl, rfl⟩ him).1

/-- the full demand on a registry that CACHES a mutable object and hands it to every request -/
def C09_full_cached_registry : Prop :=
  ∀ (evs : List REv) (t : Nat), observed .cached evs t = observedAlone .cached evs t

/-- **Contrast: a cached mutable object breaks it**: evaluation 0 edits the map it was given,
    evaluation 1 — which never wrote — prints a different map than alone -/
theorem C09_contrast_cached_registry : ¬ C09_full_cached_registry := by
  intro h
  have := h [.acq 0, .acq 1, .wr 0 7, .rd 1] 1
  revert this
  decide

/-- **What the registries of the code as it is hand out.**  For every method of a Risor object
    type that lives in package-level state (`GoType`, `GoField`, `GoMethod` in `goTypeRegistry`;
    the `Int` / `Byte` caches; `Nil`, `True`, `False`) and every builtin built in such a method:
    each `object.Object` it returns is constructed for this request, or is of a type whose values no
    script can change.  (Table regenerated on every run: ties `registry_returns_match`,
    `registry_types_match`.)  Together with `registry_isolated` (fresh) and
    `shared_immutable_isolated` (immutable) this covers every row. -/
theorem registry_hands_out_fresh_or_immutable :
    ∀ r ∈ registryRows, r.2.1 = "fresh" ∨ r.2.2.2 ∈ immutableObjTypes := by
  have h : registryRows.all regRowOK = true := by decide
  intro r hr
  have := List.all_eq_true.1 h r hr
  simp only [regRowOK, Bool.or_eq_true, beq_iff_eq, List.contains_iff_mem] at this
  exact this

/-- the types called immutable are: none of their methods assigns a receiver field, except the
    lock-protected converter cache of `GoType` that scripts cannot reach -/
theorem registry_types_immutable :
    (∀ t ∈ immutableObjTypes, ∃ r ∈ registryTypeRows, "*" ++ r.1 = t)
      ∧ ∀ r ∈ registryTypeRows, ∀ f ∈ r.2, (r.1, f) ∈ internalCacheFields := by
  constructor
  · decide
  · have h : registryTypeRows.all regTypeOK = true := by decide
    intro r hr f hf
    have := List.all_eq_true.1 h r hr
    simp only [regTypeOK, List.all_eq_true, List.contains_iff_mem] at this
    exact this f hf

/-- the rule is not vacuous: it rejects the row a cached attributes map would produce, and the type
    row a resident `Map` would produce -/
example : regRowOK ("object.GoType.GetAttr", "field", "attributesMap", "*object.Map") = false
    ∧ regRowOK ("object.GoType.GetAttr", "fresh", "", "*object.Map") = true
    ∧ regTypeOK ("object.Map", ["inspectActive", "items"]) = false := by decide

/-- `vm.Run` and the other constructors allocate per request, and a pool is told apart -/
example : machineFresh machineSourceRows 6 "vm.Run" = true
    ∧ machineFresh [("vm.Run", "call:vm.acquireVM"), ("vm.acquireVM", "assert:vmPool.Get()")] 6 "vm.Run" = false := by
  decide

/-! ### several evaluations under one context (Model §5) -/

/-- **Isolated results, shared contexts.**  EVERY schedule of start / eval-loop trip / finish events of
    any number of evaluations and of cancellations (or expiries) of any number of contexts, with ANY
    assignment of evaluations to contexts — several evaluations under one context, evaluations that
    finish while others under the same context still run, evaluations started again under another
    context.  With one watcher per run (the code as it is; tie `halt_writes_match`) the outcome of
    evaluation `e` — how many trips it made and the trip at which it saw `halt` set — is its outcome
    in the schedule that contains only what concerns `e`: its own events and the ends of the
    contexts it is started under.  Nothing another evaluation does, under the same context or
    another one, changes whether and when a cancellation reaches `e`. -/
theorem isolated_results_shared_contexts (evs : List CEv) (e : Nat) :
    ctxOutcome .perRun evs e = ctxOutcomeAlone .perRun evs e := by
  have hk : CEv.concerns evs e = keepFor (fun c => evs.contains (.start e c)) e := by
    funext ev; cases ev <;> rfl
  have h := crun_sim (fun c => evs.contains (.start e c)) e evs CState.empty CState.empty
    (crel_empty _ e) (fun c hc => by simpa using hc)
  simp only [ctxOutcomeAlone, ctxOutcome, hk]
  rw [h.2.2.1]

/-- **A cancellation reaches every run under the context.**  In any schedule (`pre`) after which `e`
    runs under context `c`: once `c` is cancelled, whatever else happens afterwards (`mid`: other
    evaluations under `c` finish, new ones start, other contexts end) short of `e` being started
    again, the next trip of `e`'s eval loop finds `halt` set. -/
theorem cancel_reaches_every_run (pre mid : List CEv) (s : CState) (e c : Nat)
    (hctx : (crun .perRun s pre).ctxOf e = some c) (hns : ∀ c', CEv.start e c' ∉ mid) :
    (crun .perRun s (pre ++ .cancel c :: (mid ++ [.instr e]))).log e
      = (crun .perRun s (pre ++ .cancel c :: mid)).log e ++ [1] := by
  have h1 : (cstep .perRun (crun .perRun s pre) (.cancel c)).halt e = 1 := by
    simp only [cstep, hctx, ↓reduceIte]
  have h2 := halt_sticks mid _ e h1 hns
  have hsplit : pre ++ .cancel c :: (mid ++ [.instr e]) = (pre ++ .cancel c :: mid) ++ [.instr e] := by simp
  rw [hsplit, crun_append]
  have hmid : crun .perRun s (pre ++ .cancel c :: mid)
      = crun .perRun (cstep .perRun (crun .perRun s pre) (.cancel c)) mid := by
    rw [crun_append]; rfl
  simp only [crun, cstep, ↓reduceIte]
  rw [hmid, h2]

/-- the full demand on a process-wide TABLE of context watches (one callback per context, released by
    the first run under the context that ends) -/
def C09_full_watch_registry : Prop :=
  ∀ (evs : List CEv) (e : Nat), ctxOutcome .registry evs e = ctxOutcomeAlone .registry evs e

/-- evaluations 0 and 1 run under context 7; 0 finishes; then the context is cancelled -/
def registryWitness : List CEv :=
  [.start 0 7, .start 1 7, .instr 0, .instr 1, .finish 0, .cancel 7, .instr 1, .instr 1]

/-- **Contrast: a table of watches keyed by the context breaks it.**  The end of evaluation 0's run
    releases the watch of everybody under context 7, so the cancellation never reaches evaluation 1,
    which alone under the same context is halted at its second trip. -/
theorem C09_contrast_watch_registry : ¬ C09_full_watch_registry := by
  intro h
  have := h registryWitness 1
  revert this
  decide

/-- with per-run watchers the same schedule halts evaluation 1, and an evaluation under ANOTHER context
    is left alone (the model is not trivial) -/
example : ctxOutcome .perRun registryWitness 1 = { loads := 3, halted := some 1 }
    ∧ ctxOutcome .registry registryWitness 1 = { loads := 3, halted := none }
    ∧ ctxOutcome .perRun [.start 0 7, .start 1 8, .cancel 7, .instr 0, .instr 1] 1 = { loads := 1, halted := none } := by
  refine ⟨by decide, by decide, by decide⟩

/-- every writer of a machine's `halt` flag is a method of that machine, the only store of 1 is the
    goroutine `start` parks on the run's context, and the flag's address goes nowhere else: the
    reviewed table (tie `halt_writes_match`) is an instance of `perRun` -/
theorem halt_written_per_run : haltWriteRows.all haltRowOK = true
    ∧ haltRowOK ("vm.VirtualMachine.start", "escapes:watchContext", "&vm.halt") = false
    ∧ haltRowOK ("vm.watchContext$func", "atomic.StoreInt32", "1") = false := by decide

/-! ### configurations and the standard library (Model §6) -/

/-- **Isolated results, configurations.**  EVERY schedule of `DefaultGlobals` calls, in-place module edits
    made by configuration options (`WithoutGlobal("m.a")`, `WithGlobalOverride("m.a", v)`) and attribute
    reads by scripts, of any number of evaluations, for every attribute `a` of every module `m`: when
    every `DefaultGlobals` call constructs its modules (the code as it is; tie `lib_vars_match`), what
    evaluation `e` finds in `m.a`, read after read, is what it finds when only its own configuration
    and reads happen. -/
theorem config_isolated (evs : List GEv) (e m a : Nat) :
    attrSeen .fresh evs e m a = attrSeenAlone .fresh evs e m a := by
  simp only [attrSeenAlone, attrSeen, filterMap_toR_filter]
  exact isolated_results_resources _ e

/-- module objects may be shared under ANY policy (built once and handed to every Config) as long as no
    configuration edits them in place: schedules without `deny` / `override` events -/
theorem config_readonly_may_share (p : Policy) (evs : List GEv) (e m a : Nat)
    (hro : ∀ ev ∈ evs, ev.isEdit = false) : attrSeen p evs e m a = attrSeenAlone p evs e m a := by
  simp only [attrSeenAlone, attrSeen, filterMap_toR_filter]
  apply shared_immutable_isolated
  intro r hr
  obtain ⟨ev, hev, hto⟩ := List.mem_filterMap.1 hr
  exact toR_isWr m a ev r hto (hro ev hev)

/-- the full demand on a standard library whose module objects are built once and handed to every Config -/
def C09_full_cached_modules : Prop :=
  ∀ (evs : List GEv) (e m a : Nat), attrSeen .cached evs e m a = attrSeenAlone .cached evs e m a

/-- **Contrast: cached module objects break it.**  Evaluation 0 is configured without `m3.a1`; evaluation 1,
    with no such option, no longer finds the attribute (1 = removed; alone: 0 = as built) -/
theorem C09_contrast_cached_modules : ¬ C09_full_cached_modules := by
  intro h
  have := h [.build 0, .build 1, .deny 0 3 1, .use 1 3 1] 1 3 1
  revert this
  decide

/-- the model distinguishes the cases (and an override of a removed attribute is refused, as
    `Module.Override` refuses it) -/
example : attrSeen .fresh [.build 0, .build 1, .deny 0 3 1, .use 1 3 1, .use 0 3 1] 1 3 1 = [0]
    ∧ attrSeen .fresh [.build 0, .build 1, .deny 0 3 1, .use 1 3 1, .use 0 3 1] 0 3 1 = [1]
    ∧ attrSeen .fresh [.build 0, .deny 0 3 1, .override 0 3 1 5, .override 0 2 0 5, .use 0 3 1] 0 3 1 = [1]
    ∧ attrSeen .fresh [.build 0, .override 0 2 0 5, .use 0 2 0, .use 0 2 1] 0 2 0 = [7]
    ∧ attrSeen .cached [.build 0, .build 1, .override 0 2 0 5, .use 1 2 0] 1 2 0 = [7] := by
  refine ⟨by decide, by decide, by decide, by decide, by decide⟩

/-- no package-level variable of the root package or of a standard-library module package is ever
    written (the reviewed table, tie `lib_vars_match`): nothing `DefaultGlobals` builds can be kept
    there between two calls -/
theorem lib_has_no_mutable_state : libVarRows.all (fun r => r.2.2.isEmpty) = true := by decide

/-! ### non-vacuity -/

def codecsRead : Site := ofRow ("builtins.codecs", false, "builtins.GetCodec", false, [("builtins.mutex", false, false)], false)
def codecsWrite : Site := ofRow ("builtins.codecs", false, "builtins.RegisterCodec", true, [("builtins.mutex", true, false)], false)
def cmLock : Lock := ("builtins.mutex", 0)

/-- the hypotheses of `C09_partial_no_race` are satisfiable: a reader under `RLock` then a
    writer under `Lock` on the codec registry, from two threads -/
example : (run LS.init ([Ev.acq 1 cmLock false] ++ Ev.acc 1 0 codecsRead ::
      ([Ev.rel 1 cmLock false, Ev.acq 2 cmLock true] ++ Ev.acc 2 0 codecsWrite :: [Ev.rel 2 cmLock true]))).isSome = true
    ∧ codecsRead ∈ implSites ∧ codecsWrite ∈ implSites ∧ guardKnown codecsRead = false
    ∧ conflicting codecsRead codecsWrite = true := by
  refine ⟨by decide, by decide, by decide, by decide, by decide⟩

/-- the mutex semantics really excludes an unlocked-looking interleaving: the writer cannot
    enter while the reader holds the registry mutex -/
example : run LS.init [Ev.acq 1 cmLock false, Ev.acq 2 cmLock true] = none := by decide

def demoCode : List Stmt :=
  [⟨0, .conv 3 (.lit 5)⟩, ⟨1, .add (.glob 0) (.imp 2)⟩, ⟨0, .conv 3 (.glob 1)⟩]
def demoShared : Shared := { code := demoCode, convCache := [], modCache := [] }

/-- `isolated_results_final` applies to a non-trivial program and schedule (three evaluations
    sharing code, converter cache and importer cache), and the result is not trivial -/
example : SharedOK demoShared ∧ [0, 1, 2, 2, 1, 0, 0, 1, 2].count 1 = demoShared.code.length
    ∧ aloneResult demoCode 2 = [115, 111] := by
  refine ⟨sharedOK_empty _, by decide, by decide⟩

/-! ### §7: one importer shared by evaluations whose contexts may end during a first load -/

/-- what `codeCache` holds is what a load finds, and every import so far got what the Spec allows -/
def IInv (fs : Nat → Nat) (s : IState) : Prop :=
  (∀ m v, ilook s.code m = some v → fs m = v + 2) ∧ ∀ t x, x ∈ s.log t → ImpOK fs x.1 x.2

theorem loadRes_of_module {fs : Nat → Nat} {m v : Nat} (h : fs m = v + 2) :
    loadRes fs m true = v + 3 := by
  simp [loadRes, h]

theorem loadRes_ge3 {fs : Nat → Nat} {m : Nat} {live : Bool} (h : 3 ≤ loadRes fs m live) :
    fs m = loadRes fs m live - 3 + 2 := by
  cases hf : fs m with
  | zero => simp [loadRes, hf] at h
  | succ k =>
    cases live with
    | false => simp [loadRes, hf] at h
    | true =>
      by_cases h2 : k = 0
      · simp [loadRes, hf, h2] at h
      · simp [loadRes, hf, h2] at h ⊢
        omega

theorem loadRes_ok (fs : Nat → Nat) (ev : IEv) : ImpOK fs ev (loadRes fs ev.m ev.live) := by
  cases hl : ev.live with
  | true => exact Or.inl rfl
  | false => exact Or.inr ⟨hl, rfl⟩

theorem iinv_ilog {fs : Nat → Nat} {s : IState} {ev : IEv} {r : Nat}
    (h : IInv fs s) (hr : ImpOK fs ev r) : IInv fs (ilog s ev r) := by
  refine ⟨h.1, ?_⟩
  intro t x hx
  simp only [ilog] at hx
  split at hx
  · rcases List.mem_append.1 hx with hx | hx
    · exact h.2 t x hx
    · have : x = (ev, r) := by simpa using hx
      subst this; exact hr
  · exact h.2 t x hx

theorem iinv_step {fs : Nat → Nat} {s : IState} (ev : IEv) (h : IInv fs s) :
    IInv fs (istep .codeOnly fs s ev) := by
  unfold istep
  cases hc : ilook s.code ev.m with
  | some v =>
    exact iinv_ilog h (Or.inl (by rw [loadRes_of_module (h.1 _ _ hc)]))
  | none =>
    have hp : (ImpPolicy.codeOnly = ImpPolicy.negative) = False := by simp
    simp only [hp, if_false]
    by_cases h3 : 3 ≤ loadRes fs ev.m ev.live
    · simp only [h3, if_true]
      refine iinv_ilog ⟨?_, h.2⟩ (loadRes_ok fs ev)
      intro m v hm
      simp only [ilook] at hm
      by_cases hmk : m = ev.m
      · simp only [hmk, if_true] at hm
        have hv : loadRes fs ev.m ev.live - 3 = v := by simpa using hm
        rw [hmk, ← hv]; exact loadRes_ge3 h3
      · simp only [hmk, if_false] at hm
        exact h.1 m v hm
    · simp only [h3, if_false]
      exact iinv_ilog h (loadRes_ok fs ev)

theorem iinv_run {fs : Nat → Nat} (evs : List IEv) :
    ∀ {s : IState}, IInv fs s → IInv fs (irun .codeOnly fs s evs) := by
  induction evs with
  | nil => intro s h; exact h
  | cons ev rest ih => intro s h; exact ih (iinv_step ev h)

theorem iinv_empty (fs : Nat → Nat) : IInv fs IState.empty :=
  ⟨fun _ _ h => by simp [IState.empty, ilook] at h, fun _ _ h => by simp [IState.empty] at h⟩

/-- every step logs exactly one outcome, for the evaluation that imports -/
theorem istep_log (p : ImpPolicy) (fs : Nat → Nat) (s : IState) (ev : IEv) :
    ∃ r, (istep p fs s ev).log = (ilog s ev r).log := by
  unfold istep
  split
  · exact ⟨_, rfl⟩
  · split
    · exact ⟨_, rfl⟩
    · simp only []
      split
      · exact ⟨_, rfl⟩
      · split <;> exact ⟨_, rfl⟩

/-- the imports an evaluation is answered for are its own import statements, in order (any policy) -/
theorem irun_log_events (p : ImpPolicy) (fs : Nat → Nat) (evs : List IEv) (e : Nat) :
    ∀ s : IState, ((irun p fs s evs).log e).map (·.1)
      = (s.log e).map (·.1) ++ evs.filter (fun ev => ev.e == e) := by
  induction evs with
  | nil => intro s; simp [irun]
  | cons ev rest ih =>
    intro s
    obtain ⟨r, hr⟩ := istep_log p fs s ev
    rw [irun, ih, hr]
    by_cases he : ev.e = e
    · simp [ilog, he]
    · have he' : ¬ e = ev.e := fun h => he h.symm
      have hb : (ev.e == e) = false := by simpa using he
      simp [ilog, hb, he']

/-- **Imports through a shared importer.**  For every source tree, every schedule of import
    statements of any number of evaluations sharing one importer, with any of their contexts ending
    during any load: every import of every evaluation gets what the Spec allows — under a live
    context exactly what a first load under that context gets, whatever the other evaluations (and
    the ends of THEIR contexts) did to the importer. -/
theorem import_isolated (fs : Nat → Nat) (evs : List IEv) (e : Nat) :
    ∀ x ∈ (irun .codeOnly fs IState.empty evs).log e, ImpOK fs x.1 x.2 :=
  fun x hx => (iinv_run evs (iinv_empty fs)).2 e x hx

theorem imports_seen_live (fs : Nat → Nat) (evs : List IEv) (e : Nat)
    (hl : ∀ ev ∈ evs, ev.e = e → ev.live = true) :
    importsSeen .codeOnly fs evs e
      = (evs.filter fun ev => ev.e == e).map fun ev => loadRes fs ev.m true := by
  have hm := irun_log_events .codeOnly fs evs e IState.empty
  have hs := import_isolated fs evs e
  simp only [IState.empty, List.map_nil, List.nil_append] at hm
  unfold importsSeen
  rw [← hm, List.map_map]
  apply List.map_congr_left
  intro x hx
  have hx1 : x.1 ∈ evs.filter (fun ev => ev.e == e) := by
    rw [← hm]; exact List.mem_map_of_mem hx
  have hx2 := List.mem_filter.1 hx1
  rcases hs x hx with h | ⟨h, _⟩
  · exact h
  · have := hl x.1 hx2.1 (by simpa using hx2.2)
    rw [this] at h; cases h

/-- **Result isolation for imports.**  An evaluation whose own context stays live through its
    imports gets from a shared importer, in every schedule, exactly the sequence of modules and
    errors it gets when it is the only user of the importer — the ends of other evaluations'
    contexts during their loads included. -/
theorem import_isolated_live (fs : Nat → Nat) (evs : List IEv) (e : Nat)
    (hl : ∀ ev ∈ evs, ev.e = e → ev.live = true) :
    importsSeen .codeOnly fs evs e = importsSeenAlone .codeOnly fs evs e := by
  unfold importsSeenAlone
  rw [imports_seen_live fs evs e hl,
    imports_seen_live fs (evs.filter fun ev => ev.e == e) e
      (fun ev hev h => hl ev (List.mem_filter.1 hev).1 h)]
  simp [List.filter_filter]

/-- contrast: an importer that also remembers FAILURES (whatever their cause) lets the end of one
    evaluation's context reach another: evaluation 0's context ends during the first load of module
    1; evaluation 1, context live, is told so too, although alone it gets the module. -/
theorem C09_contrast_negative_import_cache :
    importsSeen .negative (fun _ => 9) [⟨0, 1, false⟩, ⟨1, 1, true⟩] 1 = [2]
      ∧ importsSeenAlone .negative (fun _ => 9) [⟨0, 1, false⟩, ⟨1, 1, true⟩] 1 = [10]
      ∧ importsSeen .codeOnly (fun _ => 9) [⟨0, 1, false⟩, ⟨1, 1, true⟩] 1 = [10] := by
  refine ⟨by decide, by decide, by decide⟩

/-- non-vacuity: a schedule with a missing module, a module that does not compile, a context that
    ends during a first load and a cache hit under an ended context -/
example : importsSeen .codeOnly (fun m => m) [⟨0, 5, false⟩, ⟨1, 5, true⟩, ⟨0, 5, false⟩, ⟨1, 0, true⟩, ⟨1, 1, true⟩] 0 = [2, 6]
    ∧ importsSeen .codeOnly (fun m => m) [⟨0, 5, false⟩, ⟨1, 5, true⟩, ⟨0, 5, false⟩, ⟨1, 0, true⟩, ⟨1, 1, true⟩] 1 = [6, 0, 1] := by
  refine ⟨by decide, by decide⟩

end Risor.C09
