/-
Shared helpers for the line protocol (Appendix A of DESIGN.md): TAB-separated fields,
byte strings as lowercase hex.  Core Lean only.
-/
namespace Risor.Util

def hexDigit (n : Nat) : Char :=
  if n < 10 then Char.ofNat (48 + n) else Char.ofNat (87 + n)

def hexVal (c : Char) : Option Nat :=
  let n := c.toNat
  if 48 ≤ n ∧ n ≤ 57 then some (n - 48)
  else if 97 ≤ n ∧ n ≤ 102 then some (n - 87)
  else if 65 ≤ n ∧ n ≤ 70 then some (n - 55)
  else none

/-- bytes (as `Nat < 256`) to lowercase hex -/
def toHex (bs : List Nat) : String :=
  String.ofList (bs.flatMap fun b => [hexDigit (b / 16 % 16), hexDigit (b % 16)])

def fromHexChars : List Char → Option (List Nat)
  | [] => some []
  | [_] => none
  | a :: b :: rest => do
    let x ← hexVal a
    let y ← hexVal b
    let r ← fromHexChars rest
    pure ((x * 16 + y) :: r)

/-- the literal "-" encodes the empty byte string (so that no field is ever empty) -/
def fromHex (s : String) : Option (List Nat) :=
  if s = "-" then some [] else fromHexChars s.toList

def toHexField (bs : List Nat) : String :=
  if bs.isEmpty then "-" else toHex bs

def fields (line : String) : List String :=
  (line.splitOn "\t").map fun s => (s.dropEndWhile (fun c => c = '\n' || c = '\r')).toString

def strBytes (s : String) : List Nat := s.toUTF8.toList.map (·.toNat)

def bytesStr (bs : List Nat) : String :=
  String.ofList (bs.map fun b => Char.ofNat b)

end Risor.Util
