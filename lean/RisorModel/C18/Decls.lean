import RisorModel.Util
/-
C18, layer 9 — DECLARATIONS across pieces: which names a piece may declare depends on what the pieces
before it declared, and `compileMain` decides it in TWO passes.

  pass 1 (`collectFunctionDeclarations`): every top-level named `func` of the input is entered into the
         root symbol table as a constant BEFORE anything is compiled (forward references).  This is the
         ONLY place where `func f` over an existing `f` is refused (`function "f" redefined`): `f` may be a
         function, a constant or a variable of an EARLIER piece, or a name the host supplies.
  pass 2 (`compile`): `n := v` / `const n = v` are refused when the name exists (`InsertVariable`);
         `n = v` when the name is undefined or a constant; an identifier when it is undefined; `compileFunc`
         TOLERATES an existing symbol (normally the one pass 1 has just entered) and stores into its slot
         without looking at its constant flag.

The root table is modelled BY NAME (`symbolsByName`; slots are the subject of layers 7 and 8): `DEnv`.
Impl = the two passes on every piece, a rejected piece leaves everything as it was (layer 8: rollback).
Spec = what the property demands: a piece is accepted exactly when the PROGRAM made of the accepted
pieces before it followed by this piece compiles at once with a fresh compiler, and the session then
is in the state of that program.  Core Lean only (linked into the oracle).
-/
namespace Risor.C18

inductive DVal where
  | int (v : Int)
  | fn (v : Int)           -- the function `func n() { return v }`
  deriving Repr, DecidableEq, Inhabited

inductive DStmt where
  | var (n : Nat) (v : Int)                     -- `n := v`
  | const (n : Nat) (v : Int)                   -- `const n = v`
  | fn (n : Nat) (v : Int) (refs : List Nat)    -- `func n() { … mentions refs … return v }`
  | set (n : Nat) (v : Int)                     -- `n = v`
  | use (n : Nat)                               -- the expression `try(n)`: an integer as it is, a function called
  deriving Repr, DecidableEq, Inhabited

abbrev DPiece := List DStmt

/-- symbolsByName of the root table: `some c` = defined, `c` = is it a constant -/
abbrev DEnv := Nat → Option Bool

def DEnv.ins (E : DEnv) (n : Nat) (c : Bool) : DEnv := fun k => if k = n then some c else E k

def DEnv.has (E : DEnv) (n : Nat) : Bool := (E n).isSome

/-- every call of collectFunctionDeclarations in compileMain sits at the top level of its body, before the second pass
    (`c.compile(node)`): not under a condition on the input (tied: `firstPassOnEveryInput_tie`) -/
def firstPassOnEveryInput : Bool := true

/-- compileMain runs collectFunctionDeclarations on EVERY input, whatever its length -/
def firstPassRuns : DPiece → Bool := fun _ => firstPassOnEveryInput

/-- collectFunctionDeclarations over the statements of the input -/
def dPass1 : DPiece → DEnv → Option DEnv
  | [], E => some E
  | .fn n _ _ :: r, E => if E.has n then none else dPass1 r (E.ins n true)
  | .var _ _ :: r, E => dPass1 r E
  | .const _ _ :: r, E => dPass1 r E
  | .set _ _ :: r, E => dPass1 r E
  | .use _ :: r, E => dPass1 r E

/-- the second pass, statement by statement -/
def dPass2 : DPiece → DEnv → Option DEnv
  | [], E => some E
  | .var n _ :: r, E => if E.has n then none else dPass2 r (E.ins n false)
  | .const n _ :: r, E => if E.has n then none else dPass2 r (E.ins n true)
  | .fn n _ refs :: r, E =>
    if refs.all E.has then dPass2 r (if E.has n then E else E.ins n true) else none
  | .set n _ :: r, E => if E n = some false then dPass2 r E else none
  | .use n :: r, E => if E.has n then dPass2 r E else none

/-- Compile of one input against the table `E`; `gate`: does the first pass run on this input? -/
def dCheck (gate : DPiece → Bool) (p : DPiece) (E : DEnv) : Option DEnv :=
  (if gate p then dPass1 p E else some E).bind (dPass2 p)

/-- the globals by name -/
abbrev DGlob := Nat → Option DVal

def DGlob.upd (G : DGlob) (n : Nat) (v : DVal) : DGlob := fun k => if k = n then some v else G k

/-- state of a run: globals and the values of the expression statements so far (`none` = nil) -/
abbrev DRun := DGlob × List (Option Int)

def DVal.obs : DVal → Int
  | .int v => v
  | .fn v => v

def DStmt.run : DStmt → DRun → DRun
  | .var n v, (G, vs) => (G.upd n (.int v), vs)
  | .const n v, (G, vs) => (G.upd n (.int v), vs)
  | .fn n v _, (G, vs) => (G.upd n (.fn v), vs)
  | .set n v, (G, vs) => (G.upd n (.int v), vs)
  | .use n, (G, vs) => (G, vs ++ [(G n).map DVal.obs])

def dRun (p : DPiece) (s : DRun) : DRun := p.foldl (fun s t => t.run s) s

structure DSess where
  env : DEnv
  run : DRun := (fun _ => none, [])
  acc : List Bool := []

/-- one piece: Compile; on an error nothing changes, else the piece runs -/
def dFeed (gate : DPiece → Bool) (s : DSess) (p : DPiece) : DSess :=
  match dCheck gate p s.env with
  | some E => { env := E, run := dRun p s.run, acc := s.acc ++ [true] }
  | none => { s with acc := s.acc ++ [false] }

def declRun (gate : DPiece → Bool) (s : DSess) (h : List DPiece) : DSess := h.foldl (dFeed gate) s

/-- the session as the code runs it -/
def declImpl (E0 : DEnv) (h : List DPiece) : DSess := declRun firstPassRuns { env := E0 } h

/-- Compile of a whole program by a fresh compiler whose table holds the host's names -/
def dWhole (prog : DPiece) (E0 : DEnv) : Option DEnv := dCheck (fun _ => true) prog E0

/-- Spec: the accepted pieces so far are one program; a piece is accepted exactly when that program followed by
    the piece compiles at once -/
structure DSpecSt where
  prog : DPiece := []
  acc  : List Bool := []

def dSpecFeed (E0 : DEnv) (s : DSpecSt) (p : DPiece) : DSpecSt :=
  if (dWhole (s.prog ++ p) E0).isSome then { prog := s.prog ++ p, acc := s.acc ++ [true] }
  else { s with acc := s.acc ++ [false] }

def declSpecSt (E0 : DEnv) (h : List DPiece) : DSpecSt := h.foldl (dSpecFeed E0) {}

/-- the Spec's session: the table and the run of the program of the accepted pieces, evaluated at once -/
def declSpec (E0 : DEnv) (h : List DPiece) : DSess :=
  let s := declSpecSt E0 h
  { env := (dWhole s.prog E0).getD E0, run := dRun s.prog (fun _ => none, []), acc := s.acc }

/-- the table a host that supplies the names `hs` (as variables) starts every compiler with -/
def hostEnv (hs : List Nat) : DEnv := fun k => if hs.contains k then some false else none

/-- contrast (NOT the code): the first pass only for inputs of two or more statements -/
def gateLong : DPiece → Bool := fun p => decide (p.length > 1)

end Risor.C18
