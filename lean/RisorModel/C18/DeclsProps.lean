import RisorModel.C18.DeclsLemmas
/-!
C18, layer 9 — property theorems about DECLARATIONS across the pieces of a session (`Decls.lean`).

Every theorem quantifies over ALL tables (whatever the host and the earlier pieces defined), ALL pieces (any
statements in any order and number — in particular pieces of ONE statement) and ALL histories.
-/
namespace Risor.C18

/-- A `func` DECLARATION OF A NAME THAT EXISTS IS REJECTED, HOWEVER THE PROGRAM WAS CUT.  For every table `E` (the host's
    names and whatever the earlier pieces declared: functions, constants, variables), every input `p` — of one statement
    or of many — that contains `func n` anywhere, `n` defined in `E`: Compile refuses the input. -/
theorem redeclared_function_rejected (E : DEnv) (p : DPiece) (n : Nat) (v : Int) (refs : List Nat)
    (hm : DStmt.fn n v refs ∈ p) (hn : E.has n = true) : dCheck firstPassRuns p E = none := by
  simp only [dCheck, firstPassRuns, firstPassOnEveryInput, if_true, dPass1_redefined p E n v refs hm hn, Option.bind_none]

/-- the same for `n := v` and `const n = v` -/
theorem redeclared_name_rejected (E : DEnv) (p : DPiece) (n : Nat) (v : Int)
    (hm : DStmt.var n v ∈ p ∨ DStmt.const n v ∈ p) (hn : E.has n = true) : dCheck firstPassRuns p E = none := by
  simp only [dCheck, firstPassRuns, firstPassOnEveryInput, if_true]
  cases h1 : dPass1 p E with
  | none => rfl
  | some E1 => exact dPass2_redeclared p E1 n v hm (dPass1_mono p E E1 h1 n hn)

/-- a rejected piece changes nothing: table, globals, values -/
theorem rejected_declaration_changes_nothing (s : DSess) (p : DPiece) (h : dCheck firstPassRuns p s.env = none) :
    (dFeed firstPassRuns s p).env = s.env ∧ (dFeed firstPassRuns s p).run = s.run := by
  unfold dFeed; rw [h]; exact ⟨rfl, rfl⟩

/-- hence: in every session, a piece that declares (by `func`, `:=` or `const`) a name the table holds leaves the table,
    the globals — the constant or function of that name included — and the values as they were -/
theorem redeclaring_piece_has_no_effect (s : DSess) (p : DPiece) (n : Nat) (v : Int) (refs : List Nat)
    (hm : DStmt.fn n v refs ∈ p ∨ DStmt.var n v ∈ p ∨ DStmt.const n v ∈ p) (hn : s.env.has n = true) :
    (dFeed firstPassRuns s p).env = s.env ∧ (dFeed firstPassRuns s p).run = s.run ∧
    (dFeed firstPassRuns s p).acc = s.acc ++ [false] := by
  have h : dCheck firstPassRuns p s.env = none := by
    rcases hm with hm | hm
    · exact redeclared_function_rejected s.env p n v refs hm hn
    · exact redeclared_name_rejected s.env p n v hm hn
  unfold dFeed; rw [h]; exact ⟨rfl, rfl, rfl⟩

/-- running a program = running its pieces one after the other (any cut) -/
theorem dRun_append (a b : DPiece) (s : DRun) : dRun (a ++ b) s = dRun b (dRun a s) := by
  simp [dRun, List.foldl_append]

/-- COMPILING A PROGRAM AT ONCE = COMPILING A PREFIX THAT COMPILES, THEN THE REST AGAINST THE TABLE THE PREFIX LEFT.  For every
    host table `E0`, every program `A` that compiles at once (leaving the table `E1`) and every continuation `p`: the program
    `A ++ p` compiles at once exactly when `p` compiles against `E1`, and to the same table — although the fresh compiler
    pre-declares the functions of `p` BEFORE it compiles `A`. -/
theorem whole_append (A p : DPiece) (E0 E1 : DEnv) (h : dWhole A E0 = some E1) : dWhole (A ++ p) E0 = dWhole p E1 := by
  simp only [dWhole, dCheck, if_true] at h ⊢
  rw [dPass1_append]
  cases h1 : dPass1 A E0 with
  | none => rw [h1] at h; cases h
  | some Ea =>
    rw [h1] at h
    simp only [Option.bind_some] at h ⊢
    have key := comm_all A Ea E1 (dPass1_has_fns A E0 Ea h1) h p
    rw [← key]
    cases dPass1 p Ea with
    | none => rfl
    | some Eb => simp only [Option.bind_some]; exact dPass2_append A p Eb

/-- (lemma) the invariant between the session of the code and the Spec's program of accepted pieces -/
def DeclInv (E0 : DEnv) (s : DSess) (t : DSpecSt) : Prop :=
  dWhole t.prog E0 = some s.env ∧ s.run = dRun t.prog (fun _ => none, []) ∧ s.acc = t.acc

theorem declInv_step (E0 : DEnv) (s : DSess) (t : DSpecSt) (p : DPiece) (h : DeclInv E0 s t) :
    DeclInv E0 (dFeed firstPassRuns s p) (dSpecFeed E0 t p) := by
  obtain ⟨h1, h2, h3⟩ := h
  have hk : dWhole (t.prog ++ p) E0 = dCheck firstPassRuns p s.env := whole_append t.prog p E0 s.env h1
  unfold dFeed dSpecFeed
  rw [hk]
  cases hc : dCheck firstPassRuns p s.env with
  | none => exact ⟨h1, h2, by simp [h3]⟩
  | some E =>
    refine ⟨?_, ?_, by simp [h3]⟩
    · simp only [Option.isSome_some, if_true]; rw [hk, hc]
    · simp only [Option.isSome_some, if_true]; rw [dRun_append, h2]

theorem declInv_run (E0 : DEnv) (h : List DPiece) : ∀ (s : DSess) (t : DSpecSt), DeclInv E0 s t →
    DeclInv E0 (declRun firstPassRuns s h) (h.foldl (dSpecFeed E0) t) := by
  induction h with
  | nil => intro s t hi; exact hi
  | cons p rest ih => intro s t hi; exact ih _ _ (declInv_step E0 s t p hi)

/-- THE SESSION OF THE CODE IS THE SPEC'S — acceptance does not depend on the cut.  For every host table and every history of
    pieces (redeclarations by `func`, `:=`, `const` of functions, constants, variables, host names; forward references;
    pieces of one statement or many): every piece is accepted by the shared compiler EXACTLY when the program made of the
    accepted pieces before it followed by the piece compiles at once with a fresh compiler, and the session ends with the table,
    the globals and the values of that program compiled and run at once. -/
theorem decl_session_eq_spec (E0 : DEnv) (h : List DPiece) :
    (declImpl E0 h).acc = (declSpec E0 h).acc ∧ (declImpl E0 h).env = (declSpec E0 h).env ∧
    (declImpl E0 h).run = (declSpec E0 h).run := by
  have hi := declInv_run E0 h { env := E0 } {} ⟨rfl, rfl, rfl⟩
  obtain ⟨h1, h2, h3⟩ := hi
  refine ⟨h3, ?_, h2⟩
  show _ = (dWhole (declSpecSt E0 h).prog E0).getD E0
  unfold declSpecSt
  rw [h1]; rfl

/-! ### contrast: the first pass only for inputs of two or more statements (NOT the code) -/

/-- `const c = 5` / `func c() { return 7 }` / `try(c)` -/
def w_redeclared : List DPiece := [[.const 0 5], [.fn 0 7 []], [.use 0]]

/-- with the gated first pass the one-statement piece `func c` over the constant `c` is ACCEPTED and overwrites the constant
    (later pieces see 7), while the same declaration in a two-statement piece and in the whole program is rejected; the code
    as it is rejects all three and keeps 5, like the Spec -/
theorem gated_first_pass_depends_on_the_cut :
    (declRun gateLong { env := fun _ => none } w_redeclared).acc = [true, true, true] ∧
    (declRun gateLong { env := fun _ => none } w_redeclared).run.2 = [some 7] ∧
    (declRun gateLong { env := fun _ => none } [[.const 0 5], [.fn 0 7 [], .use 0]]).acc = [true, false] ∧
    (dWhole w_redeclared.flatten (fun _ => none)).isSome = false ∧
    (declImpl (fun _ => none) w_redeclared).acc = [true, false, true] ∧
    (declImpl (fun _ => none) w_redeclared).run.2 = [some 5] ∧
    (declSpec (fun _ => none) w_redeclared).acc = [true, false, true] ∧
    (declSpec (fun _ => none) w_redeclared).run.2 = [some 5] := by decide

/-! ### the hypotheses are satisfiable; the statements are not vacuous -/

/-- forward reference inside a piece, a function over a host name, a variable over a function, an accepted redefinition-free tail -/
def w_decls : List DPiece :=
  [[.fn 1 3 [2], .fn 2 4 []], [.fn 50 1 []], [.var 1 9], [.var 3 6, .set 3 8, .use 3, .use 1], [.set 1 0], [.use 4]]

example : (declImpl (hostEnv [50]) w_decls).acc = [true, false, false, true, false, false] ∧
    (declImpl (hostEnv [50]) w_decls).run.2 = [some 8, some 3] := by decide
example : (declSpec (hostEnv [50]) w_decls).acc = (declImpl (hostEnv [50]) w_decls).acc ∧
    (declSpec (hostEnv [50]) w_decls).run.2 = (declImpl (hostEnv [50]) w_decls).run.2 := by decide
example : dCheck firstPassRuns [.fn 0 7 []] (DEnv.ins (fun _ => none) 0 true) = none :=
  redeclared_function_rejected _ _ 0 7 [] (List.mem_singleton.mpr rfl) (by decide)

end Risor.C18
