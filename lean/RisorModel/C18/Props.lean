import RisorModel.C18.Model
import RisorModel.C18.Lemmas
/-!
C18 — property theorems.

Layer 1 (`exec_append`, `fails_append`, `stays_inside`, `steps_deterministic`): for ANY
semantics of the non-jump instructions, any state type and executions of any length, code
with relative jumps that stay inside their fragment can be appended to and resumed at the
saved instruction pointer.

Layer 2: the REPL state machine (`Repl`, the code as it is) against the Spec (`SpecSt`),
for ALL histories of pieces.  `C18_full` is the property as stated; it is still false on the
code (one proved counterexample — a failed piece has declared its names — replayed on the real code
by the harness); `C18_partial` proves it for every history inside the decidable `guard` (G4).  Four
further defects were REPAIRED in /repo (rejected piece's code ran later, compiler stuck in a function,
one stack slot per piece, functions kept the globals copy of the run that loaded them): their guards
G1, G2 and G3 are gone from `C18_partial`, the general theorems `rejected_piece_has_no_effect`,
`leftover_stack_invisible` and `no_stale_view` hold without any guard, and the old counterexamples are
the historical statements `C18_fixed_*` about the pre-fix machines (`PreFix.Repl`, `Repl.feedSnapshot`).
-/
namespace Risor.C18

variable {σ : Type}

/-! ## Layer 1: appending code and resuming at the saved instruction pointer -/

/-- An execution of `c₁` is an execution of `c₁ ++ c₂` (any semantics, any length). -/
theorem steps_append_left (S : Sem σ) (c₁ c₂ : List BIns) {x y : Nat × σ}
    (h : Steps S c₁ x y) : Steps S (c₁ ++ c₂) x y := by
  induction h with
  | refl => exact .refl _
  | step hi hs _ ih => exact .step (getElem?_append_left' _ _ _ _ hi) hs ih

/-- An execution of `c₂` from `pc` is an execution of `c₁ ++ c₂` from `|c₁| + pc`: compiled
    fragments are position independent because every jump is relative. -/
theorem steps_append_right (S : Sem σ) (c₁ c₂ : List BIns) {pc pc' : Nat} {s s' : σ}
    (h : Steps S c₂ (pc, s) (pc', s')) :
    Steps S (c₁ ++ c₂) (c₁.length + pc, s) (c₁.length + pc', s') := by
  generalize hx : (pc, s) = x at h
  generalize hy : (pc', s') = y at h
  induction h generalizing pc s with
  | refl =>
    subst hx
    cases hy
    exact .refl _
  | @step p p' t t' i y hi hs _ ih =>
    cases hx
    refine .step (i := i) ?_ (stepAt_shift S i c₁.length _ _ _ _ hs) (ih rfl hy)
    rw [getElem?_append_shift]
    exact hi

/-- **exec_append.**  If `c₁` run from 0 in state `s` reaches its end in state `s₁`, and `c₂`
    run from 0 in `s₁` reaches its end in `s₂`, then `c₁ ++ c₂` run from 0 in `s` passes through
    `(|c₁|, s₁)` — the configuration the REPL's VM was left in — and reaches its end in `s₂`.
    For every semantics of the non-jump instructions and executions of any length. -/
theorem exec_append (S : Sem σ) (c₁ c₂ : List BIns) (s s₁ s₂ : σ)
    (h₁ : Steps S c₁ (0, s) (c₁.length, s₁)) (h₂ : Steps S c₂ (0, s₁) (c₂.length, s₂)) :
    Steps S (c₁ ++ c₂) (0, s) (c₁.length, s₁) ∧
    Steps S (c₁ ++ c₂) (c₁.length, s₁) ((c₁ ++ c₂).length, s₂) ∧
    Steps S (c₁ ++ c₂) (0, s) ((c₁ ++ c₂).length, s₂) := by
  have a := steps_append_left S c₁ c₂ h₁
  have b := steps_append_right S c₁ c₂ h₂
  simp only [Nat.add_zero] at b
  rw [List.length_append]
  exact ⟨a, b, a.trans b⟩

/-- A run-time error of the earlier code is the same run-time error of the appended code. -/
theorem fails_append (S : Sem σ) (c₁ c₂ : List BIns) (s s₁ e : σ) (pc : Nat) (i : BIns)
    (h : Steps S c₁ (0, s) (pc, s₁)) (hi : c₁[pc]? = some i) (he : stepAt S i pc s₁ = .error e) :
    Steps S (c₁ ++ c₂) (0, s) (pc, s₁) ∧ (c₁ ++ c₂)[pc]? = some i ∧ stepAt S i pc s₁ = .error e :=
  ⟨steps_append_left S c₁ c₂ h, getElem?_append_left' _ _ _ _ hi, he⟩

/-- **jumps_local ⇒ control stays inside.**  If every jump of `c` is local, an execution that
    starts inside `c` (or at its end) stays inside `c` or at its end: a fragment can only be left
    through its end, where the next piece's code will be appended. -/
theorem stays_inside (S : Sem σ) (c : List BIns) (hl : jumpsLocal c = true) {x y : Nat × σ}
    (h : Steps S c x y) (hx : x.1 ≤ c.length) : y.1 ≤ c.length := by
  induction h with
  | refl => exact hx
  | @step pc pc' s s' i y hi hs _ ih =>
    apply ih
    have hlt : pc < c.length := by
      rcases Nat.lt_or_ge pc c.length with h1 | h1
      · exact h1
      · rw [List.getElem?_eq_none h1] at hi
        cases hi
    have hloc := jumpsLocalFrom_get c.length c 0 pc i hl hi
    simp only [Nat.zero_add] at hloc
    cases i with
    | op k =>
      simp only [stepAt] at hs
      split at hs
      · simp only [Except.ok.injEq, Prod.mk.injEq] at hs
        show pc' ≤ c.length
        omega
      · cases hs
    | jf d =>
      simp only [stepAt, Except.ok.injEq, Prod.mk.injEq] at hs
      simp only [insLocal, decide_eq_true_eq] at hloc
      show pc' ≤ c.length
      omega
    | jb d =>
      simp only [stepAt] at hs
      split at hs
      · simp only [Except.ok.injEq, Prod.mk.injEq] at hs
        show pc' ≤ c.length
        omega
      · cases hs
    | cjf k d =>
      simp only [stepAt] at hs
      simp only [insLocal, decide_eq_true_eq] at hloc
      split at hs
      · rename_i b s1 _
        simp only [Except.ok.injEq, Prod.mk.injEq] at hs
        show pc' ≤ c.length
        cases b
        · simp only [Bool.false_eq_true, ↓reduceIte] at hs
          omega
        · simp only [↓reduceIte] at hs
          omega
      · cases hs

/-- The machine is deterministic: two executions from the same configuration that both end at
    the end of the code (where `vm.eval`'s loop stops) end in the same state.  With
    `exec_append` this makes the whole program's result THE incremental result. -/
theorem steps_deterministic (S : Sem σ) (c : List BIns) {x : Nat × σ} {s₁ s₂ : σ}
    (h₁ : Steps S c x (c.length, s₁)) (h₂ : Steps S c x (c.length, s₂)) : s₁ = s₂ := by
  generalize hy : (c.length, s₁) = y at h₁
  induction h₁ with
  | refl =>
    subst hy
    cases h₂ with
    | refl => rfl
    | step hi _ _ => simp at hi
  | @step pc pc' s s' i y hi hs _ ih =>
    cases h₂ with
    | refl => simp at hi
    | @step _ pc2 _ s2 i2 _ hi2 hs2 rest2 =>
      rw [hi] at hi2
      cases hi2
      rw [hs] at hs2
      cases hs2
      exact ih rest2 hy

/-! ## Layer 2: the REPL state machine against the Spec -/

/-- what the property compares: per-piece outcomes (value identities and error classes), the
    trace of executed statements (it determines globals, values and output) and the names
    defined for later pieces -/
structure Obs where
  outcomes : List Outcome
  trace    : List (Nat × Bool)
  syms     : Syms
  deriving DecidableEq, Repr

def implObs (h : List Piece) : Obs :=
  let r := Repl.run {} h
  ⟨r.2, r.1.vm.trace, r.1.comp.syms⟩

def specObs (h : List Piece) : Obs :=
  let r := SpecSt.run {} h
  ⟨r.2, r.1.trace, r.1.syms⟩

/-- **The property as stated**: for every history, feeding the pieces to one compiler and one
    VM gives the outcomes, effects and definitions the Spec demands (accepted pieces behave as
    the concatenated program, rejected pieces change nothing, failing pieces keep only what
    ran before the failure). -/
def C18_full : Prop := ∀ h : List Piece, implObs h = specObs h

/-- **C18_partial.**  For EVERY history of pieces (any number of pieces, any statements, with
    rejected and failing pieces anywhere — rejected at any statement, after any amount of emitted
    code and declarations, inside function bodies or not; calling functions that earlier pieces
    declared, whatever globals those read and write and whatever was assigned in between) that
    satisfies the decidable `guard` — G4 a failing piece declares nothing from its failing statement
    on (the one recorded defect); and no accepted piece is empty — the REPL machine yields exactly the Spec's per-piece outcomes (same value identities,
    same rejections and failures), the same trace of executed statements (hence the same globals,
    values and output) and the same definitions for later pieces.  The former guards G1 (a rejected
    piece is rejected at its first statement, before code was emitted, outside a function body), G2
    (`PieceCountBelowCapacity`) and G3 (`NoStaleFunctionView`: no statement calls a global-sensitive
    function loaded by an earlier run) are gone with the repairs of the code. -/
theorem C18_partial (h : List Piece) (hg : guard h = true) : implObs h = specObs h := by
  have inv0 : Inv {} {} {} := ⟨rfl, rfl, rfl, rfl, rfl, rfl, rfl⟩
  obtain ⟨h1, inv⟩ := run_inv h {} {} {} inv0 hg
  simp only [implObs, specObs, h1, inv.trace, inv.syms]

/-- **A rejected piece has no effect** — for EVERY state of the machine (reached by any history,
    inside the guard or not) and EVERY piece with a statement that does not compile, wherever that
    statement sits, whatever the statements before it emitted and declared, inside a function body
    or not: the compiler and the VM are exactly as before (`Compile` rolled everything back), and
    so is everything any later piece can observe. -/
theorem rejected_piece_has_no_effect (r : Repl) (l : List Stmt) (hrej : allResolve r.comp.syms l = false) :
    r.feed (.stmts l) = (r, .compileRejected) := by
  simp only [Repl.feed, compileStmts_rejected r.comp.syms l hrej]

/-- … and a piece is rejected exactly when one of its statements does not compile -/
theorem rejected_iff (r : Repl) (l : List Stmt) :
    (r.feed (.stmts l)).2 = .compileRejected ↔ allResolve r.comp.syms l = false := by
  constructor
  · intro h
    by_cases hr : allResolve r.comp.syms l = true
    · simp only [Repl.feed, compileStmts_ok r.comp.syms l hr] at h
      split at h <;> cases h
    · simpa using hr
  · intro h
    rw [rejected_piece_has_no_effect r l h]

/-- **No statement runs against a stale copy of the globals** — for EVERY state of the machine and
    EVERY piece, whatever functions earlier runs loaded and whatever the piece calls: the trace entries
    the piece's run adds are all unmarked (reloadCode forgot the loaded functions of the main code, so
    every call wraps the function's code with the globals array of this run). -/
theorem no_stale_view (r : Repl) (p : Piece) (e : Nat × Bool)
    (he : e ∈ (r.feed p).1.vm.trace) : e ∈ r.vm.trace ∨ e.2 = false := by
  have hx : ∀ (c : List AIns) (stk : List Nat) (tr : List (Nat × Bool)),
      e ∈ (execFrom [] c stk tr).trace → e ∈ tr ∨ e.2 = false := by
    intro c
    induction c with
    | nil => intro stk tr h; exact Or.inl h
    | cons i rest ih =>
      intro stk tr h
      cases i with
      | eff id need calls =>
        simp only [execFrom] at h
        rcases ih _ _ h with h1 | h1
        · rcases List.mem_append.1 h1 with h2 | h2
          · exact Or.inl h2
          · right
            simp only [List.mem_singleton] at h2
            rw [h2]
            simp
        · exact Or.inr h1
      | fail id leak =>
        simp only [execFrom] at h
        rcases List.mem_append.1 h with h2 | h2
        · exact Or.inl h2
        · right
          simp only [List.mem_singleton] at h2
          rw [h2]
      | push v => exact ih _ _ h
      | pop => exact ih _ _ h
  cases p with
  | bad => exact Or.inl he
  | stmts l =>
    simp only [Repl.feed] at he
    split at he
    · exact Or.inl he
    · exact hx _ _ _ he

/-- **What the previous run left on the operand stack is invisible** — for EVERY state and EVERY
    piece: replacing the stack by any other changes neither the outcome of the piece nor, when the
    piece is accepted, anything of the state it leaves (Run drops the leftovers before it resumes). -/
theorem leftover_stack_invisible (r : Repl) (stk : List Nat) (p : Piece) :
    ({ r with vm := { r.vm with stack := stk } }.feed p).2 = (r.feed p).2 ∧
    ((r.feed p).2 ≠ .parseRejected → (r.feed p).2 ≠ .compileRejected →
      ({ r with vm := { r.vm with stack := stk } }.feed p).1 = (r.feed p).1) := by
  cases p with
  | bad => exact ⟨rfl, fun h => absurd rfl h⟩
  | stmts l =>
    simp only [Repl.feed]
    split
    · exact ⟨rfl, fun _ h => absurd rfl h⟩
    · exact ⟨rfl, fun _ _ => rfl⟩

/-- **The operand stack holds what the LAST run left, never more**, for every history inside the
    guard: one value after a piece that completed, the failing statement's leak after a piece that
    failed — however many pieces were fed before; and the instruction pointer sits at the end of
    the main code. -/
theorem stack_holds_last_run_only (h : List Piece) (hg : guard h = true) :
    (Repl.run {} h).1.vm.stack.length = (GSt.after {} h).ht ∧
    (Repl.run {} h).1.vm.ip = (Repl.run {} h).1.comp.code.length := by
  have inv0 : Inv {} {} {} := ⟨rfl, rfl, rfl, rfl, rfl, rfl, rfl⟩
  obtain ⟨_, inv⟩ := run_inv h {} {} {} inv0 hg
  exact ⟨inv.ht, inv.ip⟩

/-- the height the guard's bookkeeping records never exceeds one value or one failing statement's leak -/
theorem ht_bounded (g : GSt) (p : Piece) (k : Nat) (hk : ∀ l, p = .stmts l → ∀ s ∈ l, s.leak ≤ k) :
    (g.next p).ht ≤ max g.ht (max 1 k) := by
  cases p with
  | bad => simp only [GSt.next]; omega
  | stmts l =>
    simp only [GSt.next]
    split
    · have hl : ∀ l' : List Stmt, (∀ s ∈ l', s.leak ≤ k) → (match leakOf l' with | some j => j | none => 1) ≤ max 1 k := by
        intro l'
        induction l' with
        | nil => intro _; simp only [leakOf]; omega
        | cons s rest ih =>
          intro hs
          by_cases hf : s.fails = true
          · have := hs s (List.mem_cons_self ..)
            simp only [leakOf, hf, ↓reduceIte]; omega
          · simp only [leakOf, hf, Bool.false_eq_true, ↓reduceIte]
            exact ih (fun t ht => hs t (List.mem_cons_of_mem _ ht))
      have := hl l (hk l rfl)
      show (match leakOf l with | some j => j | none => 1) ≤ _
      omega
    · omega

/-- **Incremental = whole, at the source level** (first sentence of the property, Spec side):
    for every state and every way of cutting a statement list into consecutive pieces that are
    all accepted and all complete, feeding the pieces one by one leaves exactly the state
    (definitions and trace of executed statements, hence globals and output) that evaluating
    the concatenated program at once leaves, and the concatenated program is accepted and
    completes too. -/
theorem spec_incremental_eq_whole (st : SpecSt) (ls : List (List Stmt))
    (hall : ∀ o ∈ (st.run (ls.map .stmts)).2, ∃ v, o = .ok v) :
    (st.run (ls.map .stmts)).1 = (st.feed (wholeOf ls)).1 ∧ ∃ v, (st.feed (wholeOf ls)).2 = .ok v := by
  obtain ⟨hr, hok, hst⟩ := spec_run_flatten ls st hall
  simp only [wholeOf, SpecSt.feed, hr, ↓reduceIte, hok]
  exact ⟨hst, _, rfl⟩

/-- **Same value.**  When all pieces are accepted and complete and the last piece is not empty,
    the value the last piece yields in the incremental run is the value of the concatenated
    program (per-piece values follow by applying this to every prefix of the pieces). -/
theorem spec_incremental_value_eq_whole (st : SpecSt) (ls : List (List Stmt)) (a : List Stmt) (hne : a ≠ [])
    (hall : ∀ o ∈ (st.run ((ls ++ [a]).map .stmts)).2, ∃ v, o = .ok v) :
    (st.run ((ls ++ [a]).map .stmts)).2.getLast? = some (st.feed (wholeOf (ls ++ [a]))).2 := by
  obtain ⟨_, hokW, _⟩ := spec_run_flatten (ls ++ [a]) st hall
  obtain ⟨hrW, _, _⟩ := spec_run_flatten (ls ++ [a]) st hall
  have happ := spec_run_append (ls.map .stmts) [.stmts a] st
  simp only [List.map_append, List.map_cons, List.map_nil] at hall ⊢
  rw [happ.2] at hall ⊢
  have hpre : ∀ o ∈ (st.run (ls.map .stmts)).2, ∃ v, o = .ok v := fun o ho => hall o (List.mem_append_left _ ho)
  obtain ⟨hr1, hok1, hst1⟩ := spec_run_flatten ls st hpre
  have hlast : ∃ v, ((st.run (ls.map .stmts)).1.feed (.stmts a)).2 = .ok v := by
    apply hall
    apply List.mem_append_right
    simp [SpecSt.run]
  obtain ⟨v, hv⟩ := hlast
  obtain ⟨hra, hoka, _⟩ := feed_ok_inv _ a v hv
  rw [hst1] at hra hoka
  simp only at hra hoka
  have hfl : (ls ++ [a]).flatten = ls.flatten ++ a := by simp
  have hW := specExec_append st.syms st.trace 0 ls.flatten a hok1
  rw [hfl] at hrW hokW
  simp only [SpecSt.run, List.getLast?_append, List.getLast?_singleton, Option.some_or, wholeOf, hfl,
    SpecSt.feed, hrW, ↓reduceIte, hokW, hst1, hra, hoka, Option.some.injEq, Outcome.ok.injEq]
  rw [hW]
  exact specExec_last_indep _ _ _ _ a hne

/-- Every name a completed piece declares resolves in every later piece ("gives each piece
    everything the earlier pieces defined"): definitions only grow. -/
theorem defined_mono (y : Syms) (l : List Stmt) (n : Nat) (h : y.defined n = true) :
    (addAll y l).defined n = true := by
  induction l generalizing y with
  | nil => exact h
  | cons s rest ih =>
    apply ih
    simp only [Syms.defined, Syms.add, Bool.or_eq_true, List.contains_eq_mem, List.mem_append,
      decide_eq_true_eq] at h ⊢
    rcases h with h | h
    · exact Or.inl (Or.inl h)
    · exact Or.inr (Or.inl h)

/-! ### host-supplied globals (builtins, default modules) -/

def implObsFrom (host : List Nat) (h : List Piece) : Obs :=
  let r := Repl.run (Repl.init host) h
  ⟨r.2, r.1.vm.trace, r.1.comp.syms⟩

def specObsFrom (host : List Nat) (h : List Piece) : Obs :=
  let r := SpecSt.run (SpecSt.init host) h
  ⟨r.2, r.1.trace, r.1.syms⟩

/-- **C18_partial with host-supplied globals.**  For EVERY list `host` of names the embedding
    program supplies before the first piece (builtins, default modules — variables of the root
    symbol table) and EVERY history of pieces inside the guard evaluated with those names defined
    (`guardHost`, the same condition G4 as `C18_partial`), the REPL machine started with
    the host's names yields exactly the Spec's per-piece outcomes, trace of executed statements
    and definitions.  In particular a piece that REBINDS a host-supplied name (a statement whose
    `asg` contains it) is accepted, is part of the trace from then on, and every later piece runs
    against that trace — the rebinding is not forgotten.  `C18_partial` is the case `host = []`. -/
theorem C18_partial_host (host : List Nat) (h : List Piece) (hg : guardHost host h = true) :
    implObsFrom host h = specObsFrom host h := by
  have inv0 : Inv (Repl.init host) (SpecSt.init host) (GSt.init host) :=
    ⟨rfl, rfl, rfl, rfl, rfl, rfl, rfl⟩
  obtain ⟨h1, inv⟩ := run_inv h _ _ _ inv0 hg
  simp only [implObsFrom, specObsFrom, h1, inv.trace, inv.syms]

/-- `C18_partial` is `C18_partial_host` without host-supplied names. -/
theorem C18_partial_host_nil (h : List Piece) :
    guardHost [] h = guard h ∧ implObsFrom [] h = implObs h ∧ specObsFrom [] h = specObs h :=
  ⟨rfl, rfl, rfl⟩

/-- **Host-supplied names stay defined (Spec).**  For every host list, every history (no guard)
    and every host-supplied name: the name still resolves after the history — no piece, accepted,
    rejected or failing, takes a host-supplied name away from later pieces. -/
theorem host_stays_defined_spec (host : List Nat) (h : List Piece) (n : Nat) (hn : n ∈ host) :
    (SpecSt.run (SpecSt.init host) h).1.syms.defined n = true := by
  apply spec_run_defined_mono
  simp [SpecSt.init, hostSyms, Syms.defined, hn]

/-- **Host-supplied names stay defined (Impl).**  The same for the compiler of the REPL machine
    as it is, for every history (no guard): an accepted `Compile` only adds to the symbol table, a
    rejected one rolls back to exactly the table it started from. -/
theorem host_stays_defined_impl (host : List Nat) (h : List Piece) (n : Nat) (hn : n ∈ host) :
    (Repl.run (Repl.init host) h).1.comp.syms.defined n = true := by
  apply repl_run_defined_mono
  simp [Repl.init, hostSyms, Syms.defined, hn]

/-- `xs := [3, 1, 2]` / `len = func(v) { return 42 }` / `n := len(xs)` / `n` with `len` (name 1)
    supplied by the host -/
def w_host_rebind : List Piece :=
  [.stmts [{ id := 1, vdecl := [2] }],
   .stmts [{ id := 2, uses := [1], asg := [1] }],
   .stmts [{ id := 3, uses := [1, 2], vdecl := [3] }],
   .stmts [{ id := 4, isExpr := true, leaves := true, uses := [3] }]]

example : guardHost [1] w_host_rebind = true := by decide
example : implObsFrom [1] w_host_rebind = specObsFrom [1] w_host_rebind := C18_partial_host _ _ (by decide)
/-- the rebinding (statement 2) is in the trace every later piece runs against -/
example : (implObsFrom [1] w_host_rebind).trace.map (·.1) = [1, 2, 3, 4] ∧
    (implObsFrom [1] w_host_rebind).outcomes = [.ok 0, .ok 0, .ok 0, .ok 4] := by decide
/-- the host list matters: without it the pieces that mention `len` are rejected as undefined -/
example : (implObsFrom [] w_host_rebind).outcomes = [.ok 0, .compileRejected, .compileRejected, .compileRejected] := by
  decide
/-- a host-supplied name is a variable, not a constant: contrast with `const k = 7` / `k = 2` -/
example : (implObsFrom [] [.stmts [{ id := 1, cdecl := [1] }], .stmts [{ id := 2, uses := [1], asg := [1] }]]).outcomes
    = [.ok 0, .compileRejected] := by decide
/-- a function loaded by an earlier run that reads a host-supplied name rebound later sees the
    rebinding (since the repair of C18-function-globals-snapshot): inside the guard, equal to the Spec -/
def w_host_fn : List Piece :=
    [.stmts [{ id := 1, leaves := true, uses := [1], cdecl := [2], fdefs := [2] }],
     .stmts [{ id := 2, uses := [1], asg := [1] }],
     .stmts [{ id := 3, isExpr := true, leaves := true, uses := [2], calls := [2] }]]
example : guardHost [1] w_host_fn = true := by decide
example : implObsFrom [1] w_host_fn = specObsFrom [1] w_host_fn := C18_partial_host _ _ (by decide)

/-! ### the code still violates the property: one witness (recorded finding) -/

/-- `x := 1; func f() { return x }` / `x = 5` / `f()` -/
def w_stale : List Piece :=
  [.stmts [{ id := 1, vdecl := [1] }, { id := 2, leaves := true, uses := [1], cdecl := [2], fdefs := [2] }],
   .stmts [{ id := 3, uses := [1], asg := [1] }],
   .stmts [{ id := 4, isExpr := true, leaves := true, uses := [2], calls := [2] }]]

def snapshotObs (h : List Piece) : Obs :=
  let r := Repl.runSnapshot {} h
  ⟨r.2, r.1.vm.trace, r.1.comp.syms⟩

/-- **HISTORICAL (finding C18-function-globals-snapshot, repaired).**  Before reloadCode forgot the
    loaded functions of the main code, `Run` reloaded the main code with a fresh copy of the globals
    while a function loaded by an earlier run still read and wrote the old copy: `f()` in the third
    piece of `w_stale` did not see `x = 5` (its trace entry carries the stale mark; the history was
    outside the former guard G3, `preFixStaleCall`).  On the code as it is the history is inside the
    guard and equals the Spec, and for every state and piece no entry is marked (`no_stale_view`). -/
theorem C18_fixed_function_globals_snapshot :
    snapshotObs w_stale ≠ specObs w_stale ∧ (snapshotObs w_stale).trace = [(1, false), (2, false), (3, false), (4, true)] ∧
    preFixStaleCall (GSt.after {} (w_stale.take 2)) [{ id := 4, isExpr := true, leaves := true, uses := [2], calls := [2] }] = true ∧
    preFixReloadKeeps [2] = [2] ∧ reloadKeeps [2] = [] ∧
    guard w_stale = true ∧ implObs w_stale = specObs w_stale ∧
    (implObs w_stale).trace = [(1, false), (2, false), (3, false), (4, false)] ∧
    (implObs w_stale).outcomes = [.ok 0, .ok 0, .ok 4] := by decide

/-- `x := 1 / 0` / `x` -/
def w_failed_decl : List Piece :=
  [.stmts [{ id := 1, vdecl := [1], fails := true }],
   .stmts [{ id := 2, isExpr := true, leaves := true, uses := [1] }]]

/-- **Counterexample (a failed piece has still declared its names).**  The declaration never
    executed, yet the next piece compiles against it (and reads nil) instead of being rejected. -/
theorem C18_counterexample_failed_piece_declares : ¬ C18_full := fun h => by
  have := h w_failed_decl
  revert this
  decide

/-! ### three earlier defects were repaired: the old witnesses, on the pre-fix machine and on the code as it is -/

def preFixObs (h : List Piece) : Obs :=
  let r := PreFix.Repl.run {} h
  ⟨r.2, r.1.vm.trace, r.1.comp.syms⟩

/-- `print("a")` / `print("x"); undefined_name` / `print("b")` -/
def w_rejected : List Piece :=
  [.stmts [{ id := 1, isExpr := true, leaves := true }],
   .stmts [{ id := 2, isExpr := true, leaves := true }, { id := 3, isExpr := true, leaves := true, uses := [99] }],
   .stmts [{ id := 4, isExpr := true, leaves := true }]]

/-- `zr := 5; 1 + undefined_name` / `zr`: a declaration and a pending operand before the error -/
def w_rejected_decl : List Piece :=
  [.stmts [{ id := 1, vdecl := [1] }, { id := 2, isExpr := true, leaves := true, uses := [99], pre := 1 }],
   .stmts [{ id := 3, isExpr := true, leaves := true, uses := [1] }]]

/-- **HISTORICAL (finding C18-rejected-piece-code-runs-later, repaired).**  Before `Compile` rolled
    back, the second piece of `w_rejected` was rejected, yet its first statement's code stayed in the
    main code and ran with the third piece (trace 1,2,4 where the Spec demands 1,4), and the rejected
    piece of `w_rejected_decl` had declared `zr` for later input.  On the code as it is both histories
    are inside the guard and equal the Spec. -/
theorem C18_fixed_rejected_piece_code_ran_later :
    preFixObs w_rejected ≠ specObs w_rejected ∧ (preFixObs w_rejected).trace.map (·.1) = [1, 2, 4] ∧
    preFixObs w_rejected_decl ≠ specObs w_rejected_decl ∧
    guard w_rejected = true ∧ implObs w_rejected = specObs w_rejected ∧ (implObs w_rejected).trace.map (·.1) = [1, 4] ∧
    guard w_rejected_decl = true ∧ implObs w_rejected_decl = specObs w_rejected_decl ∧
    (implObs w_rejected_decl).outcomes = [.compileRejected, .compileRejected] := by decide

/-- `7` / an expression whose evaluation needs all 1024 operand slots -/
def w_capacity : List Piece :=
  [.stmts [{ id := 1, isExpr := true, leaves := true }],
   .stmts [{ id := 2, isExpr := true, leaves := true, need := 1024 }]]

/-- **HISTORICAL (finding C18-stack-slot-per-piece, repaired).**  Before `Run` dropped the previous
    result, every piece left its value on the operand stack, so the second piece started one slot
    higher than the same statement in the whole program and overflowed, while the concatenated
    program ran (it pops between statements).  On the code as it is the history equals the Spec and
    the stack holds one value after it. -/
theorem C18_fixed_stack_slot_per_piece :
    preFixObs w_capacity ≠ specObs w_capacity ∧ (preFixObs w_capacity).outcomes = [.ok 1, .failed] ∧
    preFixObs [wholeOf [[{ id := 1, isExpr := true, leaves := true }],
                        [{ id := 2, isExpr := true, leaves := true, need := 1024 }]]]
      = specObs [wholeOf [[{ id := 1, isExpr := true, leaves := true }],
                          [{ id := 2, isExpr := true, leaves := true, need := 1024 }]]] ∧
    (PreFix.Repl.run {} (w_capacity.take 1 ++ w_capacity.take 1 ++ w_capacity.take 1)).1.vm.stack.length = 3 ∧
    (Repl.run {} (w_capacity.take 1 ++ w_capacity.take 1 ++ w_capacity.take 1)).1.vm.stack.length = 1 ∧
    guard w_capacity = true ∧ implObs w_capacity = specObs w_capacity ∧
    (Repl.run {} w_capacity).1.vm.stack.length = 1 := by decide

/-- `x := 1` / `func g() { undefined_name }` / `print("hello")` -/
def w_stuck : List Piece :=
  [.stmts [{ id := 1, vdecl := [1] }],
   .stmts [{ id := 2, leaves := true, uses := [99], cdecl := [2], inFn := true }],
   .stmts [{ id := 3, isExpr := true, leaves := true }]]

/-- **HISTORICAL (finding C18-compiler-stuck-in-function, repaired).**  Before compileFunc switched
    back on its error paths, a compile error inside a function body left `compiler.current` in that
    function's code object; every later piece was compiled into it, reported as accepted, and never
    ran.  On the code as it is the third piece runs. -/
theorem C18_fixed_stuck_compiler :
    preFixObs w_stuck ≠ specObs w_stuck ∧ (preFixObs w_stuck).trace.map (·.1) = [1] ∧
    (PreFix.Repl.run {} w_stuck).1.comp.stuck = true ∧
    guard w_stuck = true ∧ implObs w_stuck = specObs w_stuck ∧ (implObs w_stuck).trace.map (·.1) = [1, 3] := by decide

/-! ### the guard names exactly the one recorded situation; it is satisfiable by rich histories -/

example : guard w_stale = true ∧ guard w_failed_decl = false := by decide
example : violatedGuards w_stale = [] ∧ violatedGuards w_failed_decl = ["decl-after-failure"] ∧
    violatedGuards w_rejected = [] ∧ violatedGuards w_capacity = [] ∧ violatedGuards w_stuck = [] := by decide

/-- a history inside the guard: definitions used by later pieces, a function defined and called
    in one piece, a parse error, an undefined name, a constant reassignment, a piece rejected at its
    second statement after a declaration and pending operands, a compile error inside a function body,
    a failing piece between prints, a use of an earlier definition afterwards, and a call of the
    function of the third piece after the global it reads was reassigned -/
def w_inside : List Piece :=
  [.stmts [{ id := 1, cdecl := [1] }, { id := 2, vdecl := [2] }],
   .bad,
   .stmts [{ id := 3, leaves := true, uses := [2], cdecl := [3], fdefs := [3] },
           { id := 4, isExpr := true, leaves := true, uses := [3], calls := [3] }],
   .stmts [{ id := 5, isExpr := true, leaves := true, uses := [77] }],
   .stmts [{ id := 6, uses := [1], asg := [1] }],
   .stmts [{ id := 12, vdecl := [9] }, { id := 13, isExpr := true, leaves := true, uses := [77], pre := 2, junk := true }],
   .stmts [{ id := 14, leaves := true, uses := [77], cdecl := [8], inFn := true }],
   .stmts [{ id := 7, isExpr := true, leaves := true }, { id := 8, isExpr := true, leaves := true, fails := true, leak := 1 },
           { id := 9, isExpr := true, leaves := true }],
   .stmts [{ id := 10, uses := [2], asg := [2] }, { id := 11, isExpr := true, leaves := true, uses := [2] }],
   .stmts [{ id := 15, isExpr := true, leaves := true, uses := [3], calls := [3] }]]

example : guard w_inside = true := by decide
example : implObs w_inside = specObs w_inside := C18_partial _ (by decide)
example : (implObs w_inside).outcomes =
    [.ok 0, .parseRejected, .ok 4, .compileRejected, .compileRejected, .compileRejected, .compileRejected, .failed, .ok 11, .ok 15] := by decide
example : (implObs w_inside).trace.map (·.1) = [1, 2, 3, 4, 7, 8, 10, 11, 15] := by decide
/-- the last piece calls the function of the third piece after the global it reads was reassigned: not marked -/
example : (implObs w_inside).trace.getLast? = some (15, false) := by decide
/-- the names the two late-rejected pieces declared before their errors (9, 8) are not defined afterwards -/
example : (implObs w_inside).syms.defined 9 = false ∧ (implObs w_inside).syms.defined 8 = false := by decide

example : (GSt.after {} w_inside).ht = 1 := by decide
/-- many pieces, one value: the former capacity witness shape, 3 pieces deep -/
example : (Repl.run {} [.stmts [{ id := 1, isExpr := true, leaves := true }], .stmts [{ id := 2, isExpr := true, leaves := true }],
    .stmts [{ id := 3, isExpr := true, leaves := true }]]).1.vm.stack = [3] := by decide

/-- `jumpsLocal` is satisfiable by a fragment with a loop and a conditional exit, and refuses a
    jump past the end and a backward jump before the start -/
example : jumpsLocal [.op 1, .cjf 0 3, .op 2, .jb 2] = true := by decide
example : jumpsLocal [.op 1, .jf 5] = false := by decide
example : jumpsLocal [.jb 1, .op 1] = false := by decide

/-! ## Layer 3: what a rejected piece leaves on the shared compiler -/

/-- **The property as stated, for the compiler's own state**: for every history of piece
    compilations, every piece is compiled exactly as a compiler that has seen no earlier piece
    would compile it — same emitted instruction forms, same acceptance, nothing left set. -/
def C18_marks_full : Prop := ∀ h : List (List CEv), (∀ evs ∈ h, balancedFrom 0 evs = true) → marksRun [] h = marksSpec h

/-- **C18_marks: the full statement holds.**  For EVERY history of piece compilations (any number of
    pieces, accepted and rejected ones in any order, any nesting of pipes, loops, blocks, switches AND
    function literals, compile errors anywhere — inside function bodies too) in which `enter`/`leave`
    are bracketed, every piece — in particular every piece that follows a REJECTED one — is compiled
    exactly as by a fresh compiler: the instruction forms (`Call` vs `Partial`, …) do not depend on the
    pieces before it and no compile-only mark survives a Compile call.  (Before the repair of
    C18-compiler-stuck-in-function this was `marks_partial` under a guard excluding errors inside
    function literals, and `C18_marks_full` was refuted: see `C18_fixed_marks`.) -/
theorem C18_marks : C18_marks_full := by
  intro h hb
  have := marksRunR_eq Mark.restored h (fun evs he => ⟨hb evs he, errClean_restored evs []⟩)
  simpa [marksRun, marksSpec, compileEvs] using this

/-- `C18_marks` in the form with the decidable well-formedness predicate `marksWf` (kept under the name the
    guarded theorem had: the guard `errClean` is gone) -/
theorem marks_partial (h : List (List CEv)) (hb : marksWf h = true) : marksRun [] h = marksSpec h :=
  C18_marks h (fun evs he => by simpa using (List.all_eq_true.1 hb) evs he)

/-- **Nothing survives a Compile call**: for every bracketed event sequence, accepted or rejected at
    any point (inside a function literal too), and whatever earlier calls left set. -/
theorem marks_restored (inh : List Mark) (evs : List CEv) (hb : balancedFrom 0 evs = true) :
    (compileEvs inh [] evs).own = [] :=
  compileEvsR_own_nil Mark.restored inh evs [] hb (errClean_restored evs [])

/-- all five compile-only marks are restored on the error path -/
theorem marks_table : Mark.pipe.restored = true ∧ Mark.loop.restored = true ∧ Mark.block.restored = true ∧
    Mark.switchVal.restored = true ∧ Mark.fn.restored = true := by decide

/-- `func() { undefined }` / `f(1)`: before the repair the second piece was emitted inside the dead function -/
def w_marks_fn : List (List CEv) := [[.enter .fn, .err], [.emit 1 [.pipe, .fn]]]

/-- **HISTORICAL (finding C18-compiler-stuck-in-function, repaired): compile-only state survived a
    rejected piece.**  Under the pre-fix table (`Compiler.current` not restored when the error
    surfaces inside a function literal) the second piece of `w_marks_fn` was emitted under the `fn`
    mark; under the table of the code as it is it is compiled as by a fresh compiler.  What WAS
    provable before the repair: the statement under `preFixMarksGuard` (general, second conjunct). -/
theorem C18_fixed_marks :
    (marksRunR preFixRestored [] w_marks_fn ≠ w_marks_fn.map (compileEvsR preFixRestored [] [])) ∧
    (∀ h : List (List CEv), preFixMarksGuard h = true →
      marksRunR preFixRestored [] h = h.map (compileEvsR preFixRestored [] [])) ∧
    preFixMarksGuard w_marks_fn = false ∧ marksRun [] w_marks_fn = marksSpec w_marks_fn := by
  refine ⟨by decide, fun h hg => ?_, by decide, by decide⟩
  apply marksRunR_eq
  intro evs he
  have := (List.all_eq_true.1 hg) evs he
  simpa using this

/-- a rejected pipe (`xs | sorted | undefined`) followed by a call and a pipe:
    the call is emitted as `Call` (under no mark), the call inside the later pipe as `Partial` -/
def w_marks_pipe : List (List CEv) :=
  [[.enter .pipe, .emit 1 [], .err], [.emit 2 [.pipe]], [.enter .pipe, .emit 3 [.pipe], .emit 4 [], .leave]]

example : marksWf w_marks_pipe = true ∧ marksWf w_marks_fn = true := by decide
example : (marksRun [] w_marks_pipe).map (·.code) = [[(1, [])], [(2, [])], [(3, [.pipe]), (4, [])]] := by decide
example : (marksRun [] w_marks_fn).map (·.code) = [[], [(1, [])]] := by decide

/-! ## Layer 4: the time a function is bound to a generation of the globals -/

def bindImplVals (h : List (List TStmt)) : List (Option Int) := (bindRun {} (fun _ _ => 0) h).1
def bindSpecVals (h : List (List TStmt)) : List (Option Int) := (bindSpec (fun _ => none) (fun _ _ => 0) h).1

/-- **The property as stated, for globals and functions**: every piece yields the value it yields
    when all reads and writes go to one globals array (the concatenated program). -/
def C18_binding_full : Prop := ∀ h : List (List TStmt), bindImplVals h = bindSpecVals h

/-- **binding_partial** (the statement under the guard, as it was provable before the repair; the guard now
    holds for every history: `bindGuard_always`, `C18_binding`).  For EVERY history (any number of pieces; function declarations in any
    piece; calls in any later piece; globals read, written and re-assigned by functions and by
    top-level code in any order; any integer values) in which every read — by top-level code
    through the current generation, by a function through the generation it was bound to when the
    piece declaring it was first run — goes to a slot that holds the up-to-date value (`bindGuard`,
    decidable), every piece yields exactly the value the concatenated program yields, and after
    the history every global whose current slot is marked valid holds the whole program's value.
    In particular functions bound by the SAME run keep communicating through their common
    generation however many pieces later they are first called. -/
theorem binding_partial (h : List (List TStmt)) (hg : bindGuard h = true) :
    bindImplVals h = bindSpecVals h ∧
    ∀ c V, bindGuardFrom {} (fun _ _ => true) h = some (c, V) →
      (bindRun {} (fun _ _ => 0) h).2.1 = c ∧
      ∀ g, V g c.cur = true → (bindRun {} (fun _ _ => 0) h).2.2 c.cur g = (bindSpec (fun _ => none) (fun _ _ => 0) h).2.2 0 g := by
  simp only [bindGuard, Option.isSome_iff_exists] at hg
  obtain ⟨⟨c, V⟩, hcv⟩ := hg
  have h0 : Agree (fun _ _ => true) (fun _ _ => (0 : Int)) (fun _ _ => 0) := fun _ _ _ => rfl
  obtain ⟨e1, e2, h2⟩ := bindRun_agree h {} _ _ _ c V h0 hcv
  refine ⟨e1, ?_⟩
  intro c' V' hcv'
  rw [hcv] at hcv'
  simp only [Option.some.injEq, Prod.mk.injEq] at hcv'
  obtain ⟨hc, hV⟩ := hcv'
  subst hc; subst hV
  exact ⟨e2, fun g hv => h2 g c.cur hv⟩

/-- **Every history is inside the guard of `binding_partial`**: since reloadCode forgets the loaded
    functions of the main code, every read — by top-level code and by every function, whichever piece
    declared it — goes to the generation of the current run, which holds the up-to-date values. -/
theorem bindGuard_always (h : List (List TStmt)) : bindGuard h = true :=
  bindGuardFrom_isSome h {} (fun _ _ => true) (fun _ => rfl)

/-- **C18_binding (the full statement, no guard).**  For EVERY history (any number of pieces; function
    declarations in any piece; calls in any later piece; globals read, written and re-assigned by
    functions and by top-level code in any order; any integer values) every piece yields exactly the
    value the concatenated program yields, and after the history every global holds the whole program's
    value. -/
theorem C18_binding : C18_binding_full := fun h => (binding_partial h (bindGuard_always h)).1

theorem C18_binding_globals (h : List (List TStmt)) (g : Nat) :
    (bindRun {} (fun _ _ => 0) h).2.2 (bindRun {} (fun _ _ => 0) h).2.1.cur g
      = (bindSpec (fun _ => none) (fun _ _ => 0) h).2.2 0 g := by
  have hg := bindGuard_always h
  have hp := binding_partial h hg
  simp only [bindGuard, Option.isSome_iff_exists] at hg
  obtain ⟨⟨c, V⟩, hcv⟩ := hg
  obtain ⟨hc, hV⟩ := hp.2 c V hcv
  have hall : ∀ (h : List (List TStmt)) (c0 : BCtl) (V0 : Valid) (c1 : BCtl) (V1 : Valid),
      (∀ g, V0 g c0.cur = true) → bindGuardFrom c0 V0 h = some (c1, V1) → ∀ g, V1 g c1.cur = true := by
    intro h
    induction h with
    | nil =>
      intro c0 V0 c1 V1 h0 he
      simp only [bindGuardFrom, Option.some.injEq, Prod.mk.injEq] at he
      obtain ⟨e1, e2⟩ := he
      subst e1; subst e2
      exact h0
    | cons l rest ih =>
      intro c0 V0 c1 V1 h0 he
      obtain ⟨V2, h2, hV2⟩ := okPiece_cur (c0.next l).env (next_allCur c0 l) l (reloadValid c0 V0) (reloadValid_cur c0 l V0 h0)
      simp only [bindGuardFrom, h2] at he
      exact ih _ _ _ _ hV2 he
  rw [hc]
  exact hV g (hall h {} _ c V (fun _ => rfl) hcv g)

/-- **Binding time.**  After a piece has been fed, every function constant of the main code is
    bound to the generation of THIS run — for every control state and every piece, whether the function
    was loaded before or not. -/
theorem bound_at_every_run (c : BCtl) (l : List TStmt) (f : Nat) (d : FnDef)
    (hd : (c.next l).defs f = some d) : (c.next l).bind f = some (c.next l).cur := by
  simp only [BCtl.next] at hd ⊢
  simp [hd]

/-- HISTORICAL (before the repair): a function constant that was not bound before was bound to the generation
    of the run that first saw it, and once bound it stayed bound to that generation -/
theorem preFix_bound_at_declaring_run (c : BCtl) (l : List TStmt) (f : Nat) (d : FnDef)
    (hd : (c.nextSnapshot l).defs f = some d) (hb : c.bind f = none) :
    (c.nextSnapshot l).bind f = some (c.nextSnapshot l).cur := by
  simp only [BCtl.nextSnapshot] at hd ⊢
  simp [hb, hd]

theorem preFix_binding_was_stable (c : BCtl) (l : List TStmt) (f k : Nat) (hb : c.bind f = some k) :
    (c.nextSnapshot l).bind f = some k := by
  simp [BCtl.nextSnapshot, hb]

/-- `x := 1; func f() { return x }` / `x = 5` / `f()` (globals: x = 0; functions: f = 0) -/
def w_bind_stale : List (List TStmt) :=
  [[.set 0 (.lit 1), .defn 0 ⟨[], .glob 0⟩], [.set 0 (.lit 5)], [.expr (.call 0 (.lit 0))]]

/-- **HISTORICAL (finding C18-function-globals-snapshot, repaired): functions kept the generation they
    were bound to.**  On the pre-fix control `f()` yielded 1, the concatenated program 5, and the history
    was outside the guard; on the code as it is `f()` yields 5. -/
theorem C18_fixed_binding_kept_generation :
    (bindRunSnapshot {} (fun _ _ => 0) w_bind_stale).1 = [none, none, some 1] ∧
    bindSpecVals w_bind_stale = [none, none, some 5] ∧
    (bindGuardSnapshotFrom {} (fun _ _ => true) w_bind_stale).isSome = false ∧
    bindImplVals w_bind_stale = [none, none, some 5] := by decide

/-- `total := 0` / `func add(n) { total = total + n }; func report() { return total }` / `add(5)` /
    `add(7); report()`: declared together in a non-first piece, first called in different pieces -/
def w_bind_together : List (List TStmt) :=
  [[.set 0 (.lit 0)],
   [.defn 0 ⟨[(0, .add (.glob 0) .arg)], .glob 0⟩, .defn 1 ⟨[], .glob 0⟩],
   [.expr (.call 0 (.lit 5))],
   [.expr (.call 0 (.lit 7)), .expr (.call 1 (.lit 0))]]

example : bindGuard w_bind_together = true := by decide
example : bindImplVals w_bind_together = [none, none, some 5, some 12] := by decide
example : bindGuard w_bind_stale = true := by decide

/-! ## Layer 5: per-piece contexts and the halt flag -/

/-- **The context of a piece is invisible.**  For EVERY history of pieces, each run with its own
    context (background, cancellable, or done before the run ends — the piece is then one that
    fails at run time), the machine with the halt flag yields exactly the outcomes and the state
    of the machine without it: what a run's context did to the halt flag never reaches a later
    piece, whatever that piece's context is. -/
theorem ctx_invisible (l : List (Ctx × Piece)) : ∀ (h : HRepl),
    (h.run l).2 = (h.r.run (l.map (·.2))).2 ∧ (h.run l).1.r = (h.r.run (l.map (·.2))).1 := by
  induction l with
  | nil => intro h; exact ⟨rfl, rfl⟩
  | cons cp rest ih =>
    intro h
    obtain ⟨c, p⟩ := cp
    have hs : startClearsHalt c = true := by cases c <;> decide
    have hf : (h.feed c p).2 = (h.r.feed p).2 ∧ (h.feed c p).1.r = (h.r.feed p).1 := by
      simp only [HRepl.feed, hs, ↓reduceIte, Bool.false_eq_true]
      cases (h.r.feed p).2 <;> exact ⟨rfl, rfl⟩
    obtain ⟨i1, i2⟩ := ih (h.feed c p).1
    simp only [HRepl.run, Repl.run, List.map_cons]
    rw [i2, hf.2] at *
    rw [i1, hf.1]
    exact ⟨rfl, rfl⟩

/-- **C18_partial with per-piece contexts.**  For every assignment of contexts to the pieces of a
    history inside `guard`, the machine with the halt flag yields the Spec's outcomes, trace and
    definitions: later pieces behave as in the whole program made of the pieces that completed. -/
theorem C18_partial_ctx (l : List (Ctx × Piece)) (hg : guard (l.map (·.2)) = true) :
    (⟨((HRepl.run {} l).2), (HRepl.run {} l).1.r.vm.trace, (HRepl.run {} l).1.r.comp.syms⟩ : Obs) = specObs (l.map (·.2)) := by
  obtain ⟨h1, h2⟩ := ctx_invisible l {}
  rw [h1, h2]
  exact C18_partial _ hg

/-- a piece ended by its context (`for { }`, a failing statement without effect) between ordinary
    pieces run with the background context -/
example : (HRepl.run {} [(.background, .stmts [{ id := 1, vdecl := [1] }]),
    (.done, .stmts [{ id := 2, isExpr := true, leaves := true, fails := true }]),
    (.background, .stmts [{ id := 3, isExpr := true, leaves := true, uses := [1] }])]).2 = [.ok 0, .failed, .ok 3] := by decide

/-! ## Layer 6: the import cache across pieces -/

/-- **import_once_across_pieces.**  For EVERY module configuration (initial states, which module
    imports which), every set of host-supplied modules, every state the session is in and EVERY
    partition of a program into consecutive pieces (any number of pieces, imports of the same
    module under any handles in any pieces, mutations through any handle in between), the session
    fed piece by piece to the one VM ends in exactly the state of the concatenated program evaluated
    at once: the same tick log — each module body runs exactly when it runs in the whole program —
    the same module states, the same bindings of handles, the same integer globals and the same
    value for every expression statement. -/
theorem import_once_across_pieces (cfg : ModCfg) (seed : List Nat) (s : ISt) (h : List (List IStmt)) :
    impImpl cfg seed s h = impWhole cfg s h :=
  impRun_keep cfg seed h s

/-- the two observables the harness compares on the real code, for every partition: the order in
    which module bodies ran and the values of all expression statements -/
theorem import_log_and_values (cfg : ModCfg) (seed : List Nat) (s : ISt) (h : List (List IStmt)) :
    (impImpl cfg seed s h).log = (impWhole cfg s h).log ∧ (impImpl cfg seed s h).vals = (impWhole cfg s h).vals := by
  rw [import_once_across_pieces]
  exact ⟨rfl, rfl⟩

/-- two partitions of the same program cannot be told apart -/
theorem import_partition_irrelevant (cfg : ModCfg) (seed : List Nat) (s : ISt) (h₁ h₂ : List (List IStmt))
    (e : h₁.flatten = h₂.flatten) : impImpl cfg seed s h₁ = impImpl cfg seed s h₂ := by
  rw [import_once_across_pieces, import_once_across_pieces, impWhole, impWhole, e]

/-- **A module body runs at most once per session and never for a host-supplied module**: from the
    start state, for every session, the tick log has no repetition and names no seeded module. -/
theorem module_body_runs_once (cfg : ModCfg) (seed : List Nat) (h : List (List IStmt)) :
    (impImpl cfg seed (ISt.start seed) h).log.Nodup ∧ ∀ m ∈ (impImpl cfg seed (ISt.start seed) h).log, m ∉ seed := by
  rw [import_once_across_pieces]
  have inv := execI_inv cfg h.flatten (ISt.start seed) seed
    ⟨List.nodup_nil, fun _ hm => (List.not_mem_nil hm).elim, fun _ hm => hm⟩
  exact ⟨inv.1, fun m hm => (inv.2.1 m hm).2⟩

/-- `import m as a; a.bump(1)` / `import m as b; [a.get()]` with `init m = 0` -/
def w_reimport : List (List IStmt) := [[.imp 0 0, .bump 0 1], [.imp 1 0, .get [0, 1]]]

def w_cfg : ModCfg := ⟨fun _ => 0, fun _ => false⟩

/-- **Contrast (not the code): an import cache that every run starts afresh.**  The second piece's
    import misses, the module body runs again on the loaded module: the tick is repeated and the
    state set through the first handle is lost — for both handles. -/
theorem reset_every_run_differs :
    (impRun true w_cfg [] (ISt.start []) w_reimport).log = [0, 0] ∧
    (impRun true w_cfg [] (ISt.start []) w_reimport).vals = [[1], [0, 0]] ∧
    (impWhole w_cfg (ISt.start []) w_reimport).log = [0] ∧
    (impWhole w_cfg (ISt.start []) w_reimport).vals = [[1], [1, 1]] := by decide

example : (impImpl w_cfg [] (ISt.start []) w_reimport).log = [0] ∧
    (impImpl w_cfg [] (ISt.start []) w_reimport).vals = [[1], [1, 1]] := by decide

/-- a module that imports another one: `import m1` runs m1's body, which ticks, imports m0, and
    initialises; a later `import m0 as h` in another piece is a cache hit -/
example : (impImpl ⟨fun m => 10 * (m + 1), fun _ => true⟩ [] (ISt.start [])
    [[.imp 1 1], [.imp 0 0, .bump 0 5], [.imp 2 1, .below 2, .get [0, 1, 2]]]).log = [1, 0] := by decide

/-! ## Layer 7: globals are carried across piece boundaries by slot -/

/-- **reload_preserves_slots.**  For EVERY root symbol table (`names`, with or without repeated
    names), every array of that length, EVERY number of pieces each adding any slots under any names
    (also names already in the table: block variables that shadow top-level variables) and running
    any slot statements that address the table as it is after that piece's compilation
    (`scopedFrom`, what a compiler emits): after all piece boundaries the table is the whole
    program's table, EVERY slot holds exactly what it holds when the concatenated program is
    evaluated at once on one array, and every expression statement has yielded the same value. -/
theorem reload_preserves_slots (names : List Nat) (a : Slots) (vs : List Int) (h : List SPiece)
    (ha : a.length = names.length) (hs : scopedFrom names.length h = true) :
    slotRun reloadBySlot names (a, vs) h = (names ++ allDecls h, slotWhole names a vs h) := by
  obtain ⟨e1, e2, _, e4⟩ := slotRun_pad (names.length + (allDecls h).length) h names a vs ha hs (Nat.le_refl _)
  simp only [Nat.sub_self, List.replicate_zero, List.append_nil] at e1
  have hN : (names ++ allDecls h).length = names.length + (allDecls h).length := List.length_append
  refine Prod.ext e4 (Prod.ext ?_ ?_)
  · simp only [slotWhole, hN]; exact e1
  · simp only [slotWhole, hN]; exact e2

/-- every slot, one by one (the form the harness evaluates through `vm.Get` for the first slot of
    every name) -/
theorem reload_preserves_every_slot (names : List Nat) (a : Slots) (vs : List Int) (h : List SPiece)
    (ha : a.length = names.length) (hs : scopedFrom names.length h = true) (i : Nat) :
    (slotRun reloadBySlot names (a, vs) h).2.1.getD i none = (slotWhole names a vs h).1.getD i none := by
  rw [reload_preserves_slots names a vs h ha hs]

/-- what `vm.Get` returns for every name is what it returns after whole-program evaluation -/
theorem get_by_name_preserved (names : List Nat) (a : Slots) (vs : List Int) (h : List SPiece)
    (ha : a.length = names.length) (hs : scopedFrom names.length h = true) (nm : Nat) :
    getByName (slotRun reloadBySlot names (a, vs) h).1 (slotRun reloadBySlot names (a, vs) h).2.1 nm
      = getByName (names ++ allDecls h) (slotWhole names a vs h).1 nm := by
  rw [reload_preserves_slots names a vs h ha hs]

/-- **Names play no role.**  Renaming the slots in any way — making distinct names equal or equal
    names distinct — changes neither an array nor a value of any session. -/
theorem slot_names_irrelevant (ρ : Nat → Nat) (h : List SPiece) : ∀ (names : List Nat) (s : SSt),
    (slotRun reloadBySlot (names.map ρ) s (h.map fun p => { p with decls := p.decls.map ρ })).2
      = (slotRun reloadBySlot names s h).2 := by
  induction h with
  | nil => intro names s; rfl
  | cons p rest ih =>
    intro names s
    obtain ⟨a, vs⟩ := s
    simp only [List.map_cons, slotRun, ← List.map_append]
    rw [show reloadBySlot (List.map ρ (names ++ p.decls)) a = reloadBySlot (names ++ p.decls) a by
      simp only [reloadBySlot, List.length_map]]
    exact ih _ _

/-- `x := 100; for x := 0; x < 3; x++ { }` / `x`: slots 0 and 1 are both called 7 -/
def w_shadow : List SPiece :=
  [⟨[7, 7], [.set 0 (.lit 100), .set 1 (.lit 0), .set 1 (.add (.slot 1) (.lit 1)), .set 1 (.add (.slot 1) (.lit 1)),
             .set 1 (.add (.slot 1) (.lit 1))]⟩,
   ⟨[], [.expr (.slot 0)]⟩]

/-- **Contrast (not the code): carrying the globals over by NAME.**  At the piece boundary the outer
    variable takes the block variable's last value: the second piece yields 3, the whole program 100. -/
theorem reload_by_name_conflates :
    (slotRun reloadByName [] ([], []) w_shadow).2 = ([some 3, some 3], [3]) ∧
    (slotRun reloadBySlot [] ([], []) w_shadow).2 = ([some 100, some 3], [100]) ∧
    slotWhole [] [] [] w_shadow = ([some 100, some 3], [100]) := by decide

example : scopedFrom 0 w_shadow = true := by decide
example : slotRun reloadBySlot [] ([], []) w_shadow = ([7, 7], slotWhole [] [] [] w_shadow) :=
  reload_preserves_slots [] [] [] w_shadow rfl (by decide)

/-- **Why no existing test could tell the two apart**: for a table WITHOUT repeated names the by-name
    carry-over is the by-slot copy — for every array no longer than the table. -/
theorem reload_by_name_eq_by_slot_of_nodup (names : List Nat) (a : Slots) (hn : names.Nodup)
    (ha : a.length ≤ names.length) : reloadByName names a = reloadBySlot names a :=
  reloadByName_eq_of_nodup names a hn ha

/-- … and so is every session whose final table has no repeated name: the repeated names (block
    variables shadowing top-level variables) are exactly what separates the contrast from the code. -/
theorem by_name_session_eq_of_nodup (names : List Nat) (a : Slots) (vs : List Int) (h : List SPiece)
    (ha : a.length = names.length) (hs : scopedFrom names.length h = true) (hn : (names ++ allDecls h).Nodup) :
    slotRun reloadByName names (a, vs) h = slotRun reloadBySlot names (a, vs) h :=
  slotRun_byName_eq h names a vs ha hs hn

end Risor.C18
