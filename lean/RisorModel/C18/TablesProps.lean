import RisorModel.C18.TablesLemmas
/-!
C18, layer 8 — property theorems about the tables of the main code (constants, root symbol table) that the
pieces of a session share, and about the rollback of a rejected piece (`Tables.lean`).

Every theorem quantifies over ALL tables (well-formed where a rollback is involved: `Tab.Wf`, which holds of the
empty table and is preserved by every compilation — `compiled_table_wf`), ALL pieces (any statements, block
variables with any names — in particular names of live globals —, literals of any value, the compile error
anywhere) and ALL histories.
-/
namespace Risor.C18

/-- the table before the first piece is well-formed -/
theorem empty_table_wf : ({} : Tab).Wf := by intro n i h; cases h

/-- whatever a piece does — accepted or rejected, stopped at any statement — the table stays well-formed -/
theorem compiled_table_wf (T : Tab) (hw : T.Wf) (p : KPiece) : (compPiece p T).tab.Wf :=
  (compPiece_ext p T).wf hw

/-- ROLLBACK RESTORES THE TABLES.  For every well-formed table `T` and every piece `p` (accepted or rejected;
    if rejected, at whichever statement, after whichever literals, top-level declarations and block variables —
    also block variables called like a live global): cutting the tables the compilation stopped in back to the
    mark taken on `T` gives exactly `T`: the constants, the symbols and the names. -/
theorem rollback_restores_tables (T : Tab) (hw : T.Wf) (p : KPiece) :
    (compPiece p T).tab.rollback true T.consts.length T.syms.length = T :=
  (compPiece_ext p T).rollback hw

/-- a rejected piece leaves the session of the code as it is EXACTLY as it was: the tables (so every later piece is
    compiled as if the rejected piece had never been offered), the globals and the values -/
theorem rejected_piece_leaves_tables (s : KSess) (hw : s.tab.Wf) (p : KPiece) (hrej : (compPiece p s.tab).ok = false) :
    (tabFeed truncateDeleteGuarded s p).tab = s.tab ∧ (tabFeed truncateDeleteGuarded s p).run = s.run := by
  show (tabFeed true s p).tab = s.tab ∧ (tabFeed true s p).run = s.run
  unfold tabFeed
  simp only [hrej, Bool.false_eq_true, if_false]
  exact ⟨rollback_restores_tables s.tab hw p, trivial⟩

/-- THE SESSION OF THE CODE IS THE SPEC'S.  For every history of pieces (rejected ones anywhere) from every
    well-formed state: mark / compile / truncate-on-error ends in the same tables, globals, values and accept flags
    as the session in which a rejected piece is simply not there (the compiler restored from a snapshot). -/
theorem tab_session_eq_spec (h : List KPiece) : ∀ s : KSess, s.tab.Wf → tabImpl s h = tabSpec s h := by
  show ∀ s : KSess, s.tab.Wf → tabRun true s h = tabSpec s h
  induction h with
  | nil => intro s _; rfl
  | cons p rest ih =>
    intro s hw
    have hfeed : tabFeed true s p = tabSpecFeed s p := by
      unfold tabFeed tabSpecFeed
      by_cases hok : (compPiece p s.tab).ok = true
      · simp only [hok, if_true]
      · simp only [hok, Bool.false_eq_true, if_false]
        rw [rollback_restores_tables s.tab hw p]
    have hw1 : (tabSpecFeed s p).tab.Wf := by
      unfold tabSpecFeed
      by_cases hok : (compPiece p s.tab).ok = true
      · simp only [hok, if_true]; exact compiled_table_wf s.tab hw p
      · simp only [hok, Bool.false_eq_true, if_false]; exact hw
    simp only [tabRun, tabSpec, List.foldl_cons]
    rw [hfeed]
    exact ih _ hw1

/-- the code an accepted (or partly compiled) piece has emitted loads only constants that EXIST in the table when
    the compilation ends: for every table and piece -/
theorem emitted_constants_exist (T : Tab) (p : KPiece) :
    (compPiece p T).code.all (·.scoped (compPiece p T).tab.consts.length) = true :=
  compPiece_scoped p T

/-- A LITERAL DENOTES ITSELF.  For every expression the compiler accepts in table `T`: evaluated against the
    constants as they are when its compilation ends, OR ANY LATER EXTENSION of them (`more`: whatever later
    statements and pieces append), the compiled form yields the source-level value — every literal its own value,
    every name the value of the slot it stands for. -/
theorem literal_denotes_itself (blks : List Nat) (e : KExpr) : ∀ (T T' : Tab) (r : RExpr) (more : List Int) (G : KGlob),
    e.comp blks T = (T', some r) → r.eval (T'.consts ++ more) G = e.val T blks G := by
  induction e with
  | lit v =>
    intro T T' r more G h
    simp only [KExpr.comp, Prod.mk.injEq, Option.some.injEq] at h
    obtain ⟨h1, h2⟩ := h
    subst h1 h2
    simp [RExpr.eval, KExpr.val, List.getD_eq_getElem?_getD]
  | root n =>
    intro T T' r more G h
    simp only [KExpr.comp, Prod.mk.injEq] at h
    cases hb : T.byName n with
    | none => simp [hb] at h
    | some i => simp [hb] at h; rw [← h.2]; simp [RExpr.eval, KExpr.val, hb]
  | blk j =>
    intro T T' r more G h
    simp only [KExpr.comp, Prod.mk.injEq] at h
    cases hb : blks[j]? with
    | none => simp [hb] at h
    | some i => simp [hb] at h; rw [← h.2]; simp [RExpr.eval, KExpr.val, hb]
  | add a b iha ihb =>
    intro T T' r more G h
    simp only [KExpr.comp] at h
    cases hca : a.comp blks T with
    | mk T1 ra =>
      rw [hca] at h
      cases ra with
      | none => simp at h
      | some ra =>
        dsimp only at h
        cases hcb : b.comp blks T1 with
        | mk T2 rb =>
          rw [hcb] at h
          cases rb with
          | none => simp at h
          | some rb =>
            simp only [Prod.mk.injEq, Option.some.injEq] at h
            obtain ⟨h1, h2⟩ := h
            subst h1 h2
            obtain ⟨eb, heb⟩ := KExpr.comp_tab blks b T1
            rw [hcb] at heb
            simp only at heb
            obtain ⟨hs1, hn1⟩ := KExpr.comp_syms blks a T
            rw [hca] at hs1 hn1
            simp only at hs1 hn1
            have hva : ra.eval (T2.consts ++ more) G = a.val T blks G := by
              have := iha T T1 ra (eb ++ more) G hca
              rw [heb]; simpa [List.append_assoc] using this
            have hvb : rb.eval (T2.consts ++ more) G = b.val T1 blks G := ihb T1 T2 rb more G hcb
            have hvb' : b.val T1 blks G = b.val T blks G := by
              have : ∀ e : KExpr, e.val T1 blks G = e.val T blks G := by
                intro e
                induction e with
                | lit v => rfl
                | root n => simp [KExpr.val, hn1]
                | blk j => rfl
                | add x y ihx ihy => simp [KExpr.val, ihx, ihy]
              exact this b
            simp [RExpr.eval, KExpr.val, hva, hvb, hvb']

/-- INCREMENTAL = WHOLE for the tables.  For every history from every state: the pieces one by one — a rejected
    piece dropped, each accepted piece compiled into the shared tables and run against the constants as they are
    at that moment — end in the same tables, the same Globals array and the same values as the accepted pieces
    CONCATENATED, compiled at once and run at once against the final constants; and the concatenation is accepted. -/
theorem tab_pieces_eq_whole (h : List KPiece) : ∀ s : KSess,
    (tabSpec s h).run = (tabWhole s.tab s.run h).2 ∧
    (tabSpec s h).tab = (tabWhole s.tab s.run h).1.tab ∧
    (tabWhole s.tab s.run h).1.ok = true := by
  induction h with
  | nil => intro s; exact ⟨rfl, rfl, rfl⟩
  | cons p rest ih =>
    intro s
    by_cases hok : (compPiece p s.tab).ok = true
    · have hfeed : tabSpecFeed s p = KSess.mk (compPiece p s.tab).tab
          (execR (compPiece p s.tab).tab.consts (compPiece p s.tab).code s.run) (s.acc ++ [true]) := by
        unfold tabSpecFeed; simp only [hok, if_true]
      have hacc : acceptedOf s.tab (p :: rest) = p :: acceptedOf (compPiece p s.tab).tab rest := by
        simp only [acceptedOf, hok, if_true]
      obtain ⟨i1, i2, i3⟩ := ih (tabSpecFeed s p)
      rw [hfeed] at i1 i2 i3
      simp only at i1 i2 i3
      have happ := compPiece_append p (acceptedOf (compPiece p s.tab).tab rest).flatten s.tab hok
      obtain ⟨more, hmore⟩ := (compPiece_ext (acceptedOf (compPiece p s.tab).tab rest).flatten (compPiece p s.tab).tab).consts
      simp only [tabSpec, List.foldl_cons] at i1 i2 ⊢
      rw [hfeed]
      simp only [tabWhole] at i1 i2 i3 ⊢
      rw [hacc, List.flatten_cons, happ]
      refine ⟨?_, i2, i3⟩
      rw [i1]
      have e1 : ∀ (pre : List RStmt) (c : CSt), (CSt.withPre pre c).tab = c.tab := fun _ _ => rfl
      have e2 : ∀ (pre : List RStmt) (c : CSt), (CSt.withPre pre c).code = pre ++ c.code := fun _ _ => rfl
      rw [e1, e2, execR_append, hmore, execR_pool _ _ more s.run (compPiece_scoped p s.tab)]
    · have hfeed : tabSpecFeed s p = { s with acc := s.acc ++ [false] } := by
        unfold tabSpecFeed; simp only [hok, Bool.false_eq_true, if_false]
      have hacc : acceptedOf s.tab (p :: rest) = acceptedOf s.tab rest := by
        simp only [acceptedOf, hok, Bool.false_eq_true, if_false]
      have := ih { s with acc := s.acc ++ [false] }
      simp only [tabSpec, List.foldl_cons, tabWhole] at this ⊢
      rw [hfeed, hacc]
      exact this

/-- the session of the code as it is, against the whole program (both steps together): from every well-formed
    state, every history -/
theorem tab_session_eq_whole (h : List KPiece) (s : KSess) (hw : s.tab.Wf) :
    (tabImpl s h).run = (tabWhole s.tab s.run h).2 ∧ (tabImpl s h).tab = (tabWhole s.tab s.run h).1.tab := by
  rw [tab_session_eq_spec h s hw]
  exact ⟨(tab_pieces_eq_whole h s).1, (tab_pieces_eq_whole h s).2.1⟩

/-! ### contrast: truncate WITHOUT the identity guard (not the code) -/

/-- `za := 5` / `if c { za := 0; no_such_name }` (rejected) / `za` -/
def w_block_shadow : List KPiece :=
  [[[⟨.declRoot 0 (.lit 5), true⟩]],
   [[⟨.declBlk 0 (.lit 0), true⟩, ⟨.bad, true⟩]],
   [[⟨.expr (.root 0), true⟩]]]

/-- deleting the name of every removed symbol (no `== s` guard) makes the rollback of a rejected piece whose BLOCK
    declares a variable called like a live global delete the global's name: the later piece that mentions it is
    rejected, while the code as it is accepts it and yields 5, like the whole program -/
theorem unguarded_truncate_forgets_a_global :
    (tabRun false {} w_block_shadow).acc = [true, false, false] ∧ (tabRun false {} w_block_shadow).run.2 = [] ∧
    (tabImpl {} w_block_shadow).acc = [true, false, true] ∧ (tabImpl {} w_block_shadow).run.2 = [5] ∧
    (tabWhole {} (fun _ => none, []) w_block_shadow).2.2 = [5] := by decide

/-- … and a later `za := 7` is then accepted as a FRESH declaration into a second slot, while vm.Get(za) keeps
    answering from the first -/
theorem unguarded_truncate_redeclares :
    let h := [[[⟨.declRoot 0 (.lit 5), true⟩]], [[⟨.declBlk 0 (.lit 0), true⟩, ⟨.bad, true⟩]], [[⟨.declRoot 0 (.lit 7), true⟩]]]
    (tabRun false {} h).acc = [true, false, true] ∧ (tabRun false {} h).tab.syms = [0, 0] ∧
    getK (tabRun false {} h).tab (tabRun false {} h).run.1 0 = some 5 ∧
    (tabImpl {} h).acc = [true, false, false] ∧ (tabImpl {} h).tab.syms = [0] := by decide

/-! ### the hypotheses are satisfiable; the statements are not vacuous -/

/-- a history with a rejected piece that mentions a new literal and shadows two globals in a block, then pieces that
    use the same literal and the globals -/
def w_tables : List KPiece :=
  [[[⟨.declRoot 0 (.lit 5), true⟩], [⟨.declRoot 1 (.add (.root 0) (.lit 41)), true⟩]],
   [[⟨.declBlk 0 (.lit 41), true⟩, ⟨.declBlk 1 (.blk 0), true⟩, ⟨.expr (.root 9), true⟩]],
   [[⟨.declBlk 1 (.lit 7), true⟩, ⟨.setRoot 0 (.add (.blk 0) (.lit 41)), true⟩, ⟨.declBlk 0 (.lit 1), false⟩]],
   [[⟨.expr (.add (.root 0) (.root 1)), true⟩]]]

example : (tabImpl {} w_tables).acc = [true, false, true, true] ∧ (tabImpl {} w_tables).run.2 = [94] ∧
    (tabImpl {} w_tables).tab.syms = [0, 1, 1, 0] ∧ (tabImpl {} w_tables).tab.consts = [5, 41, 7, 41, 1] := by decide
example : (tabImpl {} w_tables).run.2 = (tabWhole {} (fun _ => none, []) w_tables).2.2 :=
  congrArg Prod.snd (tab_session_eq_whole w_tables {} empty_table_wf).1
example : (acceptedOf {} w_tables).length = 3 := by decide

end Risor.C18
