import RisorModel.C18.Model
import RisorModel.C18.Tables
import RisorModel.C18.Decls
import RisorModel.Generated.C18
/-!
C18 ties: facts regenerated from /repo's sources on this run equal what the REPL state machine
in `Model.lean` is built on.
-/
namespace Risor.C18

/-- getEvaluator makes exactly the calls `Repl.feed` models, in that order: one compiler, Parse,
    Compile, one VM, Run, SetIP(InstructionCount) and TOS -/
theorem replProtocol_tie : Risor.Generated.C18.replCalls = replProtocol := by decide

/-- after a run-time error the REPL moves the ip to the end of the code (`Repl.feed`: `ip := code.length`) -/
theorem replSetsIP_tie : Risor.Generated.C18.replSetsIPAfterError = true := by decide

/-- (*VirtualMachine).Run resumes (resetState = false): the ip survives between pieces … -/
theorem runKeepsState_tie : Risor.Generated.C18.runResetsState = false := by decide

/-- … and the operand stack does NOT: on the resuming path runCodeInternal pops it empty before the
    entrypoint is activated (`Repl.feed` runs every piece from `[]`; repair of C18-stack-slot-per-piece) -/
theorem runStartsOnEmptyStack_tie : Risor.Generated.C18.runStartsOnEmptyStack = runStartsOnEmptyStack := by decide

/-- reloadCode gives the main code a fresh Globals slice and copies the old values into it by
    position — Go's `copy`, the model's `copyInto` in `reloadBySlot` (layer 7)
    (layer 4 `reloadGens`) -/
theorem reloadCopies_tie : Risor.Generated.C18.reloadCopiesGlobals = true := by decide

/-- … and forgets, before it wraps the main code afresh, every loaded code object whose `Root()` is the
    main code: no function of the main code keeps the old slice (`reloadKeeps = []`, layer 4 `BCtl.next`
    binds every function constant to the generation of the current run; repair of
    C18-function-globals-snapshot — if the loop is lost, this tie breaks and the sessions with functions
    called from later pieces are violations again) -/
theorem reloadDropsMainFunctions_tie :
    Risor.Generated.C18.reloadDropsMainFunctions = reloadDropsMainFunctions := by decide

/-- Compile rolls back on error (`Repl.feed`: a rejected piece leaves the machine as it was; repair of
    C18-rejected-piece-code-runs-later): the mark is taken first, every error return follows
    `c.main.rollback(mark)`, and rollback / truncate restore the instructions, constants, names, child codes,
    source, the symbols (with their names) and the child tables of the root symbol table -/
theorem compileRollsBack_tie :
    Risor.Generated.C18.compileRollsBackOnError = compileRollsBackOnError ∧
    Risor.Generated.C18.rollbackRestores = rollbackRestores ∧
    Risor.Generated.C18.truncateRestores = truncateRestores := by decide

/-- layer 8 (`Tab.rollback`, `truncNames`): truncate deletes the name of a removed symbol only when the name's
    entry IS that symbol — a removed block symbol does not take the name of a live global with it
    (`rollback_restores_tables`; the contrast without the guard: `unguarded_truncate_forgets_a_global`) -/
theorem truncateDeleteGuarded_tie : Risor.Generated.C18.truncateDeleteGuarded = truncateDeleteGuarded := by decide

/-- the compiler's state, field by field, is the state `compilerStateReviewed` classifies (restored by the rollback /
    compile-only with a deferred reset / assigned afresh by every Compile call / never assigned after construction):
    a field added to Compiler, Code or SymbolTable — e.g. a table the compiler keeps NEXT to the code object, which
    Code.rollback cannot restore — must be reviewed and modelled before this tie holds again -/
theorem compilerState_tie : Risor.Generated.C18.compilerStateFields = compilerStateReviewed.map (·.1) := by decide

/-- compile-only state (layer 3, `Mark.restored`): `pipeActive`, `loops`, `symbols`,
    `pendingSwitchValues` and — since the repair of C18-compiler-stuck-in-function — `Compiler.current`
    are reset by a deferred function in every compile function that sets them -/
theorem compileOnlyRestores_tie : Risor.Generated.C18.compileOnlyRestores = compileOnlyRestores := by decide

/-- `start` clears the halt flag for every context (layer 5, `startClearsHalt`) -/
theorem startClearsHalt_tie : Risor.Generated.C18.startClearsHaltUnconditionally = haltClearedForEveryContext := by decide

/-- every Run loads — binds to its generation of the globals — every function constant of the main
    code (none is loaded after a reload: `reloadDropsMainFunctions_tie`; layer 4, `BCtl.next`) -/
theorem loadsFunctionConstants_tie : Risor.Generated.C18.loadsFunctionConstantsEveryRun = true := by decide

/-- the import cache (layer 6, `importCacheResetEveryRun = false`): `vm.modules` is replaced or cleared
    by `resetForNewCode` only, which is reached only under `resetState` — and `Run` passes
    `resetState = false` (`runKeepsState_tie`): no piece boundary touches the cache -/
theorem importCacheKept_tie :
    Risor.Generated.C18.importCacheReplacedBy = importCacheReplacedBy ∧
    Risor.Generated.C18.resetOnlyWhenResetState = true ∧
    importCacheResetEveryRun = Risor.Generated.C18.runResetsState := by decide

/-- layer 9: compileMain calls collectFunctionDeclarations at the top level of its body and before `c.compile(node)` — on every
    input, also on a program of one statement: the first pass is the only place that refuses `func` over an existing name -/
theorem firstPassOnEveryInput_tie : Risor.Generated.C18.firstPassOnEveryInput = firstPassOnEveryInput := by decide

end Risor.C18
