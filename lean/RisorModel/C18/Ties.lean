import RisorModel.C18.Model
import RisorModel.Generated.C18
/-!
C18 ties: facts regenerated from /repo's sources on this run equal what the REPL state machine
in `Model.lean` is built on.
-/
namespace Risor.C18

/-- getEvaluator makes exactly the calls `Repl.feed` models, in that order: one compiler, Parse,
    Compile, one VM, Run, SetIP(InstructionCount) and TOS -/
theorem replProtocol_tie : Risor.Generated.C18.replCalls = replProtocol := by decide

/-- after a run-time error the REPL moves the ip to the end of the code (`Repl.feed`: `ip := code.length`) -/
theorem replSetsIP_tie : Risor.Generated.C18.replSetsIPAfterError = true := by decide

/-- (*VirtualMachine).Run resumes (resetState = false): the stack and the ip survive between pieces -/
theorem runKeepsState_tie : Risor.Generated.C18.runResetsState = false := by decide

/-- reloadCode gives the main code a fresh Globals slice and copies the old values into it by
    position — Go's `copy`, the model's `copyInto` in `reloadBySlot` (layer 7)
    (functions loaded earlier keep the old slice: `VM.old`) -/
theorem reloadCopies_tie : Risor.Generated.C18.reloadCopiesGlobals = true := by decide

/-- Compile has no rollback: it assigns nothing but the failure flag, the source and the filename -/
theorem compileNoRollback_tie : Risor.Generated.C18.compileAssigns = compileAssigns := by decide

/-- compile-only state (layer 3, `Mark.restored`): `pipeActive`, `loops`, `symbols` and
    `pendingSwitchValues` are reset by a deferred function in every compile function that sets them,
    `Compiler.current` is not -/
theorem compileOnlyRestores_tie : Risor.Generated.C18.compileOnlyRestores = compileOnlyRestores := by decide

/-- `start` clears the halt flag for every context (layer 5, `startClearsHalt`) -/
theorem startClearsHalt_tie : Risor.Generated.C18.startClearsHaltUnconditionally = haltClearedForEveryContext := by decide

/-- every Run loads — binds to its generation of the globals — every function constant of the main
    code that is not loaded yet (layer 4, `BCtl.next`) -/
theorem loadsFunctionConstants_tie : Risor.Generated.C18.loadsFunctionConstantsEveryRun = true := by decide

/-- the import cache (layer 6, `importCacheResetEveryRun = false`): `vm.modules` is replaced or cleared
    by `resetForNewCode` only, which is reached only under `resetState` — and `Run` passes
    `resetState = false` (`runKeepsState_tie`): no piece boundary touches the cache -/
theorem importCacheKept_tie :
    Risor.Generated.C18.importCacheReplacedBy = importCacheReplacedBy ∧
    Risor.Generated.C18.resetOnlyWhenResetState = true ∧
    importCacheResetEveryRun = Risor.Generated.C18.runResetsState := by decide

end Risor.C18
