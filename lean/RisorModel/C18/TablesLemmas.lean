import RisorModel.C18.Tables
/-! Helper lemmas of layer 8 (the tables of the main code under rollback). -/
namespace Risor.C18

/-! ### the loop of truncate -/

/-- a name none of whose removed symbols is the name's entry keeps its entry -/
theorem truncNames_keep (names : List Nat) : ∀ (f : Nat → Option Nat) (i n : Nat),
    (∀ k, names[k]? = some n → f n ≠ some (i + k)) → truncNames true f i names n = f n := by
  induction names with
  | nil => intro f i n _; rfl
  | cons m rest ih =>
    intro f i n h
    simp only [truncNames, Bool.not_true, Bool.false_or]
    by_cases hg : (f m == some i) = true
    · simp only [hg, if_true]
      by_cases hmn : m = n
      · subst hmn
        have := h 0 (by simp)
        simp only [beq_iff_eq] at hg
        simp [hg] at this
      · have h1 : delName f m n = f n := by simp [delName, Ne.symm hmn]
        rw [ih (delName f m) (i + 1) n ?_, h1]
        intro k hk
        rw [h1]
        have := h (k + 1) (by simpa using hk)
        intro hc; apply this; rw [hc]; congr 1; omega
    · simp only [hg, Bool.false_eq_true, if_false]
      rw [ih f (i + 1) n ?_]
      intro k hk
      have := h (k + 1) (by simpa using hk)
      intro hc; apply this; rw [hc]; congr 1; omega

/-- a name whose entry is one of the removed symbols loses it -/
theorem truncNames_del (names : List Nat) : ∀ (f : Nat → Option Nat) (i k n : Nat),
    names[k]? = some n → f n = some (i + k) → truncNames true f i names n = none := by
  induction names with
  | nil => intro f i k n h; simp at h
  | cons m rest ih =>
    intro f i k n hk hf
    simp only [truncNames, Bool.not_true, Bool.false_or]
    cases k with
    | zero =>
      simp at hk
      subst hk
      have hg : (f m == some i) = true := by simp [hf]
      simp only [hg, if_true]
      rw [truncNames_keep rest (delName f m) (i + 1) m ?_]
      · simp [delName]
      · intro k _; simp [delName]
    | succ k' =>
      have hk' : rest[k']? = some n := by simpa using hk
      by_cases hg : (f m == some i) = true
      · simp only [hg, if_true]
        by_cases hmn : m = n
        · subst hmn
          simp only [beq_iff_eq] at hg
          rw [hg] at hf
          simp at hf
        · have h1 : delName f m n = f n := by simp [delName, Ne.symm hmn]
          exact ih (delName f m) (i + 1) k' n hk' (by rw [h1, hf]; congr 1; omega)
      · simp only [hg, Bool.false_eq_true, if_false]
        exact ih f (i + 1) k' n hk' (by rw [hf]; congr 1; omega)

/-! ### what compilation does to the tables -/

/-- `T'` is `T` after some compilation: constants and symbols appended, names only ADDED, every added name
    standing for an added symbol that is called so -/
structure Ext (T T' : Tab) : Prop where
  consts : ∃ ec, T'.consts = T.consts ++ ec
  syms   : ∃ es, T'.syms = T.syms ++ es
  names  : ∀ n, T'.byName n = T.byName n ∨
            (T.byName n = none ∧ ∃ i, T'.byName n = some i ∧ T.syms.length ≤ i ∧ T'.syms[i]? = some n)

theorem Ext.refl (T : Tab) : Ext T T := ⟨⟨[], by simp⟩, ⟨[], by simp⟩, fun _ => Or.inl rfl⟩

/-- appending constants -/
theorem Ext.addConsts {T T1 : Tab} (h : Ext T T1) (ec : List Int) : Ext T { T1 with consts := T1.consts ++ ec } := by
  obtain ⟨⟨e0, h0⟩, hs, hn⟩ := h
  exact ⟨⟨e0 ++ ec, by simp [h0]⟩, hs, hn⟩

/-- a block variable claims a slot -/
theorem Ext.claim {T T1 : Tab} (h : Ext T T1) (n : Nat) : Ext T { T1 with syms := T1.syms ++ [n] } := by
  obtain ⟨hc, ⟨es, hs⟩, hn⟩ := h
  refine ⟨hc, ⟨es ++ [n], by simp [hs]⟩, fun k => ?_⟩
  rcases hn k with h1 | ⟨h1, i, h2, h3, h4⟩
  · exact Or.inl h1
  · refine Or.inr ⟨h1, i, h2, h3, ?_⟩
    show (T1.syms ++ [n])[i]? = some k
    have hi : i < T1.syms.length := by
      rcases Nat.lt_or_ge i T1.syms.length with h | h
      · exact h
      · rw [List.getElem?_eq_none h] at h4; cases h4
    rw [List.getElem?_append_left hi]; exact h4

/-- a top-level declaration claims a slot and enters its name -/
theorem Ext.declare {T T1 : Tab} (h : Ext T T1) (n : Nat) (hfree : T1.byName n = none) :
    Ext T { T1 with syms := T1.syms ++ [n], byName := fun k => if k = n then some T1.syms.length else T1.byName k } := by
  have hcl := h.claim n
  obtain ⟨hc, ⟨es, hs⟩, hn⟩ := h
  refine ⟨hc, ⟨es ++ [n], by simp [hs]⟩, fun k => ?_⟩
  by_cases hk : k = n
  · subst hk
    have hT : T.byName k = none := by
      rcases hn k with h1 | ⟨h1, _⟩
      · rw [← h1]; exact hfree
      · exact h1
    refine Or.inr ⟨hT, T1.syms.length, by simp, ?_, ?_⟩
    · rw [hs]; simp
    · show (T1.syms ++ [k])[T1.syms.length]? = some k
      simp
  · rcases hcl.names k with h1 | ⟨h1, i, h2, h3, h4⟩
    · exact Or.inl (by simpa [hk] using h1)
    · exact Or.inr ⟨h1, i, by simpa [hk] using h2, h3, h4⟩

/-- compiling an expression only appends constants -/
theorem KExpr.comp_tab (blks : List Nat) (e : KExpr) : ∀ T : Tab,
    ∃ ec, (e.comp blks T).1 = { T with consts := T.consts ++ ec } := by
  induction e with
  | lit v => intro T; exact ⟨[v], rfl⟩
  | root n => intro T; exact ⟨[], by simp [KExpr.comp]⟩
  | blk j => intro T; exact ⟨[], by simp [KExpr.comp]⟩
  | add a b iha ihb =>
    intro T
    obtain ⟨ea, ha⟩ := iha T
    simp only [KExpr.comp]
    cases hca : a.comp blks T with
    | mk T1 ra =>
      rw [hca] at ha
      simp only at ha
      cases ra with
      | none => exact ⟨ea, ha⟩
      | some ra =>
        obtain ⟨eb, hb⟩ := ihb T1
        dsimp only
        cases hcb : b.comp blks T1 with
        | mk T2 rb =>
          rw [hcb] at hb
          simp only at hb
          have : T2 = { T with consts := T.consts ++ (ea ++ eb) } := by
            rw [hb, ha]; simp [List.append_assoc]
          cases rb <;> exact ⟨ea ++ eb, this⟩

theorem KExpr.comp_ext {T T0 : Tab} (h : Ext T T0) (blks : List Nat) (e : KExpr) : Ext T (e.comp blks T0).1 := by
  obtain ⟨ec, hec⟩ := KExpr.comp_tab blks e T0
  rw [hec]; exact h.addConsts ec

theorem KExpr.comp_syms (blks : List Nat) (e : KExpr) (T : Tab) :
    (e.comp blks T).1.syms = T.syms ∧ (e.comp blks T).1.byName = T.byName := by
  obtain ⟨ec, hec⟩ := KExpr.comp_tab blks e T
  rw [hec]; exact ⟨rfl, rfl⟩

theorem KLine.comp_ext {T : Tab} (l : KLine) (c : CSt) (h : Ext T c.tab) : Ext T (l.comp c).tab := by
  unfold KLine.comp
  by_cases hok : c.ok = true
  · simp only [hok, Bool.not_true, Bool.false_eq_true, if_false]
    cases l.stmt with
    | declRoot n e =>
      simp only
      have he := KExpr.comp_ext h c.blks e
      cases hc : e.comp c.blks c.tab with
      | mk T1 r =>
        rw [hc] at he
        cases r with
        | none => exact he
        | some r =>
          simp only
          cases hb : T1.byName n with
          | some _ => exact he
          | none => exact he.declare n hb
    | declBlk n e =>
      simp only
      have he := KExpr.comp_ext h c.blks e
      cases hc : e.comp c.blks c.tab with
      | mk T1 r =>
        rw [hc] at he
        cases r with
        | none => exact he
        | some r => exact he.claim n
    | setRoot n e =>
      simp only
      cases c.tab.byName n with
      | none => exact h
      | some i =>
        simp only
        have he := KExpr.comp_ext h c.blks e
        cases hc : e.comp c.blks c.tab with
        | mk T1 r =>
          rw [hc] at he
          cases r <;> exact he
    | setBlk j e =>
      simp only
      cases c.blks[j]? with
      | none => exact h
      | some i =>
        simp only
        have he := KExpr.comp_ext h c.blks e
        cases hc : e.comp c.blks c.tab with
        | mk T1 r =>
          rw [hc] at he
          cases r <;> exact he
    | expr e =>
      simp only
      have he := KExpr.comp_ext h c.blks e
      cases hc : e.comp c.blks c.tab with
      | mk T1 r =>
        rw [hc] at he
        cases r <;> exact he
    | bad => exact h
  · simp only [hok, Bool.not_false, if_true]; exact h

theorem compLines_ext {T : Tab} (t : List KLine) : ∀ c : CSt, Ext T c.tab → Ext T (compLines t c).tab := by
  induction t with
  | nil => intro c h; exact h
  | cons l rest ih => intro c h; exact ih (l.comp c) (l.comp_ext c h)

theorem compTop_ext {T : Tab} (t : KTop) (c : CSt) (h : Ext T c.tab) : Ext T (compTop t c).tab :=
  compLines_ext t { c with blks := [] } h

theorem compTops_ext {T : Tab} (p : List KTop) : ∀ c : CSt, Ext T c.tab → Ext T (compTops p c).tab := by
  induction p with
  | nil => intro c h; exact h
  | cons t rest ih => intro c h; exact ih (compTop t c) (compTop_ext t c h)

theorem compPiece_ext (p : KPiece) (T : Tab) : Ext T (compPiece p T).tab := compTops_ext p _ (Ext.refl T)

/-- a table reached by compilation from a well-formed one is well-formed -/
theorem Ext.wf {T T' : Tab} (h : Ext T T') (hw : T.Wf) : T'.Wf := by
  intro n i hn
  obtain ⟨_, ⟨es, hs⟩, hnm⟩ := h
  rcases hnm n with h1 | ⟨_, j, h2, _, h4⟩
  · rw [h1] at hn
    obtain ⟨hi, hg⟩ := hw n i hn
    refine ⟨by rw [hs]; simp; omega, ?_⟩
    rw [hs, List.getElem?_append_left hi]; exact hg
  · rw [h2] at hn
    cases hn
    refine ⟨?_, h4⟩
    rcases Nat.lt_or_ge i T'.syms.length with h | h
    · exact h
    · rw [List.getElem?_eq_none h] at h4; cases h4

/-- THE rollback lemma: from any table compilation can reach, truncating to the mark gives the table the
    mark was taken on — constants, symbols and names -/
theorem Ext.rollback {T T' : Tab} (h : Ext T T') (hw : T.Wf) :
    T'.rollback true T.consts.length T.syms.length = T := by
  obtain ⟨⟨ec, hc⟩, ⟨es, hs⟩, hnm⟩ := h
  have h1 : T'.consts.take T.consts.length = T.consts := by rw [hc]; simp
  have h2 : T'.syms.take T.syms.length = T.syms := by rw [hs]; simp
  have h3 : truncNames true T'.byName T.syms.length (T'.syms.drop T.syms.length) = T.byName := by
    have hd : T'.syms.drop T.syms.length = es := by rw [hs]; simp
    rw [hd]
    funext n
    rcases hnm n with he | ⟨hnone, i, hi, hle, hget⟩
    · rw [truncNames_keep es T'.byName T.syms.length n ?_, he]
      intro k _
      rw [he]
      cases hb : T.byName n with
      | none => simp
      | some j =>
        have := (hw n j hb).1
        intro hc; cases hc; omega
    · rw [hnone]
      refine truncNames_del es T'.byName T.syms.length (i - T.syms.length) n ?_ ?_
      · rw [hs, List.getElem?_append_right hle] at hget; exact hget
      · rw [hi]; congr 1; omega
  show ({ consts := T'.consts.take T.consts.length, syms := T'.syms.take T.syms.length,
          byName := truncNames true T'.byName T.syms.length (T'.syms.drop T.syms.length) } : Tab) = T
  rw [h1, h2, h3]

/-! ### constants: emitted code addresses constants that exist, and finds the literal there -/

theorem RExpr.scoped_mono (e : RExpr) (n m : Nat) (hnm : n ≤ m) (h : e.scoped n = true) : e.scoped m = true := by
  induction e with
  | ldc k => simp [RExpr.scoped] at h ⊢; omega
  | ldg i => rfl
  | add a b iha ihb =>
    simp only [RExpr.scoped, Bool.and_eq_true] at h ⊢
    exact ⟨iha h.1, ihb h.2⟩

theorem RStmt.scoped_mono (t : RStmt) (n m : Nat) (hnm : n ≤ m) (h : t.scoped n = true) : t.scoped m = true := by
  cases t <;> exact RExpr.scoped_mono _ n m hnm h

/-- an accepted expression loads only constants that are in the table when its compilation ends -/
theorem KExpr.comp_scoped (blks : List Nat) (e : KExpr) : ∀ (T T' : Tab) (r : RExpr),
    e.comp blks T = (T', some r) → r.scoped T'.consts.length = true := by
  induction e with
  | lit v => intro T T' r h; simp [KExpr.comp] at h; obtain ⟨h1, h2⟩ := h; subst h1 h2; simp [RExpr.scoped]
  | root n =>
    intro T T' r h
    simp only [KExpr.comp, Prod.mk.injEq] at h
    cases hb : T.byName n with
    | none => simp [hb] at h
    | some i => simp [hb] at h; rw [← h.2]; rfl
  | blk j =>
    intro T T' r h
    simp only [KExpr.comp, Prod.mk.injEq] at h
    cases hb : blks[j]? with
    | none => simp [hb] at h
    | some i => simp [hb] at h; rw [← h.2]; rfl
  | add a b iha ihb =>
    intro T T' r h
    simp only [KExpr.comp] at h
    cases hca : a.comp blks T with
    | mk T1 ra =>
      rw [hca] at h
      cases ra with
      | none => simp at h
      | some ra =>
        simp only at h
        cases hcb : b.comp blks T1 with
        | mk T2 rb =>
          rw [hcb] at h
          cases rb with
          | none => simp at h
          | some rb =>
            simp only [Prod.mk.injEq, Option.some.injEq] at h
            obtain ⟨h1, h2⟩ := h
            subst h1 h2
            obtain ⟨eb, heb⟩ := KExpr.comp_tab blks b T1
            rw [hcb] at heb
            simp only at heb
            simp only [RExpr.scoped, Bool.and_eq_true]
            refine ⟨RExpr.scoped_mono ra _ _ ?_ (iha T T1 ra hca), ihb T1 T2 rb hcb⟩
            rw [heb]; simp

/-- evaluation does not look beyond the constants the code addresses -/
theorem RExpr.eval_pool (e : RExpr) (pool more : List Int) (G : KGlob) (h : e.scoped pool.length = true) :
    e.eval (pool ++ more) G = e.eval pool G := by
  induction e with
  | ldc k =>
    simp [RExpr.scoped] at h
    simp [RExpr.eval, List.getD_eq_getElem?_getD, List.getElem?_append_left h]
  | ldg i => rfl
  | add a b iha ihb =>
    simp only [RExpr.scoped, Bool.and_eq_true] at h
    simp [RExpr.eval, iha h.1, ihb h.2]

theorem RStmt.exec_pool (t : RStmt) (pool more : List Int) (s : KRun) (h : t.scoped pool.length = true) :
    t.exec (pool ++ more) s = t.exec pool s := by
  obtain ⟨G, vs⟩ := s
  cases t with
  | stg i e => simp only [RStmt.exec]; rw [RExpr.eval_pool e pool more G h]
  | expr e => simp only [RStmt.exec]; rw [RExpr.eval_pool e pool more G h]

theorem execR_pool (code : List RStmt) (pool more : List Int) : ∀ s : KRun,
    code.all (·.scoped pool.length) = true → execR (pool ++ more) code s = execR pool code s := by
  induction code with
  | nil => intro s _; rfl
  | cons t rest ih =>
    intro s h
    simp only [List.all_cons, Bool.and_eq_true] at h
    simp only [execR, List.foldl_cons]
    rw [RStmt.exec_pool t pool more s h.1]
    exact ih _ h.2

theorem execR_append (pool : List Int) (a b : List RStmt) (s : KRun) :
    execR pool (a ++ b) s = execR pool b (execR pool a s) := by
  simp [execR, List.foldl_append]

/-- the invariant of the compiler's state: what it has emitted addresses constants that exist -/
def CSt.Scoped (c : CSt) : Prop := c.code.all (·.scoped c.tab.consts.length) = true

theorem all_scoped_mono (code : List RStmt) (n m : Nat) (hnm : n ≤ m) (h : code.all (·.scoped n) = true) :
    code.all (·.scoped m) = true := by
  simp only [List.all_eq_true] at h ⊢
  intro t ht; exact RStmt.scoped_mono t n m hnm (h t ht)

theorem CSt.emit_scoped (c : CSt) (live : Bool) (T : Tab) (r : RStmt) (hc : c.Scoped)
    (hle : c.tab.consts.length ≤ T.consts.length) (hr : r.scoped T.consts.length = true) : (c.emit live T r).Scoped := by
  unfold CSt.Scoped CSt.emit
  have h0 := all_scoped_mono c.code _ _ hle hc
  cases live
  · exact h0
  · simp only [if_true, List.all_append, Bool.and_eq_true, List.all_cons, List.all_nil, Bool.and_true]
    exact ⟨h0, hr⟩

theorem CSt.fail_scoped (c : CSt) (T : Tab) (hc : c.Scoped) (hle : c.tab.consts.length ≤ T.consts.length) : (c.fail T).Scoped :=
  all_scoped_mono c.code _ _ hle hc

theorem KExpr.comp_len (blks : List Nat) (e : KExpr) (T : Tab) : T.consts.length ≤ (e.comp blks T).1.consts.length := by
  obtain ⟨ec, hec⟩ := KExpr.comp_tab blks e T
  rw [hec]; simp

theorem KLine.comp_scoped (l : KLine) (c : CSt) (h : c.Scoped) : (l.comp c).Scoped := by
  unfold KLine.comp
  by_cases hok : c.ok = true
  · simp only [hok, Bool.not_true, Bool.false_eq_true, if_false]
    cases l.stmt with
    | declRoot n e =>
      simp only
      have hl := KExpr.comp_len c.blks e c.tab
      cases hc : e.comp c.blks c.tab with
      | mk T1 r =>
        rw [hc] at hl
        cases r with
        | none => exact c.fail_scoped T1 h hl
        | some r =>
          simp only
          cases T1.byName n with
          | some _ => exact c.fail_scoped T1 h hl
          | none => exact c.emit_scoped _ _ _ h hl (KExpr.comp_scoped c.blks e c.tab T1 r hc)
    | declBlk n e =>
      simp only
      have hl := KExpr.comp_len c.blks e c.tab
      cases hc : e.comp c.blks c.tab with
      | mk T1 r =>
        rw [hc] at hl
        cases r with
        | none => exact c.fail_scoped T1 h hl
        | some r => exact c.emit_scoped l.live { T1 with syms := T1.syms ++ [n] } _ h hl (KExpr.comp_scoped c.blks e c.tab T1 r hc)
    | setRoot n e =>
      simp only
      cases c.tab.byName n with
      | none => exact c.fail_scoped c.tab h (Nat.le_refl _)
      | some i =>
        simp only
        have hl := KExpr.comp_len c.blks e c.tab
        cases hc : e.comp c.blks c.tab with
        | mk T1 r =>
          rw [hc] at hl
          cases r with
          | none => exact c.fail_scoped T1 h hl
          | some r => exact c.emit_scoped _ _ _ h hl (KExpr.comp_scoped c.blks e c.tab T1 r hc)
    | setBlk j e =>
      simp only
      cases c.blks[j]? with
      | none => exact c.fail_scoped c.tab h (Nat.le_refl _)
      | some i =>
        simp only
        have hl := KExpr.comp_len c.blks e c.tab
        cases hc : e.comp c.blks c.tab with
        | mk T1 r =>
          rw [hc] at hl
          cases r with
          | none => exact c.fail_scoped T1 h hl
          | some r => exact c.emit_scoped _ _ _ h hl (KExpr.comp_scoped c.blks e c.tab T1 r hc)
    | expr e =>
      simp only
      have hl := KExpr.comp_len c.blks e c.tab
      cases hc : e.comp c.blks c.tab with
      | mk T1 r =>
        rw [hc] at hl
        cases r with
        | none => exact c.fail_scoped T1 h hl
        | some r => exact c.emit_scoped _ _ _ h hl (KExpr.comp_scoped c.blks e c.tab T1 r hc)
    | bad => exact c.fail_scoped c.tab h (Nat.le_refl _)
  · simp only [hok, Bool.not_false, if_true]; exact h

theorem compLines_scoped (t : List KLine) : ∀ c : CSt, c.Scoped → (compLines t c).Scoped := by
  induction t with
  | nil => intro c h; exact h
  | cons l rest ih => intro c h; exact ih (l.comp c) (l.comp_scoped c h)

theorem compTops_scoped (p : List KTop) : ∀ c : CSt, c.Scoped → (compTops p c).Scoped := by
  induction p with
  | nil => intro c h; exact h
  | cons t rest ih => intro c h; exact ih (compTop t c) (compLines_scoped t { c with blks := [] } h)

theorem compPiece_scoped (p : KPiece) (T : Tab) : (compPiece p T).Scoped := compTops_scoped p _ rfl

/-! ### compiling a concatenation -/

/-- the same compiler state with `pre` emitted before -/
def CSt.withPre (pre : List RStmt) (c : CSt) : CSt := { c with code := pre ++ c.code }

theorem KLine.comp_withPre (pre : List RStmt) (l : KLine) (c : CSt) : l.comp (c.withPre pre) = (l.comp c).withPre pre := by
  have hemit : ∀ (live : Bool) (T : Tab) (r : RStmt), (c.withPre pre).emit live T r = (c.emit live T r).withPre pre := by
    intro live T r; cases live <;> simp [CSt.emit, CSt.withPre, List.append_assoc]
  have hfail : ∀ T : Tab, (c.withPre pre).fail T = (c.fail T).withPre pre := fun _ => rfl
  have hemitB : ∀ (live : Bool) (T : Tab) (r : RStmt) (b : List Nat),
      { (c.withPre pre).emit live T r with blks := b } = ({ c.emit live T r with blks := b } : CSt).withPre pre := by
    intro live T r b; cases live <;> simp [CSt.emit, CSt.withPre, List.append_assoc]
  unfold KLine.comp
  have e1 : (c.withPre pre).ok = c.ok := rfl
  have e2 : (c.withPre pre).tab = c.tab := rfl
  have e3 : (c.withPre pre).blks = c.blks := rfl
  rw [e1]
  by_cases hok : c.ok = true
  · simp only [hok, Bool.not_true, Bool.false_eq_true, if_false, e2, e3]
    cases l.stmt with
    | declRoot n e =>
      simp only
      cases e.comp c.blks c.tab with
      | mk T1 r =>
        cases r with
        | none => exact hfail T1
        | some r =>
          simp only
          cases T1.byName n with
          | some _ => exact hfail T1
          | none => exact hemit _ _ _
    | declBlk n e =>
      simp only
      cases e.comp c.blks c.tab with
      | mk T1 r =>
        cases r with
        | none => exact hfail T1
        | some r => exact hemitB _ _ _ _
    | setRoot n e =>
      simp only
      cases c.tab.byName n with
      | none => exact hfail _
      | some i =>
        simp only
        cases e.comp c.blks c.tab with
        | mk T1 r => cases r with
          | none => exact hfail T1
          | some r => exact hemit _ _ _
    | setBlk j e =>
      simp only
      cases c.blks[j]? with
      | none => exact hfail _
      | some i =>
        simp only
        cases e.comp c.blks c.tab with
        | mk T1 r => cases r with
          | none => exact hfail T1
          | some r => exact hemit _ _ _
    | expr e =>
      simp only
      cases e.comp c.blks c.tab with
      | mk T1 r => cases r with
        | none => exact hfail T1
        | some r => exact hemit _ _ _
    | bad => exact hfail _
  · simp only [hok, Bool.not_false, if_true]

theorem compLines_withPre (pre : List RStmt) (t : List KLine) : ∀ c : CSt,
    compLines t (c.withPre pre) = (compLines t c).withPre pre := by
  induction t with
  | nil => intro c; rfl
  | cons l rest ih =>
    intro c
    simp only [compLines, List.foldl_cons] at ih ⊢
    rw [KLine.comp_withPre]; exact ih _

theorem compTop_withPre (pre : List RStmt) (t : KTop) (c : CSt) : compTop t (c.withPre pre) = (compTop t c).withPre pre := by
  unfold compTop
  have : ({ c.withPre pre with blks := [] } : CSt) = ({ c with blks := [] } : CSt).withPre pre := rfl
  rw [this, compLines_withPre]; rfl

theorem compTops_withPre (pre : List RStmt) (p : List KTop) : ∀ c : CSt,
    compTops p (c.withPre pre) = (compTops p c).withPre pre := by
  induction p with
  | nil => intro c; rfl
  | cons t rest ih =>
    intro c
    simp only [compTops, List.foldl_cons] at ih ⊢
    rw [compTop_withPre]; exact ih _

theorem compTops_blks (p : List KTop) : ∀ c : CSt, c.blks = [] → (compTops p c).blks = [] := by
  induction p with
  | nil => intro c h; exact h
  | cons t rest ih => intro c _; exact ih (compTop t c) rfl

/-- compiling `p ++ q` at once: the state after `p`, then `q` — its code after `p`'s -/
theorem compPiece_append (p q : KPiece) (T : Tab) (hok : (compPiece p T).ok = true) :
    compPiece (p ++ q) T = (compPiece q (compPiece p T).tab).withPre (compPiece p T).code := by
  have hb : (compPiece p T).blks = [] := compTops_blks p _ rfl
  have h1 : compPiece (p ++ q) T = compTops q (compPiece p T) := by simp [compPiece, compTops, List.foldl_append]
  have h2 : compPiece p T = ({ tab := (compPiece p T).tab } : CSt).withPre (compPiece p T).code := by
    cases hc : compPiece p T with
    | mk tab blks code ok =>
      rw [hc] at hb hok
      simp only at hb hok
      subst hb hok
      simp [CSt.withPre]
  rw [h1]
  conv => lhs; rw [h2]
  rw [compTops_withPre]; rfl

end Risor.C18
