import RisorModel.Util
/-
C18 — incremental (REPL-style) evaluation against whole-program evaluation.

Two layers, core Lean only.

Layer 1 (`BIns`, `Sem`, `Steps`): a generic bytecode machine with risor's RELATIVE jumps
(`JumpForward d`, `JumpBackward d`, `PopJumpForwardIf* d`, `ForIter d`) over an arbitrary
state type and an arbitrary semantics of the non-jump instructions.  `Props.lean` proves
`exec_append`: running `c₁ ++ c₂` from 0 is running `c₁` and then `c₂` from `|c₁|`, provided
the jumps of a fragment stay inside it (`jumpsLocal`).  On the real compiler's output that
proviso is checked per piece by C04's verified certificate checker (oracle request `frag`).

Layer 2 (`Stmt`, `Piece`, `Repl`): the REPL state machine of cmd/risor/repl/repl.go
(`getEvaluator`): ONE compiler whose main code, symbol table and constant pool grow with every
ACCEPTED piece (compiler.Compile rolls back what a rejected piece added; compileFunc switches
back to the enclosing code on its error paths), ONE VM that resumes at the saved instruction
pointer on an EMPTY operand stack (the previous run's result is dropped when Run resumes), reloads
the main code with a fresh copy of the globals (and forgets the functions of the main code it had
loaded, so that they are wrapped again with the new copy — since the repair of
C18-function-globals-snapshot), and the REPL's `SetIP(end)` after a run-time error.  A top-level
statement is an opaque, position-independent, stack-neutral fragment (justified by layer 1 + C04),
so the machine state is the TRACE of executed statement identities: every real semantics of
statements is a function of that trace, hence equal traces give equal globals, values and
output.  `Impl` is the code as it is (defects included), `Spec` what the property demands.
The machine of the code BEFORE the three earlier repairs (no rollback, compiler stuck in a function,
one stack slot per piece) is kept as `PreFix.Repl` for the historical `C18_fixed_*` statements; the
machine before the fourth repair (functions kept the globals copy of the run that loaded them) as
`Repl.feedSnapshot` / `preFixReloadKeeps` (layer 2) and `BCtl.nextSnapshot` (layer 4).
-/
namespace Risor.C18

/-! ## Layer 1: generic bytecode with relative jumps -/

inductive BIns where
  | op  (k : Nat)        -- any non-jump instruction
  | jf  (d : Nat)        -- ip := pc + d
  | jb  (d : Nat)        -- ip := pc - d
  | cjf (k d : Nat)      -- conditional: ip := pc + d or fall through (decided by the state)
  deriving Repr, DecidableEq, Inhabited

/-- semantics of the non-jump instructions and of the branch decisions (arbitrary) -/
structure Sem (σ : Type) where
  exec : Nat → σ → Except σ σ            -- `error s` = run-time error raised in state `s`
  test : Nat → σ → Except σ (Bool × σ)   -- is the conditional jump taken?

def stepAt {σ : Type} (S : Sem σ) (i : BIns) (pc : Nat) (s : σ) : Except σ (Nat × σ) :=
  match i with
  | .op k => match S.exec k s with
    | .ok s' => .ok (pc + 1, s')
    | .error e => .error e
  | .jf d => .ok (pc + d, s)
  | .jb d => if d ≤ pc then .ok (pc - d, s) else .error s
  | .cjf k d => match S.test k s with
    | .ok (b, s') => .ok (if b then pc + d else pc + 1, s')
    | .error e => .error e

/-- the jumps of the instruction at `pc` stay inside a fragment of length `n`
    (the end position `n` itself is allowed: that is how a fragment is left) -/
def insLocal (n pc : Nat) : BIns → Bool
  | .op _ => true
  | .jf d => pc + d ≤ n
  | .jb d => d ≤ pc
  | .cjf _ d => pc + d ≤ n

def jumpsLocalFrom (n : Nat) : Nat → List BIns → Bool
  | _, [] => true
  | pc, i :: rest => insLocal n pc i && jumpsLocalFrom n (pc + 1) rest

/-- every jump of the fragment lands inside it or at its end -/
def jumpsLocal (c : List BIns) : Bool := jumpsLocalFrom c.length 0 c

/-! ## What the model assumes about the sources (tied to /repo by `Ties.lean` on every run) -/

/-- the calls of repl.getEvaluator that `Repl.feed` mirrors, in source order -/
def replProtocol : List String :=
  ["compiler.New", "parser.Parse", "c.Compile", "vm.New", "v.Run", "v.SetIP", "code.InstructionCount", "v.TOS"]

/-- (*Compiler).Compile rolls the main code back when compilation fails: the mark is taken before
    anything is compiled and `c.main.rollback(mark)` is the first statement of the error branch -/
def compileRollsBackOnError : Bool := true

/-- what `(*Code).rollback` restores: the fields of the code object it assigns and the method it calls on
    the symbol table; and what `(*SymbolTable).truncate` restores (`delete:` = entries removed from a map) -/
def rollbackRestores : List String :=
  ["c.children", "c.constants", "c.instructions", "c.names", "c.source", "call:c.symbols.truncate"]
def truncateRestores : List String := ["delete:t.symbolsByName", "t.children", "t.symbols"]

/-- (*VirtualMachine).Run drops what the previous run left on the operand stack before it resumes:
    `for vm.sp >= 0 { vm.pop() }` under `if !resetState` in runCodeInternal, before activateCode -/
def runStartsOnEmptyStack : Bool := true

/-- (*VirtualMachine).reloadCode removes from `vm.loadedCode`, together with the main code, every loaded
    code object whose `Root()` is the main code — before it wraps the main code afresh: the functions of
    the main code are wrapped again (with the NEW globals array) when they are next loaded (repair of
    C18-function-globals-snapshot; `reloadKeeps`, layer 4 `BCtl.next`) -/
def reloadDropsMainFunctions : Bool := true

/-! ## Layer 2: statements, pieces, compiler and VM of the REPL -/

/-- what the compiler and the VM do with one top-level statement.  Names are numbers. -/
structure Stmt where
  id     : Nat                -- identity of the statement's effect and of its value (> 0)
  isExpr : Bool := false      -- ast.Node.IsExpression
  leaves : Bool := false      -- compiler.leavesValue (expressions and named functions)
  uses   : List Nat := []     -- global names that must resolve when the statement is compiled
  asg    : List Nat := []     -- global names assigned to (must not be constants)
  vdecl  : List Nat := []     -- variables the statement declares once it has compiled
  cdecl  : List Nat := []     -- constants (const, named functions) it declares
  fails  : Bool := false      -- raises a run-time error when executed
  leak   : Nat := 0           -- operands the failing statement leaves on the stack
  need   : Nat := 1           -- operand-stack slots the statement needs above the current top (read by `PreFix` only)
  pre    : Nat := 0           -- values pushed by the code emitted BEFORE its compile error surfaces (`PreFix` only)
  inFn   : Bool := false      -- its compile error surfaces inside a function body (`PreFix` only)
  junk   : Bool := false      -- the code emitted before its compile error also holds stack-neutral instructions (`PreFix` only)
  fdefs  : List Nat := []     -- global-sensitive functions whose constants it adds to the main code
  calls  : List Nat := []     -- global-sensitive functions it may call when executed
  deriving Repr, DecidableEq, Inhabited

inductive Piece where
  | bad                          -- rejected by the parser
  | stmts (l : List Stmt)
  deriving Repr, Inhabited

structure Syms where
  vars : List Nat := []
  consts : List Nat := []
  deriving Repr, DecidableEq, Inhabited

def Syms.defined (y : Syms) (n : Nat) : Bool := y.vars.contains n || y.consts.contains n

/-- the statement compiles in symbol table `y`: every used name resolves, no constant is assigned -/
def Stmt.resolves (y : Syms) (s : Stmt) : Bool :=
  s.uses.all y.defined && s.asg.all (fun n => y.defined n && !y.consts.contains n)

def Syms.add (y : Syms) (s : Stmt) : Syms := ⟨y.vars ++ s.vdecl, y.consts ++ s.cdecl⟩

/-- instructions of the abstract main code -/
inductive AIns where
  | eff (id need : Nat) (calls : List Nat)   -- a statement's body: opaque, stack-neutral
  | fail (id leak : Nat)                     -- a statement that raises after an opaque partial effect
  | push (v : Nat)                           -- leave a value (0 = nil)
  | pop                                      -- POP_TOP
  deriving Repr, DecidableEq, Inhabited

/-- the statement leaves a value on the stack (expressions always do) -/
def Stmt.lv (s : Stmt) : Bool := s.isExpr || s.leaves

def frag (s : Stmt) : List AIns :=
  if s.fails then [.fail s.id s.leak]
  else .eff s.id s.need s.calls :: (if s.lv then [.push s.id] else [])

/-- what compileProgram emits after a statement: POP_TOP between statements, and the
    guarantee that the program evaluates to a value at the end -/
def sep (s : Stmt) (last : Bool) : List AIns :=
  if last then
    (if s.isExpr then [] else (if s.lv then [.pop] else []) ++ [.push 0])
  else (if s.lv then [.pop] else [])

structure COut where
  code : List AIns
  syms : Syms
  fns  : List Nat
  deriving Repr, Inhabited

/-- (*Compiler).Compile on one piece, statement by statement (compileProgram).  `none`: a statement is
    rejected — Compile then rolls the main code, its constants, names, child codes and the root symbol
    table back to what they were at entry (and compileFunc has switched back to the main code), so
    NOTHING the piece emitted or declared remains -/
def compileStmts (y : Syms) : List Stmt → Option COut
  | [] => some ⟨[], y, []⟩
  | s :: rest =>
    if s.resolves y then
      (compileStmts (y.add s) rest).map fun r => ⟨frag s ++ sep s rest.isEmpty ++ r.code, r.syms, s.fdefs ++ r.fns⟩
    else none

structure Comp where
  code  : List AIns := []
  syms  : Syms := {}
  fns   : List Nat := []       -- function constants of the main code
  deriving Repr, Inhabited

structure VM where
  ip    : Nat := 0
  stack : List Nat := []                 -- value identities, top first: what the LAST run left
  trace : List (Nat × Bool) := []        -- executed statements; `true` = ran against a stale globals copy (never, since the repair)
  old   : List Nat := []                 -- functions loaded by an earlier run (wrapped with that run's globals array)
  deriving Repr, Inhabited

structure XOut where
  stack : List Nat
  trace : List (Nat × Bool)
  ok    : Bool
  deriving Repr, Inhabited

/-- vm.eval over the abstract instructions from the resume point to the end of the code.  Every run starts
    on an empty stack and statements are stack-neutral, so the height never exceeds what ONE statement
    needs: a statement that overflows the VM on its own does so in the whole program too — it is a
    statement with `fails` — and the capacity plays no role in comparing the two evaluations. -/
def execFrom (old : List Nat) : List AIns → List Nat → List (Nat × Bool) → XOut
  | [], stk, tr => ⟨stk, tr, true⟩
  | .eff id _ calls :: rest, stk, tr => execFrom old rest stk (tr ++ [(id, calls.any old.contains)])
  | .fail id leak :: _, stk, tr => ⟨List.replicate leak 0 ++ stk, tr ++ [(id, false)], false⟩
  | .push v :: rest, stk, tr => execFrom old rest (v :: stk) tr
  | .pop :: rest, stk, tr => execFrom old rest stk.tail tr

/-- vm.reloadCode, the loaded functions' side: which of the functions loaded by earlier runs are still in
    `vm.loadedCode` — wrapped with the OLD globals array — when the reloaded main code runs.  None: every
    loaded code object whose root is the main code is dropped with it and wrapped again, with the new
    array, when it is next loaded (`reloadDropsMainFunctions`; repair of C18-function-globals-snapshot). -/
def reloadKeeps (_old : List Nat) : List Nat := []

/-- HISTORICAL (before the repair of C18-function-globals-snapshot): reloadCode dropped the main code
    only; every function loaded by an earlier run stayed in `vm.loadedCode` with the globals array of the
    run that loaded it.  Read only by `Repl.feedSnapshot` and `C18_fixed_function_globals_snapshot`. -/
def preFixReloadKeeps (old : List Nat) : List Nat := old

inductive Outcome where
  | ok (v : Nat)          -- the piece ran; `v` identifies the value on top of the stack (0 = nil)
  | parseRejected
  | compileRejected
  | failed                -- run-time error
  deriving Repr, DecidableEq, Inhabited

structure Repl where
  comp : Comp := {}
  vm   : VM := {}
  deriving Repr, Inhabited

/-- one call of the REPL's evaluator (getEvaluator): Parse, Compile into the same main code (rolled back
    when the piece is rejected: compiler and VM are exactly as before), Run from the saved ip on an EMPTY
    operand stack (`runStartsOnEmptyStack`), SetIP(end of code) after a run-time error, TOS -/
def Repl.feed (r : Repl) : Piece → Repl × Outcome
  | .bad => (r, .parseRejected)
  | .stmts l =>
    match compileStmts r.comp.syms l with
    | none => (r, .compileRejected)
    | some o =>
      let comp : Comp := { code := r.comp.code ++ o.code, syms := o.syms, fns := r.comp.fns ++ o.fns }
      let x := execFrom (reloadKeeps r.vm.old) (comp.code.drop r.vm.ip) [] r.vm.trace
      let vm : VM := { ip := comp.code.length, stack := x.stack, trace := x.trace, old := comp.fns }
      ({ comp := comp, vm := vm }, if x.ok then .ok (x.stack.headD 0) else .failed)

def Repl.run (r : Repl) : List Piece → Repl × List Outcome
  | [] => (r, [])
  | p :: ps =>
    let (r1, o) := r.feed p
    let (r2, os) := Repl.run r1 ps
    (r2, o :: os)

/-- HISTORICAL: `Repl.feed` as the code was before the repair of C18-function-globals-snapshot — the same
    machine, except that the functions loaded by earlier runs keep the globals array of that run
    (`preFixReloadKeeps`): a statement that calls one of them runs against a stale copy (marked in the trace) -/
def Repl.feedSnapshot (r : Repl) : Piece → Repl × Outcome
  | .bad => (r, .parseRejected)
  | .stmts l =>
    match compileStmts r.comp.syms l with
    | none => (r, .compileRejected)
    | some o =>
      let comp : Comp := { code := r.comp.code ++ o.code, syms := o.syms, fns := r.comp.fns ++ o.fns }
      let x := execFrom (preFixReloadKeeps r.vm.old) (comp.code.drop r.vm.ip) [] r.vm.trace
      let vm : VM := { ip := comp.code.length, stack := x.stack, trace := x.trace, old := comp.fns }
      ({ comp := comp, vm := vm }, if x.ok then .ok (x.stack.headD 0) else .failed)

def Repl.runSnapshot (r : Repl) : List Piece → Repl × List Outcome
  | [] => (r, [])
  | p :: ps =>
    let (r1, o) := r.feedSnapshot p
    let (r2, os) := Repl.runSnapshot r1 ps
    (r2, o :: os)

/-! ### Spec: what the property demands -/

structure SpecSt where
  syms  : Syms := {}
  trace : List (Nat × Bool) := []
  deriving Repr, DecidableEq, Inhabited

/-- all statements of the piece compile (each sees the declarations of the earlier ones) -/
def allResolve (y : Syms) : List Stmt → Bool
  | [] => true
  | s :: rest => s.resolves y && allResolve (y.add s) rest

structure SOut where
  syms  : Syms
  trace : List (Nat × Bool)
  ok    : Bool
  last  : Nat
  deriving Repr, Inhabited

/-- source-level execution of an accepted piece: statements run in order, each against the
    current globals; a failing statement stops the piece; only statements that completed
    have declared anything -/
def specExec (y : Syms) (tr : List (Nat × Bool)) (last : Nat) : List Stmt → SOut
  | [] => ⟨y, tr, true, last⟩
  | s :: rest =>
    if s.fails then ⟨y, tr ++ [(s.id, false)], false, 0⟩
    else specExec (y.add s) (tr ++ [(s.id, false)]) (if s.isExpr then s.id else 0) rest

/-- a rejected piece (parser or compiler) changes nothing; a failing piece keeps exactly the
    effects it had before failing -/
def SpecSt.feed (st : SpecSt) : Piece → SpecSt × Outcome
  | .bad => (st, .parseRejected)
  | .stmts l =>
    if allResolve st.syms l then
      let x := specExec st.syms st.trace 0 l
      (⟨x.syms, x.trace⟩, if x.ok then .ok x.last else .failed)
    else (st, .compileRejected)

def SpecSt.run (st : SpecSt) : List Piece → SpecSt × List Outcome
  | [] => (st, [])
  | p :: ps =>
    let (s1, o) := st.feed p
    let (s2, os) := SpecSt.run s1 ps
    (s2, o :: os)

/-- whole-program evaluation of the statements of all pieces at once -/
def wholeOf (ps : List (List Stmt)) : Piece := .stmts ps.flatten

/-! ### Guards: what `C18_partial` excludes (one per RECORDED defect of the code: G4 is the only one left) -/

/-- G4 `FailingPieceDeclaresNothingLater`: from its failing statement on, a piece declares no name -/
def declaresAfterFailure : List Stmt → Bool
  | [] => false
  | s :: rest =>
    if s.fails then (s :: rest).any (fun t => !(t.vdecl.isEmpty && t.cdecl.isEmpty))
    else declaresAfterFailure rest

/-- operand slots the failing statement of the piece leaves behind (`none` if none fails) -/
def leakOf : List Stmt → Option Nat
  | [] => none
  | s :: rest => if s.fails then some s.leak else leakOf rest

/-- the first statement of the piece that does not compile -/
def firstBad (y : Syms) : List Stmt → Option Stmt
  | [] => none
  | s :: rest => if s.resolves y then firstBad (y.add s) rest else some s

/-- function constants the piece adds -/
def fnsOf (l : List Stmt) : List Nat := (l.map (·.fdefs)).flatten

structure GSt where
  syms : Syms := {}
  ht   : Nat := 0            -- operand-stack height the LAST run left (not a guard: see `stack_holds_last_run_only`)
  fns  : List Nat := []      -- function constants loaded so far (every one of them by an earlier run; read by `preFixStaleCall` only)
  deriving Repr, Inhabited

/-- HISTORICAL (the former G3 `NoStaleFunctionView`, finding C18-function-globals-snapshot, repaired): a
    statement of the piece calls a global-sensitive function that an earlier run loaded -/
def preFixStaleCall (g : GSt) (l : List Stmt) : Bool := !l.all (fun s => !(s.calls.any g.fns.contains))

/-- guard of one piece, evaluated in the state the pieces before it produce.  A piece the compiler
    rejects is inside the guard whatever it emitted or declared before the error and wherever the error
    surfaces (the former G1), so is every accepted piece however many pieces ran before it (the
    former G2 `PieceCountBelowCapacity`), and so is a piece that calls functions loaded by earlier runs,
    whatever globals they read and write (the former G3 `NoStaleFunctionView`). -/
def pieceGuard (g : GSt) : Piece → Bool
  | .bad => true
  | .stmts l =>
    if allResolve g.syms l then
      -- G4; and the piece has a statement
      !declaresAfterFailure l && !l.isEmpty
    else true

def GSt.next (g : GSt) : Piece → GSt
  | .bad => g
  | .stmts l =>
    if allResolve g.syms l then
      let x := specExec g.syms [] 0 l
      { syms := x.syms
        ht := match leakOf l with | some k => k | none => 1
        fns := g.fns ++ fnsOf l }
    else g

def guardFrom (g : GSt) : List Piece → Bool
  | [] => true
  | p :: ps => pieceGuard g p && guardFrom (g.next p) ps

/-- the decidable guard of `C18_partial` -/
def guard (h : List Piece) : Bool := guardFrom {} h

/-- which guard a history violates when the guard's bookkeeping starts in `g0`
    (for attributing a spec violation) -/
def violatedGuardsFrom (g0 : GSt) (h : List Piece) : List String :=
  let rec go (g : GSt) : List Piece → List String
    | [] => []
    | p :: ps =>
      let here : List String :=
        match p with
        | .bad => []
        | .stmts l =>
          if allResolve g.syms l then
            (if declaresAfterFailure l then ["decl-after-failure"] else [])
          else []
      here ++ go (g.next p) ps
  go g0 h

/-- which guard a history violates (no host-supplied names) -/
def violatedGuards (h : List Piece) : List String := violatedGuardsFrom {} h

/-! ### The machine of the code BEFORE the repairs (historical)

Until the `fix:` commits for C18-rejected-piece-code-runs-later, C18-compiler-stuck-in-function and
C18-stack-slot-per-piece: `Compile` had no rollback (what a rejected piece emitted and declared before its
error stayed in the main code and ran with the next accepted piece), `compileFunc` left `Compiler.current`
inside the function's code after an error in its body (every later piece was compiled into the dead code,
reported as accepted, and never ran), and `Run` resumed on the stack the previous runs had left (one value
per piece, 1024 slots).  Kept for the checked statements `C18_fixed_*` of `Props.lean`; nothing else uses it. -/
namespace PreFix

inductive CRes where
  | ok
  | rejected (inFn : Bool)
  deriving Repr, DecidableEq, Inhabited

structure COut where
  code : List AIns
  syms : Syms
  fns  : List Nat
  res  : CRes
  deriving Repr, Inhabited

/-- compileProgram WITHOUT rollback: when a statement is rejected, everything emitted and declared before it stays -/
def compileStmts (y : Syms) : List Stmt → COut
  | [] => ⟨[], y, [], .ok⟩
  | s :: rest =>
    if s.resolves y then
      let r := compileStmts (y.add s) rest
      ⟨frag s ++ sep s rest.isEmpty ++ r.code, r.syms, s.fdefs ++ r.fns, r.res⟩
    else ⟨List.replicate s.pre (.push 0) ++ (if s.junk then [.push 0, .pop] else []), y, [], .rejected s.inFn⟩

structure Comp where
  code  : List AIns := []
  syms  : Syms := {}
  fns   : List Nat := []
  stuck : Bool := false        -- compiler.current was left inside a function's code object
  deriving Repr, Inhabited

/-- capacity of the VM's operand stack (vm.MaxStackDepth) -/
def cap : Nat := 1024

/-- vm.eval with the capacity of the operand stack: the stack persisted between runs -/
def execFrom (old : List Nat) : List AIns → List Nat → List (Nat × Bool) → XOut
  | [], stk, tr => ⟨stk, tr, true⟩
  | .eff id need calls :: rest, stk, tr =>
    if stk.length + need > cap then ⟨stk, tr, false⟩
    else execFrom old rest stk (tr ++ [(id, calls.any old.contains)])
  | .fail id leak :: _, stk, tr => ⟨List.replicate leak 0 ++ stk, tr ++ [(id, false)], false⟩
  | .push v :: rest, stk, tr =>
    if stk.length ≥ cap then ⟨stk, tr, false⟩ else execFrom old rest (v :: stk) tr
  | .pop :: rest, stk, tr => execFrom old rest stk.tail tr

structure Repl where
  comp : Comp := {}
  vm   : VM := {}
  deriving Repr, Inhabited

def Repl.feed (r : Repl) : Piece → Repl × Outcome
  | .bad => (r, .parseRejected)
  | .stmts l =>
    let o := compileStmts r.comp.syms l
    let comp : Comp :=
      { code := if r.comp.stuck then r.comp.code else r.comp.code ++ o.code
        syms := o.syms
        fns := if r.comp.stuck then r.comp.fns else r.comp.fns ++ o.fns
        stuck := r.comp.stuck || o.res == .rejected true }
    match o.res with
    | .rejected _ => ({ r with comp := comp }, .compileRejected)
    | .ok =>
      let x := execFrom r.vm.old (comp.code.drop r.vm.ip) r.vm.stack r.vm.trace
      let vm : VM := { ip := comp.code.length, stack := x.stack, trace := x.trace, old := comp.fns }
      ({ comp := comp, vm := vm }, if x.ok then .ok (x.stack.headD 0) else .failed)

def Repl.run (r : Repl) : List Piece → Repl × List Outcome
  | [] => (r, [])
  | p :: ps =>
    let (r1, o) := r.feed p
    let (r2, os) := Repl.run r1 ps
    (r2, o :: os)

end PreFix

/-! ### Host-supplied globals

The embedding program hands the compiler and the VM a set of global names before the first
piece (risor.Config: the builtins `len`, `print`, … and the default modules `math`, `strings`, …).
For the compiler they are ordinary VARIABLES of the root symbol table, defined from the start:
every piece may read them, a top-level assignment (`len = func(v) { … }`, `math = 7`) compiles
and REBINDS them, and — like every other global — the rebinding must be carried from one run to
the next (vm.reloadCode copies the previous run's Globals over the freshly loaded ones, which
loadRootCode has just filled with the host's values again).  In the model a rebinding is an
ordinary statement in the trace: nothing but the trace determines the value of a global, host
supplied or not.  `host` lists the names (numbers, like every name of the model). -/

/-- the root symbol table before the first piece: the host's names are variables, no constants -/
def hostSyms (host : List Nat) : Syms := ⟨host, []⟩

/-- the REPL machine before the first piece, with the host's names defined -/
def Repl.init (host : List Nat) : Repl := { comp := { syms := hostSyms host } }

/-- the Spec's state before the first piece, with the host's names defined -/
def SpecSt.init (host : List Nat) : SpecSt := { syms := hostSyms host }

/-- the guard's bookkeeping before the first piece, with the host's names defined -/
def GSt.init (host : List Nat) : GSt := { syms := hostSyms host }

/-- the decidable guard of `C18_partial_host`: `guard`, evaluated with the host's names defined -/
def guardHost (host : List Nat) (h : List Piece) : Bool := guardFrom (GSt.init host) h

/-! ## Layer 3: compile-only state of the ONE compiler the pieces share

While a construct is being compiled the compiler keeps state that exists for the compilation
only: `Code.pipeActive` (the stages of a pipe: calls are emitted as `Partial`), `Code.loops`
(the loop `break`/`continue` target), `Code.symbols` (the block scope), `loop.pendingSwitchValues`
and `Compiler.current` (the code object of the function being compiled).  The REPL hands every
piece to the SAME compiler, so whatever a REJECTED piece leaves set is the state the next
piece is compiled in.  A piece's compilation is abstracted to its sequence of events:
`enter m` (the compile function of a construct sets mark `m`), `leave` (it returns normally and
resets it), `emit k sens` (an instruction is emitted whose form depends on which of the marks
`sens` are set, e.g. a call is sensitive to `pipe`), `err` (a compile error: every compile
function on the Go stack returns the error; the marks whose reset is DEFERRED are restored,
the others stay). -/

inductive Mark where
  | pipe | loop | block | switchVal | fn
  deriving Repr, DecidableEq, Inhabited

/-- per compile-only field of compiler.go: is it restored on the error path (every function
    that sets it resets it in a deferred function)?  Tied to the sources by `Ties.lean`. -/
def compileOnlyRestores : List (String × Bool) :=
  [("current", true), ("loops", true), ("pendingSwitchValues", true), ("pipeActive", true), ("symbols", true)]

def Mark.field : Mark → String
  | .pipe => "pipeActive"
  | .loop => "loops"
  | .block => "symbols"
  | .switchVal => "pendingSwitchValues"
  | .fn => "current"

/-- the mark is restored when a compile error unwinds through the construct that set it -/
def Mark.restored (m : Mark) : Bool := (compileOnlyRestores.lookup m.field).getD false

inductive CEv where
  | enter (m : Mark)
  | leave
  | emit (k : Nat) (sens : List Mark)
  | err
  deriving Repr, DecidableEq, Inhabited

structure MOut where
  own  : List Mark                  -- marks this Compile call set and left set
  code : List (Nat × List Mark)     -- emitted instructions with the marks (of `sens`) they were emitted under
  ok   : Bool
  deriving Repr, DecidableEq, Inhabited

/-- one call of Compile under a table `R` saying which marks are restored on the error path:
    `inh` = marks left set by earlier calls, `own` = marks set by this call -/
def compileEvsR (R : Mark → Bool) (inh : List Mark) : List Mark → List CEv → MOut
  | own, [] => ⟨own, [], true⟩
  | own, .enter m :: rest => compileEvsR R inh (m :: own) rest
  | own, .leave :: rest => compileEvsR R inh own.tail rest
  | own, .emit k sens :: rest =>
    let r := compileEvsR R inh own rest
    ⟨r.own, (k, sens.filter (fun m => own.contains m || inh.contains m)) :: r.code, r.ok⟩
  | own, .err :: _ => ⟨own.filter (fun m => !R m), [], false⟩

/-- the pieces of a history, compiled one after the other by the same compiler -/
def marksRunR (R : Mark → Bool) (inh : List Mark) : List (List CEv) → List MOut
  | [] => []
  | evs :: rest =>
    let r := compileEvsR R inh [] evs
    r :: marksRunR R (r.own ++ inh) rest

/-- one call of Compile as the code is (`Mark.restored`, the extracted table) -/
def compileEvs (inh : List Mark) : List Mark → List CEv → MOut := compileEvsR Mark.restored inh

/-- the pieces of a history, compiled one after the other by the same compiler (Impl) -/
def marksRun (inh : List Mark) : List (List CEv) → List MOut := marksRunR Mark.restored inh

/-- HISTORICAL: the table before the repair of C18-compiler-stuck-in-function — `Compiler.current` was set
    by compileFunc and not restored on its error paths -/
def preFixRestored : Mark → Bool
  | .fn => false
  | _ => true

/-- Spec: every piece is compiled as by a compiler that has seen no rejected piece -/
def marksSpec (h : List (List CEv)) : List MOut := h.map (compileEvs [] [])

/-- `enter`/`leave` are bracketed up to the first `err` (what a recursive-descent compiler produces) -/
def balancedFrom : Nat → List CEv → Bool
  | d, [] => d == 0
  | d, .enter _ :: rest => balancedFrom (d + 1) rest
  | d, .leave :: rest => d > 0 && balancedFrom (d - 1) rest
  | d, .emit _ _ :: rest => balancedFrom d rest
  | _, .err :: _ => true

/-- when the error surfaces, every mark set by this call is one that table `R` restores on the error path
    (true of every event sequence under the table of the code as it is: `errClean_restored`) -/
def errClean (R : Mark → Bool) : List Mark → List CEv → Bool
  | _, [] => true
  | own, .enter m :: rest => errClean R (m :: own) rest
  | own, .leave :: rest => errClean R own.tail rest
  | own, .emit _ _ :: rest => errClean R own rest
  | own, .err :: _ => own.all R

/-- what every history of piece compilations satisfies: `enter`/`leave` are bracketed -/
def marksWf (h : List (List CEv)) : Bool := h.all (balancedFrom 0)

/-- HISTORICAL guard of `marks_partial` before the repair: additionally, no compile error inside a function literal -/
def preFixMarksGuard (h : List (List CEv)) : Bool := h.all (fun evs => balancedFrom 0 evs && errClean preFixRestored [] evs)

/-! ## Layer 4: generations of the globals array and the time a function is bound to one

`vm.Run` (not the first) RELOADS the main code: a fresh `Globals` slice, the previous slice copied
into it, and every loaded code object of the main code forgotten (`reloadDropsMainFunctions`).  Then
every function constant of the main code is loaded — none is loaded at that point — and shares the
slice of THIS run (`loadChildCode`) until the next reload.  So every run binds every function to
its own slice: all reads and writes of a run, by top-level code and by functions declared in any
piece, go to one array (`BCtl.next`).  Before the repair of C18-function-globals-snapshot a function
stayed loaded across reloads: the run that first saw a function constant — the run of the piece that
declares it — fixed the slice the function read and wrote for ever (`BCtl.nextSnapshot`, historical).
Globals are numbers, values integers; function bodies are assignments to globals followed by a
returned expression. -/

inductive FExpr where
  | lit (v : Int)
  | glob (g : Nat)
  | arg
  | add (a b : FExpr)
  deriving Repr, DecidableEq, Inhabited

structure FnDef where
  body : List (Nat × FExpr)
  ret  : FExpr
  deriving Repr, DecidableEq, Inhabited

inductive TExpr where
  | lit (v : Int)
  | glob (g : Nat)
  | add (a b : TExpr)
  | call (f : Nat) (a : TExpr)
  deriving Repr, DecidableEq, Inhabited

inductive TStmt where
  | set (g : Nat) (e : TExpr)      -- `g := e` / `g = e` at top level
  | defn (f : Nat) (d : FnDef)     -- `func f(p) { … }`
  | expr (e : TExpr)
  deriving Repr, DecidableEq, Inhabited

/-- generation → global → value -/
abbrev Gens := Nat → Nat → Int

def Gens.put (G : Gens) (k g : Nat) (v : Int) : Gens :=
  fun k' g' => if k' = k ∧ g' = g then v else G k' g'

def FExpr.eval (σ : Nat → Int) (a : Int) : FExpr → Int
  | .lit v => v
  | .glob g => σ g
  | .arg => a
  | .add x y => x.eval σ a + y.eval σ a

/-- a function body runs against generation `k` -/
def runBody (k : Nat) (a : Int) : List (Nat × FExpr) → Gens → Gens
  | [], G => G
  | (g, e) :: rest, G => runBody k a rest (G.put k g (e.eval (G k) a))

/-- what a run knows: the current generation, the function constants of the main code, and the
    generation each loaded function is bound to -/
structure BEnv where
  cur  : Nat
  defs : Nat → Option FnDef
  bind : Nat → Option Nat

def TExpr.eval (E : BEnv) : TExpr → Gens → Int × Gens
  | .lit v, G => (v, G)
  | .glob g, G => (G E.cur g, G)
  | .add a b, G =>
    let r1 := a.eval E G
    let r2 := b.eval E r1.2
    (r1.1 + r2.1, r2.2)
  | .call f a, G =>
    let r1 := a.eval E G
    match E.defs f, E.bind f with
    | some d, some k =>
      let G2 := runBody k r1.1 d.body r1.2
      (d.ret.eval (G2 k) r1.1, G2)
    | _, _ => (0, r1.2)

def TStmt.exec (E : BEnv) : TStmt → Gens → Option Int × Gens
  | .set g e, G => let r := e.eval E G; (none, r.2.put E.cur g r.1)
  | .defn _ _, G => (none, G)
  | .expr e, G => let r := e.eval E G; (some r.1, r.2)

/-- the statements of a piece in order; the piece's value is the value of its last statement -/
def execPiece (E : BEnv) : List TStmt → Gens → Option Int → Option Int × Gens
  | [], G, v => (v, G)
  | s :: rest, G, _ => let r := s.exec E G; execPiece E rest r.2 r.1

/-- compile time: every function declaration of the piece becomes a constant of the main code -/
def addDefs (defs : Nat → Option FnDef) : List TStmt → Nat → Option FnDef
  | [] => defs
  | .defn f d :: rest => addDefs (fun x => if x = f then some d else defs x) rest
  | _ :: rest => addDefs defs rest

/-- control state of the VM between pieces (no values) -/
structure BCtl where
  cur     : Nat := 0
  started : Bool := false
  defs    : Nat → Option FnDef := fun _ => none
  bind    : Nat → Option Nat := fun _ => none

/-- runCodeInternal up to `eval`: reload (a new generation; the loaded functions of the main code are
    forgotten) unless this is the first run, then load — bind to the current generation — every function
    constant of the main code -/
def BCtl.next (c : BCtl) (l : List TStmt) : BCtl :=
  let defs := addDefs c.defs l
  let cur := if c.started then c.cur + 1 else c.cur
  { cur := cur, started := true, defs := defs,
    bind := fun f => (defs f).map fun _ => cur }

/-- HISTORICAL (before the repair of C18-function-globals-snapshot): a loaded function stayed loaded
    across reloads, so only the function constants that were not loaded yet were bound to the current
    generation; the others kept the generation of the run that first loaded them -/
def BCtl.nextSnapshot (c : BCtl) (l : List TStmt) : BCtl :=
  let defs := addDefs c.defs l
  let cur := if c.started then c.cur + 1 else c.cur
  { cur := cur, started := true, defs := defs,
    bind := fun f => match c.bind f with
      | some k => some k
      | none => (defs f).map fun _ => cur }

def BCtl.env (c : BCtl) : BEnv := ⟨c.cur, c.defs, c.bind⟩

/-- reloadCode: the new generation starts as a copy of the previous one -/
def reloadGens (c : BCtl) (G : Gens) : Gens :=
  if c.started then fun k g => if k = c.cur + 1 then G c.cur g else G k g else G

/-- Impl: the pieces one by one; per piece its value -/
def bindRun (c : BCtl) (G : Gens) : List (List TStmt) → List (Option Int) × BCtl × Gens
  | [] => ([], c, G)
  | l :: rest =>
    let c1 := c.next l
    let r := execPiece c1.env l (reloadGens c G) none
    let rr := bindRun c1 r.2 rest
    (r.1 :: rr.1, rr.2)

/-- HISTORICAL: the pieces one by one on the pre-fix control (`BCtl.nextSnapshot`) -/
def bindRunSnapshot (c : BCtl) (G : Gens) : List (List TStmt) → List (Option Int) × BCtl × Gens
  | [] => ([], c, G)
  | l :: rest =>
    let c1 := c.nextSnapshot l
    let r := execPiece c1.env l (reloadGens c G) none
    let rr := bindRunSnapshot c1 r.2 rest
    (r.1 :: rr.1, rr.2)

/-- Spec: one globals array (generation 0) that everything reads and writes -/
def specEnv (defs : Nat → Option FnDef) : BEnv := ⟨0, defs, fun f => (defs f).map fun _ => 0⟩

def bindSpec (defs : Nat → Option FnDef) (S : Gens) : List (List TStmt) → List (Option Int) × (Nat → Option FnDef) × Gens
  | [] => ([], defs, S)
  | l :: rest =>
    let d1 := addDefs defs l
    let r := execPiece (specEnv d1) l S none
    let rr := bindSpec d1 r.2 rest
    (r.1 :: rr.1, rr.2)

/-! ### the guard: every read goes to a generation that holds the up-to-date value -/

/-- global → generation → "this generation's slot holds the global's up-to-date value" -/
abbrev Valid := Nat → Nat → Bool

def Valid.write (V : Valid) (g k : Nat) : Valid := fun g' k' => if g' = g then k' == k else V g' k'

def FExpr.reads : FExpr → List Nat
  | .lit _ => []
  | .glob g => [g]
  | .arg => []
  | .add a b => a.reads ++ b.reads

def okBody (k : Nat) : List (Nat × FExpr) → Valid → Option Valid
  | [], V => some V
  | (g, e) :: rest, V => if e.reads.all (fun x => V x k) then okBody k rest (V.write g k) else none

def TExpr.ok (E : BEnv) : TExpr → Valid → Option Valid
  | .lit _, V => some V
  | .glob g, V => if V g E.cur then some V else none
  | .add a b, V => (a.ok E V).bind (b.ok E)
  | .call f a, V => (a.ok E V).bind fun V1 =>
    match E.defs f, E.bind f with
    | some d, some k => (okBody k d.body V1).bind fun V2 => if d.ret.reads.all (fun x => V2 x k) then some V2 else none
    | some _, none => none
    | none, _ => some V1

def TStmt.ok (E : BEnv) : TStmt → Valid → Option Valid
  | .set g e, V => (e.ok E V).map fun V1 => V1.write g E.cur
  | .defn _ _, V => some V
  | .expr e, V => e.ok E V

def okPiece (E : BEnv) : List TStmt → Valid → Option Valid
  | [], V => some V
  | s :: rest, V => (s.ok E V).bind (okPiece E rest)

def reloadValid (c : BCtl) (V : Valid) : Valid :=
  if c.started then fun g k => if k = c.cur + 1 then V g c.cur else V g k else V

/-- the validity bookkeeping after a history, `none` as soon as a read hits a stale slot -/
def bindGuardFrom (c : BCtl) (V : Valid) : List (List TStmt) → Option (BCtl × Valid)
  | [] => some (c, V)
  | l :: rest =>
    match okPiece (c.next l).env l (reloadValid c V) with
    | some V1 => bindGuardFrom (c.next l) V1 rest
    | none => none

/-- the decidable guard of `binding_partial` (since the repair it holds for EVERY history:
    `bindGuard_always`) -/
def bindGuard (h : List (List TStmt)) : Bool := (bindGuardFrom {} (fun _ _ => true) h).isSome

/-- HISTORICAL: the same bookkeeping over the pre-fix control -/
def bindGuardSnapshotFrom (c : BCtl) (V : Valid) : List (List TStmt) → Option (BCtl × Valid)
  | [] => some (c, V)
  | l :: rest =>
    match okPiece (c.nextSnapshot l).env l (reloadValid c V) with
    | some V1 => bindGuardSnapshotFrom (c.nextSnapshot l) V1 rest
    | none => none

/-! ## Layer 5: the context of each piece and the VM's halt flag

`vm.start` clears the halt flag and, when the context can be cancelled, starts a watcher that
sets it when the context is done; `eval` looks at the flag before every instruction and returns
`ctx.Err()` when it is set.  A piece whose run is ended by its context is a piece that fails at
run time (its last statement is one that only the context can end); what the model adds is the
FLAG that run leaves behind and the context of every later piece. -/

inductive Ctx where
  | background       -- context.Background(): Done() == nil, can never be cancelled
  | cancellable      -- can be cancelled, is not done while the history runs
  | done             -- is done before the piece's run ends (already cancelled, cancelled meanwhile, deadline)
  deriving Repr, DecidableEq, Inhabited

/-- `start` clears the halt flag unconditionally (not only when the context has a Done channel).
    Tied to vm/vm.go by `Ties.lean`. -/
def haltClearedForEveryContext : Bool := true

def startClearsHalt (c : Ctx) : Bool := haltClearedForEveryContext || c != .background

structure HRepl where
  r    : Repl := {}
  halt : Bool := false
  deriving Repr, Inhabited

/-- one call of the evaluator with the piece's own context -/
def HRepl.feed (h : HRepl) (c : Ctx) (p : Piece) : HRepl × Outcome :=
  let halt0 := if startClearsHalt c then false else h.halt
  let (r1, o) := h.r.feed p
  if halt0 then
    -- eval returns ctx.Err() before the first instruction: the piece is compiled, the stack is emptied, nothing runs
    match o with
    | .parseRejected => ({ h with r := r1 }, o)
    | .compileRejected => ({ h with r := r1 }, o)
    | _ => ({ r := { comp := r1.comp, vm := { h.r.vm with stack := [] } }, halt := true }, .ok 0)
  else
    match o with
    | .parseRejected => ({ r := r1, halt := h.halt }, o)
    | .compileRejected => ({ r := r1, halt := h.halt }, o)
    | _ => ({ r := r1, halt := c == .done }, o)

def HRepl.run (h : HRepl) : List (Ctx × Piece) → HRepl × List Outcome
  | [] => (h, [])
  | (c, p) :: ps =>
    let (h1, o) := h.feed c p
    let (h2, os) := HRepl.run h1 ps
    (h2, o :: os)

/-! ## Layer 6: the import cache of the ONE VM the pieces share

`vm.importModule` looks the name up in `vm.modules` first; only on a miss does it ask the importer,
run the module's top-level code (which may import further modules) and enter the module into the
cache.  `Run` — the incremental path — never touches `vm.modules` (only `resetForNewCode`, reached
with `resetState = true` from `RunCode`, replaces it), so within one session a module body runs at
most once, however many pieces import it and under whatever spelling (`import m`, `import m as a`,
`from m import f`).  Modules are numbers; module `m + 1`'s body may import module `m`
(`ModCfg.dep`); a module's state is one integer, initialised by its body; `log` records every
execution of a module body (the module's top-level side effect, its "tick").  Handles are the
main code's globals that an import binds (the module name, an alias, the names of a from-import). -/

structure ModCfg where
  init : Nat → Int          -- the value the module body gives the module's state
  dep  : Nat → Bool         -- module `m + 1`'s body imports module `m` (before initialising its own state)

inductive IStmt where
  | imp (h m : Nat)              -- `import m` / `import m as h` / `from m import …`: bind handle `h` to module `m`
  | bump (h : Nat) (d : Int)     -- expression `h.bump(d)`: add `d` to the module's state, yield the new state
  | get (hs : List Nat)          -- expression `[h₁.get(), h₂.state, …]`: the state seen through each handle
  | below (h : Nat)              -- expression `h.below()`: the state of the module that `h`'s module imported
  | keep (j h : Nat)             -- `vⱼ = h.get()`: copy the state seen through `h` into the integer global `j`

structure ISt where
  cache : List Nat := []                      -- vm.modules
  log   : List Nat := []                      -- module bodies executed, in order
  st    : Nat → Int := fun _ => 0             -- module-level state
  alias : Nat → Option Nat := fun _ => none   -- handle → module
  vars  : Nat → Int := fun _ => 0             -- integer globals of the main code
  vals  : List (List Int) := []               -- values of the expression statements, in order

/-- vm.importModule: a cache hit does nothing; a miss runs the body (tick, nested import, state
    initialisation) and then enters the module into the cache -/
def loadMod (cfg : ModCfg) : Nat → ISt → ISt
  | 0, s =>
    if s.cache.contains 0 then s
    else { s with log := s.log ++ [0], st := fun k => if k = 0 then cfg.init 0 else s.st k, cache := 0 :: s.cache }
  | m + 1, s =>
    if s.cache.contains (m + 1) then s
    else
      let s1 : ISt := { s with log := s.log ++ [m + 1] }
      let s2 := if cfg.dep (m + 1) then loadMod cfg m s1 else s1
      { s2 with st := fun k => if k = m + 1 then cfg.init (m + 1) else s2.st k, cache := (m + 1) :: s2.cache }

def ISt.seen (s : ISt) (h : Nat) : Int :=
  match s.alias h with
  | some m => s.st m
  | none => 0

def IStmt.exec (cfg : ModCfg) : IStmt → ISt → ISt
  | .imp h m, s =>
    let s1 := loadMod cfg m s
    { s1 with alias := fun k => if k = h then some m else s1.alias k }
  | .bump h d, s =>
    match s.alias h with
    | some m => { s with st := fun k => if k = m then s.st m + d else s.st k, vals := s.vals ++ [[s.st m + d]] }
    | none => { s with vals := s.vals ++ [[0]] }
  | .get hs, s => { s with vals := s.vals ++ [hs.map s.seen] }
  | .below h, s =>
    match s.alias h with
    | some (m + 1) => { s with vals := s.vals ++ [[s.st m]] }
    | _ => { s with vals := s.vals ++ [[0]] }
  | .keep j h, s => { s with vars := fun k => if k = j then s.seen h else s.vars k }

def execI (cfg : ModCfg) (l : List IStmt) (s : ISt) : ISt := l.foldl (fun s t => t.exec cfg s) s

/-- does the incremental path (`Run`) replace the import cache when a run starts?  As the code is:
    no.  Tied to vm/vm.go by `Ties.lean` (`importCacheKept_tie`). -/
def importCacheResetEveryRun : Bool := false

/-- the functions of vm/vm.go that replace or clear `vm.modules` -/
def importCacheReplacedBy : List String := ["resetForNewCode"]

/-- the start of a run: `seed` = the modules the host supplied as globals (always importable by name) -/
def startRun (reset : Bool) (seed : List Nat) (s : ISt) : ISt := if reset then { s with cache := seed } else s

/-- a session: the pieces one after the other on the same VM -/
def impRun (reset : Bool) (cfg : ModCfg) (seed : List Nat) : ISt → List (List IStmt) → ISt
  | s, [] => s
  | s, l :: rest => impRun reset cfg seed (execI cfg l (startRun reset seed s)) rest

/-- Impl: the session as the code runs it -/
def impImpl (cfg : ModCfg) (seed : List Nat) (s : ISt) (h : List (List IStmt)) : ISt :=
  impRun importCacheResetEveryRun cfg seed s h

/-- Spec: the concatenated program, evaluated at once -/
def impWhole (cfg : ModCfg) (s : ISt) (h : List (List IStmt)) : ISt := execI cfg h.flatten s

/-- the state a session starts in: the host's modules are in the cache, nothing has run -/
def ISt.start (seed : List Nat) : ISt := { cache := seed }

/-! ## Layer 7: the globals array is indexed by SLOT; names may repeat

Every `:=` (and every loop variable) of the main code claims the next index of the ROOT symbol
table, also when it sits in a top-level block (`SymbolTable.claimIndex` of a block delegates to its
parent): the block variable of `x := 1; if c { x := 2 }` is a second global slot that is also
called `x`.  Compiled code addresses globals by index only.  `reloadCode` gives the longer main
code a fresh array and copies the old array into it position by position (`copy`).  The model:
`names` is the root table (slot `i` is called `names[i]`), a piece adds `decls` slots and runs
straight-line slot statements (the harness resolves names to slots and unrolls its constant
loops; the real table is compared with `names` through `vm.GlobalNames`). -/

inductive SExpr where
  | lit (v : Int)
  | slot (i : Nat)
  | add (a b : SExpr)
  deriving Repr, DecidableEq, Inhabited

inductive SStmt where
  | set (i : Nat) (e : SExpr)
  | expr (e : SExpr)
  deriving Repr, DecidableEq, Inhabited

structure SPiece where
  decls : List Nat          -- names of the slots this piece's compilation adds to the root table
  stmts : List SStmt
  deriving Repr, DecidableEq, Inhabited

/-- the Globals array: `none` = never stored -/
abbrev Slots := List (Option Int)

def SExpr.eval (a : Slots) : SExpr → Int
  | .lit v => v
  | .slot i => (a.getD i none).getD 0
  | .add x y => x.eval a + y.eval a

/-- state of a run: the array and the values of the expression statements so far -/
abbrev SSt := Slots × List Int

def SStmt.exec : SStmt → SSt → SSt
  | .set i e, (a, vs) => (a.set i (some (e.eval a)), vs)
  | .expr e, (a, vs) => (a, vs ++ [e.eval a])

def execS (l : List SStmt) (s : SSt) : SSt := l.foldl (fun s t => t.exec s) s

/-- Go's `copy(dst, src)` on slices -/
def copyInto (dst src : Slots) : Slots := src.take dst.length ++ dst.drop src.length

/-- reloadCode as it is: a fresh array for the (longer) table, the old array copied in by position.
    The names of the table play no role: only its length is used. -/
def reloadBySlot (names : List Nat) (old : Slots) : Slots := copyInto (List.replicate names.length none) old

/-- the value a by-name carry-over finds for `nm`: the LAST stored slot of the old array called `nm` -/
def lastNamed (names : List Nat) (old : Slots) (nm : Nat) : Option Int :=
  (names.zip old).reverse.findSome? fun p => if p.1 = nm then p.2 else none

/-- CONTRAST (not the code): carry the values over by NAME — a map name → value built from the old
    array in slot order, then every slot of the new array whose name is in the map takes that value -/
def reloadByName (names : List Nat) (old : Slots) : Slots := names.map (lastNamed names old)

/-- a session over a reload function: per piece, the compiler extends the table, the run reloads
    (the first load is a reload from the empty array) and executes the piece's statements -/
def slotRun (reload : List Nat → Slots → Slots) : List Nat → SSt → List SPiece → List Nat × SSt
  | names, s, [] => (names, s)
  | names, (a, vs), p :: rest =>
    slotRun reload (names ++ p.decls) (execS p.stmts (reload (names ++ p.decls) a, vs)) rest

def allDecls (h : List SPiece) : List Nat := (h.map (·.decls)).flatten
def allStmts (h : List SPiece) : List SStmt := (h.map (·.stmts)).flatten

/-- Spec: the concatenated program on ONE array that has every slot from the start -/
def slotWhole (names : List Nat) (a : Slots) (vs : List Int) (h : List SPiece) : SSt :=
  execS (allStmts h) (a ++ List.replicate ((names ++ allDecls h).length - a.length) none, vs)

def SExpr.scoped (n : Nat) : SExpr → Bool
  | .lit _ => true
  | .slot i => i < n
  | .add x y => x.scoped n && y.scoped n

def SStmt.scoped (n : Nat) : SStmt → Bool
  | .set i e => i < n && e.scoped n
  | .expr e => e.scoped n

/-- what every compiler output satisfies: a piece's code addresses only slots of the table as it
    is after that piece's compilation -/
def scopedFrom : Nat → List SPiece → Bool
  | _, [] => true
  | n, p :: rest => p.stmts.all (·.scoped (n + p.decls.length)) && scopedFrom (n + p.decls.length) rest

/-- vm.Get: the FIRST slot with that name -/
def getByName (names : List Nat) (a : Slots) (nm : Nat) : Option Int :=
  match names.idxOf? nm with
  | some i => a.getD i none
  | none => none

end Risor.C18
