import RisorModel.C18.Model
/-!
C18 helper lemmas.

Layer 1: small-step executions of the generic bytecode machine and how they embed into an
appended code.  Layer 2: what the compiler emits for a piece whose statements all resolve, and
what the VM does with it.
-/
namespace Risor.C18

/-! ## Layer 1 -/

variable {σ : Type}

/-- executions of any length: `Steps S c (pc, s) (pc', s')` -/
inductive Steps (S : Sem σ) (c : List BIns) : Nat × σ → Nat × σ → Prop where
  | refl (x : Nat × σ) : Steps S c x x
  | step {pc pc' : Nat} {s s' : σ} {i : BIns} {y : Nat × σ} :
      c[pc]? = some i → stepAt S i pc s = .ok (pc', s') → Steps S c (pc', s') y → Steps S c (pc, s) y

theorem Steps.trans {S : Sem σ} {c : List BIns} {x y z : Nat × σ}
    (h1 : Steps S c x y) (h2 : Steps S c y z) : Steps S c x z := by
  induction h1 with
  | refl => exact h2
  | step hi hs _ ih => exact .step hi hs (ih h2)

/-- shifting an instruction's position shifts its outcome -/
theorem stepAt_shift (S : Sem σ) (i : BIns) (n pc pc' : Nat) (s s' : σ)
    (h : stepAt S i pc s = .ok (pc', s')) : stepAt S i (n + pc) s = .ok (n + pc', s') := by
  cases i with
  | op k =>
    simp only [stepAt] at h ⊢
    split at h
    · simp only [Except.ok.injEq, Prod.mk.injEq] at h
      obtain ⟨ha, hb⟩ := h
      simp only [Except.ok.injEq, Prod.mk.injEq]
      exact ⟨by omega, hb⟩
    · cases h
  | jf d =>
    simp only [stepAt, Except.ok.injEq, Prod.mk.injEq] at h ⊢
    obtain ⟨ha, hb⟩ := h
    exact ⟨by omega, hb⟩
  | jb d =>
    simp only [stepAt] at h ⊢
    split at h
    · rename_i hd
      simp only [Except.ok.injEq, Prod.mk.injEq] at h
      obtain ⟨ha, hb⟩ := h
      have : d ≤ n + pc := by omega
      simp only [this, ↓reduceIte, Except.ok.injEq, Prod.mk.injEq]
      exact ⟨by omega, hb⟩
    · cases h
  | cjf k d =>
    simp only [stepAt] at h ⊢
    split at h
    · rename_i b s1 he
      simp only [Except.ok.injEq, Prod.mk.injEq] at h
      obtain ⟨ha, hb⟩ := h
      simp only [Except.ok.injEq, Prod.mk.injEq]
      refine ⟨?_, hb⟩
      cases b
      · simp only [Bool.false_eq_true, ↓reduceIte] at ha ⊢
        omega
      · simp only [↓reduceIte] at ha ⊢
        omega
    · cases h

theorem stepAt_shift_err (S : Sem σ) (i : BIns) (n pc : Nat) (s e : σ)
    (hl : ∀ d, i = .jb d → d ≤ pc)
    (h : stepAt S i pc s = .error e) : stepAt S i (n + pc) s = .error e := by
  cases i with
  | op k =>
    simp only [stepAt] at h ⊢
    split at h
    · cases h
    · exact h
  | jf d => simp [stepAt] at h
  | jb d =>
    have := hl d rfl
    simp [stepAt, this] at h
  | cjf k d =>
    simp only [stepAt] at h ⊢
    split at h
    · cases h
    · exact h

theorem getElem?_append_left' {α} (a b : List α) (pc : Nat) (x : α) (h : a[pc]? = some x) :
    (a ++ b)[pc]? = some x := by
  have hlt : pc < a.length := by
    rcases Nat.lt_or_ge pc a.length with h1 | h1
    · exact h1
    · rw [List.getElem?_eq_none h1] at h
      cases h
  rw [List.getElem?_append_left hlt]
  exact h

theorem getElem?_append_shift {α} (a b : List α) (pc : Nat) : (a ++ b)[a.length + pc]? = b[pc]? := by
  rw [List.getElem?_append_right (by omega)]
  congr 1
  omega

/-! ## Layer 2 -/

/-- the code a piece adds when all of its statements compile -/
def codeOf : List Stmt → List AIns
  | [] => []
  | s :: rest => frag s ++ sep s rest.isEmpty ++ codeOf rest

def addAll (y : Syms) : List Stmt → Syms
  | [] => y
  | s :: rest => addAll (y.add s) rest

theorem compileStmts_ok (y : Syms) (l : List Stmt) (h : allResolve y l = true) :
    compileStmts y l = ⟨codeOf l, addAll y l, fnsOf l, .ok⟩ := by
  induction l generalizing y with
  | nil => simp [compileStmts, codeOf, addAll, fnsOf]
  | cons s rest ih =>
    simp only [allResolve, Bool.and_eq_true] at h
    have := ih (y.add s) h.2
    simp only [compileStmts, h.1, ↓reduceIte, this, codeOf, addAll, fnsOf, List.map_cons, List.flatten_cons]

theorem compileStmts_rejected_first (y : Syms) (s : Stmt) (rest : List Stmt)
    (h : s.resolves y = false) :
    compileStmts y (s :: rest) = ⟨List.replicate s.pre (.push 0), y, [], .rejected s.inFn⟩ := by
  simp [compileStmts, h]

theorem add_nodecl (y : Syms) (s : Stmt) (h : (s.vdecl.isEmpty && s.cdecl.isEmpty) = true) :
    y.add s = y := by
  simp only [Bool.and_eq_true, List.isEmpty_iff] at h
  simp [Syms.add, h.1, h.2]

theorem addAll_nodecl (y : Syms) (l : List Stmt)
    (h : l.any (fun t => !(t.vdecl.isEmpty && t.cdecl.isEmpty)) = false) : addAll y l = y := by
  induction l generalizing y with
  | nil => rfl
  | cons s rest ih =>
    simp only [List.any_cons, Bool.or_eq_false_iff, Bool.not_eq_false'] at h
    simp only [addAll, add_nodecl y s h.1]
    exact ih y h.2

/-- without declarations after the failure, the symbols of the statements that completed are
    the symbols of the whole piece -/
theorem specExec_syms (y : Syms) (tr : List (Nat × Bool)) (v : Nat) (l : List Stmt)
    (h : declaresAfterFailure l = false) : (specExec y tr v l).syms = addAll y l := by
  induction l generalizing y tr v with
  | nil => rfl
  | cons s rest ih =>
    unfold declaresAfterFailure at h
    by_cases hf : s.fails = true
    · simp only [hf, ↓reduceIte] at h
      simp only [specExec, hf, ↓reduceIte]
      exact (addAll_nodecl y (s :: rest) h).symm
    · simp only [hf, Bool.false_eq_true, ↓reduceIte] at h
      simp only [specExec, hf, Bool.false_eq_true, ↓reduceIte, addAll]
      exact ih _ _ _ h

theorem specExec_ok_iff (y : Syms) (tr : List (Nat × Bool)) (v : Nat) (l : List Stmt) :
    (specExec y tr v l).ok = (leakOf l).isNone := by
  induction l generalizing y tr v with
  | nil => rfl
  | cons s rest ih =>
    by_cases hf : s.fails = true
    · simp [specExec, leakOf, hf]
    · simp only [specExec, hf, Bool.false_eq_true, ↓reduceIte, leakOf]
      exact ih _ _ _

/-- what running the code of an accepted piece does, next to the Spec's execution of the same
    statements: same trace, same verdict; one value on top of the old stack if it completes,
    the failing statement's leak if it does not -/
theorem exec_codeOf (old : List Nat) (y : Syms) (l : List Stmt) (hne : l ≠ []) (stk : List Nat)
    (tr : List (Nat × Bool)) (v : Nat)
    (hfit : ∀ s ∈ l, stk.length + s.need + 1 ≤ cap)
    (hfresh : ∀ s ∈ l, s.calls.any old.contains = false) :
    let x := execFrom old (codeOf l) stk tr
    let sp := specExec y tr v l
    x.trace = sp.trace ∧ x.ok = sp.ok ∧
      (sp.ok = true → x.stack = sp.last :: stk) ∧
      (sp.ok = false → ∃ k, leakOf l = some k ∧ x.stack = List.replicate k 0 ++ stk) := by
  induction l generalizing y tr v with
  | nil => exact absurd rfl hne
  | cons s rest ih =>
    have hs := hfit s (List.mem_cons_self ..)
    have hc := hfresh s (List.mem_cons_self ..)
    have h1 : ¬ (stk.length + s.need > cap) := by omega
    have h2 : ¬ (stk.length ≥ cap) := by omega
    by_cases hf : s.fails = true
    · simp [codeOf, frag, hf, execFrom, specExec, leakOf]
    · have hf' : s.fails = false := by simpa using hf
      cases rest with
      | nil =>
        cases he : s.isExpr <;> cases hlv : s.leaves <;>
          simp [codeOf, frag, sep, hf', execFrom, specExec, hlv, he, h1, h2, hc, Stmt.lv, leakOf]
      | cons t rest' =>
        have ih' := ih (y.add s) (by simp) (tr ++ [(s.id, false)]) (if s.isExpr then s.id else 0)
          (fun u hu => hfit u (List.mem_cons_of_mem _ hu))
          (fun u hu => hfresh u (List.mem_cons_of_mem _ hu))
        have hx : execFrom old (codeOf (s :: t :: rest')) stk tr
            = execFrom old (codeOf (t :: rest')) stk (tr ++ [(s.id, false)]) := by
          cases he : s.isExpr <;> cases hlv : s.leaves <;>
            simp [codeOf, frag, sep, hf', execFrom, hlv, he, h1, h2, hc, Stmt.lv]
        have hsp : specExec y tr v (s :: t :: rest')
            = specExec (y.add s) (tr ++ [(s.id, false)]) (if s.isExpr then s.id else 0) (t :: rest') := by
          simp [specExec, hf']
        have hl : leakOf (s :: t :: rest') = leakOf (t :: rest') := by
          simp [leakOf, hf']
        simp only [hx, hsp, hl]
        exact ih'

/-! ### the Spec's execution over concatenated statement lists -/

theorem allResolve_append (y : Syms) (a b : List Stmt) :
    allResolve y (a ++ b) = (allResolve y a && allResolve (addAll y a) b) := by
  induction a generalizing y with
  | nil => simp [allResolve, addAll]
  | cons s rest ih => simp [allResolve, addAll, ih, Bool.and_assoc]

theorem specExec_indep (y : Syms) (tr : List (Nat × Bool)) (v w : Nat) (l : List Stmt) :
    (specExec y tr v l).syms = (specExec y tr w l).syms ∧
    (specExec y tr v l).trace = (specExec y tr w l).trace ∧
    (specExec y tr v l).ok = (specExec y tr w l).ok := by
  cases l with
  | nil => exact ⟨rfl, rfl, rfl⟩
  | cons s rest =>
    by_cases hf : s.fails = true <;> simp [specExec, hf]

theorem specExec_append (y : Syms) (tr : List (Nat × Bool)) (v : Nat) (a b : List Stmt)
    (h : (specExec y tr v a).ok = true) :
    specExec y tr v (a ++ b)
      = specExec (specExec y tr v a).syms (specExec y tr v a).trace (specExec y tr v a).last b := by
  induction a generalizing y tr v with
  | nil => rfl
  | cons s rest ih =>
    by_cases hf : s.fails = true
    · simp [specExec, hf] at h
    · simp only [specExec, hf, Bool.false_eq_true, ↓reduceIte, List.cons_append] at h ⊢
      exact ih _ _ _ h

theorem specExec_ok_syms (y : Syms) (tr : List (Nat × Bool)) (v : Nat) (a : List Stmt)
    (h : (specExec y tr v a).ok = true) : (specExec y tr v a).syms = addAll y a := by
  induction a generalizing y tr v with
  | nil => rfl
  | cons s rest ih =>
    by_cases hf : s.fails = true
    · simp [specExec, hf] at h
    · simp only [specExec, hf, Bool.false_eq_true, ↓reduceIte, addAll] at h ⊢
      exact ih _ _ _ h

/-! ### invariants and auxiliary statements used by `Props.lean` -/

theorem jumpsLocalFrom_get (n : Nat) (c : List BIns) (base pc : Nat) (i : BIns)
    (h : jumpsLocalFrom n base c = true) (hi : c[pc]? = some i) : insLocal n (base + pc) i = true := by
  induction c generalizing base pc with
  | nil => simp at hi
  | cons j rest ih =>
    simp only [jumpsLocalFrom, Bool.and_eq_true] at h
    cases pc with
    | zero =>
      simp only [List.getElem?_cons_zero, Option.some.injEq] at hi
      subst hi
      exact h.1
    | succ k =>
      simp only [List.getElem?_cons_succ] at hi
      have := ih (base + 1) k h.2 hi
      have e : base + 1 + k = base + (k + 1) := by omega
      rw [e] at this
      exact this


/-- the invariant that ties the REPL machine, the Spec state and the guard's bookkeeping -/
structure Inv (r : Repl) (st : SpecSt) (g : GSt) : Prop where
  syms  : r.comp.syms = st.syms
  gsyms : g.syms = st.syms
  trace : r.vm.trace = st.trace
  ip    : r.vm.ip = r.comp.code.length
  stuck : r.comp.stuck = false
  ht    : r.vm.stack.length = g.ht
  old   : r.vm.old = g.fns
  fns   : r.comp.fns = g.fns

theorem feed_step (r : Repl) (st : SpecSt) (g : GSt) (p : Piece) (inv : Inv r st g)
    (hg : pieceGuard g p = true) :
    (r.feed p).2 = (st.feed p).2 ∧ Inv (r.feed p).1 (st.feed p).1 (g.next p) := by
  cases p with
  | bad => exact ⟨rfl, inv⟩
  | stmts l =>
    by_cases hres : allResolve st.syms l = true
    · -- accepted by the compiler
      have hres' : allResolve g.syms l = true := by rw [inv.gsyms]; exact hres
      simp only [pieceGuard, hres', ↓reduceIte, Bool.and_eq_true, List.all_eq_true,
        decide_eq_true_eq, Bool.not_eq_eq_eq_not, Bool.not_true] at hg
      obtain ⟨⟨hall, hdecl⟩, hne⟩ := hg
      have hne' : l ≠ [] := by
        intro h; subst h; simp at hne
      have hc := compileStmts_ok r.comp.syms l (by rw [inv.syms]; exact hres)
      have hx := exec_codeOf r.vm.old st.syms l hne' r.vm.stack st.trace 0
        (fun s hs => by have := (hall s hs).1; rw [inv.ht]; exact this)
        (fun s hs => by have := (hall s hs).2; rw [inv.old]; exact this)
      have hdrop : (r.comp.code ++ codeOf l).drop r.vm.ip = codeOf l := by
        rw [inv.ip]; simp
      have hsy := specExec_syms st.syms st.trace 0 l hdecl
      have hok := specExec_ok_iff st.syms st.trace 0 l
      simp only [Repl.feed, hc, inv.stuck, Bool.false_eq_true, ↓reduceIte, hdrop, SpecSt.feed, hres,
        GSt.next, hres']
      rw [← inv.trace] at hx
      obtain ⟨htr, hok2, hst1, hst2⟩ := hx
      rw [inv.trace] at htr hok2 hst1 hst2
      refine ⟨?_, ?_⟩
      · rw [inv.trace, hok2]
        cases hk : (specExec st.syms st.trace 0 l).ok
        · rfl
        · simp [hst1 hk]
      · constructor
        · show addAll r.comp.syms l = _
          rw [inv.syms, hsy]
        · show (specExec g.syms [] 0 l).syms = _
          rw [inv.gsyms, specExec_syms _ _ _ _ hdecl, hsy]
        · show (execFrom r.vm.old (codeOf l) r.vm.stack r.vm.trace).trace = _
          rw [inv.trace]; exact htr
        · simp
        · simp
        · show (execFrom r.vm.old (codeOf l) r.vm.stack r.vm.trace).stack.length = _
          rw [inv.trace]
          cases hk : (specExec st.syms st.trace 0 l).ok
          · obtain ⟨k, hk1, hk2⟩ := hst2 hk
            rw [hk2, hk1]
            simp [inv.ht]; omega
          · rw [hst1 hk]
            have : leakOf l = none := by
              rw [hk] at hok
              cases hl : leakOf l <;> simp [hl] at hok ⊢
            rw [this]
            simp [inv.ht]
        · show r.comp.fns ++ fnsOf l = _
          rw [inv.fns]
        · show r.comp.fns ++ fnsOf l = _
          rw [inv.fns]
    · -- rejected by the compiler: at the first statement, before anything was emitted
      have hres' : allResolve g.syms l = false := by
        rw [inv.gsyms]; simpa using hres
      have hresf : allResolve st.syms l = false := by simpa using hres
      cases l with
      | nil => simp [allResolve] at hres
      | cons s rest =>
        simp only [pieceGuard, hres', Bool.false_eq_true, ↓reduceIte, Bool.and_eq_true,
          Bool.not_eq_true', beq_iff_eq] at hg
        obtain ⟨⟨hs, hpre⟩, hfn⟩ := hg
        have hc := compileStmts_rejected_first r.comp.syms s rest (by rw [inv.syms, ← inv.gsyms]; exact hs)
        simp only [Repl.feed, hc, hpre, hfn, List.replicate_zero, List.append_nil, inv.stuck,
          Bool.false_eq_true, ↓reduceIte, SpecSt.feed, hresf, GSt.next, hres']
        exact ⟨trivial, ⟨inv.syms, inv.gsyms, inv.trace, inv.ip, by simp, inv.ht, inv.old, inv.fns⟩⟩

/-- the guard's bookkeeping after a history -/
def GSt.after (g : GSt) : List Piece → GSt
  | [] => g
  | p :: ps => GSt.after (g.next p) ps

theorem run_inv (h : List Piece) : ∀ (r : Repl) (st : SpecSt) (g : GSt), Inv r st g →
    guardFrom g h = true →
    (r.run h).2 = (st.run h).2 ∧ Inv (r.run h).1 (st.run h).1 (g.after h) := by
  induction h with
  | nil => intro r st g inv _; exact ⟨rfl, inv⟩
  | cons p ps ih =>
    intro r st g inv hg
    simp only [guardFrom, Bool.and_eq_true] at hg
    obtain ⟨ho, inv'⟩ := feed_step r st g p inv hg.1
    obtain ⟨h1, h2⟩ := ih _ _ _ inv' hg.2
    simp only [Repl.run, SpecSt.run, GSt.after]
    exact ⟨by rw [ho, h1], h2⟩


theorem feed_ok_inv (st : SpecSt) (a : List Stmt) (v : Nat) (h : (st.feed (.stmts a)).2 = .ok v) :
    allResolve st.syms a = true ∧ (specExec st.syms st.trace 0 a).ok = true ∧
    (st.feed (.stmts a)).1 = ⟨(specExec st.syms st.trace 0 a).syms, (specExec st.syms st.trace 0 a).trace⟩ := by
  by_cases hr : allResolve st.syms a = true
  · simp only [SpecSt.feed, hr, ↓reduceIte] at h ⊢
    cases hk : (specExec st.syms st.trace 0 a).ok
    · simp [hk] at h
    · simp
  · simp [SpecSt.feed, hr] at h

theorem spec_run_flatten (ls : List (List Stmt)) : ∀ (st : SpecSt),
    (∀ o ∈ (st.run (ls.map .stmts)).2, ∃ v, o = .ok v) →
    allResolve st.syms ls.flatten = true ∧ (specExec st.syms st.trace 0 ls.flatten).ok = true ∧
    (st.run (ls.map .stmts)).1 =
      ⟨(specExec st.syms st.trace 0 ls.flatten).syms, (specExec st.syms st.trace 0 ls.flatten).trace⟩ := by
  induction ls with
  | nil => intro st _; exact ⟨rfl, rfl, rfl⟩
  | cons a rest ih =>
    intro st hall
    simp only [List.map_cons, SpecSt.run, List.mem_cons, forall_eq_or_imp] at hall
    obtain ⟨⟨v, hv⟩, hrest⟩ := hall
    obtain ⟨hra, hoka, hst⟩ := feed_ok_inv st a v hv
    have ih' := ih (st.feed (.stmts a)).1 hrest
    rw [hst] at ih'
    obtain ⟨hr2, hok2, hst2⟩ := ih'
    simp only at hr2 hok2 hst2
    have hsy := specExec_ok_syms _ _ _ _ hoka
    have happ := specExec_append st.syms st.trace 0 a rest.flatten hoka
    have hind := specExec_indep (specExec st.syms st.trace 0 a).syms (specExec st.syms st.trace 0 a).trace
      (specExec st.syms st.trace 0 a).last 0 rest.flatten
    simp only [List.flatten_cons, List.map_cons, SpecSt.run]
    refine ⟨?_, ?_, ?_⟩
    · rw [allResolve_append, hra, ← hsy]; simpa using hr2
    · rw [happ, hind.2.2]; exact hok2
    · rw [hst, hst2, happ, hind.1, hind.2.1]


theorem spec_run_append (p q : List Piece) : ∀ (st : SpecSt),
    (st.run (p ++ q)).1 = ((st.run p).1.run q).1 ∧ (st.run (p ++ q)).2 = (st.run p).2 ++ ((st.run p).1.run q).2 := by
  induction p with
  | nil => intro st; exact ⟨rfl, rfl⟩
  | cons x rest ih =>
    intro st
    obtain ⟨h1, h2⟩ := ih (st.feed x).1
    simp only [List.cons_append, SpecSt.run]
    exact ⟨h1, by rw [h2]⟩

theorem specExec_last_indep (y : Syms) (tr : List (Nat × Bool)) (v w : Nat) (l : List Stmt) (hne : l ≠ []) :
    (specExec y tr v l).last = (specExec y tr w l).last := by
  cases l with
  | nil => exact absurd rfl hne
  | cons s rest => by_cases hf : s.fails = true <;> simp [specExec, hf]


/-! ### definitions only grow (used for the host-supplied names) -/

theorem add_defined_mono (y : Syms) (s : Stmt) (n : Nat) (h : y.defined n = true) :
    (y.add s).defined n = true := by
  simp only [Syms.defined, Syms.add, Bool.or_eq_true, List.contains_eq_mem, List.mem_append,
    decide_eq_true_eq] at h ⊢
  rcases h with h | h
  · exact Or.inl (Or.inl h)
  · exact Or.inr (Or.inl h)

theorem specExec_defined_mono (l : List Stmt) : ∀ (y : Syms) (tr : List (Nat × Bool)) (v n : Nat),
    y.defined n = true → (specExec y tr v l).syms.defined n = true := by
  induction l with
  | nil => intro y tr v n h; exact h
  | cons s rest ih =>
    intro y tr v n h
    by_cases hf : s.fails = true
    · simp only [specExec, hf, ↓reduceIte]; exact h
    · simp only [specExec, hf, Bool.false_eq_true, ↓reduceIte]
      exact ih _ _ _ _ (add_defined_mono y s n h)

theorem spec_feed_defined_mono (st : SpecSt) (p : Piece) (n : Nat) (h : st.syms.defined n = true) :
    (st.feed p).1.syms.defined n = true := by
  cases p with
  | bad => exact h
  | stmts l =>
    by_cases hr : allResolve st.syms l = true
    · simp only [SpecSt.feed, hr, ↓reduceIte]
      exact specExec_defined_mono l _ _ _ _ h
    · simp only [SpecSt.feed, hr, Bool.false_eq_true, ↓reduceIte]; exact h

theorem spec_run_defined_mono (h : List Piece) : ∀ (st : SpecSt) (n : Nat),
    st.syms.defined n = true → (st.run h).1.syms.defined n = true := by
  induction h with
  | nil => intro st n hd; exact hd
  | cons p ps ih =>
    intro st n hd
    simp only [SpecSt.run]
    exact ih _ _ (spec_feed_defined_mono st p n hd)

theorem compileStmts_defined_mono (l : List Stmt) : ∀ (y : Syms) (n : Nat),
    y.defined n = true → (compileStmts y l).syms.defined n = true := by
  induction l with
  | nil => intro y n h; exact h
  | cons s rest ih =>
    intro y n h
    by_cases hr : s.resolves y = true
    · simp only [compileStmts, hr, ↓reduceIte]
      exact ih _ _ (add_defined_mono y s n h)
    · simp only [compileStmts, hr, Bool.false_eq_true, ↓reduceIte]; exact h

theorem repl_feed_defined_mono (r : Repl) (p : Piece) (n : Nat) (h : r.comp.syms.defined n = true) :
    (r.feed p).1.comp.syms.defined n = true := by
  cases p with
  | bad => exact h
  | stmts l =>
    have hc := compileStmts_defined_mono l r.comp.syms n h
    simp only [Repl.feed]
    split <;> exact hc

theorem repl_run_defined_mono (h : List Piece) : ∀ (r : Repl) (n : Nat),
    r.comp.syms.defined n = true → (r.run h).1.comp.syms.defined n = true := by
  induction h with
  | nil => intro r n hd; exact hd
  | cons p ps ih =>
    intro r n hd
    simp only [Repl.run]
    exact ih _ _ (repl_feed_defined_mono r p n hd)

end Risor.C18
